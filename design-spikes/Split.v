From Coq Require Import List NArith Bool Lia.
Import ListNotations.
Local Open Scope N_scope.
Definition ustr := list N.
Fixpoint prefixb (p s : ustr) : bool :=
  match p, s with [], _ => true | a :: p', b :: s' => N.eqb a b && prefixb p' s' | _ :: _, [] => false end.
(* Python  s.split(sep)  for non-empty sep: left-to-right, non-overlapping.  Structural: `skip` counts the
   remaining characters of a separator occurrence that has just been recognised. *)
Fixpoint split_aux (sep : ustr) (s : ustr) (skip : nat) (cur : ustr) : list ustr :=
  match s with
  | [] => [rev cur]
  | x :: r =>
      match skip with
      | S k => split_aux sep r k cur
      | O => if prefixb sep s then rev cur :: split_aux sep r (length sep - 1) [] else split_aux sep r O (x :: cur)
      end
  end.
Definition split_on (sep s : ustr) : list ustr := split_aux sep s O [].
Fixpoint join (sep : ustr) (l : list ustr) : ustr :=
  match l with [] => [] | [a] => a | a :: l' => a ++ sep ++ join sep l' end.
Definition replace_all (old new s : ustr) : ustr := join new (split_on old s).   (* str.replace, old non-empty *)
Definition contains (sub s : ustr) : bool := Nat.ltb 1 (length (split_on sub s)).
(* one step of the materializer's template loop: cut at the first occurrence of {ref} *)
Definition cut_first (pat t : ustr) : ustr * ustr :=
  match split_on pat t with [] => ([], []) | h :: tl => (h, join pat tl) end.
Definition a := 97. Definition b := 98. Definition lb := 123. Definition rb := 125.
Eval vm_compute in split_on [lb;a;rb] [lb;a;rb;lb;a;rb].          (* '{a}{a}'.split('{a}') = ['', '', ''] *)
Eval vm_compute in cut_first [lb;a;rb] [lb;a;rb;lb;a;rb].         (* ('', '{a}') *)
Eval vm_compute in split_on [a;a] [a;a;a;b;a;a].                   (* 'aaabaa'.split('aa') = ['', 'ab', ''] *)
Eval vm_compute in replace_all [a;a] [b] [a;a;a;b;a;a].            (* 'aaabaa'.replace('aa','b') = 'babb' *)
Eval vm_compute in split_on [a] [].                                 (* ''.split('a') = [''] *)
Eval vm_compute in cut_first [lb;b;rb] [a;a].                       (* no occurrence: ('aa', '') *)
