From Coq Require Import List NArith Bool Lia.
Import ListNotations.
Local Open Scope N_scope.
Definition ustr := list N.
(* str.replace for a one-code-point pattern *)
Definition replace1 (c : N) (r : ustr) (s : ustr) : ustr := flat_map (fun x => if N.eqb x c then r else [x]) s.
(* materializer.py L128 / L166, in code order *)
Definition escape_chain : list (N * ustr) :=
  [(92,[92;92]); (10,[92;110]); (9,[92;116]); (8,[92;98]); (12,[92;102]); (13,[92;114]); (34,[92;34]); (39,[92;39])].
Definition apply_chain (ch : list (N * ustr)) (s : ustr) : ustr :=
  fold_left (fun acc cr => replace1 (fst cr) (snd cr) acc) ch s.
Definition escape_lit := apply_chain escape_chain.
(* the intended character-wise map (N-Triples ECHAR) *)
Definition esc_char (x : N) : ustr :=
  if N.eqb x 92 then [92;92] else if N.eqb x 10 then [92;110] else if N.eqb x 9 then [92;116]
  else if N.eqb x 8 then [92;98] else if N.eqb x 12 then [92;102] else if N.eqb x 13 then [92;114]
  else if N.eqb x 34 then [92;34] else if N.eqb x 39 then [92;39] else [x].

Lemma replace1_app c r a b : replace1 c r (a ++ b) = replace1 c r a ++ replace1 c r b.
Proof. unfold replace1. apply flat_map_app. Qed.
Lemma apply_chain_app ch : forall a b, apply_chain ch (a ++ b) = apply_chain ch a ++ apply_chain ch b.
Proof. induction ch as [|[c r] ch IH]; intros a b; simpl; auto. unfold apply_chain in *. simpl. rewrite replace1_app. apply IH. Qed.
Lemma apply_chain_nil ch : apply_chain ch [] = [].
Proof. induction ch as [|[c r] ch IH]; simpl; auto. Qed.
(* sequential single-character replacement is a homomorphism: it is decided character by character *)
Lemma apply_chain_charwise ch s : apply_chain ch s = flat_map (fun x => apply_chain ch [x]) s.
Proof.
  induction s as [|x s IH]; simpl; [apply apply_chain_nil|].
  change (x :: s) with ([x] ++ s). now rewrite apply_chain_app, IH.
Qed.
Lemma escape_one x : escape_lit [x] = esc_char x.
Proof.
  unfold escape_lit, esc_char, apply_chain, escape_chain, replace1; simpl.
  destruct (N.eqb_spec x 92); [subst; reflexivity|simpl].
  destruct (N.eqb_spec x 10); [subst; reflexivity|simpl].
  destruct (N.eqb_spec x 9); [subst; reflexivity|simpl].
  destruct (N.eqb_spec x 8); [subst; reflexivity|simpl].
  destruct (N.eqb_spec x 12); [subst; reflexivity|simpl].
  destruct (N.eqb_spec x 13); [subst; reflexivity|simpl].
  destruct (N.eqb_spec x 34); [subst; reflexivity|simpl].
  destruct (N.eqb_spec x 39); [subst; reflexivity|simpl].
  reflexivity.
Qed.
Theorem escape_lit_charwise s : escape_lit s = flat_map esc_char s.
Proof. unfold escape_lit. rewrite apply_chain_charwise. apply flat_map_ext. intros x. apply escape_one. Qed.

(* N-Triples string body as a two-state automaton (pending backslash): structurally recursive, no fuel *)
Definition echar (c : N) : option N :=
  if N.eqb c 116 then Some 9 else if N.eqb c 98 then Some 8 else if N.eqb c 110 then Some 10
  else if N.eqb c 114 then Some 13 else if N.eqb c 102 then Some 12 else if N.eqb c 34 then Some 34
  else if N.eqb c 39 then Some 39 else if N.eqb c 92 then Some 92 else None.
Definition raw_forbidden (x : N) : bool := N.eqb x 34 || N.eqb x 10 || N.eqb x 13.
Fixpoint unesc (pend : bool) (s : ustr) : option ustr :=
  match s with
  | [] => if pend then None else Some []
  | x :: r =>
      if pend then match echar x with Some d => option_map (cons d) (unesc false r) | None => None end
      else if N.eqb x 92 then unesc true r
      else if raw_forbidden x then None
      else option_map (cons x) (unesc false r)
  end.
Lemma unesc_char x r : unesc false (esc_char x ++ r) = option_map (cons x) (unesc false r).
Proof.
  unfold esc_char.
  repeat match goal with |- context [if N.eqb x ?k then _ else _] => destruct (N.eqb_spec x k); [subst; reflexivity|] end.
  simpl. destruct (N.eqb_spec x 92); [contradiction|].
  unfold raw_forbidden. destruct (N.eqb_spec x 34); [contradiction|]. destruct (N.eqb_spec x 10); [contradiction|].
  destruct (N.eqb_spec x 13); [contradiction|]. reflexivity.
Qed.
Theorem unescape_escape s : unesc false (escape_lit s) = Some s.
Proof.
  rewrite escape_lit_charwise. induction s as [|x s IH]; simpl; [reflexivity|].
  now rewrite unesc_char, IH.
Qed.
(* no raw quote / LF / CR survives escaping: the body is a valid STRING_LITERAL_QUOTE body *)
Lemma esc_char_first x : exists c t, esc_char x = c :: t /\ c <> 34 /\ (c = 92 -> exists l, t = [l]) /\ (c <> 92 -> t = [] /\ c = x).
Proof.
  unfold esc_char.
  repeat match goal with |- context [if N.eqb x ?k then _ else _] => destruct (N.eqb_spec x k); [subst; do 2 eexists; repeat split; try reflexivity; try lia; eauto; intros; try lia|] end.
  exists x, []. repeat split; auto; intros; lia.
Qed.
(* esc_char is a prefix code *)
Lemma esc_char_prefix_code x y u v : esc_char x ++ u = esc_char y ++ v -> x = y /\ u = v.
Proof.
  unfold esc_char.
  repeat match goal with |- context [if N.eqb x ?k then _ else _] => destruct (N.eqb_spec x k); [subst x|] end;
  repeat match goal with |- context [if N.eqb y ?k then _ else _] => destruct (N.eqb_spec y k); [subst y|] end;
  simpl; intros E; injection E; intros; subst; try (split; [reflexivity|assumption]); try congruence; try lia;
  try (split; congruence).
Qed.
(* the closing quote of a rendered literal is found unambiguously: body and suffix are determined by the string *)
Theorem literal_split_unique a : forall b s1 s2,
  escape_lit a ++ 34 :: s1 = escape_lit b ++ 34 :: s2 -> a = b /\ s1 = s2.
Proof.
  setoid_rewrite escape_lit_charwise.
  induction a as [|x a IH]; intros [|y b] s1 s2 E; simpl in *.
  - injection E; auto.
  - exfalso. destruct (esc_char_first y) as (c & t & Hy & Hc & _). rewrite Hy in E. simpl in E. injection E; intros; congruence.
  - exfalso. destruct (esc_char_first x) as (c & t & Hx & Hc & _). rewrite Hx in E. simpl in E. injection E; intros; congruence.
  - rewrite <- !app_assoc in E. apply esc_char_prefix_code in E as [-> E]. apply IH in E as [-> ->]. auto.
Qed.
Print Assumptions unescape_escape.
Print Assumptions literal_split_unique.
