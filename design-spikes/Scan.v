From Coq Require Import List NArith Bool Lia Sorted.
Import ListNotations.
Local Open Scope N_scope.
Definition ustr := list N.
Fixpoint prefixb (p s : ustr) : bool :=
  match p, s with
  | [], _ => true
  | a :: p', b :: s' => N.eqb a b && prefixb p' s'
  | _ :: _, [] => false
  end.
Fixpoint leb (a b : ustr) : bool :=
  match a, b with
  | [], _ => true
  | _ :: _, [] => false
  | x :: a', y :: b' => if N.ltb x y then true else if N.eqb x y then leb a' b' else false
  end.
Definition le a b := leb a b = true.

Lemma leb_refl a : le a a.
Proof. induction a; unfold le in *; simpl; auto. now rewrite N.ltb_irrefl, N.eqb_refl. Qed.
Lemma leb_trans a : forall b c, le a b -> le b c -> le a c.
Proof.
  unfold le. induction a as [|x a IH]; intros b c H1 H2; simpl in *; auto.
  destruct b as [|y b]; [discriminate|]. destruct c as [|z c]; [simpl in H2; discriminate|].
  simpl in *. destruct (N.ltb x y) eqn:Hxy.
  - apply N.ltb_lt in Hxy. destruct (N.ltb y z) eqn:Hyz.
    + apply N.ltb_lt in Hyz. assert (x < z) by lia. apply N.ltb_lt in H. now rewrite H.
    + destruct (N.eqb y z) eqn:E; [|discriminate]. apply N.eqb_eq in E; subst.
      apply N.ltb_lt in Hxy. now rewrite Hxy.
  - destruct (N.eqb x y) eqn:E; [|discriminate]. apply N.eqb_eq in E; subst y.
    destruct (N.ltb x z); auto. destruct (N.eqb x z); [|discriminate]. eauto.
Qed.
Lemma leb_antisym a : forall b, le a b -> le b a -> a = b.
Proof.
  unfold le. induction a as [|x a IH]; intros [|y b] H1 H2; simpl in *; try discriminate; auto.
  destruct (N.ltb x y) eqn:Hxy.
  - apply N.ltb_lt in Hxy. destruct (N.ltb y x) eqn:Hyx; [apply N.ltb_lt in Hyx; lia|].
    destruct (N.eqb y x) eqn:E; [apply N.eqb_eq in E; lia|discriminate].
  - destruct (N.eqb x y) eqn:E; [|discriminate]. apply N.eqb_eq in E; subst y.
    rewrite N.ltb_irrefl, N.eqb_refl in H2. f_equal; auto.
Qed.
Lemma prefix_le p : forall s, prefixb p s = true -> le p s.
Proof.
  unfold le. induction p as [|a p IH]; intros s H; simpl in *; auto.
  destruct s as [|b s]; [discriminate|]. apply andb_true_iff in H as [H1 H2]. apply N.eqb_eq in H1; subst.
  rewrite N.ltb_irrefl, N.eqb_refl. auto.
Qed.
Lemma prefix_trans p : forall q s, prefixb p q = true -> prefixb q s = true -> prefixb p s = true.
Proof.
  induction p as [|a p IH]; intros q s H1 H2; simpl in *; auto.
  destruct q as [|b q]; [discriminate|]. destruct s as [|c s]; [simpl in H2; discriminate|]. simpl in *.
  apply andb_true_iff in H1 as [E1 H1]. apply andb_true_iff in H2 as [E2 H2].
  apply N.eqb_eq in E1, E2; subst. rewrite N.eqb_refl. simpl. eauto.
Qed.
(* interval property, order-only formulation *)
Lemma lex_interval p : forall s t, le p s -> le s t -> prefixb p t = true -> prefixb p s = true.
Proof.
  unfold le. induction p as [|a p IH]; intros s t H1 H2 H3; simpl in *; [reflexivity|].
  destruct t as [|c t]; [discriminate|]. apply andb_true_iff in H3 as [E H3]. apply N.eqb_eq in E; subst c.
  destruct s as [|b s]; [discriminate|]. simpl in H2.
  destruct (N.ltb a b) eqn:Hab.
  - apply N.ltb_lt in Hab. destruct (N.ltb b a) eqn:Hba; [apply N.ltb_lt in Hba; lia|].
    destruct (N.eqb b a) eqn:He; [apply N.eqb_eq in He; lia| discriminate].
  - destruct (N.eqb a b) eqn:He; [|discriminate]. apply N.eqb_eq in He; subst b.
    rewrite N.ltb_irrefl, N.eqb_refl in H2. simpl. eapply IH; eauto.
Qed.

(* the head-prefix scan of the partitioner: state = (current group, current group-head invariant) *)
Fixpoint scan (g : nat) (h : ustr) (l : list ustr) : list nat :=
  match l with
  | [] => []
  | k :: l' => if prefixb h k then g :: scan g h l' else S g :: scan (S g) k l'
  end.
Definition incomparable a b := prefixb a b = false /\ prefixb b a = false.

Lemma SS_tail h k l : StronglySorted le (h :: k :: l) -> StronglySorted le (h :: l).
Proof. intros H. inversion H as [|? ? H1 H2]; subst. inversion H1; subst. inversion H2; subst. constructor; auto. Qed.
Lemma SS_drop h l : StronglySorted le (h :: l) -> StronglySorted le l.
Proof. intros H; inversion H; auto. Qed.

(* an element stays in the current group iff it extends the current head *)
Lemma scan_spec : forall l g h, StronglySorted le (h :: l) ->
  Forall2 (fun k lab => (lab = g /\ prefixb h k = true) \/ (g < lab /\ prefixb h k = false))%nat l (scan g h l).
Proof.
  induction l as [|k l IH]; intros g h SS; simpl; [constructor|].
  destruct (prefixb h k) eqn:Hp.
  - constructor; [left; auto|]. apply IH. eapply SS_tail; eauto.
  - constructor; [right; split; [lia|auto]|].
    assert (SSk : StronglySorted le (k :: l)) by (eapply SS_drop; eauto).
    specialize (IH (S g) k SSk).
    inversion SS as [|? ? _ Hh]; subst. inversion Hh as [|? ? Hhk Hhl]; subst.
    inversion SSk as [|? ? _ Hk]; subst.
    clear SS SSk Hh. revert IH Hhl Hk. generalize (scan (S g) k l). induction l as [|x l IHl]; intros labs F2 Hhl Hk.
    + inversion F2; constructor.
    + inversion F2 as [|? lab ? labs' Hx F2']; subst. inversion Hhl; subst. inversion Hk; subst. constructor.
      * right. split.
        -- destruct Hx as [[-> _]|[Hlt _]]; lia.
        -- destruct (prefixb h x) eqn:E; auto. exfalso.
           assert (prefixb h k = true) by (eapply lex_interval; eauto). congruence.
      * apply IHl; auto.
Qed.

Theorem scan_separates : forall l g h, StronglySorted le (h :: l) ->
  forall i j ki kj li lj, (i < j)%nat ->
    nth_error l i = Some ki -> nth_error l j = Some kj ->
    nth_error (scan g h l) i = Some li -> nth_error (scan g h l) j = Some lj ->
    li <> lj -> incomparable ki kj.
Proof.
  induction l as [|k l IH]; intros g h SS i j ki kj li lj Hij Hi Hj Li Lj Hne.
  - destruct i; discriminate.
  - destruct j as [|j]; [lia|]. simpl in Hj.
    assert (SSk : StronglySorted le (k :: l)) by (eapply SS_drop; eauto).
    destruct i as [|i].
    + simpl in Hi. injection Hi as <-. simpl in Li, Lj. destruct (prefixb h k) eqn:Hp; simpl in Li, Lj; injection Li as <-.
      * (* k joined the current group; kj has another label, so it does not extend h *)
        pose proof (scan_spec l g h (SS_tail _ _ _ SS)) as F2.
        assert (Hkj : prefixb h kj = false).
        { clear - F2 Hj Lj Hne. revert j Hj Lj. induction F2 as [|x lab l labs Hx F2 IHF]; intros [|j] Hj Lj; simpl in *; try discriminate.
          - injection Hj as ->. injection Lj as ->. destruct Hx as [[-> _]|[_ ?]]; congruence.
          - eauto. }
        inversion SSk as [|? ? _ Hk]; subst.
        assert (Hle : le k kj) by (rewrite Forall_forall in Hk; apply Hk; eapply nth_error_In; eauto).
        split.
        -- destruct (prefixb k kj) eqn:E; auto. rewrite (prefix_trans _ _ _ Hp E) in Hkj. discriminate.
        -- destruct (prefixb kj k) eqn:E; auto. apply prefix_le in E.
           rewrite (leb_antisym _ _ Hle E) in Hp. congruence.
      * (* k opened a new group with head k *)
        pose proof (scan_spec l (S g) k SSk) as F2.
        assert (Hkj : prefixb k kj = false).
        { clear - F2 Hj Lj Hne. revert j Hj Lj. induction F2 as [|x lab l labs Hx F2 IHF]; intros [|j] Hj Lj; simpl in *; try discriminate.
          - injection Hj as ->. injection Lj as ->. destruct Hx as [[-> _]|[_ ?]]; congruence.
          - eauto. }
        inversion SSk as [|? ? _ Hk]; subst.
        assert (Hle : le k kj) by (rewrite Forall_forall in Hk; apply Hk; eapply nth_error_In; eauto).
        split; auto. destruct (prefixb kj k) eqn:E; auto. apply prefix_le in E.
        rewrite <- (leb_antisym _ _ Hle E) in Hkj. 
        assert (prefixb k k = true) by (clear; induction k; simpl; auto; now rewrite N.eqb_refl). congruence.
    + simpl in Hi, Li, Lj. destruct (prefixb h k) eqn:Hp; simpl in Li, Lj.
      * eapply (IH g h (SS_tail _ _ _ SS) i j); eauto. lia.
      * eapply (IH (S g) k SSk i j); eauto. lia.
Qed.
Print Assumptions scan_separates.
