/* LD_PRELOAD shim: logs every write(2) whose descriptor points at a *.nt / *.nq file: pid fd requested written last-byte path */
#define _GNU_SOURCE
#include <dlfcn.h>
#include <unistd.h>
#include <stdio.h>
#include <stdlib.h>
#include <string.h>
#include <fcntl.h>
#include <sys/syscall.h>
static ssize_t (*real_write)(int, const void *, size_t) = 0;
ssize_t write(int fd, const void *buf, size_t n) {
  if (!real_write) real_write = (ssize_t (*)(int, const void *, size_t)) dlsym(RTLD_NEXT, "write");
  ssize_t r = real_write(fd, buf, n);
  const char *lp = getenv("WLOG_PATH");
  if (lp && n > 0) {
    char link[64], path[600];
    snprintf(link, sizeof link, "/proc/self/fd/%d", fd);
    ssize_t k = readlink(link, path, sizeof path - 1);
    if (k > 3) {
      path[k] = 0;
      if (!strcmp(path + k - 3, ".nt") || !strcmp(path + k - 3, ".nq")) {
        int lf = open(lp, O_WRONLY | O_APPEND | O_CREAT, 0644);
        if (lf >= 0) {
          char line[800];
          int m = snprintf(line, sizeof line, "%d %d %zu %zd %d %s\n", (int) getpid(), fd, n, r, (int) ((const unsigned char *) buf)[n - 1], path);
          syscall(SYS_write, lf, line, (size_t) m);
          close(lf);
        }
      }
    }
  }
  return r;
}
