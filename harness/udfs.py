# user-defined functions used by the C14 / C16 generators; Model/Functions.v holds the same definitions
@udf(fun_id='http://ex.org/fn/dup', v='http://ex.org/fn/p_v')
def dup(v):
    return [v, v + '2']


@udf(fun_id='http://ex.org/fn/nullif', v='http://ex.org/fn/p_v', x='http://ex.org/fn/p_x')
def nullif(v, x):
    return None if v == x else v


@udf(fun_id='http://ex.org/fn/empty', v='http://ex.org/fn/p_v')
def empty(v):
    return []


@udf(fun_id='http://ex.org/fn/maybe', v='http://ex.org/fn/p_v')
def maybe(v):
    return v.split(',') if ',' in v else v


@udf(fun_id='http://ex.org/fn/pair', a='http://ex.org/fn/p_a', b='http://ex.org/fn/p_b')
def pair(a, b):
    return [a, b]


@udf(fun_id='http://ex.org/fn/evens', v='http://ex.org/fn/p_v')
def evens(v):
    # a list-valued function that is EMPTY for some values only: [v] for values of even length, [] for the others
    return [v] if len(v) % 2 == 0 else []
