"""C03 — mapping groups are pairwise disjoint, so the output has no duplicate statements."""
import ast, copy, itertools, json, os, re, shutil
from .. import common, family, mapcase
from .c02 import gen_prefix_case

PROPS_FILES = ['theories/Props/C03.v']
FINDINGS_FILES = ['theories/Findings/C03.v']
LEVEL = 'proof'
TRUSTED = ['Model/Partition.v (hand-written model of mapping_partitioner.py) and its `separable` criterion',
           'matching of implementation rules to model rules by content (harness)',
           'pandas sort_values / iterrows semantics are not modelled; the implementation partition is observed and every separation it makes is checked against the proven-safe criterion']
ASSUMES = ['templates are escape-free in the disjointness theorems (escaped braces: correspondence only)',
           'term well-formedness (no blank inside an IRI or blank-node label) is needed to go from distinct term tuples to distinct lines; see C05']

K = {'http://w3id.org/rml/constant': 'const', 'http://w3id.org/rml/template': 'templ', 'http://w3id.org/rml/reference': 'ref',
     'http://w3id.org/rml/quotedTriplesMap': 'quoted', 'http://w3id.org/rml/parentTriplesMap': 'parent',
     'http://w3id.org/rml/functionExecution': 'exec', None: 'none'}
TT = {'http://w3id.org/rml/IRI': 'iri', 'http://w3id.org/rml/Literal': 'lit', 'http://w3id.org/rml/BlankNode': 'bnode',
      'http://w3id.org/rml/RDFstarTriple': 'star', None: ''}
LD = {'http://w3id.org/rml/languageMap': 'lang', 'http://w3id.org/rml/datatypeMap': 'dt', None: ''}


def _joins(s):
    if not s:
        return ()
    try:
        d = ast.literal_eval(s)
        return tuple(sorted((v['child_value'], v['parent_value']) for v in d.values()))
    except Exception:
        return ('?', s)


def impl_sigs(rows):
    by_id = {r['triples_map_id']: r for r in rows}
    def sig(r, depth=0):
        ov = r.get('object_map_value') or ''
        ok = K.get(r.get('object_map_type'), 'other')
        sv = r.get('subject_map_value') or ''
        sk = K.get(r.get('subject_map_type'), 'other')
        if ok == 'quoted' and ov in by_id and depth < 4:
            ov = sig(by_id[ov], depth + 1)
        if ok == 'parent' and ov in by_id:
            ov = sig(by_id[ov], depth + 1)[:4]
        if sk == 'quoted' and sv in by_id and depth < 4:
            sv = sig(by_id[sv], depth + 1)
        return (r.get('logical_source_value') or '', sk, sv, TT.get(r.get('subject_termtype'), 'other'),
                K.get(r.get('predicate_map_type'), 'other'), r.get('predicate_map_value') or '',
                ok, ov, TT.get(r.get('object_termtype'), 'other'),
                LD.get(r.get('lang_datatype'), 'other'), K.get(r.get('lang_datatype_map_type'), 'other'), r.get('lang_datatype_map_value') or '',
                K.get(r.get('graph_map_type'), 'other'), r.get('graph_map_value') or '',
                _joins(r.get('subject_join_conditions')), _joins(r.get('object_join_conditions')))
    return [(sig(r), r.get('mapping_partition'), r.get('triples_map_type') == 'http://w3id.org/rml/TriplesMap') for r in rows]


def model_sigs(mrules, paths):
    by_id = {r[0]: r for r in mrules}
    def sig(r, depth=0):
        (rid, tm, src, asserted, sk, sv, stt, pk, pv, ok, ov, ott, ld, ldk, ldv, gk, gv, sj, oj) = r
        if ok == 'quoted' and ov in by_id and depth < 4:
            ov = sig(by_id[ov], depth + 1)
        if ok == 'parent' and ov in by_id:
            ov = sig(by_id[ov], depth + 1)[:4]
        if sk == 'quoted' and sv in by_id and depth < 4:
            sv = sig(by_id[sv], depth + 1)
        return (paths.get(src, src), sk, sv, stt, pk, pv, ok, ov, ott, ld, ldk, ldv, gk, gv,
                tuple(sorted(tuple(x) for x in sj)), tuple(sorted(tuple(x) for x in oj)))
    return {r[0]: sig(r) for r in mrules}


def source_paths(case, name='m'):
    return {s['key']: '%s_%d.%s' % (name, i, s.get('kind', 'csv')) for i, s in enumerate(case['sources'])}


def cli_outputs(ctx, cases, mode_dir, timeout=180, sections=False):
    """Runs the CLI on each case; mode_dir False: output_file=out/kg ; True: output_dir=outd."""
    wd = common.workdir()
    jobs, dirs = [], []
    for i, c in enumerate(cases):
        d = os.path.join(wd, 'cli%d_%d' % (id(cases) % 10000, i))
        os.makedirs(d)
        if sections and len(c['doc']) >= 2:
            # every triples map in a data-source section of its own: a mapping group may then span several sections
            cfg = mapcase.materialise_layout(c, d, [[[t['id']]] for t in c['doc']])
        else:
            cfg = mapcase.materialise_files(c, d)
        extra = 'output_dir=outd\n' if mode_dir else 'output_file=out/kg\n'
        cfg = cfg.replace('[CONFIGURATION]\n', '[CONFIGURATION]\n' + extra).replace('logging_level=ERROR', 'logging_level=INFO')
        jobs.append({'fn': 'cli_run', 'args': {'config': cfg, 'cwd': d, 'outputs': ['outd'] if mode_dir else ['out']}})
        dirs.append(d)
    out = ctx.pool.map(jobs, timeout=timeout)
    for d in dirs:
        shutil.rmtree(d, ignore_errors=True)
    return out


def file_lines(text):
    return [l for l in text.split('\n') if l != '']


def check_cli(res, case, r, mode_dir, known, graph_only=False):
    """Oracle (b): no duplicate line in a file, per-group files pairwise disjoint, reported total = distinct lines."""
    if not r.get('ok'):
        res.count('cli:worker-' + str(r.get('exc')))
        return
    rr = r['result']
    if rr['rc'] != 0:
        res.count('cli:rc!=0')
        return
    files = {k: v for k, v in rr['files'].items() if not k.endswith('/')}
    all_lines = []
    for k, v in sorted(files.items()):
        all_lines += file_lines(v)
    m = re.search(r'Number of triples generated in total: (\d+)', rr['log'])
    total = int(m.group(1)) if m else None
    dup = len(all_lines) - len(set(all_lines))
    res.count('cli:%s' % ('dir' if mode_dir else 'file'))
    if dup or (total is not None and total != len(set(all_lines))):
        nt = not case['cfg'].get('nquads')
        key = 'ntriples-graph-separation' if (nt and 'ntriples-graph-separation' in known and (graph_only or graph_only_dups(case))) else None
        res.violations.append({'key': key, 'sig': 'dup-lines' if key is None else key,
                               'what': 'CLI output (%s mode, %s) holds %d duplicate line(s); reported total %s, distinct %d; e.g. %r'
                                       % ('output_dir' if mode_dir else 'output_file', 'N-TRIPLES' if nt else 'N-QUADS', dup, total, len(set(all_lines)),
                                          [l for l in set(all_lines) if all_lines.count(l) > 1][:2]),
                               'replay': {'case': case, 'mode_dir': mode_dir}})


def graph_only_dups(case):
    """Trigger of the recorded N-TRIPLES finding: some statement has several graph placements."""
    for t in case['doc']:
        ng = len(t.get('sgraphs', []))
        for p in t.get('poms', []):
            if ng + len(p.get('graphs', [])) >= 2:
                return True
        if ng >= 2 and t.get('classes'):
            return True
    return False


def collision_tables(case, sig_a, sig_b):
    """Targeted synthesis: tables whose values are the suffix differences of the two rules' constant prefixes (and a few
    fixed tokens), so that comparable term maps do produce equal terms."""
    cand = {'', 'a'}
    def inv(kind, v):
        if kind == 'const':
            return v
        if kind == 'templ':
            return v.split('{')[0]
        return ''
    for (ka, va), (kb, vb) in [((sig_a[1], sig_a[2]), (sig_b[1], sig_b[2])), ((sig_a[4], sig_a[5]), (sig_b[4], sig_b[5])),
                               ((sig_a[6], sig_a[7]), (sig_b[6], sig_b[7])), ((sig_a[12], sig_a[13]), (sig_b[12], sig_b[13])),
                               ((sig_a[10], sig_a[11]), (sig_b[10], sig_b[11]))]:        # language / datatype maps too
        if not isinstance(va, str) or not isinstance(vb, str):
            continue
        ia, ib = inv(ka, va), inv(kb, vb)
        if ia.startswith(ib):
            cand.add(ia[len(ib):])
        if ib.startswith(ia):
            cand.add(ib[len(ia):])
        for v in (va, vb):
            for tail in re.split(r'\{[^}]*\}', v)[1:]:
                cand.add(tail)
    cand = sorted(cand)[:4]
    c2 = copy.deepcopy(case)
    for s in c2['sources']:
        combos = list(itertools.islice(itertools.product(cand, repeat=len(s['cols'])), 256))
        s['rows'] = [list(x) for x in combos]
    c2['cfg']['na'] = ['zzz-not-used']
    return c2


COLLISION_KINDS = ['concat', 'integer', 'boolean', 'printable', 'datetime', 'langcase', 'langmix', 'dtmix', 'fnpred', 'fngraph']


def gen_collision_case(rng, kind=None):
    """Different rows of one source that produce the SAME statement: adjacent references whose concatenations coincide,
    values that canonicalise to the same lexical form, values that differ only in non-printable characters."""
    EX = mapcase.EX
    kind = kind or rng.choice(COLLISION_KINDS)
    cfg = {'nquads': rng.random() < 0.5, 'mode': rng.choice(['PARTIAL-AGGREGATIONS', 'MAXIMAL', 'NO'])}
    def tm(k, v, ck='iri', tt=''):
        return {'k': k, 'v': v, 'ck': ck, 'tt': tt}
    subj = tm('templ', EX + 'r/{k}')
    if kind == 'concat':
        rows = [['1', 'a', 'ab'], ['1', 'aa', 'b'], ['1', 'a', 'b'], ['2', 'ab', 'a'], ['2', 'a', 'ba']]
        obj = {'m': rng.choice([tm('templ', '{x}{y}', 'iri', 'lit'), tm('templ', EX + 'o/{x}{y}'), tm('templ', 'n{x}{y}', 'iri', 'bnode')]), 'lang': None, 'dt': None, 'joins': []}
    elif kind == 'integer':
        rows = [['1', '1', 'u'], ['1', '1.0', 'v'], ['1', ' 1', 'w'], ['1', '01', 'x'], ['2', '7', 'y']]
        obj = {'m': tm('ref', 'x'), 'lang': None, 'dt': tm('const', mapcase.XSD + 'integer'), 'joins': []}
    elif kind == 'boolean':
        rows = [['1', 'TRUE', 'u'], ['1', 'true', 'v'], ['1', 'True', 'w'], ['2', 'false', 'y']]
        obj = {'m': tm('ref', 'x'), 'lang': None, 'dt': tm('const', mapcase.XSD + 'boolean'), 'joins': []}
    elif kind == 'datetime':
        rows = [['1', '2020-01-01 10:00:00', 'u'], ['1', '2020-01-01T10:00:00', 'v'], ['2', '2021-01-01 10:00:00', 'y']]
        obj = {'m': tm('ref', 'x'), 'lang': None, 'dt': tm('const', mapcase.XSD + 'dateTime'), 'joins': []}
    elif kind == 'langcase':
        # two rules whose constant language tags differ only in letter case: different statements as long as the tags are written as given
        rows = [['1', 'colour', 'u'], ['2', 'c', 'y']]
        t1, t2 = rng.choice([('en-GB', 'en-gb'), ('EN', 'en'), ('zh-Hant', 'zh-hant'), ('De', 'de')])
        obj = {'m': tm('ref', 'x'), 'lang': tm('const', t1, 'lit'), 'dt': None, 'joins': []}
        extra_obj = {'m': tm('ref', 'x'), 'lang': tm('const', t2, 'lit'), 'dt': None, 'joins': []}
    elif kind in ('langmix', 'dtmix'):
        # a constant language tag / datatype next to a reference-valued language / datatype map whose column holds that very constant
        if kind == 'langmix':
            rows = [['1', 'colour', 'en'], ['2', 'c', 'fr'], ['3', 'd', 'en']]
            obj = {'m': tm('ref', 'x'), 'lang': tm('const', 'en', 'lit'), 'dt': None, 'joins': []}
            extra_obj = {'m': tm('ref', 'x'), 'lang': tm('ref', 'y', 'lit'), 'dt': None, 'joins': []}
        else:
            rows = [['1', '5', mapcase.XSD + 'token'], ['2', '7', mapcase.XSD + 'string'], ['3', '8', mapcase.XSD + 'token']]
            obj = {'m': tm('ref', 'x'), 'lang': None, 'dt': tm('const', mapcase.XSD + 'token'), 'joins': []}
            extra_obj = {'m': tm('ref', 'x'), 'lang': None, 'dt': tm('ref', 'y'), 'joins': []}
    elif kind in ('fnpred', 'fngraph'):
        # a FUNCTION-valued predicate (graph) map next to a constant one, the function returning that very constant for some rows: the two rules
        # generate the same statement there, so they may not be put into different mapping groups (a function-valued map has no invariant)
        GREL = 'http://users.ugent.be/~bjdmeest/function/grel.ttl#'
        K = 'HTTP://EX.ORG/P/K'
        rows = [['1', 'a', K.lower()], ['2', 'b', 'http://ex.org/p/other'], ['3', 'c', K.lower()]]
        obj = {'m': tm('ref', 'x'), 'lang': None, 'dt': None, 'joins': []}
        fm = tm('exec', EX + 'exec/F1', 'iri', 'iri')
        cfg['mode'] = rng.choice(['PARTIAL-AGGREGATIONS', 'MAXIMAL'])
        if kind == 'fngraph':
            cfg['nquads'] = True
        rng.shuffle(rows)
        p_const = {'preds': [tm('const', K if kind == 'fnpred' else EX + 'p/p')], 'objs': [obj], 'graphs': [tm('const', K)] if kind == 'fngraph' else []}
        p_fun = {'preds': [fm if kind == 'fnpred' else tm('const', EX + 'p/p')], 'objs': [json.loads(json.dumps(obj))], 'graphs': [tm('exec', EX + 'exec/F1')] if kind == 'fngraph' else []}
        return {'cfg': cfg, 'sources': [{'key': 'S0', 'kind': 'csv', 'cols': ['k', 'x', 'y'], 'rows': rows}],
                'doc': [{'id': EX + 'tm/TM0', 'src': 'S0', 'nonasserted': False, 'subj': subj, 'sjoins': [], 'classes': [], 'sgraphs': [], 'poms': [p_const, p_fun]}],
                'execs': [{'id': EX + 'exec/F1', 'fun': GREL + 'toUpperCase', 'inputs': [[GREL + 'valueParam', 'ref', 'y']]}]}
    else:
        rows = [['1', 'a\x07b', 'u'], ['1', 'ab', 'v'], ['1', 'a\u200bb', 'w'], ['2', 'c', 'y']]
        obj = {'m': tm('ref', 'x'), 'lang': None, 'dt': None, 'joins': []}
        cfg['printable'] = True
    rng.shuffle(rows)
    return {'cfg': cfg, 'sources': [{'key': 'S0', 'kind': 'csv', 'cols': ['k', 'x', 'y'], 'rows': rows}],
            'doc': [{'id': EX + 'tm/TM0', 'src': 'S0', 'nonasserted': False, 'subj': subj, 'sjoins': [], 'classes': [], 'sgraphs': [],
                     'poms': [{'preds': [tm('const', EX + 'p/p')], 'objs': [obj], 'graphs': []}]
                             + ([{'preds': [tm('const', EX + 'p/p')], 'objs': [extra_obj], 'graphs': []}] if kind in ('langcase', 'langmix', 'dtmix') else [])}]}


def run(ctx, res):
    res.rule = ('(a) partition tie: for generated mappings (core + prefix families) the rule table of the implementation (retrieve_mappings, '
                'PARTIAL-AGGREGATIONS and MAXIMAL) is matched rule by rule with the model; every pair of rules the implementation puts into different '
                'groups must satisfy the model criterion `separable`, which the theorems show safe for all data; (b) CLI runs with output_file and '
                'output_dir: no duplicate line, reported total = distinct lines; distinct = distinct mapping; non-trivial = at least two groups')
    known = set(ctx.known)
    n = ctx.scale(150, 4000)
    cases = [gen_prefix_case(ctx.rng) for _ in range(n)] + [mapcase.gen_core_case(ctx.rng, hard=True) for _ in range(n // 3)]
    wd = common.workdir()
    suspicious = []
    for mode in ('PARTIAL-AGGREGATIONS', 'MAXIMAL'):
        jobs, dirs = [], []
        for i, c in enumerate(cases):
            d = os.path.join(wd, 'p%s%d' % (mode[0], i)); os.makedirs(d)
            cc = dict(c, cfg=dict(c['cfg'], mode=mode))
            jobs.append({'fn': 'rules_of', 'args': {'config': mapcase.materialise_files(cc, d), 'cwd': d}}); dirs.append(d)
        ires = ctx.pool.map(jobs, timeout=180)
        for d in dirs:
            shutil.rmtree(d, ignore_errors=True)
        mres = ctx.model.run_many([['sepmatrix', bool(c['cfg'].get('nquads')), mapcase.w_doc(c)] for c in cases])
        mres_nq = ctx.model.run_many([['sepmatrix', True, mapcase.w_doc(c)] for c in cases])
        for c, ir, mr, mrq in zip(cases, ires, mres, mres_nq):
            res.evaluations += 1
            if not ir.get('ok') or 'rules' not in ir['result']:
                res.count('partition:%s:impl-raises' % mode[0])
                if not common.is_err(mr) and not family.has_noref(c) and not (family.triggers(c) & {'no-pom-section'}):
                    res.disagreements.append({'what': 'implementation fails to partition (%s) where the model succeeds: %s' % (mode, str(ir)[:300]), 'replay': c})
                continue
            if common.is_err(mr):
                res.count('partition:%s:model-raises' % mode[0])
                if mr[1] != 'Unmodelled':
                    res.disagreements.append({'what': 'model fails (%s) where the implementation partitions (%s)' % (mr, mode), 'replay': c})
                continue
            isig = impl_sigs(ir['result']['rules'])
            msig = model_sigs(mr[1], source_paths(c))
            sep = {(a, b): (s == 'true') for a, b, s in mr[2]}
            sep_nq = {(a, b): (s == 'true') for a, b, s in mrq[2]} if not common.is_err(mrq) else sep
            by_sig = {}
            for rid, sg in msig.items():
                by_sig.setdefault(sg, rid)
            unmatched = [sg for sg, _, _ in isig if sg not in by_sig]
            if unmatched or len(set(s for s, _, _ in isig)) != len(set(msig.values())):
                res.count('partition:%s:rules-unmatched' % mode[0])
                res.disagreements.append({'what': 'rule tables differ (%s): implementation rule without model counterpart %s; model-only %s'
                                                  % (mode, unmatched[:2], [s for s in set(msig.values()) if s not in set(x for x, _, _ in isig)][:2]), 'replay': c})
                continue
            isig = [(sg, l) for sg, l, asserted in isig if asserted]
            ngroups = len(set(l for _, l in isig))
            res.count('partition:%s:groups=%d' % (mode[0], min(ngroups, 6)))
            if ngroups >= 2:
                res.distinct.add(json.dumps(c['doc'], sort_keys=True, ensure_ascii=False))
            for (sa, la), (sb, lb) in itertools.combinations(isig, 2):
                if la != lb and not sep[(by_sig[sa], by_sig[sb])]:
                    nq_sep = None
                    res.count('partition:%s:unsafe-separation' % mode[0])
                    # separable only through the graph position, which N-TRIPLES lines do not show: the recorded finding
                    suspicious.append((c, mode, sa, sb, sep_nq[(by_sig[sa], by_sig[sb])]))
                    break
    # every unsafe separation: search for a concrete failing input through the CLI
    handled = 0
    for c, mode, sa, sb, graph_only in suspicious[:ctx.scale(12, 60)]:
        nt = not c['cfg'].get('nquads')
        tries = [dict(c, cfg=dict(c['cfg'], mode=mode)), dict(collision_tables(c, sa, sb), cfg=dict(c['cfg'], mode=mode, na=['zzz-not-used']))]
        found = False
        for t, r in zip(tries, cli_outputs(ctx, tries, False)):
            before = len(res.violations)
            check_cli(res, t, r, False, known, graph_only=graph_only)
            if len(res.violations) > before:
                found = True
                break
        if not found:
            key = 'ntriples-graph-separation' if (nt and 'ntriples-graph-separation' in known and graph_only) else None
            if key is None:
                res.disagreements.append({'what': 'the implementation (%s) separates two rules the proven criterion does not allow to separate: %s | %s'
                                                  % (mode, sa, sb), 'replay': c})
    # (b) CLI on a sample
    sample = cases[:ctx.scale(40, 600)] + [gen_collision_case(ctx.rng, COLLISION_KINDS[i % len(COLLISION_KINDS)]) for i in range(ctx.scale(16, 120))]     # every kind, in turn
    for mode_dir in (False, True):
        for c, r in zip(sample, cli_outputs(ctx, sample, mode_dir)):
            res.evaluations += 1
            check_cli(res, c, r, mode_dir, known)
    # (b') the same through several data-source sections (one triples map per section)
    multi = [c for c in sample if len(c['doc']) >= 2 and not any(o['m']['k'] in ('parent', 'quoted') for t in c['doc'] for p in t.get('poms', []) for o in p['objs'])
             and not any(t['subj']['k'] == 'quoted' for t in c['doc'])][:ctx.scale(25, 300)]
    # directed: two triples maps in two sections that generate the very same statements (one mapping group spanning both sections)
    for i_ in range(ctx.scale(8, 60)):
        c = gen_collision_case(ctx.rng, COLLISION_KINDS[i_ % len(COLLISION_KINDS)])
        t2 = json.loads(json.dumps(c['doc'][0])); t2['id'] = mapcase.EX + 'tm/TM1'
        if ctx.rng.random() < 0.5:
            s2 = json.loads(json.dumps(c['sources'][0])); s2['key'] = 'S1'; c['sources'].append(s2); t2['src'] = 'S1'      # another file with the same content
        c['doc'].append(t2)
        multi.append(c)
    for c, r in zip(multi, cli_outputs(ctx, multi, False, sections=True)):
        res.evaluations += 1
        res.count('cli:sections')
        check_cli(res, c, r, False, known)
    # replay of the recorded finding
    for f in ctx.known.values():
        rp = f.get('replay')
        if isinstance(rp, dict) and 'case' in rp:
            for r in cli_outputs(ctx, [rp['case']], rp.get('mode_dir', False)):
                check_cli(res, rp['case'], r, rp.get('mode_dir', False), known)
    res.samples = [{'doc': cases[0]['doc']}]


def replay(ctx, res, payload):
    case = payload.get('case')
    if isinstance(case, dict) and 'case' in case:
        c, md = case['case'], case.get('mode_dir', False)
    else:
        c, md = case, False
    for r in cli_outputs(ctx, [c], md):
        print('replay:', str(r)[:1500])
        check_cli(res, c, r, md, set(ctx.known))
