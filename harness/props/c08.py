"""C08 — statements land in exactly the graphs their graph maps name."""
import json
from .. import family, mapcase

PROPS_FILES = ['theories/Props/C08.v']
FINDINGS_FILES = []
LEVEL = 'proof'
TRUSTED = ['Model/Spec.v graph_terms: the reading of graph placement (subject-map + predicate-object-map graph maps, default graph iff none or rr:defaultGraph, no placement for NULL)',
           'Model/Mapping.v prepare: class -> POM, subject graphs -> POMs, default graph completion, in the code order; tied to the code by the correspondence']
ASSUMES = ['the fourth component of every line is compared as text (the suite loads into a Graph and never sees it)']
EX = mapcase.EX


def gen_graph_case(rng):
    c = mapcase.gen_core_case(rng, hard=rng.random() < 0.3, joins=rng.random() < 0.3, nquads=rng.random() < 0.75)
    for t in c['doc']:
        cols = next(s for s in c['sources'] if s['key'] == t['src'])['cols']
        def g():
            r = rng.random()
            if r < 0.35:
                return mapcase.tm_const_iri(EX + 'g/' + rng.choice(['g1', 'g2', 'g3']))
            if r < 0.65:
                return {'k': 'templ', 'v': EX + 'g/' + rng.choice(['', 't']) + '{' + rng.choice(cols) + '}', 'ck': 'iri', 'tt': ''}
            if r < 0.85:
                return {'k': 'ref', 'v': rng.choice(cols), 'ck': 'iri', 'tt': rng.choice(['', 'iri'])}
            return mapcase.tm_const_iri(mapcase.RML + 'defaultGraph')
        t['sgraphs'] = [g() for _ in range(rng.choice([0, 1, 1, 2, 3]))]
        if not t.get('classes') and rng.random() < 0.5:
            t['classes'] = [EX + 'class/C']
        for p in t['poms']:
            p['graphs'] = [g() for _ in range(rng.choice([0, 0, 1, 2]))]
    for s in c['sources']:
        for r in s['rows']:
            for i in range(len(r)):
                if rng.random() < 0.15:
                    r[i] = None
    if rng.random() < 0.25 and c['doc'][0]['subj']['k'] != 'quoted':
        # a second triples map with the very same subject map (rendered as ONE shared subject-map resource by some spellings)
        import copy
        t2 = copy.deepcopy(c['doc'][0])
        t2['id'] = EX + 'tm/TMshared'
        t2['poms'] = t2['poms'][:1]
        for p in t2['poms']:
            p['preds'] = [mapcase.tm_const_iri(EX + 'p/shared')]
            p['graphs'] = [] if rng.random() < 0.5 else p['graphs']
        c['doc'].append(t2)
    return c


def features(case):
    f = set()
    for t in case['doc']:
        f.add('sgraphs=%d' % len(t.get('sgraphs', [])))
        for p in t.get('poms', []):
            f.add('pgraphs=%d' % len(p.get('graphs', [])))
            for g in p.get('graphs', []) + t.get('sgraphs', []):
                f.add('graph:' + g['k'] + (':default' if g['v'].endswith('defaultGraph') else ''))
        if t.get('classes'):
            f.add('class')
    f.add('nquads' if case['cfg'].get('nquads') else 'ntriples')
    return f


def style_fn(c):
    import hashlib
    h = int(hashlib.md5(json.dumps(c['doc'], sort_keys=True).encode()).hexdigest(), 16)
    if (h % 4 == 1 or c.get('spelling') == 'yarrrml') and mapcase.yarrrml_ok(c):
        return mapcase.Style(vocab='yarrrml')
    if h % 4 in (2, 3):
        st = mapcase.Style(shortcut=False)
        st.share_sm = {}
        return st
    return None


def run(ctx, res):
    res.rule = ('mappings with 0-3 constant / template / reference graph maps (and rr:defaultGraph) on subject maps and on predicate-object maps, classes, '
                'NULL graph values, both output formats; every line of the implementation, fourth component included, against the Engine model and the Spec; '
                'distinct = distinct case; non-trivial = non-empty prescribed result')
    # spellings: a quarter of the cases YARRRML can express is written in YARRRML (graphs as YAML lists), a quarter of the others with one
    # shared subject-map resource per distinct subject map
    cases = [gen_graph_case(ctx.rng) for _ in range(ctx.scale(160, 4000))]
    # directed: graph maps on the subject map AND on some (not all) of several predicate-object maps, N-QUADS, always written in YARRRML
    found, tries = 0, 0
    while found < ctx.scale(8, 80) and tries < 3000:
        tries += 1
        g = gen_graph_case(ctx.rng)
        if mapcase.yarrrml_ok(g) and g['cfg'].get('nquads') and not family.triggers(g) and \
                any(t.get('sgraphs') and len(t.get('poms', [])) >= 2 and any(p.get('graphs') for p in t['poms']) and any(not p.get('graphs') for p in t['poms']) for t in g['doc']):
            g['spelling'] = 'yarrrml'
            cases.append(g); found += 1
    # directed: a referencing object map whose join is over differently named columns, and a template / reference graph map over a CHILD column whose
    # name is also a column of the parent table (holding other values there): the graph is named from the child row.  Kind x placement taken in turn.
    def tm(k, v, ck='iri', tt=''):
        return {'k': k, 'v': v, 'ck': ck, 'tt': tt}
    for i in range(ctx.scale(8, 40)):
        gk = [tm('templ', EX + 'g/order/{id}'), tm('ref', 'uri', 'iri', 'iri'), tm('templ', EX + 'g/{id}-{note}'), tm('templ', EX + 'g/{customer}/{id}')][i % 4]
        on_subject = (i // 4) % 2 == 0
        orders = {'key': 'S0', 'kind': 'csv', 'cols': ['id', 'customer', 'note', 'uri'],
                  'rows': [[str(j + 1), str(10 * (1 + (j + i) % 3)), 'n%d' % j, EX + 'g/o%d' % j] for j in range(3 + i % 3)]}
        customers = {'key': 'S1', 'kind': 'csv', 'cols': ['id', 'name', 'note', 'uri'],
                     'rows': [[str(10 * (j + 1)), 'c%d' % j, 'm%d' % j, EX + 'g/c%d' % j] for j in range(3)]}
        par = {'id': EX + 'tm/Cust', 'src': 'S1', 'nonasserted': False, 'subj': tm('templ', EX + 'customer/{id}'), 'sjoins': [], 'classes': [], 'sgraphs': [],
               'poms': [{'preds': [tm('const', EX + 'p/name')], 'objs': [{'m': tm('ref', 'name', 'lit'), 'lang': None, 'dt': None, 'joins': []}], 'graphs': []}]}
        child = {'id': EX + 'tm/Order', 'src': 'S0', 'nonasserted': False, 'subj': tm('templ', EX + 'order/{id}'), 'sjoins': [], 'classes': [],
                 'sgraphs': [gk] if on_subject else [],
                 'poms': [{'preds': [tm('const', EX + 'p/by')], 'objs': [{'m': tm('parent', par['id']), 'lang': None, 'dt': None, 'joins': [['customer', 'id']]}],
                           'graphs': [] if on_subject else [gk]},
                          {'preds': [tm('const', EX + 'p/note')], 'objs': [{'m': tm('ref', 'note', 'lit'), 'lang': None, 'dt': None, 'joins': []}], 'graphs': []}]}
        cases.append({'cfg': {'nquads': True, 'mode': ['NO', 'PARTIAL-AGGREGATIONS', 'MAXIMAL'][i % 3]}, 'sources': [orders, customers], 'doc': [child, par]})
    family.run_family(ctx, res, cases, features, style_fn=style_fn)


def replay(ctx, res, payload):
    family.replay_family(ctx, res, payload, style_fn=style_fn)
