"""C12 — a mapping document means the union of its triples maps."""
import copy, json, os, shutil
from .. import common, family, mapcase

PROPS_FILES = ['theories/Props/C12.v']
FINDINGS_FILES = []
LEVEL = 'proof'
TRUSTED = ['the theorems are stated on rule tables (engine level) for RDF-star-free rules; splitting over files / sections, rdflib graph merging and the duplicate-identifier rejection of validate_mappings are decided by the correspondence part of this check only',
           'Model/Mapping.v normalise (per-section parsing is modelled as one document), Model/Engine.v; rdflib graph merging of several mapping files is not modelled (correspondence only)']
ASSUMES = ['triples maps are spread so that every map stays in the same section as the maps it references (a section is parsed into its own graph)']
EX = mapcase.EX


def components(doc):
    """dependency-closed groups of triples maps (parent / quoted references, both directions)"""
    ids = [t['id'] for t in doc]
    adj = {i: set() for i in ids}
    for t in doc:
        refs = []
        if t['subj']['k'] == 'quoted':
            refs.append(t['subj']['v'])
        for p in t.get('poms', []):
            for o in p['objs']:
                if o['m']['k'] in ('parent', 'quoted'):
                    refs.append(o['m']['v'])
        for r in refs:
            if r in adj:
                adj[t['id']].add(r); adj[r].add(t['id'])
    seen, comps = set(), []
    for i in ids:
        if i in seen:
            continue
        comp, stack = [], [i]
        while stack:
            x = stack.pop()
            if x in seen:
                continue
            seen.add(x); comp.append(x); stack.extend(adj[x] - seen)
        comps.append(comp)
    return comps


def gen_star_case(rng):
    from .c13 import gen_star_case as _gen_star, expansion_size
    c = _gen_star(rng)
    while expansion_size(c) > 40:
        c = _gen_star(rng)
    return c


def gen_doc_case(rng):
    r = rng.random()
    c = mapcase.gen_core_case(rng, hard=False) if r < 0.7 else gen_star_case(rng)
    # more triples maps: merge a second generated document over the same sources
    if r < 0.7 and rng.random() < 0.6:
        d = mapcase.gen_core_case(rng, hard=False, joins=False)
        keymap = {}
        for s in d['sources']:
            keymap[s['key']] = 'X' + s['key']
            s['key'] = 'X' + s['key']
        for i, t in enumerate(d['doc']):
            t['id'] = EX + 'tm/U%d' % i
            t['src'] = keymap[t['src']]
        c['sources'] += d['sources']
        c['doc'] += d['doc']
    return c


def layouts(rng, case):
    comps = components(case['doc'])
    out = []
    if len(comps) >= 2:
        # every component its own section
        out.append(('section-per-component', [[comp] for comp in comps]))
        # one section, every component its own file
        out.append(('file-per-component', [[comp for comp in comps]]))
        out.append(('file-per-component:relative-ids', [[comp for comp in comps]]))
        # random assignment to 2 sections x 1-2 files
        secs = [[[], []], [[], []]]
        for comp in comps:
            secs[rng.randrange(2)][rng.randrange(2)].append(comp)
        lay = [[sum(f, []) for f in sec if f] for sec in secs]
        lay = [sec for sec in lay if sec]
        out.append(('random', lay))
    # reorder within one file
    ids = [t['id'] for t in case['doc']]
    rng.shuffle(ids)
    out.append(('reordered', [[ids]]))
    return out


def run_layouts(ctx, items):
    wd = common.workdir()
    jobs, dirs = [], []
    for k, (case, lay) in enumerate(items):
        d = os.path.join(wd, 'lay%d_%d' % (id(items) % 100000, k)); os.makedirs(d)
        rel = isinstance(lay, tuple)
        jobs.append({'fn': 'mat_set', 'args': {'config': mapcase.materialise_layout(case, d, lay[1] if rel else lay, relative_ids=rel), 'cwd': d}}); dirs.append(d)
    res = ctx.pool.map(jobs, timeout=240)
    for d in dirs:
        shutil.rmtree(d, ignore_errors=True)
    return [family.impl_outcome(r) for r in res]


def run(ctx, res):
    res.rule = ('documents of 1-6 triples maps (core and RDF-star generators, merged documents) are decomposed into their dependency-closed components; each document is run as one file and '
                'then with every component in its own section, every component in its own file, a random assignment to 2 sections x 2 files, and with its triples maps reordered; all runs must give the '
                'same set; the result must also equal the union of the results of the components run alone; a triples map repeated in two sections must be rejected; '
                'distinct = distinct document; non-trivial = at least two components and a non-empty result')
    known = set(ctx.known)
    cases = [gen_doc_case(ctx.rng) for _ in range(ctx.scale(70, 2000))]
    batch = family.Batch(ctx)
    # a quarter of the documents that YARRRML can express is written in YARRRML for the one-file run (the layouts below are Turtle)
    def style_fn(c):
        import hashlib
        h = int(hashlib.md5(json.dumps(c['doc'], sort_keys=True).encode()).hexdigest(), 16)
        return mapcase.Style(vocab='yarrrml') if ((h % 4 == 1 or c.get('spelling') == 'yarrrml') and mapcase.yarrrml_ok(c)) else None
    # directed: documents with graph maps on the subject map AND on some of several predicate-object maps, always written in YARRRML
    from .c08 import gen_graph_case
    found, tries = 0, 0
    while found < ctx.scale(8, 60) and tries < 3000:
        tries += 1
        g = gen_graph_case(ctx.rng)
        if mapcase.yarrrml_ok(g) and g['cfg'].get('nquads') and any(t.get('sgraphs') and len(t.get('poms', [])) >= 2 and any(p.get('graphs') for p in t['poms']) and any(not p.get('graphs') for p in t['poms']) for t in g['doc']) \
                and not family.triggers(g):
            g['spelling'] = 'yarrrml'
            cases.append(g); found += 1
    whole = batch.run(cases, style_fn=style_fn)
    items, meta = [], []
    for case, rec in zip(cases, whole):
        family.judge(res, rec, known)
        for name, lay in layouts(ctx.rng, case):
            items.append((case, ('rel', lay) if name.endswith('relative-ids') else lay)); meta.append((case, rec['impl'], name, lay))
    outs = run_layouts(ctx, items)
    for (case, w, name, lay), o in zip(meta, outs):
        res.evaluations += 1
        res.count('layout:' + name)
        if len(components(case['doc'])) >= 2 and w[0] == 'ok' and w[1]:
            res.distinct.add(json.dumps(case['doc'], sort_keys=True, ensure_ascii=False))
        if not family.same(w, o):
            # a failing component makes the whole run fail in both layouts; sections without any POM fail on their own (recorded finding)
            if o[0] == 'exc' and 'no-pom-section' in known and any(all(not t.get('poms') and not t.get('classes') for t in case['doc'] if t['id'] in sum(sec, [])) for sec in lay):
                res.violations.append({'key': 'no-pom-section', 'what': 'recorded finding reproduced', 'replay': None}); continue
            def brief(x):
                return x if x[0] != 'ok' else ('ok', len(x[1]))
            res.violations.append({'key': None, 'sig': 'layout:' + name, 'what': 'layout %s changes the result: one file %s, layout %s; only one-file %r, only layout %r'
                                   % (name, brief(w), brief(o), [x for x in (w[1] if w[0] == 'ok' else []) if o[0] == 'ok' and x not in o[1]][:3],
                                      [x for x in (o[1] if o[0] == 'ok' else []) if w[0] == 'ok' and x not in w[1]][:3]), 'replay': {'case': case, 'layout': lay}})
    # sections with their own databases: the same mapping over same-named tables of two databases, against the Engine model and the Spec
    for rec in batch.run([mapcase.gen_shard_case(ctx.rng) for _ in range(ctx.scale(12, 120))]):
        res.count('layout:section-per-database')
        family.judge(res, rec, known)
    # union of components run alone
    items, meta = [], []
    for case, rec in zip(cases, whole):
        comps = components(case['doc'])
        if len(comps) >= 2 and rec['impl'][0] == 'ok':
            for comp in comps:
                sub = dict(case, doc=[t for t in case['doc'] if t['id'] in comp])
                items.append(sub)
            meta.append((case, rec['impl'], len(comps)))
    subs = [r['impl'] for r in batch.run(items, want_spec=False)]
    k = 0
    for case, w, n in meta:
        po = subs[k:k + n]; k += n
        res.evaluations += 1
        if any(o[0] != 'ok' for o in po):
            res.count('union:component-raises')
            continue
        union = sorted(set(x for o in po for x in o[1]))
        if union != w[1]:
            res.violations.append({'key': None, 'sig': 'union', 'what': 'the document result is not the union of its components: only document %r, only union %r'
                                   % ([x for x in w[1] if x not in union][:3], [x for x in union if x not in w[1]][:3]), 'replay': {'case': case}})
    # a triples map repeated in two sections must be rejected
    dup_items = []
    for case in cases[:ctx.scale(25, 300)]:
        ids = [t['id'] for t in case['doc']]
        comp = components(case['doc'])[0]
        rest = [i for i in ids if i not in comp]
        dup_items.append((case, [[comp + rest], [comp]]))
        comps = components(case['doc'])
        if len(comps) >= 2:
            # the repeated map in two sections that are not next to each other (an unrelated section in between), in every position
            others = sum(comps[1:], [])
            dup_items.append((case, [[comp], [others], [comp]]))
            dup_items.append((case, [[others], [comp], [comp + []]]) if ctx.rng.random() < 0.5 else (case, [[comp], [comp], [others]]))
    # ... also when the repeated map has no predicate-object map of its own (it is only the parent of referencing object maps)
    from .c07 import gen_join_case
    for _ in range(ctx.scale(6, 40)):
        jc = gen_join_case(ctx.rng)
        child, parent = jc['doc'][0], jc['doc'][1]
        parent['poms'], parent['classes'], parent['nonasserted'] = [], [], False
        other = {'id': EX + 'tm/Other', 'src': 'S0', 'nonasserted': False, 'subj': {'k': 'templ', 'v': EX + 'other/{id}', 'ck': 'iri', 'tt': ''}, 'sjoins': [], 'classes': [EX + 'class/Other'],
                 'sgraphs': [], 'poms': []}
        jc['doc'].append(other)
        dup_items.append((jc, [[[child['id'], parent['id']]], [[other['id'], parent['id']]]]))
    for (case, lay), o in zip(dup_items, run_layouts(ctx, dup_items)):
        res.evaluations += 1
        res.count('duplicate-section:' + o[0])
        if o[0] == 'ok':
            res.violations.append({'key': None, 'sig': 'duplicate-accepted', 'what': 'a triples map present in two data-source sections is accepted (%d statements) instead of being rejected' % len(o[1]),
                                   'replay': {'case': case, 'layout': lay}})
    res.samples = [{'doc_ids': [t['id'] for t in cases[0]['doc']], 'layouts': [n for n, _ in layouts(ctx.rng, cases[0])]}]


def replay(ctx, res, payload):
    p = payload.get('case')
    case, lay = p['case'], p.get('layout')
    w = family.Batch(ctx).run([case], want_spec=False)[0]['impl']
    print('one file:', str(w)[:600])
    if lay:
        o = run_layouts(ctx, [(case, lay)])[0]
        print('layout  :', str(o)[:600])
        if not family.same(w, o):
            res.violations.append({'key': None, 'what': 'replayed: layout changes the result', 'replay': p})
