"""C11 — each statement depends only on the row that produced it."""
import copy, json
from .. import family, mapcase

PROPS_FILES = ['theories/Props/C11.v']
FINDINGS_FILES = ['theories/Findings/C11.v']
LEVEL = 'proof'
TRUSTED = ['Model/Data.v coerce_rows: pandas column dtype inference for SQL results / JSON arrays / columnar files (modelled, not verified)',
           'the row-wise reading of the vectorised engine (Model/Engine.v), tied by the correspondence']
ASSUMES = ['join-free mappings (joins: C07); quoted maps: C13']
EX = mapcase.EX


def tm(k, v, ck='iri', tt=''):
    return {'k': k, 'v': v, 'ck': ck, 'tt': tt}


def gen_typed_case(rng):
    kind = rng.choice(['sqltable', 'sqlquery', 'json', 'parquet', 'feather', 'orc', 'csv'])
    n = rng.choice([2, 3, 4, 6])
    coltypes = [rng.choice(['int', 'int', 'real', 'bool', 'text', 'mixednum']) for _ in range(3)]
    if kind in ('parquet', 'feather') and rng.random() < 0.5:
        coltypes[rng.randrange(3)] = 'datetime'        # a datetime64 column: pandas formats such a column as a whole when asked column-wise
    if kind in ('sqltable', 'sqlquery'):
        coltypes = [{'bool': 'int', 'mixednum': 'real'}.get(t, t) for t in coltypes]     # SQLite stores booleans as integers; NUMERIC affinity rewrites values
    def val(t):
        if rng.random() < 0.2:
            return None
        if t == 'int':
            return ['i', rng.choice([0, 1, 7, 10, -3, 2020, 9007199254740993 if rng.random() < 0.05 else 5])]
        if t == 'real':
            return ['f', rng.choice([1, 2, 10, -4])]
        if t == 'bool':
            return ['b', rng.random() < 0.5]
        if t == 'datetime':
            return ['d', rng.choice(['2024-03-01 00:00:00', '2024-03-02 00:00:00', '1999-12-31 00:00:00', '2024-03-01 10:30:00', '2020-02-29 23:59:59'])]
        if t == 'mixednum':
            return rng.choice([['i', rng.choice([1, 2, 10])], ['f', rng.choice([2, 3])]])
        return rng.choice(['a', 'b', '10', '01', 'x y'])
    rows = [[str(i + 1)] + [val(t) for t in coltypes] for i in range(n)]
    src = {'key': 'S0', 'kind': kind, 'cols': ['id', 'c1', 'c2', 'c3'], 'rows': rows}
    if kind in ('sqltable', 'sqlquery'):
        src['types'] = ['TEXT'] + [{'int': 'INTEGER', 'real': 'REAL', 'bool': 'BOOLEAN', 'text': 'TEXT', 'mixednum': 'NUMERIC'}[t] for t in coltypes]
    poms = [{'preds': [tm('const', EX + 'p/p%d' % i)],
             'objs': [rng.choice([{'m': tm('ref', c), 'lang': None, 'dt': None, 'joins': []},
                                  {'m': tm('templ', EX + 'o/{' + c + '}'), 'lang': None, 'dt': None, 'joins': []}])], 'graphs': []}
            for i, c in enumerate(['c1', 'c2', 'c3'])]
    return {'cfg': {'nquads': False, 'mode': 'NO'}, 'sources': [src],
            'doc': [{'id': EX + 'tm/T', 'src': 'S0', 'nonasserted': False, 'subj': tm('templ', EX + 'r/{id}'), 'sjoins': [], 'classes': [], 'sgraphs': [], 'poms': poms}]}


def gen_canon_case(rng):
    """string columns under a datatype whose lexical forms are canonicalised (xsd:integer / boolean / dateTime): the
    canonical form of a value must not depend on the other rows of the column"""
    dt, vals = rng.choice([(mapcase.XSD + 'integer', ['0042', '1e3', '1500.0', '7', '12', '3.0', '+5', '10', '-0', '1E2', '3.7', '2.5', '9007199254740993', '-9007199254740993', '2.0']),      # integers beyond 2^53 next to decimal-pointed ones: a column-wide numeric dtype would round them together
                           (mapcase.XSD + 'boolean', ['true', 'TRUE', 'False', '1', '0', 'T']),
                           (mapcase.XSD + 'dateTime', ['2020-01-01 10:00:00', '2020-01-01T10:00:00', '2021-05-05 00:00:00.5', '2020-01-01'])])
    n = rng.choice([2, 3, 4, 5])
    rows = [[str(i + 1), rng.choice(vals), rng.choice(vals)] for i in range(n)]
    kind = rng.choice(['csv', 'csv', 'json', 'sqltable', 'parquet'])
    src = {'key': 'S0', 'kind': kind, 'cols': ['id', 'c1', 'c2'], 'rows': rows}
    poms = [{'preds': [tm('const', EX + 'p/p%d' % i)], 'objs': [{'m': m, 'lang': None, 'dt': tm('const', dt), 'joins': []}], 'graphs': []}
            for i, m in enumerate([tm('ref', 'c1'), rng.choice([tm('ref', 'c2'), tm('templ', '{c2}', 'iri', 'lit')])])]
    return {'cfg': {'nquads': False, 'mode': 'NO'}, 'sources': [src],
            'doc': [{'id': EX + 'tm/T', 'src': 'S0', 'nonasserted': False, 'subj': tm('templ', EX + 'r/{id}'), 'sjoins': [], 'classes': [], 'sgraphs': [], 'poms': poms}]}


def gen_collation_case(rng):
    """a database table whose text column compares coarser than string equality (COLLATE NOCASE; an untyped column holding 1 and 1.0 as text):
    rows equal for the database but different as strings are different rows"""
    words = rng.choice([['Madrid', 'MADRID', 'madrid', 'Lyon'], ['a', 'A', 'b', 'B'], ['x ', 'x', 'X', 'y']])
    n = rng.choice([2, 3, 4, 6])
    rows = [[rng.choice(words), rng.choice(words)] for _ in range(n)]
    src = {'key': 'S0', 'kind': rng.choice(['sqltable', 'sqltable', 'sqlquery']), 'cols': ['city', 'c2'], 'rows': rows, 'types': ['TEXT COLLATE NOCASE', rng.choice(['TEXT COLLATE NOCASE', 'TEXT'])]}
    poms = [{'preds': [tm('const', EX + 'p/name')], 'objs': [{'m': tm('ref', rng.choice(['city', 'c2'])), 'lang': None, 'dt': None, 'joins': []}], 'graphs': []}] if rng.random() < 0.6 else []
    return {'cfg': {'nquads': False, 'mode': 'NO'}, 'sources': [src],
            'doc': [{'id': EX + 'tm/T', 'src': 'S0', 'nonasserted': False, 'subj': tm('templ', EX + 'city/{city}'), 'sjoins': [], 'classes': [EX + 'class/City'], 'sgraphs': [], 'poms': poms}]}


def typed_trigger(case):
    """recorded finding: a numeric column whose rendering depends on its other rows (int next to NULL / float, bool next to NULL)"""
    for s in case['sources']:
        if s.get('kind', 'csv') in ('csv', 'tsv', 'xlsx', 'xml', 'view'):
            continue
        for j in range(len(s['cols'])):
            col = [r[j] for r in s['rows']]
            tags = set(v[0] for v in col if isinstance(v, list))
            has_null = any(v is None for v in col)
            if ('i' in tags or 'b' in tags) and (has_null or 'f' in tags or len(tags) > 1 or any(isinstance(v, str) for v in col)):
                return True
            if 'i' in tags and any(isinstance(v, list) and v[0] == 'i' and abs(v[1]) >= 2 ** 53 for v in col):
                return True
    return False


def variants(rng, case):
    """(name, [cases whose union must equal the whole])"""
    out = []
    s0 = case['sources'][0]
    n = len(s0['rows'])
    if n >= 2:
        cut = rng.randint(1, n - 1)
        a, b = copy.deepcopy(case), copy.deepcopy(case)
        a['sources'][0]['rows'] = s0['rows'][:cut]
        b['sources'][0]['rows'] = s0['rows'][cut:]
        out.append(('split@%d' % cut, [a, b]))
    p = copy.deepcopy(case)
    rows = list(p['sources'][0]['rows'])
    rng.shuffle(rows)
    p['sources'][0]['rows'] = rows + rows[:max(1, n // 2)]
    out.append(('permute+duplicate', [p]))
    return out


def run(ctx, res):
    res.rule = ('join-free mappings over (a) string tables (core generator, CSV) and (b) typed tables (INTEGER / REAL / BOOLEAN / NUMERIC / TEXT columns with NULLs in some rows) delivered as SQLite table, '
                'SQLite query, JSON, Parquet, Feather, ORC, and (c) SQLite text columns with a case-insensitive collation; for every case the table is split at a random cut, and permuted with duplicated rows: result(whole) must equal result(part 1) + result(part 2) '
                'and result(permuted + duplicated); typed cases are also compared with the Engine model (column coercion) and the Spec; distinct = distinct case; non-trivial = split with both parts non-empty')
    known = set(ctx.known)
    cases = [gen_typed_case(ctx.rng) for _ in range(ctx.scale(60, 1500))] + [gen_canon_case(ctx.rng) for _ in range(ctx.scale(30, 600))] + [gen_collation_case(ctx.rng) for _ in range(ctx.scale(12, 200))] + [mapcase.gen_words_case(ctx.rng) for _ in range(ctx.scale(16, 200))]
    cases += [c for c in (mapcase.gen_core_case(ctx.rng, hard=ctx.rng.random() < 0.5, joins=False) for _ in range(ctx.scale(40, 1200))) if len(c['sources']) == 1]
    # directed: xsd:integer over a string column holding integers beyond 2^53 and a decimal-pointed value in DIFFERENT rows (every split separates them)
    for di in range(ctx.scale(4, 20)):
        base = [['9007199254740993', '7'], ['2.0', '12'], ['-9007199254740993', '3.0'], ['18014398509481985', '2.0']][di % 2:][:3]
        drows = [[str(i + 1)] + r for i, r in enumerate(base)]
        dpoms = [{'preds': [tm('const', EX + 'p/p%d' % i)], 'objs': [{'m': m, 'lang': None, 'dt': tm('const', mapcase.XSD + 'integer'), 'joins': []}], 'graphs': []}
                 for i, m in enumerate([tm('ref', 'c1'), tm('templ', '{c2}', 'iri', 'lit') if di % 4 >= 2 else tm('ref', 'c2')])]
        cases.append({'cfg': {'nquads': False, 'mode': 'NO'}, 'sources': [{'key': 'S0', 'kind': ['csv', 'tsv', 'ssv'][di % 3], 'cols': ['id', 'c1', 'c2'], 'rows': drows}],
                      'doc': [{'id': EX + 'tm/T', 'src': 'S0', 'nonasserted': False, 'subj': tm('templ', EX + 'r/{id}'), 'sjoins': [], 'classes': [], 'sgraphs': [], 'poms': dpoms}]})
    batch = family.Batch(ctx)
    whole = batch.run(cases)
    for case, rec in zip(cases, whole):
        # correspondence with the model / spec (typed reader behaviour)
        if typed_trigger(case) and 'typed-column-coercion' in known:
            res.evaluations += 1
            if not family.same(rec['impl'], rec['spec']) and family.same(rec['impl'], rec['model']):
                res.violations.append({'key': 'typed-column-coercion', 'what': 'recorded finding reproduced', 'replay': case})
                res.count('finding:typed-column-coercion')
            elif not family.same(rec['impl'], rec['model']) and rec['model'][0] != 'unmodelled':
                family.judge(res, rec, known)
        else:
            family.judge(res, rec, known)
    todo = []
    for case, rec in zip(cases, whole):
        for name, parts in variants(ctx.rng, case):
            todo.append((case, rec, name, parts))
    flat = [p for _, _, _, parts in todo for p in parts]
    precs = batch.run(flat, want_spec=False)
    outs = [r['impl'] for r in precs]
    k = 0
    for case, wrec, name, parts in todo:
        w = wrec['impl']
        po = outs[k:k + len(parts)]
        # the recorded finding is attributed only when the Engine model reproduces the implementation on the whole table
        # and on every part (i.e. the deviation is exactly the modelled column coercion)
        modelled = family.same(w, wrec['model']) and all(family.same(r['impl'], r['model']) for r in precs[k:k + len(parts)])
        k += len(parts)
        res.evaluations += 1
        if w[0] != 'ok' or any(o[0] != 'ok' for o in po):
            res.count('union:exception')
            continue
        union = sorted(set(x for o in po for x in o[1]))
        res.count('union:' + name.split('@')[0])
        if name.startswith('split'):
            res.distinct.add(json.dumps(case, sort_keys=True, ensure_ascii=False))
        if union != w[1]:
            key = 'typed-column-coercion' if (typed_trigger(case) and modelled and 'typed-column-coercion' in known) else None
            res.violations.append({'key': key, 'sig': 'union:' + name.split('@')[0] + ':' + case['sources'][0].get('kind', 'csv'),
                                   'what': '%s: result over the whole table differs from the union over its parts: only whole %r, only parts %r (source kind %s)'
                                           % (name, [x for x in w[1] if x not in union][:3], [x for x in union if x not in w[1]][:3], case['sources'][0].get('kind', 'csv')),
                                   'replay': {'case': case, 'variant': name, 'parts': parts}})
    res.samples = [{'case': cases[0]}]


def replay(ctx, res, payload):
    p = payload.get('case')
    case, parts = (p['case'], p['parts']) if 'parts' in p else (p, None)
    batch = family.Batch(ctx)
    w = batch.run([case], want_spec=False)[0]['impl']
    print('whole:', str(w)[:800])
    if parts:
        po = [r['impl'] for r in batch.run(parts, want_spec=False)]
        union = sorted(set(x for o in po if o[0] == 'ok' for x in o[1]))
        print('union of parts:', str(union)[:800])
        if w[0] == 'ok' and union != w[1]:
            res.violations.append({'key': 'typed-column-coercion' if typed_trigger(case) else None, 'what': 'replayed: whole differs from union of parts', 'replay': p})
