"""C16 — materialization is a pure function of configuration, mappings and data."""
import copy, json, os, shutil
from .. import common, family, mapcase

PROPS_FILES = ['theories/Props/C16.v']
FINDINGS_FILES = ['theories/Findings/C16.v']
LEVEL = 'proof'
TRUSTED = ['Model/Purity.v: the only state the model gives a call is the caller\'s in-memory objects (python_data.get_ram_data reads them by reference); module globals of morph_kgc and of third-party libraries '
           'are assumed absent and that assumption is what the differential check measures (same calls in one process vs each in a fresh process)']
ASSUMES = ['partial claim: a Gallina function is pure by construction, so the theorem can only speak about the modelled state (in-memory sources); hidden process state is covered by the correspondence only',
           'uuid() and other deliberately non-deterministic functions are excluded']
EX = mapcase.EX


def gen_call(rng):
    r = rng.random()
    c = mapcase.gen_core_case(rng, hard=rng.random() < 0.4, joins=rng.random() < 0.3)
    if r < 0.35:
        for s in c['sources']:
            s['kind'] = rng.choice(['frame', 'pydict', 'pyjson', 'pylist'])
            s['cols'] = [x for x in s['cols']]
            if s['kind'] in ('pydict', 'pyjson'):
                ren = {col: 'k%d' % j for j, col in enumerate(s['cols'])}      # JSONPath-friendly names
                for role, m, o in family._tmaps(c):
                    pass
        # column renaming for JSON kinds is intrusive: keep frames and lists only when names are not plain
        for s in c['sources']:
            if s['kind'] in ('pydict', 'pyjson') and any(not col.replace('_', '').isalnum() or not col.isascii() for col in s['cols']):
                s['kind'] = 'frame'
    if r > 0.8:
        # a function-valued mapping with a user-defined function file (two files define the same function ids differently)
        from .c14 import gen_fn_case
        c = gen_fn_case(rng)
        c['cfg']['udf_source'] = rng.choice(['udfs.py', 'udfs_alt.py'])
        c['cfg']['_alt'] = c['cfg']['udf_source'] == 'udfs_alt.py'
    c['cfg']['na'] = rng.choice([['', 'nan'], [''], ['NULL', 'N/A'], ['a', 'b', '']])
    c['cfg']['safe'] = rng.choice(['', '', ':/', '/'])
    c['cfg']['printable'] = rng.random() < 0.3
    return c


def run(ctx, res):
    res.rule = ('sequences of 2-6 library calls in one process; calls sharing a directory (one unchanged mapping file under different file_path options, data files rewritten between calls); (materialize_set, and for a third of the calls materialize / materialize_oxigraph) -- different mappings, RDF and YARRRML files with and without %YAML directives, calls that fail, file and in-memory sources (DataFrame, list, dict, JSON string), different na_values / safe_percent_encoding / '
                'only_printable_chars / output_format / partitioning, the same call repeated, the same Python objects passed again -- against each call made alone in a fresh process; '
                'plus fingerprints of the caller\'s objects and hashes of every mapping / data file before and after each call; distinct = distinct sequence; non-trivial = sequence whose calls differ in an option or source')
    known = set(ctx.known)
    wd = common.workdir()
    seqs = []
    for _ in range(ctx.scale(14, 200)):
        n = ctx.rng.choice([2, 3, 4, 6])
        calls = [gen_call(ctx.rng) for _ in range(n)]
        if ctx.rng.random() < 0.6:
            calls.append(copy.deepcopy(calls[0]))          # the first call again at the end
        if ctx.rng.random() < 0.35:
            from .c14 import gen_fn_case
            a = gen_fn_case(ctx.rng)
            a['cfg']['udf_source'] = 'udfs.py'
            b = copy.deepcopy(a)
            b['cfg']['udf_source'] = 'udfs_alt.py'          # same mapping, same function ids, other implementations
            calls = [a, b, copy.deepcopy(a)] + calls[:1]
        if ctx.rng.random() < 0.4 and n >= 2:
            calls[1] = dict(copy.deepcopy(calls[0]), cfg=dict(calls[0]['cfg'], na=['zz'], safe=':/?', printable=not calls[0]['cfg'].get('printable')))   # same mapping, other options
        seqs.append(calls)
    # directed: the same mapping and function ids with two user-defined function files, back and forth
    for fn in ('dup', 'nullif', 'pair', 'maybe'):
        def tmf(k, v, ck='iri', tt=''):
            return {'k': k, 'v': v, 'ck': ck, 'tt': tt}
        ins = {'dup': [[EX + 'fn/p_v', 'ref', 'c1']], 'nullif': [[EX + 'fn/p_v', 'ref', 'c1'], [EX + 'fn/p_x', 'const', 'a']],
               'pair': [[EX + 'fn/p_a', 'ref', 'c1'], [EX + 'fn/p_b', 'const', 'z']], 'maybe': [[EX + 'fn/p_v', 'ref', 'c1']]}[fn]
        a = {'cfg': {'nquads': False, 'mode': 'NO', 'udfs': 'udfs.py', 'udf_source': 'udfs.py'},
             'sources': [{'key': 'S0', 'kind': 'csv', 'cols': ['id', 'c1'], 'rows': [['1', 'a'], ['2', 'b,c'], ['3', 'd']]}],
             'doc': [{'id': EX + 'tm/T', 'src': 'S0', 'nonasserted': False, 'subj': tmf('templ', EX + 'r/{id}'), 'sjoins': [], 'classes': [], 'sgraphs': [],
                      'poms': [{'preds': [tmf('const', EX + 'p/f')], 'objs': [{'m': tmf('exec', EX + 'exec/E1'), 'lang': None, 'dt': None, 'joins': []}], 'graphs': []}]}],
             'execs': [{'id': EX + 'exec/E1', 'fun': EX + 'fn/' + fn, 'inputs': ins}]}
        b = copy.deepcopy(a); b['cfg']['udf_source'] = 'udfs_alt.py'
        seqs.append([a, b, copy.deepcopy(a), copy.deepcopy(b)])
    # directed: a built-in function first used without one of its optional parameters, then with it (and back)
    GREL_ = 'http://users.ugent.be/~bjdmeest/function/grel.ttl#'
    MK_ = 'https://github.com/morph-kgc/morph-kgc/function/built-in.ttl#'
    def tmg(k, v, ck='iri', tt=''):
        return {'k': k, 'v': v, 'ck': ck, 'tt': tt}
    def bcase(fun, inputs):
        return {'cfg': {'nquads': False, 'mode': 'NO'},
                'sources': [{'key': 'S0', 'kind': 'csv', 'cols': ['id', 'c1', 'c2'], 'rows': [['1', 'Ada', 'Lovelace'], ['2', 'x', 'false'], ['3', 'y', '']]}],
                'doc': [{'id': EX + 'tm/T', 'src': 'S0', 'nonasserted': False, 'subj': tmg('templ', EX + 'r/{id}'), 'sjoins': [], 'classes': [], 'sgraphs': [],
                         'poms': [{'preds': [tmg('const', EX + 'p/f')], 'objs': [{'m': tmg('exec', EX + 'exec/E1'), 'lang': None, 'dt': None, 'joins': []}], 'graphs': []}]}],
                'execs': [{'id': EX + 'exec/E1', 'fun': fun, 'inputs': inputs}]}
    without = bcase(MK_ + 'concat', [[GREL_ + 'valueParam1', 'ref', 'c1'], [GREL_ + 'valueParam2', 'ref', 'c2']])
    with_ = bcase(MK_ + 'concat', [[GREL_ + 'valueParam1', 'ref', 'c1'], [GREL_ + 'valueParam2', 'ref', 'c2'], [GREL_ + 'param_string_sep', 'const', '-']])
    seqs.append([without, with_, copy.deepcopy(without), copy.deepcopy(with_)])
    cif_without = bcase(MK_ + 'controls_if_cast', [[GREL_ + 'bool_b', 'ref', 'c2'], [GREL_ + 'any_true', 'const', 'yes']])
    cif_with = bcase(MK_ + 'controls_if_cast', [[GREL_ + 'bool_b', 'ref', 'c2'], [GREL_ + 'any_true', 'const', 'yes'], [GREL_ + 'any_false', 'const', 'no']])
    seqs.append([cif_without, cif_with, copy.deepcopy(cif_without)])
    # the three library entry points in one process: a third of the calls of the generated sequences go through materialize() or materialize_oxigraph()
    for calls in seqs:
        for c in calls:
            if ctx.rng.random() < 0.3 and not any(s_.get('kind') in mapcase.MEMORY_KINDS for s_ in c['sources']):
                c['cfg']['entry'] = ctx.rng.choice(['rdflib', 'oxigraph'])
    # directed: a call through materialize() that fails while loading its result, then mappings whose constants are typed literals in
    # non-canonical form (what the mapping parser reads depends on process-wide rdflib settings)
    PFX = '@prefix rml: <http://w3id.org/rml/> . @prefix ex: <http://ex.org/> . @prefix xsd: <http://www.w3.org/2001/XMLSchema#> .\n'
    def raw(name, files, mappings, entry='set', fmt='N-TRIPLES'):
        return {'raw': {'files': files, 'config': '[CONFIGURATION]\nnumber_of_processes=1\nlogging_level=ERROR\noutput_format=%s\n[DS]\nmappings=%s\n' % (fmt, mappings), 'entry': entry},
                'cfg': {'raw': name, 'entry': entry}, 'sources': []}
    data = 'id,c1\r\n1,a b\r\n2,c\r\n'
    src = 'rml:logicalSource [ rml:source "d.csv" ; rml:referenceFormulation rml:CSV ]'
    bad = raw('unloadable-result', {'d.csv': data, 'm.ttl': PFX + 'ex:T a rml:TriplesMap ; %s ; rml:subjectMap [ rml:template "http://ex.org/r/{id}" ] ; '
              'rml:predicateObjectMap [ rml:predicate ex:p ; rml:objectMap [ rml:reference "c1" ; rml:termType rml:IRI ] ] .\n' % src}, 'm.ttl', entry='rdflib', fmt='N-QUADS')
    typed = raw('typed-constants', {'d.csv': data, 'm.ttl': PFX + 'ex:T a rml:TriplesMap ; %s ; rml:subjectMap [ rml:template "http://ex.org/r/{id}" ] ; '
                'rml:predicateObjectMap [ rml:predicate ex:n ; rml:object "007"^^xsd:integer ] ; rml:predicateObjectMap [ rml:predicate ex:b ; rml:object "1"^^xsd:boolean ] ; '
                'rml:predicateObjectMap [ rml:predicate ex:d ; rml:object "1.50"^^xsd:decimal ] .\n' % src}, 'm.ttl')
    for entry in ('set', 'rdflib', 'oxigraph'):
        t2 = copy.deepcopy(typed); t2['raw']['entry'] = entry; t2['cfg']['entry'] = entry
        seqs.append([copy.deepcopy(typed), copy.deepcopy(bad), t2, copy.deepcopy(typed)])
    # directed: YARRRML files with and without a %YAML directive, plain scalars that YAML 1.1 and 1.2 read differently (no / on / y / 012 / 12:30:00)
    def yar(name, head, lang, val):
        body = ('prefixes:\n  ex: http://ex.org/\nmappings:\n  tm:\n    sources:\n      - [d.csv~csv]\n    s: ex:r/$(id)\n    po:\n      - p: ex:p\n        o:\n          value: $(c1)\n          language: %s\n'
                '      - p: ex:q\n        o:\n          value: %s\n' % (lang, val))
        return raw(name, {'d.csv': data, 'm.yml': head + body}, 'm.yml')
    # a prefix declared by one YARRRML file (doi:) is not defined for a later file that does not declare it
    y_decl = yar('yaml-prefix-declared', '', 'en', 'doi:10.1/x')
    y_decl['raw']['files']['m.yml'] = y_decl['raw']['files']['m.yml'].replace('prefixes:\n', 'prefixes:\n  doi: http://doi.org/\n  orcid: https://orcid.org/\n')
    for val in ('doi:10.1/x', 'orcid:0000-0001'):
        y_use = yar('yaml-prefix-undeclared:' + val, '', 'en', val)
        seqs.append([copy.deepcopy(y_use), copy.deepcopy(y_decl), copy.deepcopy(y_use)])
    y11 = yar('yaml-1.1', '%YAML 1.1\n---\n', 'en', 'plain')
    for lang, val in (('no', 'on'), ('en', 'y'), ('no', '012'), ('fr', '12:30:00')):
        y = yar('yaml-plain:%s:%s' % (lang, val), '', lang, val)
        seqs.append([copy.deepcopy(y), copy.deepcopy(y11), copy.deepcopy(y)])
    jobs_seq, jobs_single, meta, dirs = [], [], [], []
    for si, calls in enumerate(seqs):
        items = []
        for ci, c in enumerate(calls):
            d = os.path.join(wd, 'q%d_%d' % (si, ci)); os.makedirs(d); dirs.append(d)
            if 'raw' in c:
                for fn_, txt in c['raw']['files'].items():
                    open(os.path.join(d, fn_), 'w', encoding='utf-8', newline='').write(txt)
                it = {'config': c['raw']['config'], 'cwd': d, 'py': {}, 'entry': c['raw']['entry']}
            else:
                it = {'config': mapcase.materialise_files(c, d), 'cwd': d, 'py': mapcase.python_sources(c), 'entry': c['cfg'].get('entry', 'set')}
            items.append(it)
            jobs_single.append({'fn': 'call_sequence', 'args': {'items': [it]}})
            meta.append((si, ci))
        reuse = {str(len(calls) - 1): 0} if (json.dumps(calls[-1], sort_keys=True) == json.dumps(calls[0], sort_keys=True) and len(calls) > 1) else None
        jobs_seq.append({'fn': 'call_sequence', 'args': {'items': items, 'reuse_objects': reuse}})
    singles = ctx.pool.map(jobs_single, timeout=300, fresh=True)
    seq_out = ctx.pool.map(jobs_seq, timeout=900, fresh=True)
    for d in dirs:
        shutil.rmtree(d, ignore_errors=True)
    k = 0
    for si, (calls, so) in enumerate(zip(seqs, seq_out)):
        if not so.get('ok'):
            res.disagreements.append({'what': 'sequence job failed: %s' % str(so)[:300], 'replay': None}); k += len(calls); continue
        res.distinct.add(json.dumps([c['cfg'] for c in calls], sort_keys=True) + str(si))
        for ci, (c, r) in enumerate(zip(calls, so['result'])):
            single = singles[k]; k += 1
            res.evaluations += 1
            if not single.get('ok'):
                continue
            s = single['result'][0]
            a = ('ok', s['lines']) if 'lines' in s else ('exc', s.get('exc'))
            b = ('ok', r['lines']) if 'lines' in r else ('exc', r.get('exc'))
            res.count('call:%s' % a[0])
            if a != b and not (a[0] == 'exc' and b[0] == 'exc'):
                res.violations.append({'key': None, 'sig': 'history',
                                       'what': 'call %d of a sequence of %d gives another result than the same call alone in a fresh process: alone %s, in sequence %s; e.g. %r'
                                               % (ci + 1, len(calls), (a[0], len(a[1]) if a[0] == 'ok' else a[1]), (b[0], len(b[1]) if b[0] == 'ok' else b[1]),
                                                  [x for x in (b[1] if b[0] == 'ok' else []) if a[0] == 'ok' and x not in a[1]][:2] or [x for x in (a[1] if a[0] == 'ok' else []) if b[0] == 'ok' and x not in b[1]][:2]),
                                       'replay': {'calls': calls, 'index': ci}})
            if r['files_changed'] or r['files_removed']:
                res.violations.append({'key': None, 'sig': 'files', 'what': 'a library call modified or removed input files: changed %s removed %s' % (r['files_changed'][:3], r['files_removed'][:3]),
                                       'replay': {'calls': calls[:ci + 1], 'index': ci}})
            if r['before'] != r['after']:
                quotes = any(isinstance(v, str) and '"' in v for s_ in c['sources'] if s_.get('kind') == 'frame' for row in s_['rows'] for v in row)
                if quotes and 'dataframe-quotes' in known:
                    res.violations.append({'key': 'dataframe-quotes', 'what': 'recorded finding reproduced', 'replay': None})
                else:
                    res.violations.append({'key': None, 'sig': 'caller-object', 'what': 'the caller\'s in-memory source was modified by the call: before %s after %s' % (str(r['before'])[:300], str(r['after'])[:300]),
                                           'replay': {'calls': calls[:ci + 1], 'index': ci}})
    # ---- calls that share a directory: the same unchanged mapping file under another file_path option, and data files rewritten between calls
    batch = family.Batch(ctx)
    def tmq(k, v, ck='iri', tt=''):
        return {'k': k, 'v': v, 'ck': ck, 'tt': tt}
    for rep in range(ctx.scale(4, 30)):
        def table(tag):
            return [[tag + str(i + 1), ctx.rng.choice(['a', 'b', 'c']) + tag] for i in range(ctx.rng.choice([1, 2, 3]))]
        ra, rb = table('x'), table('y')
        c = {'cfg': {'nquads': False, 'mode': ctx.rng.choice(['NO', 'PARTIAL-AGGREGATIONS'])}, 'sources': [{'key': 'S0', 'kind': 'csv', 'cols': ['id', 'v'], 'rows': ra}],
             'doc': [{'id': EX + 'tm/T', 'src': 'S0', 'nonasserted': False, 'subj': tmq('templ', EX + 'r/{id}'), 'sjoins': [], 'classes': [], 'sgraphs': [],
                      'poms': [{'preds': [tmq('const', EX + 'p/v')], 'objs': [{'m': tmq('ref', 'v'), 'lang': None, 'dt': None, 'joins': []}], 'graphs': []}]}],
             'file_path_option': 'S0'}
        d = os.path.join(wd, 'fp%d' % rep); os.makedirs(d)
        cfg_a = mapcase.materialise_files(c, d)
        mapcase.write_csv(os.path.join(d, 'other.csv'), ['id', 'v'], rb)
        cfg_b = cfg_a.replace('file_path=m_0.csv', 'file_path=other.csv')
        if cfg_b == cfg_a:
            res.disagreements.append({'what': 'file_path option not found in the generated configuration', 'replay': None}); continue
        order = [cfg_a, cfg_b, cfg_a, cfg_b]
        alone = [ctx.pool.map([{'fn': 'mat_seq', 'args': {'items': [{'config': x, 'cwd': d}]}}], timeout=300, fresh=True)[0] for x in (cfg_a, cfg_b)]
        seq = ctx.pool.map([{'fn': 'mat_seq', 'args': {'items': [{'config': x, 'cwd': d} for x in order]}}], timeout=300, fresh=True)[0]
        shutil.rmtree(d, ignore_errors=True)
        res.evaluations += 1
        res.count('shared-directory:file_path')
        if not seq.get('ok') or not all(a.get('ok') for a in alone):
            res.disagreements.append({'what': 'shared-directory job failed: %s' % str(seq)[:300], 'replay': None}); continue
        exp = {cfg_a: family.impl_outcome({'ok': True, 'result': alone[0]['result'][0]}), cfg_b: family.impl_outcome({'ok': True, 'result': alone[1]['result'][0]})}
        for i, (x, r) in enumerate(zip(order, seq['result'])):
            got = family.impl_outcome({'ok': True, 'result': r})
            if not family.same(got, exp[x]):
                res.violations.append({'key': None, 'sig': 'file_path-history', 'what': 'call %d of [file_path=A, file_path=B, A, B] over one unchanged mapping file in one process gives %s, the same call alone gives %s'
                                       % (i + 1, str(got)[:200], str(exp[x])[:200]), 'replay': {'calls': [c], 'index': i}})
                break
    # user-defined functions: the same call twice with a function that keeps module-level state, and the UDF file rewritten between two calls
    from .c14 import gen_fn_case as _gfc
    EXF = EX + 'fn/'
    for rep in range(ctx.scale(3, 20)):
        rows = [[str(i + 1), ctx.rng.choice(['a', 'b', 'c'])] for i in range(ctx.rng.choice([2, 3, 4]))]
        st = {'cfg': {'nquads': False, 'mode': 'NO', 'udfs': 'udfs_state.py', 'udf_source': 'udfs_state.py'},
              'sources': [{'key': 'S0', 'kind': 'csv', 'cols': ['id', 'v'], 'rows': rows}],
              'doc': [{'id': EX + 'tm/T', 'src': 'S0', 'nonasserted': False, 'subj': tmq('templ', EX + 'r/{id}'), 'sjoins': [], 'classes': [], 'sgraphs': [],
                       'poms': [{'preds': [tmq('const', EX + 'p/k')], 'objs': [{'m': tmq('exec', EX + 'ex/E0', 'iri', 'lit'), 'lang': None, 'dt': None, 'joins': []}], 'graphs': []},
                                {'preds': [tmq('const', EX + 'p/t')], 'objs': [{'m': tmq('exec', EX + 'ex/E1', 'iri', 'lit'), 'lang': None, 'dt': None, 'joins': []}], 'graphs': []}]}],
              'execs': [{'id': EX + 'ex/E0', 'fun': EXF + 'seq', 'inputs': [[EXF + 'p_v', 'ref', 'v']]}, {'id': EX + 'ex/E1', 'fun': EXF + 'tick', 'inputs': [[EXF + 'p_prefix', 'const', 'k']]}]}
        outs = family.run_sequence(ctx, [st, copy.deepcopy(st), copy.deepcopy(st)], reuse_dirs=True)
        res.evaluations += 1
        res.count('stateful-udf:repeated')
        if not (family.same(outs[0], outs[1]) and family.same(outs[0], outs[2])):
            res.violations.append({'key': None, 'sig': 'stateful-udf', 'what': 'the same call three times in one process with a user-defined function that keeps module-level state: %s' % [str(o)[:120] for o in outs],
                                   'replay': {'calls': [st], 'index': 1}})
        a = _gfc(ctx.rng)
        tries = 0
        while not any(str(e.get('fun', '')).endswith(('/dup', '/nullif', '/pair')) for e in a.get('execs', [])) and tries < 50:
            a = _gfc(ctx.rng); tries += 1
        a['cfg']['udf_source'] = 'udfs.py'; a['cfg'].pop('_alt', None)
        b = copy.deepcopy(a); b['cfg']['udf_source'] = 'udfs_alt.py'
        second = family.overwrite_run(ctx, a, b)[1]
        expb = family.run_sequence(ctx, [b])[0]
        res.evaluations += 1
        res.count('shared-directory:rewritten-udf-file')
        if not family.same(second, expb):
            res.violations.append({'key': None, 'sig': 'rewritten:udfs', 'what': 'the UDF file rewritten between two calls of one process: the second call gives %s, the same call alone gives %s'
                                   % (str(second)[:200], str(expb)[:200]), 'replay': {'calls': [b], 'index': 1}})
    # the MAPPING file rewritten between two calls of one process, same path, same configuration text, same length (one character of a constant / template differs)
    for rep in range(ctx.scale(4, 24)):
        rows = [[str(i + 1), ['a', 'b', 'c'][(i + rep) % 3]] for i in range(2 + rep % 3)]
        def mk(pred, templ):
            return {'cfg': {'nquads': rep % 2 == 1, 'mode': ['NO', 'PARTIAL-AGGREGATIONS', 'MAXIMAL'][rep % 3]}, 'sources': [{'key': 'S0', 'kind': 'csv', 'cols': ['id', 'v'], 'rows': rows}],
                    'doc': [{'id': EX + 'tm/T', 'src': 'S0', 'nonasserted': False, 'subj': tmq('templ', EX + templ + '/{id}'), 'sjoins': [], 'classes': [], 'sgraphs': [],
                             'poms': [{'preds': [tmq('const', EX + 'p/' + pred)], 'objs': [{'m': tmq('ref', 'v'), 'lang': None, 'dt': None, 'joins': []}], 'graphs': []}]}]}
        a, b = (mk('v', 'r'), mk('w', 'r')) if rep % 2 == 0 else (mk('v', 'r'), mk('v', 's'))
        second = family.overwrite_run(ctx, a, b, mappings=True, style=(mapcase.Style(vocab='yarrrml') if rep % 4 >= 2 else None))[1]
        expb = family.run_sequence(ctx, [b])[0]
        res.evaluations += 1
        res.count('shared-directory:rewritten-mapping-file')
        if not family.same(second, expb):
            res.violations.append({'key': None, 'sig': 'rewritten:mapping', 'what': 'the mapping file rewritten between two calls of one process: the second call gives %s, the same call alone gives %s'
                                   % (str(second)[:200], str(expb)[:200]), 'replay': {'calls': [b], 'index': 1}})
    from .c10 import gen_table_case, xml_safe
    for k in ['csv', 'json', 'view', 'tsv'] * ctx.scale(1, 5):
        ta, tb = xml_safe(gen_table_case(ctx.rng)), xml_safe(gen_table_case(ctx.rng))
        for t in (ta, tb):
            t['sources'][0]['kind'] = k
        tb['doc'] = ta['doc']; tb['cfg'] = ta['cfg']
        da, db = os.path.join(wd, 'rw_a_%d' % res.evaluations), os.path.join(wd, 'rw_b_%d' % res.evaluations)
        os.makedirs(da); os.makedirs(db)
        cfg_a = mapcase.materialise_files(ta, da); mapcase.materialise_files(tb, db)
        r = ctx.pool.map([{'fn': 'mat_overwrite', 'args': {'config': cfg_a, 'dir_a': da, 'dir_b': db}}], timeout=240, fresh=True)[0]
        fresh_b = batch.run([tb], want_spec=False)[0]['impl']
        shutil.rmtree(da, ignore_errors=True); shutil.rmtree(db, ignore_errors=True)
        res.evaluations += 1
        res.count('shared-directory:rewritten-' + k)
        if not r.get('ok'):
            res.disagreements.append({'what': 'mat_overwrite failed: %s' % str(r)[:300], 'replay': None}); continue
        second = family.impl_outcome({'ok': True, 'result': r['result'][1]})
        if not family.same(second, fresh_b):
            res.violations.append({'key': None, 'sig': 'rewritten:' + k, 'what': 'a %s source rewritten between two calls of one process: the second call gives %s, the same call alone gives %s'
                                   % (k, str(second)[:200], str(fresh_b)[:200]), 'replay': {'calls': [tb], 'index': 1}})
    res.samples = [{'options': [c['cfg'] for c in seqs[0]], 'kinds': [[s.get('kind', 'csv') for s in c['sources']] for c in seqs[0]]}]


def replay(ctx, res, payload):
    p = payload.get('case') or {}
    print('replay: sequence of %d calls, index %s (re-run bin/check C16 with the same seed to reproduce)' % (len(p.get('calls', [])), p.get('index')))
