"""C02 — mapping partitioning never changes the result."""
import json
from .. import family, mapcase

PROPS_FILES = ['theories/Props/C02.v']
FINDINGS_FILES = ['theories/Findings/C02.v']
LEVEL = 'proof'
TRUSTED = ['Model/Engine.v, Model/Partition.v, Model/Mapping.v (hand-written model, tied by the correspondence)',
           'pandas groupby / sort_values and multiprocessing are not modelled: the theorem is about the union over ANY labelling']
ASSUMES = ['function-valued and quoted term maps are covered by C14 / C13 with their own generators']
MODES = ['NO', 'PARTIAL-AGGREGATIONS', 'MAXIMAL']


def has_noref_template(case):
    import re
    for role, m, o in family._tmaps(case):
        if m['k'] == 'templ' and '{' not in m['v'].replace('\\{', ''):
            return True
    return False


def gen_prefix_case(rng):
    """Rule sets whose constant prefixes are equal, nested or interleaved."""
    c = mapcase.gen_core_case(rng, hard=False)
    stems = ['http://ex.org/a', 'http://ex.org/a/b', 'http://ex.org/a/', 'http://ex.org/ab', 'http://ex.org/', 'http://ex.org/b']
    for t in c['doc']:
        cols = next(s for s in c['sources'] if s['key'] == t['src'])['cols']
        if t['subj']['k'] == 'templ' and t['subj'].get('tt') != 'bnode' and rng.random() < 0.8:
            t['subj']['v'] = rng.choice(stems) + '{' + rng.choice(cols) + '}'
        for p in t['poms']:
            for m in p['preds']:
                if rng.random() < 0.5:
                    m.update({'k': 'const', 'v': rng.choice(stems) + rng.choice(['', 'p', '/p']), 'ck': 'iri', 'tt': ''})
            for o in p['objs']:
                if o['m']['k'] == 'templ' and o['m'].get('tt') in ('', 'iri') and rng.random() < 0.7:
                    o['m']['v'] = rng.choice(stems) + rng.choice(['', 'o/']) + '{' + rng.choice(cols) + '}'
            for g in p['graphs']:
                if g['k'] != 'ref' and g['v'] != mapcase.RML + 'defaultGraph' and rng.random() < 0.6:
                    g.update({'k': rng.choice(['const', 'templ']), 'v': rng.choice(stems) + 'g', 'ck': 'iri', 'tt': ''})
                    if g['k'] == 'templ':
                        g['v'] += '{' + rng.choice(cols) + '}'
    if rng.random() < 0.08:
        # a template without any reference
        t = rng.choice(c['doc'])
        t['subj'] = {'k': 'templ', 'v': 'http://ex.org/fixed', 'ck': 'iri', 'tt': ''}
    return c


def gen_working_col_case(rng):
    """several rules over the same source with the very same reference set, one of the columns named like a working column of the
    materializer (triple, graph, subject ...): whatever the engine does with such a column, it does it alike under every partitioning mode"""
    def tm(k, v, ck='iri', tt=''):
        return {'k': k, 'v': v, 'ck': ck, 'tt': tt}
    EX = mapcase.EX
    col = rng.choice(['triple', 'graph', 'triple', 'graph', 'subject', 'object', 'predicate'])
    rows = [[str(i + 1), rng.choice(['a', 'b', 'c d'])] for i in range(rng.choice([1, 2, 3]))]
    objs = [tm('ref', col), tm('templ', EX + 'o/{' + col + '}'), tm('templ', 'v {' + col + '}', 'iri', 'lit')]
    poms = [{'preds': [tm('const', EX + 'p/q%d' % j)], 'objs': [{'m': rng.choice(objs), 'lang': None, 'dt': None, 'joins': []}], 'graphs': []} for j in range(rng.choice([2, 3]))]
    return {'cfg': {'nquads': rng.random() < 0.5, 'mode': 'NO'}, 'sources': [{'key': 'S0', 'kind': 'csv', 'cols': ['id', col], 'rows': rows}],
            'doc': [{'id': EX + 'tm/T', 'src': 'S0', 'nonasserted': False, 'subj': tm('templ', EX + 'r/{id}'), 'sjoins': [], 'classes': [], 'sgraphs': [], 'poms': poms}]}


def gen_shared_frame_case(rng):
    """an in-memory table (DataFrame, list of dicts, dictionary) read by several rules that reference different nullable columns: every
    rule sees the caller's table as it was handed over, however the rules are grouped"""
    def tm(k, v, ck='iri', tt=''):
        return {'k': k, 'v': v, 'ck': ck, 'tt': tt}
    EX = mapcase.EX
    rows = [[str(i + 1), (None if rng.random() < 0.4 else rng.choice(['a', 'b'])), (None if rng.random() < 0.4 else rng.choice(['x', 'y'])), (None if rng.random() < 0.3 else 'z')]
            for i in range(rng.choice([3, 4, 6]))]
    poms = [{'preds': [tm('const', EX + 'p/' + c)], 'objs': [{'m': rng.choice([tm('ref', c), tm('templ', EX + 'o/{' + c + '}')]), 'lang': None, 'dt': None, 'joins': []}], 'graphs': []} for c in ('c1', 'c2', 'c3')]
    rng.shuffle(poms)
    doc = [{'id': EX + 'tm/T', 'src': 'S0', 'nonasserted': False, 'subj': tm('templ', EX + 'r/{id}'), 'sjoins': [], 'classes': [EX + 'class/C'], 'sgraphs': [], 'poms': poms[:rng.choice([2, 3])]}]
    if rng.random() < 0.5:
        doc.append({'id': EX + 'tm/U', 'src': 'S0', 'nonasserted': False, 'subj': tm('templ', EX + 'u/{c1}'), 'sjoins': [], 'classes': [], 'sgraphs': [],
                    'poms': [{'preds': [tm('const', EX + 'p/id')], 'objs': [{'m': tm('ref', 'id'), 'lang': None, 'dt': None, 'joins': []}], 'graphs': []}]})
    return {'cfg': {'nquads': False, 'mode': 'NO'}, 'sources': [{'key': 'S0', 'kind': rng.choice(['frame', 'frame', 'pylist']), 'cols': ['id', 'c1', 'c2', 'c3'], 'rows': rows}], 'doc': doc}


def gen_multi_join_case(rng):
    """one child triples map with several referencing object maps to the same parent: same predicate and different join conditions
    (rules that differ in their join conditions only), or different predicates where one join needs more parent columns than the other
    and the extra parent column holds NULLs"""
    def tm(k, v, ck='iri', tt=''):
        return {'k': k, 'v': v, 'ck': ck, 'tt': tt}
    EX = mapcase.EX
    ids = ['1', '2', '3', '4']
    crow = lambda i: [str(i + 1), rng.choice(ids), rng.choice(ids + [None]), rng.choice(['x', 'y', None])]
    prow = lambda i: [ids[i], rng.choice(['x', 'y', None]), 'n%d' % i]
    child = {'key': 'S0', 'kind': 'csv', 'cols': ['id', 'mother', 'father', 'tag'], 'rows': [crow(i) for i in range(rng.choice([2, 3, 5]))]}
    parent = {'key': 'S1', 'kind': 'csv', 'cols': ['pid', 'tag', 'name'], 'rows': [prow(i) for i in range(rng.choice([2, 3, 4]))]}
    same_pred = rng.random() < 0.5
    j1 = [['mother', 'pid']] + ([['tag', 'tag']] if rng.random() < 0.6 else [])
    j2 = [['father', 'pid']] if same_pred or rng.random() < 0.5 else [['mother', 'pid']]
    joins = [j1, j2]
    rng.shuffle(joins)
    poms = [{'preds': [tm('const', EX + 'p/parent' if same_pred else EX + 'p/rel%d' % i)],
             'objs': [{'m': {'k': 'parent', 'v': EX + 'tm/P', 'ck': 'iri', 'tt': ''}, 'lang': None, 'dt': None, 'joins': j}], 'graphs': []} for i, j in enumerate(joins)]
    doc = [{'id': EX + 'tm/C', 'src': 'S0', 'nonasserted': False, 'subj': tm('templ', EX + 'c/{id}'), 'sjoins': [], 'classes': [], 'sgraphs': [], 'poms': poms},
           {'id': EX + 'tm/P', 'src': 'S1', 'nonasserted': False, 'subj': tm('templ', EX + 'p/{pid}'), 'sjoins': [], 'classes': [],
            'sgraphs': [], 'poms': [{'preds': [tm('const', EX + 'p/name')], 'objs': [{'m': tm('ref', 'name'), 'lang': None, 'dt': None, 'joins': []}], 'graphs': []}]}]
    return {'cfg': {'nquads': rng.random() < 0.5, 'mode': 'NO'}, 'sources': [child, parent], 'doc': doc}


def gen_graph_only_null_case(rng):
    """data-dependent graph maps whose columns are used by nothing else, with NULLs in them, in both output formats: a row without a graph value
    gives no statement under every partitioning mode (also when the output format does not show the graph)"""
    def tm(k, v, ck='iri', tt=''):
        return {'k': k, 'v': v, 'ck': ck, 'tt': tt}
    EX = mapcase.EX
    rows = [[str(i + 1), rng.choice(['a', 'b', 'c']), (None if rng.random() < 0.4 else rng.choice(['g1', 'g2'])), (None if rng.random() < 0.3 else 'h')] for i in range(rng.choice([2, 3, 5]))]
    g = rng.choice([tm('templ', EX + 'g/{g}'), tm('ref', 'g', 'iri', ''), tm('templ', EX + 'g/{g}/{h}')])
    on_subject = rng.random() < 0.4
    poms = [{'preds': [tm('const', EX + 'p/v')], 'objs': [{'m': tm('ref', 'v'), 'lang': None, 'dt': None, 'joins': []}], 'graphs': [] if on_subject else [g]}]
    if rng.random() < 0.5:
        poms.append({'preds': [tm('const', EX + 'p/w')], 'objs': [{'m': tm('templ', EX + 'o/{v}'), 'lang': None, 'dt': None, 'joins': []}], 'graphs': [tm('const', EX + 'g/const')] if rng.random() < 0.5 else []})
    return {'cfg': {'nquads': rng.random() < 0.3, 'mode': 'NO'}, 'sources': [{'key': 'S0', 'kind': 'csv', 'cols': ['id', 'v', 'g', 'h'], 'rows': rows}],
            'doc': [{'id': EX + 'tm/T', 'src': 'S0', 'nonasserted': False, 'subj': tm('templ', EX + 'r/{id}'), 'sjoins': [], 'classes': [], 'sgraphs': [g] if on_subject else [], 'poms': poms}]}


def run(ctx, res):
    res.rule = ('each generated mapping x data (core generator plus rule sets with equal / nested / interleaved constant prefixes) is materialised under '
                'NO, PARTIAL-AGGREGATIONS and MAXIMAL partitioning in its output format; the three implementation results must be equal to each other and to the '
                'Engine model; non-trivial = at least two asserted rules and a non-empty result')
    known = set(ctx.known)
    corpus = [f['replay'] for f in ctx.known.values() if isinstance(f.get('replay'), dict) and 'doc' in f['replay']]
    n = ctx.scale(70, 2000)
    cases = corpus + [gen_prefix_case(ctx.rng) for _ in range(n)] + [mapcase.gen_core_case(ctx.rng, hard=True) for _ in range(n // 2)]
    cases += [mapcase.gen_shard_case(ctx.rng) for _ in range(ctx.scale(8, 80))]        # same-named tables of two databases, one section each
    cases += [gen_graph_only_null_case(ctx.rng) for _ in range(ctx.scale(10, 100))]
    cases += [gen_working_col_case(ctx.rng) for _ in range(ctx.scale(10, 100))]
    cases += [gen_shared_frame_case(ctx.rng) for _ in range(ctx.scale(10, 100))]
    cases += [gen_multi_join_case(ctx.rng) for _ in range(ctx.scale(14, 120))]
    batch = family.Batch(ctx)
    per_mode = {m: batch.run(cases, cfg_override={'mode': m}, want_spec=False) for m in MODES}
    for i, case in enumerate(cases):
        recs = [per_mode[m][i] for m in MODES]
        res.evaluations += 1
        outs = [r['impl'] for r in recs]
        model = recs[0]['model']
        equal = all(family.same(outs[0], o) for o in outs[1:])
        if outs[0][0] == 'ok' and len(outs[0][1]) > 0 and sum(len(t.get('poms', [])) for t in case['doc']) >= 2:
            res.distinct.add(json.dumps(case, sort_keys=True, ensure_ascii=False))
        res.count('impl:' + '/'.join(o[0] for o in outs))
        if not equal:
            if has_noref_template(case) and 'noref-template' in known and outs[0][0] == 'ok' and outs[1][0] == 'exc' and outs[2][0] == 'exc':
                res.violations.append({'key': 'noref-template', 'what': 'recorded finding reproduced', 'replay': case})
                continue
            def brief(o):
                return o if o[0] != 'ok' else ('ok', len(o[1]))
            res.violations.append({'key': None, 'sig': str([brief(o) for o in outs])[:200],
                                   'what': 'partitioning modes disagree: NO=%s PARTIAL-AGGREGATIONS=%s MAXIMAL=%s; differing lines: %s'
                                           % (brief(outs[0]), brief(outs[1]), brief(outs[2]),
                                              [x for o in outs for x in (o[1] if o[0] == 'ok' else []) if any(p[0] == 'ok' and x not in p[1] for p in outs)][:5]),
                                   'replay': case})
            continue
        # all modes agree; tie with the model (which does not use the labelling at all)
        if model[0] != 'unmodelled' and not family.same(outs[0], model) and not (family.triggers(case) & {'no-pom-section'}):
            res.disagreements.append({'what': 'Engine model differs from the implementation (all modes agree): impl %s model %s'
                                              % (str(outs[0])[:300], str(model)[:300]), 'replay': case})
    res.samples = [{'case': cases[len(corpus)], 'modes': MODES}]


def replay(ctx, res, payload):
    case = payload.get('case')
    batch = family.Batch(ctx)
    outs = [batch.run([case], cfg_override={'mode': m}, want_spec=False)[0]['impl'] for m in MODES]
    print('replay:', [(o[0], (len(o[1]) if o[0] == 'ok' else o[1:])) for o in outs])
    if not all(family.same(outs[0], o) for o in outs[1:]):
        res.violations.append({'key': 'noref-template' if has_noref_template(case) else None, 'what': 'replayed: modes disagree', 'replay': case})
