"""C09 — the surface syntax of a mapping never changes its meaning."""
import json, os, random, shutil
from .. import common, family, mapcase

PROPS_FILES = ['theories/Props/C09.v']
FINDINGS_FILES = ['theories/Findings/C09.v']
LEVEL = 'proof'
TRUSTED = ['Model/Mapping.v: the abstract syntax identifies vocabularies and constant shortcuts (spellings); the theorems cover the three factorings (classes, subject graph maps, multi-valued maps) on the normalisation chain',
           'rdflib parsers (Turtle, N-Triples, RDF/XML) and SPARQL engine, the vocabulary rewrites of _r2rml_to_rml / _rml_legacy_to_rml: outside the Coq model, covered by this differential check only',
           'harness/mapcase.py renderers: the equivalence of the spellings they produce is by construction (one abstract mapping)']
ASSUMES = ['YARRRML: rendered for the fragment its translator supports (CSV sources; constants, references and templates; classes; language / datatype / term type; one join condition; graph maps); functions and RML-star in YARRRML are not rendered']
EX = mapcase.EX


def spellings(rng, case, k):
    single = len(case['sources']) == 1 and case['sources'][0].get('kind', 'csv') == 'csv'
    out = []
    if any(t.get('sgraphs') for t in case['doc']):
        # always, for mappings with graph maps on a subject map: the graph maps LEFT on the subject map, written with the conventional prefix labels
        # (a legacy document binds rml: to the legacy namespace) and in plain Turtle, in the legacy and in the new vocabulary
        for vocab, ser in (('legacy', 'prefixed'), ('rml', 'prefixed'), ('legacy', 'turtle')):
            st = mapcase.Style(vocab=vocab, shortcut=True, cls='class', sgraph='subject', split_poms=False, rng=random.Random(7))
            st.serialisation = ser
            out.append(st)
    for _ in range(k):
        vocab = rng.choice(['rml', 'legacy'] + (['r2rml'] if single else []))
        st = mapcase.Style(vocab=vocab, shortcut=rng.random() < 0.5, cls=rng.choice(['class', 'pom']), sgraph=rng.choice(['subject', 'pom']),
                           split_poms=rng.random() < 0.4, rng=random.Random(rng.random()))
        st.serialisation = rng.choice(['turtle', 'turtle', 'nt', 'xml', 'ext-rml', 'prefixed'])
        out.append(st)
    if mapcase.yarrrml_ok(case):
        st = mapcase.Style(vocab='yarrrml', rng=random.Random(rng.random()))
        st.serialisation = 'yaml'
        out.append(st)
    return out


def describe(st):
    return 'vocab=%s shortcut=%s class=%s sgraph=%s split=%s serialisation=%s' % (st.vocab, st.shortcut, st.cls, st.sgraph, st.split_poms, st.serialisation)


def write_spelling(case, d, st, rng):
    """Writes data + mapping in the given spelling / serialisation; returns the config text."""
    import rdflib
    c = dict(case)
    if st.vocab == 'r2rml':
        c = dict(case, file_path_option=case['sources'][0]['key'])
    if st.vocab == 'yarrrml':
        cfg = mapcase.materialise_files(c, d, mapcase.Style())
        os.remove(os.path.join(d, 'm.ttl'))
        open(os.path.join(d, 'm.yml'), 'w', encoding='utf-8').write(mapcase.render_yarrrml(c))
        return cfg.replace('mappings=m.ttl', 'mappings=m.yml')
    cfg = mapcase.materialise_files(c, d, st)
    src = os.path.join(d, 'm.ttl')
    if st.serialisation in ('nt', 'xml', 'ext-rml', 'prefixed'):
        g = rdflib.Graph()
        g.parse(src, format='turtle')
        if st.serialisation == 'nt':
            lines = [l for l in g.serialize(format='nt').split('\n') if l.strip()]
            rng.shuffle(lines)
            open(os.path.join(d, 'm2.nt'), 'w', encoding='utf-8').write('\n'.join(lines) + '\n')
            new = 'm2.nt'
        elif st.serialisation == 'xml':
            g.serialize(destination=os.path.join(d, 'm2.rdf'), format='xml')
            new = 'm2.rdf'
        elif st.serialisation == 'prefixed':
            # the conventional prefix labels: legacy documents bind rml: to the legacy namespace
            g.bind('ex', EX); g.bind('rr', mapcase.RR)
            g.bind('rml', 'http://semweb.mmlab.be/ns/rml#' if st.vocab == 'legacy' else mapcase.RML, override=True, replace=True)
            g.bind('ql', 'http://semweb.mmlab.be/ns/ql#')
            txt = g.serialize(format='turtle')
            open(os.path.join(d, 'm2.ttl'), 'w', encoding='utf-8').write(txt)
            new = 'm2.ttl'
        else:
            shutil.copy(src, os.path.join(d, 'm2.rml' if st.vocab != 'r2rml' else 'm2.r2rml'))
            new = 'm2.rml' if st.vocab != 'r2rml' else 'm2.r2rml'
        os.remove(src)
        cfg = cfg.replace('mappings=m.ttl', 'mappings=' + new)
    return cfg


def run(ctx, res):
    res.rule = ('each abstract mapping (core generator, no joins across spellings that change blank-node identity) is materialised in its canonical RML spelling and in several random spellings: '
                'vocabulary {RML, legacy RML + R2RML term maps, R2RML with file_path} x constant shortcuts / expanded maps x rr:class / explicit rdf:type predicate-object map x graph maps on the subject map / '
                'repeated on every predicate-object map x multi-valued / split predicate-object maps x {Turtle, N-Triples with shuffled lines, RDF/XML, prefixed Turtle re-serialised by rdflib, .rml / .r2rml extension}; '
                'all results must be equal; distinct = distinct (mapping, spelling); non-trivial = non-empty result')
    known = set(ctx.known)
    cases = [mapcase.gen_core_case(ctx.rng, hard=ctx.rng.random() < 0.3) for _ in range(ctx.scale(50, 1200))]
    # multi-valued constant shortcuts whose values are of different kinds (IRI, literal) on one predicate-object map
    for c in cases:
        if ctx.rng.random() < 0.35:
            t = ctx.rng.choice(c['doc'])
            t['poms'].append({'preds': [mapcase.tm_const_iri(EX + 'p/src')] + ([mapcase.tm_const_iri(EX + 'p/src2')] if ctx.rng.random() < 0.3 else []),
                              'objs': [{'m': mapcase.tm_const_iri(EX + 'o/dataset'), 'lang': None, 'dt': None, 'joins': []},
                                       {'m': {'k': 'const', 'v': 'HR database', 'ck': 'lit', 'tt': ''}, 'lang': None, 'dt': None, 'joins': []}],
                              'graphs': ([mapcase.tm_const_iri(EX + 'g/meta'), mapcase.tm_const_iri(EX + 'g/meta2')] if ctx.rng.random() < 0.3 else [])})
    # directed: mappings with graph maps on subject maps, N-QUADS (the subject-graph factoring is one of the three the property names)
    from .c08 import gen_graph_case
    found, tries = 0, 0
    while found < ctx.scale(8, 80) and tries < 2000:
        tries += 1
        g = gen_graph_case(ctx.rng)
        if g['cfg'].get('nquads') and any(t.get('sgraphs') for t in g['doc']) and not family.triggers(g):
            cases.append(g); found += 1
    batch = family.Batch(ctx)
    base = batch.run(cases)
    wd = common.workdir()
    jobs, meta, dirs = [], [], []
    for ci, (case, rec) in enumerate(zip(cases, base)):
        family.judge(res, rec, known)
        for si, st in enumerate(spellings(ctx.rng, case, ctx.scale(4, 8))):
            d = os.path.join(wd, 'sp%d_%d' % (ci, si)); os.makedirs(d)
            try:
                cfg = write_spelling(case, d, st, ctx.rng)
            except Exception as e:
                res.count('render-failed:' + type(e).__name__)
                shutil.rmtree(d, ignore_errors=True)
                continue
            jobs.append({'fn': 'mat_set', 'args': {'config': cfg, 'cwd': d}}); meta.append((case, rec['impl'], st)); dirs.append(d)
    outs = ctx.pool.map(jobs, timeout=240)
    for d in dirs:
        shutil.rmtree(d, ignore_errors=True)
    for (case, w, st), r in zip(meta, outs):
        o = family.impl_outcome(r)
        res.evaluations += 1
        res.count('spelling:vocab=' + st.vocab); res.count('spelling:ser=' + st.serialisation)
        if w[0] == 'ok' and w[1]:
            res.distinct.add(json.dumps([case['doc'], describe(st)], sort_keys=True, ensure_ascii=False))
        if not family.same(w, o):
            trig = family.triggers(case)
            if st.split_poms and 'mixed-pom' in trig and 'mixed-pom' in known:
                res.violations.append({'key': 'mixed-pom', 'what': 'recorded finding reproduced', 'replay': None}); continue
            if 'no-pom-section' in trig and 'no-pom-section' in known:
                continue
            def brief(x):
                return x if x[0] != 'ok' else ('ok', len(x[1]))
            res.violations.append({'key': None, 'sig': describe(st)[:60], 'what': 'spelling [%s] changes the result: canonical %s, spelled %s; only canonical %r, only spelled %r'
                                   % (describe(st), brief(w), brief(o), [x for x in (w[1] if w[0] == 'ok' else []) if o[0] == 'ok' and x not in o[1]][:3],
                                      [x for x in (o[1] if o[0] == 'ok' else []) if w[0] == 'ok' and x not in w[1]][:3]),
                                   'replay': {'case': case, 'style': {'vocab': st.vocab, 'shortcut': st.shortcut, 'cls': st.cls, 'sgraph': st.sgraph, 'split_poms': st.split_poms, 'serialisation': st.serialisation}}})
    res.samples = [{'doc_ids': [t['id'] for t in cases[0]['doc']], 'spelling': describe(meta[0][2]) if meta else ''}]


def replay(ctx, res, payload):
    p = payload.get('case')
    case, sd = p['case'], p['style']
    st = mapcase.Style(vocab=sd['vocab'], shortcut=sd['shortcut'], cls=sd['cls'], sgraph=sd['sgraph'], split_poms=sd['split_poms'], rng=random.Random(1))
    st.serialisation = sd['serialisation']
    w = family.Batch(ctx).run([case], want_spec=False)[0]['impl']
    d = os.path.join(common.workdir(), 'replay'); os.makedirs(d, exist_ok=True)
    o = family.impl_outcome(ctx.pool.call('mat_set', config=write_spelling(case, d, st, random.Random(1)), cwd=d))
    print('canonical:', str(w)[:600]); print('spelled  :', str(o)[:600])
    if not family.same(w, o):
        res.violations.append({'key': None, 'what': 'replayed: spelling changes the result', 'replay': p})
