"""C05 — every emitted line is valid N-Triples/N-Quads(-star) and round-trips the data."""
import json, os, shutil, urllib.parse
from .. import common, family, mapcase

PROPS_FILES = ['theories/Props/C05.v']
FINDINGS_FILES = ['theories/Findings/C05.v']
LEVEL = 'proof'
TRUSTED = ['Model/NQuads.v: my transcription of the W3C N-Triples/N-Quads grammar (without UCHAR and quoted triples), differentially tested against pyoxigraph on every emitted line',
           'falcon.uri.encode_value and urllib.parse.quote are modelled by Terms.pct_encode (agreement measured on every run)',
           'str.isprintable is read from the running interpreter into Gen/Tables.v (nonprintable_ranges)']
ASSUMES = ['cell values are sequences of Unicode scalar values without NUL (strict UTF-8 readers)']
EX = mapcase.EX
UNRES = set('ABCDEFGHIJKLMNOPQRSTUVWXYZabcdefghijklmnopqrstuvwxyz0123456789-._~')
KINDS = ['lit', 'tlit', 'tiri', 'riri', 'tbn', 'rbn', 'lang', 'dtmap']


def tm(k, v, ck='iri', tt=''):
    return {'k': k, 'v': v, 'ck': ck, 'tt': tt}


FOCUS = ['\\', '"', "'", '%', '\t', '\n', '<>', '{}', ' ', 'é', '\x07', '\u2028', '^|`',
         # values that contain the text of a reference of the mapping's own templates (a value is data, never a template)
         ['{w}', '{v}', '{k}', '{l}', '{w'], ['\n'], ['$(w)', '%(v)s', '{0}', '\\{v\\}']]


def build_case(rng, nrows, safe, printable, nquads=True, focus=None):
    """focus: every value of the table is made of letters, digits and the characters of ONE class only (a column whose only special
    character is the backslash, the quote, well-formed %XX sequences ...) -- column-wise fast paths decide on the column as a whole"""
    rows = []
    def fv():
        parts = [rng.choice(['a', 'B', '7', 'C:', 'new', 'tab', 'x', '41', 'C3', 'A9', '25', '2F', '', 'caf']) for _ in range(rng.choice([1, 2, 3, 4]))]
        return ''.join(p + (rng.choice(focus) if rng.random() < 0.7 else '') for p in parts) or 'a'
    for i in range(nrows):
        v = fv() if focus else mapcase.gen_value(rng, mapcase.NASTY)
        w = fv() if focus else mapcase.gen_value(rng, mapcase.NASTY)
        l = rng.choice(['en', 'es', 'en-GB', 'de-1996', 'x y', '', 'é', 'EN', 'a1', '1a', 'en-', 'zh-Hant-TW'] if rng.random() < 0.4 else ['en'])
        rows.append([str(i), v, w, l])
    def o(m, lang=None, dt=None):
        return {'m': m, 'lang': lang, 'dt': dt, 'joins': []}
    objs = {'lit': o(tm('ref', 'v')), 'tlit': o(tm('templ', 'a {v} b{w}', 'iri', 'lit')), 'tiri': o(tm('templ', EX + 'o/{v}/{w}')),
            'riri': o(tm('ref', 'v', 'iri', 'iri')), 'tbn': o(tm('templ', 'b{v}', 'iri', 'bnode')), 'rbn': o(tm('ref', 'v', 'iri', 'bnode')),
            'lang': o(tm('ref', 'w'), lang=tm('ref', 'l', 'lit')), 'dtmap': o(tm('ref', 'w'), dt=tm('templ', EX + 'dt/{v}'))}
    poms = [{'preds': [tm('const', EX + 'p/' + k)], 'objs': [objs[k]], 'graphs': ([tm('templ', EX + 'g/{v}')] if k == 'lit' and nquads else [])} for k in KINDS]
    cfg = {'nquads': nquads, 'mode': 'NO'}
    if safe:
        cfg['safe'] = safe
    if printable:
        cfg['printable'] = True
    return {'cfg': cfg, 'sources': [{'key': 'S0', 'kind': 'csv', 'cols': ['k', 'v', 'w', 'l'], 'rows': rows}],
            'doc': [{'id': EX + 'tm/TM0', 'src': 'S0', 'nonasserted': False, 'subj': tm('templ', EX + 'row/{k}'), 'sjoins': [], 'classes': [],
                     'sgraphs': [], 'poms': poms}]}


def clean(s, printable):
    return ''.join(c for c in s if c.isprintable()) if printable else s


def pct_expected(s, safe):
    return ''.join(c if (c in UNRES or (c in safe and ord(c) < 128)) else ''.join('%%%02X' % b for b in c.encode('utf-8')) for c in s)


def run(ctx, res):
    res.rule = ('one mapping with eight object-map kinds (reference literal, template literal, template IRI, reference IRI, template / reference blank node, '
                'reference-valued language map, template-valued datatype map) plus a template graph map, over tables of composed strings (every character class '
                'at the start / end / inside a value) and over small tables whose values use ONE special character class only (backslash, quote, %XX, ...) x safe_percent_encoding in {empty, :/, /?} x only_printable_chars; implementation lines must equal the '
                'Engine model lines; every line is parsed by pyoxigraph (strict) and by the Gallina reader, and decoded back to the source value; '
                'distinct = distinct (kind, value) pair; non-trivial = value containing a character outside [A-Za-z0-9]')
    known = set(ctx.known)
    nrows = ctx.scale(250, 2500)
    variants = [('', False), (':/', False), ('/?', True), ('', True)]
    if not ctx.quick:
        variants += [(':/?@!$&()*+,;=', False), ('é', False)]
    cases = [build_case(ctx.rng, nrows, safe, pr) for safe, pr in variants for _ in range(ctx.scale(1, 3))]
    cases += [build_case(ctx.rng, ctx.scale(12, 40), ctx.rng.choice(['', '', ':/']), ctx.rng.random() < 0.3, focus=f) for f in FOCUS for _ in range(ctx.scale(1, 4))]
    batch = family.Batch(ctx)
    recs = batch.run(cases, want_spec=False, timeout=600)
    for rec in recs:
        case, I, M = rec['case'], rec['impl'], rec['model']
        res.evaluations += 1
        if I[0] != 'ok':
            res.violations.append({'key': None, 'what': 'the run fails on string data: %s' % (I,), 'replay': case})
            continue
        if M[0] == 'ok' and I[1] != M[1]:
            only_i = [x for x in I[1] if x not in set(M[1])][:3]
            only_m = [x for x in M[1] if x not in set(I[1])][:3]
            res.disagreements.append({'what': 'Engine model lines differ from implementation lines: only impl %r only model %r' % (only_i, only_m), 'replay': _small(case, only_i + only_m)})
        lines = I[1]
        safe, printable = case['cfg'].get('safe', ''), bool(case['cfg'].get('printable'))
        rows = {r[0]: r for r in case['sources'][0]['rows']}
        parsed = ctx.pool.call('oxi_parse_lines', lines=lines, timeout=600)
        gal = ctx.model.run_many([['parse', l + ' .'] for l in lines])
        if not parsed.get('ok'):
            res.disagreements.append({'what': 'pyoxigraph job failed: %s' % parsed, 'replay': None}); continue
        seen_label = {}
        for line, pq, g in zip(lines, parsed['result'], gal):
            res.evaluations += 1
            gal_ok = (g[0] == 'ok')
            if (pq is not None and len(pq) == 1) != gal_ok:
                res.count('reader-vs-pyoxigraph:differ')
                if len(res.notes) < 6:
                    res.notes.append('Gallina reader %s, pyoxigraph %s: %r' % ('accepts' if gal_ok else 'rejects', 'accepts' if pq else 'rejects', line[:160]))
            kind = next((k for k in KINDS if (' <' + EX + 'p/' + k + '> ') in line), None)
            k_row = None
            if pq and len(pq) == 1 and pq[0][0][0] == 'iri' and pq[0][0][1].startswith(EX + 'row/'):
                k_row = pq[0][0][1][len(EX + 'row/'):]
            if pq is None or len(pq) != 1:
                fid = {'riri': 'ref-iri-raw', 'rbn': 'bnode-label-raw', 'tbn': 'bnode-label-raw', 'lang': 'lang-raw'}.get(kind)
                res.count('invalid-line:' + str(kind))
                if fid in known:
                    res.violations.append({'key': fid, 'what': 'recorded finding reproduced', 'replay': None})
                else:
                    res.violations.append({'key': None, 'sig': 'invalid:' + str(kind), 'what': 'emitted line is rejected by the strict parser: %r' % line[:300],
                                           'replay': _small(case, [line])})
                continue
            row = rows.get(k_row)
            if row is None or kind is None:
                res.violations.append({'key': None, 'sig': 'unattributable', 'what': 'line cannot be attributed to a row: %r' % line[:200], 'replay': _small(case, [line])})
                continue
            v, w, l = clean(row[1], printable), clean(row[2], printable), clean(row[3], printable)
            obj, graph = pq[0][2], pq[0][3]
            res.distinct.add((kind, row[1]))
            exp = None
            if kind == 'lit':
                exp = ['lit', v, '', '']
                if graph is not None and graph != ['iri', EX + 'g/' + pct_expected(v, safe)]:
                    res.violations.append({'key': None, 'sig': 'graph-iri', 'what': 'graph IRI %r is not the percent-encoding of %r' % (graph, v), 'replay': _small(case, [line])})
            elif kind == 'tlit':
                exp = ['lit', 'a ' + v + ' b' + w, '', '']
            elif kind == 'tiri':
                exp = ['iri', EX + 'o/' + pct_expected(v, safe) + '/' + pct_expected(w, safe)]
                try:
                    back = urllib.parse.unquote(obj[1][len(EX + 'o/'):], errors='strict') if obj[0] == 'iri' else None
                except UnicodeDecodeError:
                    back = '<not UTF-8>'
                if obj[0] == 'iri' and back != v + '/' + w:
                    exp = ['iri', '<percent-decoding does not give back the values>']
            elif kind == 'riri':
                exp = ['iri', v]
            elif kind in ('tbn', 'rbn'):
                key = (kind, obj[1] if obj[0] == 'bnode' else str(obj))
                if key in seen_label and seen_label[key] != v:
                    res.violations.append({'key': None, 'sig': 'bnode-collision', 'what': 'blank-node label %r generated from two different values %r and %r' % (key, seen_label[key], v), 'replay': _small(case, [line])})
                seen_label[key] = v
                if obj[0] != 'bnode':
                    exp = ['bnode', '?']
            elif kind == 'lang':
                exp = ['lit', w, '@', l.lower()]
                if obj[0] == 'lit' and obj[2] == '@':
                    obj = ['lit', obj[1], '@', obj[3].lower()]
            elif kind == 'dtmap':
                exp = ['lit', w, '^', EX + 'dt/' + pct_expected(v, safe)]
            if exp is not None and obj != exp:
                res.count('roundtrip-failure:' + kind)
                res.violations.append({'key': None, 'sig': 'roundtrip:' + kind, 'what': 'kind %s: parsed object %r, expected %r (row %r)' % (kind, obj, exp, row), 'replay': _small(case, [line])})
            else:
                res.count('ok:' + kind)
    # the same configurations one after the other in a single process: an option of one call must not leak into the next
    small = [build_case(ctx.rng, 40, safe, pr) for safe, pr in variants + variants[::-1]]
    indep = [r['impl'] for r in batch.run(small, want_spec=False)]
    for c, a, b in zip(small, indep, family.run_sequence(ctx, small)):
        res.evaluations += 1
        if not family.same(a, b):
            only = [x for x in (b[1] if b[0] == 'ok' else []) if a[0] == 'ok' and x not in set(a[1])][:3]
            res.violations.append({'key': None, 'sig': 'sequence', 'what': 'a call made after other calls in the same process gives different lines than the same call alone, e.g. %r (safe_percent_encoding=%r, only_printable_chars=%r)'
                                                                   % (only, c['cfg'].get('safe', ''), c['cfg'].get('printable', False)), 'replay': c})
    res.samples = [{'value': r[1], 'kind': 'all'} for r in cases[0]['sources'][0]['rows'][:6]]


def _small(case, lines):
    """Replay payload: the case restricted to the rows named by the offending lines (row index in the subject IRI)."""
    import re, copy
    ks = set(re.findall(r'<' + re.escape(EX) + r'row/(\d+)>', ' '.join(lines)))
    c = copy.deepcopy(case)
    if ks:
        c['sources'][0]['rows'] = [r for r in c['sources'][0]['rows'] if r[0] in ks]
    else:
        c['sources'][0]['rows'] = c['sources'][0]['rows'][:20]
    return c


def replay(ctx, res, payload):
    case = payload.get('case')
    batch = family.Batch(ctx)
    rec = batch.run([case], want_spec=False)[0]
    print('replay impl:', str(rec['impl'])[:2000])
    if rec['impl'][0] == 'ok':
        parsed = ctx.pool.call('oxi_parse_lines', lines=rec['impl'][1])
        bad = [l for l, p in zip(rec['impl'][1], parsed['result']) if p is None]
        print('rejected by the strict parser:', bad[:5])
        if bad:
            res.violations.append({'key': None, 'what': 'replayed: invalid lines %r' % bad[:3], 'replay': case})
