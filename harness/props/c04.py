"""C04 — result is independent of process count and of worker scheduling."""
import json, os, shutil
from .. import common, family, mapcase

PROPS_FILES = ['theories/Props/C04.v']
FINDINGS_FILES = []
LEVEL = 'proof'
TRUSTED = ['Model/Writer.v text_write / buffered_write / final_flush: a model of CPython 3.12 TextIOWrapper + BufferedWriter (not code of the repository); its payload sizes are compared with the '
           'write(2) calls observed through an LD_PRELOAD shim (harness/shim/wlog.c) on every run',
           'atomicity of one write(2) on an O_APPEND descriptor (Linux, local file system) is assumed, not proved: a kernel-level tear cannot be exhibited by a theorem',
           'multiprocessing.Pool.starmap, fork and the OS scheduler are not modelled; schedules are forced by delays (sampled, not enumerated)']
ASSUMES = ['partial claim: the theorems are about the union over groups (any schedule) and about the write policy model; what the repository contributes -- one write() per whole line, append mode, '
           'removal of the file once before the workers start -- is what the correspondence audits']
EX = mapcase.EX
SHIM = os.path.join(common.ROOT, 'harness', 'shim', 'wlog.so')


def tm(k, v, ck='iri', tt=''):
    return {'k': k, 'v': v, 'ck': ck, 'tt': tt}


def big_case(rng, nrows, long_lines, mode, nquads, extra_tms=0):
    rows = []
    for i in range(nrows):
        v = 'v%d' % i
        if long_lines and rng.random() < long_lines:
            # 3 KiB ... 15 KiB, and now and then a value far above any plausible buffer or pipe size (about 100 KiB / 400 KiB)
            v = (rng.choice(['x%d-', 'é%d–', '日本%d']) % i) * rng.choice([1500, 2100, 3000, 700, 1500, 2100, 3000, 700, 22000, 80000])      # ASCII and multi-byte text
        rows.append([str(i), v, rng.choice(['a', 'b', 'c']), 'w%d' % (i % 7)])
    preds = ['p/name', 'p/kind', 'q/w', 'r/x']
    poms = [{'preds': [tm('const', EX + preds[0])], 'objs': [{'m': tm('ref', 'v'), 'lang': None, 'dt': None, 'joins': []}], 'graphs': []},
            {'preds': [tm('const', EX + preds[1])], 'objs': [{'m': tm('templ', EX + 'k/{k}'), 'lang': None, 'dt': None, 'joins': []}], 'graphs': []},
            {'preds': [tm('const', EX + preds[2])], 'objs': [{'m': tm('ref', 'w'), 'lang': tm('const', 'en', 'lit'), 'dt': None, 'joins': []}], 'graphs': []}]
    doc = [{'id': EX + 'tm/A', 'src': 'S0', 'nonasserted': False, 'subj': tm('templ', EX + 'a/{id}'), 'sjoins': [], 'classes': [EX + 'class/A'], 'sgraphs': [], 'poms': poms},
           {'id': EX + 'tm/B', 'src': 'S0', 'nonasserted': False, 'subj': tm('templ', EX + 'b/{id}'), 'sjoins': [], 'classes': [], 'sgraphs': [],
            'poms': [{'preds': [tm('const', EX + preds[3])], 'objs': [{'m': tm('templ', EX + 'a/{id}'), 'lang': None, 'dt': None, 'joins': []}], 'graphs': []}]}]
    # many mapping groups (more than any small multiple of the number of processes): triples maps with pairwise incomparable subject prefixes
    for j in range(extra_tms):
        doc.append({'id': EX + 'tm/X%d' % j, 'src': 'S0', 'nonasserted': False, 'subj': tm('templ', EX + 'x%d/{id}' % j), 'sjoins': [], 'classes': [], 'sgraphs': [],
                    'poms': [{'preds': [tm('const', EX + 'p/x')], 'objs': [{'m': tm('ref', 'w'), 'lang': None, 'dt': None, 'joins': []}], 'graphs': []}]})
    return {'cfg': {'nquads': nquads, 'mode': mode}, 'sources': [{'key': 'S0', 'kind': 'csv', 'cols': ['id', 'v', 'k', 'w'], 'rows': rows}], 'doc': doc}


def run_cli(ctx, case, wd, name, procs, delays=None, out='output_file=out/kg'):
    d = os.path.join(wd, name); os.makedirs(d)
    cfg = mapcase.materialise_files(dict(case, cfg=dict(case['cfg'], procs=procs)), d)
    cfg = cfg.replace('[CONFIGURATION]\n', '[CONFIGURATION]\n' + out + '\n')
    r = ctx.pool.call('cli_run_logged', config=cfg, cwd=d, outputs=['out'] if 'output_file' in out else ['outd'], shim=SHIM, delays=delays, timeout=600)
    shutil.rmtree(d, ignore_errors=True)
    return r


def file_lines(files):
    ls = []
    for k, v in sorted(files.items()):
        if not k.endswith('/'):
            ls += [l for l in v.split('\n') if l != '']
    return ls


def run(ctx, res):
    res.rule = ('command-line runs with number_of_processes in {1, 2, 4, 32} on outputs of 0 ... ~10^4 lines including lines above 8 KiB and a few of 100 - 400 KiB, output_file and output_dir, PARTIAL-AGGREGATIONS / MAXIMAL / NO; '
                'every write(2) to an output file is logged by an LD_PRELOAD shim: it must be complete and end in a line feed, and for single-group single-process runs the sequence of payload sizes must '
                'equal the prediction of Model/Writer.v from the line lengths; forced schedules (per-group delays reversing / interleaving completion order) must leave the multiset of lines unchanged; '
                'the library result must not depend on number_of_processes; distinct = distinct (case, processes, schedule); non-trivial = at least two groups or a line above 8 KiB')
    wd = common.workdir()
    if not os.path.exists(SHIM):
        res.disagreements.append({'what': 'write-log shim not built: ' + SHIM, 'replay': None}); return
    specs = [(0, 0, 'NO'), (1, 0, 'PARTIAL-AGGREGATIONS'), (40, 0, 'NO'), (300, 0.05, 'NO'), (300, 0.05, 'PARTIAL-AGGREGATIONS'), (1200, 0, 'MAXIMAL'), (150, 0.3, 'PARTIAL-AGGREGATIONS'), (60, 0, 'PARTIAL-AGGREGATIONS', 21)]
    if not ctx.quick:
        specs += [(6000, 0.01, 'PARTIAL-AGGREGATIONS'), (6000, 0.01, 'NO'), (20000, 0, 'PARTIAL-AGGREGATIONS'), (800, 0.5, 'MAXIMAL')]
    for si, spec in enumerate(specs):
        nrows, longp, mode = spec[:3]
        case = big_case(ctx.rng, nrows, longp, mode, nquads=(si % 2 == 0), extra_tms=(spec[3] if len(spec) > 3 else 0))
        ref = run_cli(ctx, case, wd, 'ref%d' % si, 1)
        if not ref.get('ok') or ref['result']['rc'] != 0:
            res.disagreements.append({'what': 'reference run failed: %s' % str(ref)[:300], 'replay': None}); continue
        ref = ref['result']
        ref_lines = sorted(file_lines(ref['files']))
        rd = run_cli(ctx, case, wd, 'refd%d' % si, 1, None, 'output_dir=outd')
        ref_dir = rd['result']['files'] if rd.get('ok') and rd['result']['rc'] == 0 else None
        # (a) whole-line payloads, and the size sequence predicted by the model (single group, single process)
        def check_writes(tag, r):
            for pid, fd, req, wr, last, path in r['writes']:
                res.evaluations += 1
                if req != wr or last != 10:
                    res.violations.append({'key': None, 'sig': 'torn:' + tag, 'what': '%s: a write(2) of %d bytes to %s %s' % (tag, req, os.path.basename(path),
                                           'was short (%d written)' % wr if req != wr else 'does not end at a line boundary (last byte %d)' % last),
                                           'replay': {'rows': nrows, 'long': longp, 'mode': mode}})
        check_writes('1 process', ref)
        if mode == 'NO':
            text = ''.join(v for k, v in sorted(ref['files'].items()) if not k.endswith('/'))
            lens = [len((l + '\n').encode('utf-8')) for l in text.split('\n')[:-1]]
            pred = [int(x) for x in ctx.model.run(['payloads', lens])]
            obs = [w[2] for w in ref['writes']]
            res.evaluations += 1
            res.count('payload-prediction')
            if pred != obs:
                res.disagreements.append({'what': 'write(2) payload sizes differ from the write-policy model: observed %s..., model %s... (%d lines)' % (obs[:8], pred[:8], len(lens)),
                                          'replay': {'rows': nrows, 'long': longp, 'mode': mode}})
        # (b) process counts and forced schedules
        exp = None
        for procs in ([2, 4] if ctx.quick else [2, 4, 32]):
            schedules = [None, 'reverse'] if nrows else [None]
            for sched in schedules:
                delays = None
                if sched == 'reverse':
                    delays = {'*': '0.15'} if mode == 'NO' else None
                    if mode != 'NO':
                        # later groups first: delay decreasing with the group's rank
                        names = sorted(set(w[5] for w in ref['writes'])) or ['x']
                        delays = {'*': '0.05'}
                for out in (['output_file=out/kg'] if ctx.quick and procs != 2 else ['output_file=out/kg', 'output_dir=outd']):
                    r = run_cli(ctx, case, wd, 'p%d_%d_%s_%s' % (si, procs, sched, out[7:10]), procs, delays, out)
                    res.evaluations += 1
                    if not r.get('ok') or r['result']['rc'] != 0:
                        res.violations.append({'key': None, 'sig': 'mp-fails', 'what': 'run with %d processes fails: %s' % (procs, str(r)[:300]), 'replay': {'rows': nrows, 'mode': mode, 'procs': procs}}); continue
                    rr = r['result']
                    check_writes('%d processes' % procs, rr)
                    got = sorted(file_lines(rr['files']))
                    # output_dir: one file per mapping group -- the files of this run must hold, file by file, the same line sets as those of the
                    # single-process run (the group names in the file names may differ between runs: they are compared as a multiset of contents)
                    if 'output_dir' in out and ref_dir is not None:
                        a_ = sorted(tuple(sorted(l for l in v.split('\n') if l)) for k, v in ref_dir.items() if not k.endswith('/'))
                        b_ = sorted(tuple(sorted(l for l in v.split('\n') if l)) for k, v in rr['files'].items() if not k.endswith('/'))
                        a_, b_ = [x for x in a_ if x], [x for x in b_ if x]
                        if a_ != b_:
                            res.violations.append({'key': None, 'sig': 'per-file:%d' % procs, 'what': '%d processes, output_dir: the statements are spread over the group files differently than in the single-process run: %d non-empty files with sizes %s against %d with sizes %s'
                                                   % (procs, len(b_), [len(x) for x in b_][:8], len(a_), [len(x) for x in a_][:8]),
                                                   'replay': {'rows': nrows, 'mode': mode, 'procs': procs}})
                    res.distinct.add((si, procs, sched, out))
                    res.count('procs=%d' % procs)
                    if got != ref_lines:
                        res.violations.append({'key': None, 'sig': 'lines:%d' % procs,
                                               'what': '%d processes (%s, schedule %s): the output lines differ from the single-process run: %d vs %d lines; missing %r extra %r'
                                                       % (procs, out, sched, len(got), len(ref_lines), [x[:80] for x in ref_lines if x not in set(got)][:2], [x[:80] for x in got if x not in set(ref_lines)][:2]),
                                               'replay': {'rows': nrows, 'long': longp, 'mode': mode, 'procs': procs, 'out': out}})
        # library: result independent of number_of_processes
        batch = family.Batch(ctx)
        small = big_case(ctx.rng, min(nrows, 200), 0, mode, nquads=True)
        a = batch.run([small], want_spec=False, cfg_override={'procs': 1})[0]['impl']
        b = batch.run([small], want_spec=False, cfg_override={'procs': 4})[0]['impl']
        res.evaluations += 1
        if not family.same(a, b):
            res.violations.append({'key': None, 'sig': 'library', 'what': 'materialize_set differs between number_of_processes=1 and 4', 'replay': {'case': small}})
    # ONE hierarchical file read by two triples maps through different iterators (same reference names, different mapping groups), the file named *.geojson
    # or by an unknown extension with the reference formulation: whatever a process remembers about a file must not leak from one group to the other
    def tmh(k, v, ck='iri', tt=''):
        return {'k': k, 'v': v, 'ck': ck, 'tt': tt}
    hbatch = family.Batch(ctx)
    for hi in range(ctx.scale(4, 16)):
        fn = ['m_shared.geojson', 'm_shared.data', 'm_shared.jsonpath', 'm_shared.json'][hi % 4]
        srcs = [{'key': 'S%d' % j, 'kind': 'json', 'shared_file': fn, 'part': part, 'cols': ['id', 'v'],
                 'rows': [[part + str(i + 1), '%s%d' % (part, (i * 7 + hi) % 5)] for i in range(2 + (hi + j) % 3)]} for j, part in enumerate(['a', 'b'])]
        hdoc = [{'id': mapcase.EX + 'tm/H%d' % j, 'src': 'S%d' % j, 'nonasserted': False, 'subj': tmh('templ', mapcase.EX + part + '/{id}'), 'sjoins': [], 'classes': [], 'sgraphs': [],
                 'poms': [{'preds': [tmh('const', mapcase.EX + 'p/' + part)], 'objs': [{'m': tmh('ref', 'v', 'lit'), 'lang': None, 'dt': None, 'joins': []}], 'graphs': []}]} for j, part in enumerate(['a', 'b'])]
        hcase = {'cfg': {'nquads': hi % 2 == 1, 'mode': ['PARTIAL-AGGREGATIONS', 'MAXIMAL'][hi % 2]}, 'sources': srcs, 'doc': hdoc}
        rec1 = hbatch.run([hcase], cfg_override={'procs': 1})[0]
        rec4 = hbatch.run([hcase], want_spec=False, cfg_override={'procs': 4})[0]
        res.evaluations += 2
        res.count('shared-hierarchical-file')
        res.distinct.add(('shared-file', hi))
        if not family.same(rec1['impl'], rec4['impl']):
            res.violations.append({'key': None, 'sig': 'library:shared-file', 'what': 'two triples maps over one JSON file (%s) with different iterators: materialize_set differs between number_of_processes=1 (%s) and 4 (%s)'
                                   % (fn, str(rec1['impl'])[:160], str(rec4['impl'])[:160]), 'replay': {'case': hcase}})
        elif rec1.get('spec') and not family.same(rec1['impl'], rec1['spec']):
            res.violations.append({'key': None, 'sig': 'shared-file:spec', 'what': 'two triples maps over one JSON file (%s) with different iterators: the result %s is not what the generation rules give %s'
                                   % (fn, str(rec1['impl'])[:160], str(rec1['spec'])[:160]), 'replay': {'case': hcase}})
    # a user-defined function with module-level state, used by several mapping groups: the result must not depend on how the groups
    # are spread over processes
    EXN = mapcase.EX
    def tmx(k, v, ck='iri', tt=''):
        return {'k': k, 'v': v, 'ck': ck, 'tt': tt}
    for rep in range(ctx.scale(2, 8)):
        n = ctx.rng.choice([4, 6, 9])
        rows = [[str(i + 1), ctx.rng.choice(['a', 'b', 'c', 'd']), ctx.rng.choice(['c', 'd', 'e', 'a'])] for i in range(n)]
        execs = [{'id': EXN + 'ex/E%d' % j, 'fun': EXN + 'fn/seq', 'inputs': [[EXN + 'fn/p_v', 'ref', col]]} for j, col in enumerate(['v', 'w', 'v'])]
        poms = [{'preds': [tmx('const', EXN + 'p/q%d' % j)], 'objs': [{'m': tmx('exec', EXN + 'ex/E%d' % j, 'iri', 'lit'), 'lang': None, 'dt': None, 'joins': []}], 'graphs': []} for j in range(3)]
        case = {'cfg': {'nquads': False, 'mode': 'PARTIAL-AGGREGATIONS', 'udfs': 'udfs_state.py', 'udf_source': 'udfs_state.py'},
                'sources': [{'key': 'S0', 'kind': 'csv', 'cols': ['id', 'v', 'w'], 'rows': rows}],
                'doc': [{'id': EXN + 'tm/T', 'src': 'S0', 'nonasserted': False, 'subj': tmx('templ', EXN + 'r/{id}'), 'sjoins': [], 'classes': [], 'sgraphs': [], 'poms': poms}],
                'execs': execs}
        # every run in a fresh process of its own: what a run inherits from earlier runs of the same process is C16's subject
        outs = [family.run_sequence(ctx, [dict(case, cfg=dict(case['cfg'], procs=pr))])[0] for pr in (1, 3, 1)]
        res.evaluations += 1
        res.count('stateful-udf')
        if not (family.same(outs[0], outs[1]) and family.same(outs[0], outs[2])):
            res.violations.append({'key': None, 'sig': 'stateful-udf', 'what': 'a stateful user-defined function used by three mapping groups: number_of_processes 1 / 3 / 1 give %s' % [str(o)[:120] for o in outs],
                                   'replay': {'case': case}})
    # the library entry point: statements with characters that some line-splitting routines take for line ends (U+2028, U+2029, U+0085, VT, FF, FS, GS, RS)
    # inside literals -- the set returned with several processes is the set returned with one
    odd = ['a\u2028b', 'c\u2029', '\x85d', 'e\x0bf', 'g\x0ch', 'i\x1cj', 'k\x1d', '\x1el', 'plain', 'two words']
    for rep in range(ctx.scale(3, 12)):
        n = ctx.rng.choice([3, 5, 8])
        rows = [[str(i + 1), ctx.rng.choice(odd), ctx.rng.choice(odd)] for i in range(n)]
        poms = [{'preds': [tmx('const', EXN + 'p/q%d' % j)], 'objs': [{'m': m, 'lang': None, 'dt': None, 'joins': []}], 'graphs': []}
                for j, m in enumerate([tmx('ref', 'v'), tmx('templ', 'x {w} y', 'iri', 'lit'), tmx('templ', EXN + 'o/{v}')])]
        case = {'cfg': {'nquads': ctx.rng.random() < 0.5, 'mode': ctx.rng.choice(['PARTIAL-AGGREGATIONS', 'MAXIMAL'])},
                'sources': [{'key': 'S0', 'kind': 'csv', 'cols': ['id', 'v', 'w'], 'rows': rows}],
                'doc': [{'id': EXN + 'tm/T', 'src': 'S0', 'nonasserted': False, 'subj': tmx('templ', EXN + 'r/{id}'), 'sjoins': [], 'classes': [], 'sgraphs': [], 'poms': poms}]}
        batch = family.Batch(ctx)
        outs = [batch.run([case], want_spec=False, cfg_override={'procs': pr})[0]['impl'] for pr in (1, 2, 4)]
        res.evaluations += 1
        res.count('library:line-boundary-characters')
        if not (family.same(outs[0], outs[1]) and family.same(outs[0], outs[2])):
            diff = [x for o in outs[1:] if o[0] == 'ok' for x in o[1] if outs[0][0] == 'ok' and x not in set(outs[0][1])][:2]
            res.violations.append({'key': None, 'sig': 'library-procs', 'what': 'materialize_set with number_of_processes 1 / 2 / 4 gives different sets: %s; e.g. only with several processes %r'
                                   % ([(o[0], len(o[1]) if o[0] == 'ok' else o[1]) for o in outs], diff), 'replay': {'case': case}})
    res.samples = [{'rows': s[0], 'share_of_long_lines': s[1], 'mode': s[2]} for s in specs[:4]]


def replay(ctx, res, payload):
    print('replay: re-run bin/check C04 (cases are regenerated from the seed: %s)' % payload.get('seed'))
