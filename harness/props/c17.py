"""C17 — output files hold exactly the current run's statements."""
import json, os, shutil
from .. import common, family, mapcase

PROPS_FILES = ['theories/Props/C17.v']
FINDINGS_FILES = []
LEVEL = 'proof'
TRUSTED = ['Model/Writer.v abstract file system (remove targeted files, append per group); the real file system, os.remove / os.makedirs / open(..., "a") are not modelled beyond that',
           'the per-group expectation is computed with the library internals (_materialize_mapping_group_to_set) of the same tree']
ASSUMES = ['runs that complete; a run that dies midway leaves partially written files (outside the model)',
           'reading taken: "targeted files" are the paths the configuration of the run maps to; stale files of other group names in a shared output_dir are reported as an observation']
EX = mapcase.EX
OUTS = [('file', 'kg'), ('file', 'kg'), ('file', 'out/kg'), ('file', 'deep/a/b/kg.nt'), ('file', 'kg.tar.gz'), ('file', 'kg.nq'), ('dir', 'outd'), ('dir', 'outd'), ('dir', 'deep/od'),
        ('file', ''), ('both', 'outd'),
        # names that mean something to glob / fnmatch / the shell but are plain characters in a path
        ('dir', 'res [2024]'), ('dir', 'run[1]/kg'), ('dir', 'o?d'), ('file', 'k[g].nt'), ('dir', 'sp ace'), ('file', 'a b/kg')]


def gen_history(rng, n):
    steps = []
    for k in range(n):
        c = mapcase.gen_core_case(rng, hard=False, joins=False)
        c['cfg']['mode'] = rng.choice(['NO', 'PARTIAL-AGGREGATIONS', 'MAXIMAL'])
        c['cfg']['nquads'] = rng.random() < 0.5
        steps.append({'case': c, 'out': rng.choice(OUTS)})
    if n >= 2 and rng.random() < 0.35:
        # a run that dies midway (the data file of a later triples map is missing), followed by runs on the same target
        k = rng.randrange(n - 1)
        c = mapcase.gen_core_case(rng, hard=False, joins=False)
        while len(c['sources']) < 2 or len(set(t['src'] for t in c['doc'])) < 2:
            c = mapcase.gen_core_case(rng, hard=False, joins=False)
        c['cfg']['mode'] = rng.choice(['PARTIAL-AGGREGATIONS', 'MAXIMAL'])
        steps[k] = {'case': c, 'out': steps[k]['out'], 'break_source': 1}
        for j in range(k + 1, n):
            steps[j]['out'] = steps[k]['out']
    if n >= 2 and rng.random() < 0.6:
        steps[-1]['out'] = steps[0]['out']           # come back to the same target
        if rng.random() < 0.5:
            # the same mapping again with fewer rows: groups that had statements now have none
            c = json.loads(json.dumps(steps[0]['case']))
            for s in c['sources']:
                s['rows'] = s['rows'][:max(0, len(s['rows']) - 2)] if rng.random() < 0.7 else []
            steps[-1]['case'] = c
    if n >= 2 and rng.random() < 0.3:
        # the last run comes back to the target of the first with the same mapping, all of whose triples maps are now declared non-asserted:
        # it has no statement of its own, and nothing of the earlier run may survive
        c = json.loads(json.dumps(steps[0]['case']))
        for t in c['doc']:
            t['nonasserted'] = True
        steps[-1] = {'case': c, 'out': steps[0]['out']}
    for st in steps:
        if rng.random() < 0.15:
            st['options'] = rng.choice([['output_kafka_topic=statements'], ['output_kafka_topic=t', 'logging_file=run.log'], ['logging_file=run.log']])   # options that do not select another output
    return steps


def step_config(step, wd, k):
    cfg = mapcase.materialise_files(step['case'], wd, name='s%d' % k)
    if step.get('break_source') is not None:
        try:
            os.remove(os.path.join(wd, 's%d_%d.csv' % (k, step['break_source'])))
        except OSError:
            pass
    kind, val = step['out']
    extra = []
    if kind in ('file', 'both'):
        extra.append('output_file=%s' % (val if kind == 'file' else 'ignored-name'))
    if kind in ('dir', 'both'):
        extra.append('output_dir=%s' % val)
    extra += step.get('options', [])
    return cfg.replace('[CONFIGURATION]\n', '[CONFIGURATION]\n' + '\n'.join(extra) + '\n')


def lines_of(text):
    return sorted(l for l in text.split('\n') if l != '')


def run(ctx, res):
    res.rule = ('histories of 1-4 command-line runs over one directory: different mappings, N-TRIPLES / N-QUADS, three partitioning modes, output_file with plain / dotted / nested names, '
                'output_dir (also nested and together with output_file), coming back to an earlier target with fewer data, with pre-existing files and directories; after every run the '
                '*.nt / *.nq files on disk are compared with the abstract file system of Model/Writer.v (fed with the per-group statements computed by the library internals); '
                'distinct = distinct history; non-trivial = history of at least two runs sharing a target')
    wd = common.workdir()
    hists = [gen_history(ctx.rng, ctx.rng.choice([1, 2, 3, 3, 4])) for _ in range(ctx.scale(24, 400))]
    # directed: every kind of target name visited twice, the second time by a run that writes fewer groups / fewer statements
    for out in OUTS[-6:] + [('file', 'kg'), ('dir', 'outd'), ('file', 'deep/a/b/kg.nt')]:
        for _ in range(ctx.scale(1, 4)):
            a = mapcase.gen_core_case(ctx.rng, hard=False, joins=False)
            while sum(len(t.get('poms', [])) + len(t.get('classes', [])) for t in a['doc']) < 3 or not any(s_['rows'] for s_ in a['sources']):
                a = mapcase.gen_core_case(ctx.rng, hard=False, joins=False)
            a['cfg']['mode'] = ctx.rng.choice(['PARTIAL-AGGREGATIONS', 'MAXIMAL']); a['cfg']['nquads'] = ctx.rng.random() < 0.5
            b = json.loads(json.dumps(a))
            for s_ in b['sources']:
                s_['rows'] = s_['rows'][:max(0, len(s_['rows']) - 2)]
            hists.append([{'case': a, 'out': out}, {'case': b, 'out': out}])
    # directed: (a) a run that dies midway between two completing runs over the same target (whatever the dying run wrote or staged must not
    # reach the files of the next run); (b) output_dir runs whose mapping groups only partially overlap: the second run has a group whose
    # file does not exist yet and that comes, in partition order, before a group whose file holds statements of the first run
    def tmh(k, v, ck='iri', tt=''):
        return {'k': k, 'v': v, 'ck': ck, 'tt': tt}
    EXH = mapcase.EX
    def two_tm_case(rows_a, rows_b, extra_pom, nquads):
        pa = [{'preds': [tmh('const', EXH + 'p/p1')], 'objs': [{'m': tmh('ref', 'v'), 'lang': None, 'dt': None, 'joins': []}], 'graphs': []}]
        if extra_pom:
            pa.append({'preds': [tmh('const', EXH + 'p/p2')], 'objs': [{'m': tmh('ref', 'v'), 'lang': None, 'dt': None, 'joins': []}], 'graphs': []})
        return {'cfg': {'nquads': nquads, 'mode': 'PARTIAL-AGGREGATIONS'},
                'sources': [{'key': 'S0', 'kind': 'csv', 'cols': ['id', 'v'], 'rows': rows_a}, {'key': 'S1', 'kind': 'csv', 'cols': ['id', 'v'], 'rows': rows_b}],
                'doc': [{'id': EXH + 'tm/A', 'src': 'S0', 'nonasserted': False, 'subj': tmh('templ', EXH + 'a/{id}'), 'sjoins': [], 'classes': [], 'sgraphs': [], 'poms': pa},
                        {'id': EXH + 'tm/B', 'src': 'S1', 'nonasserted': False, 'subj': tmh('templ', EXH + 'b/{id}'), 'sjoins': [], 'classes': [], 'sgraphs': [],
                         'poms': [{'preds': [tmh('const', EXH + 'p/p2')], 'objs': [{'m': tmh('ref', 'v'), 'lang': None, 'dt': None, 'joins': []}], 'graphs': []}]}]}
    for out in [('file', 'kg'), ('dir', 'outd'), ('file', 'out/kg'), ('dir', 'deep/od')]:
        nq = ctx.rng.random() < 0.5
        r1 = [[str(i), 'v%d' % i] for i in range(4)]; r2 = [[str(i), 'w%d' % i] for i in range(3)]
        first = two_tm_case(r1, r2, False, nq)
        dying = two_tm_case([[str(i), 'dying%d' % i] for i in range(5)], r2, True, nq)
        last = two_tm_case(r1[:2], r2[:1], True, nq)
        hists.append([{'case': first, 'out': out}, {'case': dying, 'out': out, 'break_source': 1}, {'case': last, 'out': out}])
        hists.append([{'case': first, 'out': out}, {'case': last, 'out': out}])
    jobs, dirs = [], []
    pre = {'kg.nt': '<http://old/s> <http://old/p> "left over" .\n', 'outd/0-0-0-0.nt': '<http://old/s> <http://old/p> "left over group" .\n',
           'outd/1-1-1-1.nt': '<http://old/s> <http://old/p> "stale" .\n', 'out/kg.nq': '<http://old/s> <http://old/p> "old quad" <http://old/g> .\n'}
    for i, h in enumerate(hists):
        d = os.path.join(wd, 'h%d' % i); os.makedirs(d)
        cfgs = [step_config(st, d, k) for k, st in enumerate(h)]
        use_pre = pre if i % 2 == 0 else {}
        jobs.append({'fn': 'cli_history', 'args': {'steps': cfgs, 'cwd': d, 'pre': use_pre}}); dirs.append(d)
    outs = ctx.pool.map(jobs, timeout=600)
    for d in dirs:
        shutil.rmtree(d, ignore_errors=True)
    for h, r in zip(hists, outs):
        if not r.get('ok'):
            res.disagreements.append({'what': 'history job failed: %s' % str(r)[:300], 'replay': None}); continue
        steps = r['result']
        fs = [[p, lines_of(t)] for p, t in sorted(steps[0]['snapshot'].items())]
        runs = []
        shared = len(set(st['out'] for st in h)) < len(h)
        ok_hist = True
        for k, (st, obs) in enumerate(zip(h, steps[1:])):
            res.evaluations += 1
            exp = obs['expect']
            if 'exc' in exp:
                res.count('step:run-dies' if st.get('break_source') is not None else 'step:mapping-or-data-error')
                if obs['rc'] == 0:
                    res.violations.append({'key': None, 'sig': 'rc', 'what': 'the library internals raise %s but the command-line run exits 0' % exp.get('exc'), 'replay': {'history': h[:k + 1]}})
                    ok_hist = False
                    break
                # a run that died leaves files the model does not follow: continue from what is on disk
                fs = [[p, lines_of(t)] for p, t in sorted(obs['snapshot'].items())]
                runs = []
                continue
            if obs['rc'] != 0:
                res.violations.append({'key': None, 'sig': 'cli-fails', 'what': 'command-line run fails where the library succeeds: %s' % obs['log'][-300:], 'replay': {'history': h[:k + 1]}})
                ok_hist = False
                break
            ext = '.nq' if st['case']['cfg'].get('nquads') else '.nt'
            if exp['dirmode']:
                clears = [exp['paths'][g] for g in exp['all_groups']]
                writes = [[exp['paths'][g], [l + ' .' for l in ls]] for g, ls in sorted(exp['asserted'].items())]
            else:
                clears = [exp['single']]
                writes = [[exp['single'], [l + ' .' for l in ls]] for g, ls in sorted(exp['asserted'].items())]
            for p in clears:
                if not p.endswith(ext):
                    res.violations.append({'key': None, 'sig': 'extension', 'what': 'targeted file %r does not carry the extension of the output format (%s)' % (p, ext), 'replay': {'history': h[:k + 1]}})
            runs.append([clears, writes])
            pred = ctx.model.run(['fs.history', fs, runs])
            pred_fs = {p: sorted(ls) for p, ls in pred}
            real_fs = {os.path.normpath(p): lines_of(t) for p, t in obs['snapshot'].items()}
            pred_fs = {os.path.normpath(p): v for p, v in pred_fs.items()}
            res.count('step:%s' % ('dir' if exp['dirmode'] else 'file'))
            if pred_fs != real_fs:
                diffs = []
                for p in sorted(set(pred_fs) | set(real_fs)):
                    if pred_fs.get(p) != real_fs.get(p):
                        a, b = real_fs.get(p), pred_fs.get(p)
                        diffs.append('%s: on disk %s, expected %s' % (p, 'absent' if a is None else '%d lines e.g. %r' % (len(a), [x for x in a if b is None or x not in b][:2]),
                                                                         'absent' if b is None else '%d lines e.g. %r' % (len(b), [x for x in b if a is None or x not in a][:2])))
                res.violations.append({'key': None, 'sig': 'fs:' + ('dir' if exp['dirmode'] else 'file'),
                                       'what': 'after run %d of the history the files differ from exactly-this-run: %s' % (k + 1, '; '.join(diffs)[:700]), 'replay': {'history': h[:k + 1]}})
                ok_hist = False
                break
        if ok_hist and shared and len(h) >= 2:
            res.distinct.add(json.dumps([[s['out'], s['case']['doc']] for s in h], sort_keys=True, ensure_ascii=False))
    res.samples = [{'outputs': [s['out'] for s in hists[0]], 'modes': [s['case']['cfg']['mode'] for s in hists[0]]}]


def replay(ctx, res, payload):
    p = payload.get('case') or {}
    h = p.get('history')
    if not h:
        return
    d = os.path.join(common.workdir(), 'replay'); os.makedirs(d, exist_ok=True)
    cfgs = [step_config(st, d, k) for k, st in enumerate(h)]
    r = ctx.pool.call('cli_history', steps=cfgs, cwd=d, pre={}, timeout=600)
    for k, s in enumerate(r.get('result', [])[1:]):
        print('after run %d: rc=%s files=%s' % (k + 1, s['rc'], {p: len(lines_of(t)) for p, t in s['snapshot'].items()}))
