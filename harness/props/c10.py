"""C10 — the same table gives the same statements whatever the source format."""
import copy, json
from .. import family, mapcase

PROPS_FILES = ['theories/Props/C10.v']
FINDINGS_FILES = []
LEVEL = 'proof'
EXPLANATION = ('Differential check only: the readers are pandas, pyarrow, openpyxl, DuckDB, SQLAlchemy/SQLite, ElementTree and jsonpath; a theorem about /repo cannot carry what those libraries deliver. '
               'Model/Data.v `arrive` states what each reader must hand over for a table of strings and NULLs; this check measures that statement against the code for every kind and compares the kinds pairwise.')
TRUSTED = ['Model/Data.v arrive (statement of reader behaviour, measured here)', 'the writers used by the harness to produce each format (csv module, json, pyarrow, openpyxl via pandas, sqlite3)']
ASSUMES = ['default na_values (the empty string and nan are NULL in every format); string-valued cells only']
EX = mapcase.EX
KINDS = ['csv', 'tsv', 'json', 'xml', 'parquet', 'feather', 'orc', 'xlsx', 'view', 'sqltable', 'sqlquery', 'frame', 'pydict', 'pyjson', 'pylist']
POOL = ['a', 'b c', ' lead', 'trail ', '  both  ', ' ', '   ', 'q"uote', "it's", 'a,b', 'semi;colon', 'tab\there', 'pipe|x', '01', '007', '1.50', '1e3', '-0', 'true', 'TRUE', 'False', 'None', 'NULL', 'null', 'N/A',
        'NaN', 'é', '日本', '😀', 'a\\b', '<tag>', 'a&b', '2020-01-01', '10:00', 'x' * 300, '{brace}', '#hash', '%41', "'apostrophe", '"', '""']


def tm(k, v, ck='iri', tt=''):
    return {'k': k, 'v': v, 'ck': ck, 'tt': tt}


def gen_table_case(rng):
    n = rng.choice([1, 2, 3, 5, 8])
    numeric_col = rng.random() < 0.35
    rows = []
    for i in range(n):
        r = [str(i + 1)]
        for j in range(3):
            if rng.random() < 0.12:
                r.append(None)
            elif j == 2 and numeric_col:
                r.append(rng.choice(['01', '7', '10', '003', '1.50', '2.0']))
            else:
                r.append(rng.choice(POOL))
        rows.append(r)
    if rng.random() < 0.5:
        # rows that differ only in letter case on the columns some rule uses (a reader must not fold them)
        rows.append([str(n + 1), 'Abc', 'same', rng.choice(POOL)])
        rows.append([str(n + 2), 'abc', 'same', rng.choice(POOL)])
        rows.append([str(n + 3), 'ABC', 'same', rng.choice(POOL)])
    poms = [{'preds': [tm('const', EX + 'p/c%d' % j)], 'objs': [{'m': tm('ref', 'c%d' % j), 'lang': None, 'dt': None, 'joins': []}], 'graphs': []} for j in (1, 2, 3)]
    poms.append({'preds': [tm('const', EX + 'p/t')], 'objs': [{'m': tm('templ', EX + 'o/{c1}/{c3}'), 'lang': None, 'dt': None, 'joins': []}], 'graphs': []})
    return {'cfg': {'nquads': False, 'mode': 'NO'}, 'sources': [{'key': 'S0', 'kind': 'csv', 'cols': ['id', 'c1', 'c2', 'c3'], 'rows': rows}],
            'doc': [{'id': EX + 'tm/T', 'src': 'S0', 'nonasserted': False, 'subj': tm('templ', EX + 'r/{id}'), 'sjoins': [], 'classes': [], 'sgraphs': [], 'poms': poms},
                    {'id': EX + 'tm/U', 'src': 'S0', 'nonasserted': False, 'subj': tm('templ', EX + 's/{c1}'), 'sjoins': [], 'classes': [], 'sgraphs': [],
                     'poms': [{'preds': [tm('const', EX + 'p/u')], 'objs': [{'m': tm('ref', 'c2'), 'lang': None, 'dt': None, 'joins': []}], 'graphs': []}]}]}


def xml_safe(case):
    for r in case['sources'][0]['rows']:
        for i, v in enumerate(r):
            if isinstance(v, str) and any(ord(ch) < 32 and ch not in '\t' for ch in v):
                r[i] = 'ctl'
    return case


def triggers_for(kind, case):
    """recorded findings a (kind, table) pair triggers"""
    out = set()
    rows = case['sources'][0]['rows']
    if kind == 'frame' and any(isinstance(v, str) and '"' in v for r in rows for v in r):
        out.add('dataframe-quotes')
    if kind == 'view':
        import re
        for j in range(len(case['sources'][0]['cols'])):
            col = [r[j] for r in rows if isinstance(r[j], str) and r[j] != '']
            if col and all(re.fullmatch(r'\s*([-+]?(\d+\.?\d*|\.\d+)([eE][-+]?\d+)?|nan|NaN|inf|true|false|TRUE|FALSE|True|False|\d{4}-\d\d-\d\d.*|\d\d:\d\d(:\d\d)?)\s*', v) for v in col):
                out.add('view-type-inference')
        if any(isinstance(v, str) and (v in ('NULL', 'null', '"', '""') or v.strip() != v or '"' in v) for r in rows for v in r):
            out.add('view-csv-dialect')
    return out


def run(ctx, res):
    res.rule = ('one table of strings (blanks at the edges, quotes, separators, digits with leading zeros, words such as true / None / NULL, long and non-ASCII values, NULLs) is delivered as '
                + ', '.join(KINDS) + ' and, for file kinds, also named through the file_path option; every result must equal the CSV result and the Engine model; '
                'distinct = distinct (table, kind); non-trivial = table with at least one value that is not a plain word')
    known = set(ctx.known)
    tables = [xml_safe(gen_table_case(ctx.rng)) for _ in range(ctx.scale(14, 300))]
    batch = family.Batch(ctx)
    ref = [r for r in batch.run(tables)]
    for t, r0 in zip(tables, ref):
        family.judge(res, r0, known)
    variants, meta = [], []
    for t, r0 in zip(tables, ref):
        for k in KINDS[1:]:
            c = copy.deepcopy(t)
            c['sources'][0]['kind'] = k
            if k in ('sqltable', 'sqlquery') and ctx.rng.random() < 0.5:
                c['sources'][0]['types'] = ['TEXT'] + ['TEXT COLLATE NOCASE'] * 3      # the collation of a column is not part of its values
            variants.append(c); meta.append((t, r0['impl'], k, False))
            if k == 'frame':
                c2 = copy.deepcopy(c); c2['sources'][0]['dup_index'] = True      # the same table as a frame whose index labels repeat
                variants.append(c2); meta.append((t, r0['impl'], k, False))
        for k in ('csv', 'json', 'parquet'):
            c = copy.deepcopy(t)
            c['sources'][0]['kind'] = k
            c['file_path_option'] = 'S0'
            variants.append(c); meta.append((t, r0['impl'], k, True))
    for (t, w, k, fp), rec in zip(meta, batch.run(variants, want_spec=False)):
        res.evaluations += 1
        o = rec['impl']
        res.count('kind:' + k + (':file_path' if fp else ''))
        res.distinct.add((json.dumps(t['sources'][0]['rows'], ensure_ascii=False), k, fp))
        trig = triggers_for(k, t)
        if not family.same(w, o):
            hit = [x for x in sorted(trig) if x in known]
            if hit and (rec['model'][0] == 'unmodelled' or family.same(o, rec['model']) or k == 'view'):
                for x in hit[:1]:
                    res.violations.append({'key': x, 'what': 'recorded finding reproduced', 'replay': None})
                continue
            def brief(x):
                return x if x[0] != 'ok' else ('ok', len(x[1]))
            res.violations.append({'key': None, 'sig': 'kind:' + k, 'what': 'source kind %s%s gives other statements than CSV: CSV %s, %s %s; only CSV %r, only %s %r'
                                   % (k, ' (file_path option)' if fp else '', brief(w), k, brief(o), [x[-60:] for x in (w[1] if w[0] == 'ok' else []) if o[0] == 'ok' and x not in o[1]][:3], k,
                                      [x[-60:] for x in (o[1] if o[0] == 'ok' else []) if w[0] == 'ok' and x not in w[1]][:3]), 'replay': {'case': rec['case']}})
        elif rec['model'][0] == 'ok' and not family.same(o, rec['model']) and not trig:
            res.disagreements.append({'what': 'reader model for kind %s differs from the implementation' % k, 'replay': rec['case']})
    # the table behind a path may change between two materializations in one process: the second one must read the file as it is now
    import os, shutil
    from .. import common
    wd = common.workdir()
    for k in ['csv', 'tsv', 'json', 'xml', 'parquet', 'view', 'xlsx'] * ctx.scale(1, 6):
        ta, tb = xml_safe(gen_table_case(ctx.rng)), xml_safe(gen_table_case(ctx.rng))
        for t in (ta, tb):
            t['sources'][0]['kind'] = k
        tb['doc'] = ta['doc']; tb['cfg'] = ta['cfg']
        da, db = os.path.join(wd, 'ow_a_%d' % res.evaluations), os.path.join(wd, 'ow_b_%d' % res.evaluations)
        os.makedirs(da); os.makedirs(db)
        cfg_a = mapcase.materialise_files(ta, da); mapcase.materialise_files(tb, db)
        r = ctx.pool.map([{'fn': 'mat_overwrite', 'args': {'config': cfg_a, 'dir_a': da, 'dir_b': db}}], timeout=240, fresh=True)[0]
        fresh_b = batch.run([tb], want_spec=False)[0]['impl']
        shutil.rmtree(da, ignore_errors=True); shutil.rmtree(db, ignore_errors=True)
        res.evaluations += 1
        res.count('rewritten-file:' + k)
        if not r.get('ok'):
            res.disagreements.append({'what': 'mat_overwrite failed: %s' % str(r)[:300], 'replay': None}); continue
        second = family.impl_outcome({'ok': True, 'result': r['result'][1]})
        if not family.same(second, fresh_b):
            res.violations.append({'key': None, 'sig': 'rewritten:' + k, 'what': 'a %s file rewritten between two materializations in one process: the second run gives %s, the table now in the file gives %s'
                                   % (k, str(second)[:200], str(fresh_b)[:200]), 'replay': {'case': tb}})
    # a .csv file with another delimiter (semicolon) goes through the delimiter-sniffing fallback of _read_csv: tame cells
    # (no separators, quotes or blanks: the sniffer is a heuristic) whose lexical form a typed read would not keep
    TAME = ['a', 'b7', '007', '1.50', '20.00', '1e3', '-0', '3.14159265358979323846', 'true', 'None', 'x_y', '10', '2020-01-01', 'a"b', 'say "hi"', '"q"']
    tame = []
    for _ in range(ctx.scale(10, 150)):
        t = gen_table_case(ctx.rng)
        for r in t['sources'][0]['rows']:
            for i in range(1, len(r)):
                r[i] = ctx.rng.choice(TAME)
        tame.append(t)
    ssv = []
    for t in tame:
        c = copy.deepcopy(t); c['sources'][0]['kind'] = 'ssv'; ssv.append(c)
    for t, a, b in zip(tame, batch.run(tame, want_spec=False), batch.run(ssv, want_spec=False)):
        res.evaluations += 1
        res.count('kind:ssv')
        res.distinct.add((json.dumps(t['sources'][0]['rows'], ensure_ascii=False), 'ssv', False))
        if not family.same(a['impl'], b['impl']):
            def brief(x):
                return x if x[0] != 'ok' else ('ok', len(x[1]))
            res.violations.append({'key': None, 'sig': 'kind:ssv', 'what': 'a semicolon-separated .csv file gives other statements than the comma-separated one: CSV %s, semicolon %s; only CSV %r, only semicolon %r'
                                   % (brief(a['impl']), brief(b['impl']), [x[-60:] for x in (a['impl'][1] if a['impl'][0] == 'ok' else []) if b['impl'][0] == 'ok' and x not in b['impl'][1]][:3],
                                      [x[-60:] for x in (b['impl'][1] if b['impl'][0] == 'ok' else []) if a['impl'][0] == 'ok' and x not in a['impl'][1]][:3]), 'replay': {'case': b['case']}})
    res.samples = [{'rows': tables[0]['sources'][0]['rows'][:3], 'kinds': KINDS + ['ssv']}]


def replay(ctx, res, payload):
    p = payload.get('case') or {}
    case = p.get('case', p)
    rec = family.Batch(ctx).run([case], want_spec=False)[0]
    c2 = copy.deepcopy(case); c2['sources'][0]['kind'] = 'csv'; c2.pop('file_path_option', None)
    w = family.Batch(ctx).run([c2], want_spec=False)[0]['impl']
    print('as given:', str(rec['impl'])[:800]); print('as CSV  :', str(w)[:800])
    if not family.same(w, rec['impl']):
        res.violations.append({'key': None, 'what': 'replayed: differs from CSV', 'replay': p})
