"""C13 — RDF-star statements quote exactly the triples their quoted maps generate."""
from .. import family, mapcase

PROPS_FILES = ['theories/Props/C13.v']
FINDINGS_FILES = ['theories/Findings/Recorded.v']
LEVEL = 'proof'
TRUSTED = ['Model/Spec.v subj_terms / tm_triples / obj_terms: the reading of quoted triples maps (the quoted term for a row is each triple the quoted map generates for that row or for the joined rows)',
           'Model/Mapping.v expand_tm: the expansion of quoted references into one rule per rule of the quoted map; Model/Engine.v quoted branches (tied by the correspondence)']
ASSUMES = ['CSV sources; nesting depth <= 3 in the generator (the model and the theorems are unbounded in depth)']
EX = mapcase.EX


def tm(k, v, ck='iri', tt=''):
    return {'k': k, 'v': v, 'ck': ck, 'tt': tt}


def gen_star_case(rng):
    vals = ['a', 'b', '1', '2', 'x y', 'é']
    def table(key, cols, n):
        return {'key': key, 'kind': 'csv', 'cols': cols, 'rows': [[(None if rng.random() < 0.12 else rng.choice(vals)) for _ in cols] for _ in range(n)]}
    s0 = table('S0', ['c1', 'c2', 'c3', 'c4'], rng.choice([0, 1, 2, 3, 4]))
    s1 = table('S1', ['c1', 'c2', 'c5'], rng.choice([1, 2, 3, 4]))
    sources = [s0, s1]
    def obj(m, joins=None):
        return {'m': m, 'lang': None, 'dt': None, 'joins': joins or []}
    def plain_obj(cols):
        r = rng.random()
        if r < 0.4:
            return obj(tm('templ', EX + 'o/{' + rng.choice(cols) + '}'))
        if r < 0.7:
            return obj(tm('ref', rng.choice(cols)))
        return obj(tm('const', EX + 'o/k'))
    def poms(cols, n, multi=True):
        out = []
        for i in range(n):
            out.append({'preds': [tm('const', EX + 'p/' + rng.choice(['p', 'q', 'r']))] + ([tm('const', EX + 'p/s')] if multi and rng.random() < 0.25 else []),
                        'objs': [plain_obj(cols)] + ([plain_obj(cols)] if multi and rng.random() < 0.3 else []), 'graphs': []})
        return out
    doc = []
    base_src = rng.choice(sources)
    base = {'id': EX + 'tm/Q0', 'src': base_src['key'], 'nonasserted': rng.random() < 0.5, 'subj': tm('templ', EX + 's/{c1}'), 'sjoins': [], 'classes': [],
            'sgraphs': ([tm('const', EX + 'g/g1')] if rng.random() < 0.2 else []), 'poms': poms(base_src['cols'], rng.choice([1, 1, 2]))}
    doc.append(base)
    prev = base
    depth = rng.choice([1, 1, 2, 3])
    for d in range(depth):
        src = next(x for x in sources if x['key'] == prev['src']) if rng.random() < 0.65 else rng.choice(sources)
        cols = src['cols']
        prev_src = next(s for s in sources if s['key'] == prev['src'])
        need_join = src is not prev_src or rng.random() < 0.15
        joins = []
        if need_join:
            shared = [c for c in cols if c in prev_src['cols']]
            joins = [[rng.choice(shared), rng.choice(shared)] for _ in range(rng.choice([1, 1, 2]))]
        pos = rng.choice(['subject', 'object', 'both'])
        t = {'id': EX + 'tm/Q%d' % (d + 1), 'src': src['key'], 'nonasserted': (d < depth - 1 and rng.random() < 0.4), 'sjoins': [], 'classes': [], 'sgraphs': [], 'poms': []}
        if pos in ('subject', 'both'):
            t['subj'] = tm('quoted', prev['id'])
            t['sjoins'] = joins
        else:
            t['subj'] = tm('templ', EX + 't/{' + rng.choice(cols) + '}')
        if pos in ('object', 'both'):
            target = prev if pos == 'object' or rng.random() < 0.6 else base
            tsrc = next(s for s in sources if s['key'] == target['src'])
            oj = joins if target is prev else ([[rng.choice([c for c in cols if c in tsrc['cols']])] * 2] if tsrc is not src else [])
            t['poms'].append({'preds': [tm('const', EX + 'p/about')], 'objs': [obj(tm('quoted', target['id']), oj)], 'graphs': []})
            if rng.random() < 0.4:
                t['poms'] += poms(cols, 1, multi=False)
        else:
            t['poms'] = poms(cols, rng.choice([1, 2]))
        if rng.random() < 0.15:
            t['sgraphs'] = [tm('templ', EX + 'g/{' + rng.choice(cols) + '}')]
        doc.append(t)
        prev = t
    rng.shuffle(doc)
    return {'cfg': {'nquads': rng.random() < 0.4, 'mode': rng.choice(['NO', 'PARTIAL-AGGREGATIONS', 'MAXIMAL'])}, 'sources': sources, 'doc': doc}


def expansion_size(case):
    """number of flat rules after the expansion of quoted references (product over quoted positions)"""
    by_id = {t['id']: t for t in case['doc']}
    memo = {}
    def size(tid, depth=0):
        if tid in memo:
            return memo[tid]
        t = by_id.get(tid)
        if t is None or depth > 8:
            return 1
        s_mult = size(t['subj']['v'], depth + 1) if t['subj']['k'] == 'quoted' else 1
        n = 0
        for p in t.get('poms', []):
            for o in p['objs']:
                o_mult = size(o['m']['v'], depth + 1) if o['m']['k'] == 'quoted' else 1
                n += len(p['preds']) * max(1, len(p.get('graphs', []) + t.get('sgraphs', []))) * o_mult
        memo[tid] = max(1, n) * s_mult
        return memo[tid]
    return max(size(t['id']) for t in case['doc'])


def features(case):
    f = set()
    for t in case['doc']:
        if t['subj']['k'] == 'quoted':
            f.add('quoted-subject' + ('+join' if t.get('sjoins') else ''))
        for p in t.get('poms', []):
            for o in p['objs']:
                if o['m']['k'] == 'quoted':
                    f.add('quoted-object' + ('+join' if o.get('joins') else ''))
        if t.get('nonasserted'):
            f.add('non-asserted')
    f.add('tms=%d' % len(case['doc']))
    return f


def style_fn(c):
    import hashlib, json as _j
    h = int(hashlib.md5(_j.dumps(c['doc'], sort_keys=True).encode()).hexdigest(), 16)
    if (h % 3 == 1 or c.get('spelling') == 'yarrrml') and mapcase.yarrrml_ok(c):
        return mapcase.Style(vocab='yarrrml')        # YARRRML-star: quoted / quotedNonAsserted
    return mapcase.Style(vocab='legacy') if h % 3 == 0 else None


def run(ctx, res):
    res.rule = ('chains of quoted triples maps (depth 1-3) in subject, object or both positions, with and without join conditions, same and other source, '
                'asserted and non-asserted, quoted maps with several predicate-object maps / predicates / objects, NULLs inside the quoted triple, all three '
                'partitioning modes; implementation against the Engine model and the Spec; distinct = distinct case; non-trivial = at least one RDF-star statement prescribed')
    cases = [c for c in (gen_star_case(ctx.rng) for _ in range(ctx.scale(160, 4000))) if expansion_size(c) <= 40]
    # a third of the cases that YARRRML can express is written in YARRRML; a third of the cases is written in the legacy RML vocabulary (its own quotedTriplesMap / NonAssertedTriplesMap / subjectMap terms)
    # directed: a NON-ASSERTED quoted triples map with several predicate-object maps, always written in YARRRML (quotedNonAsserted)
    found, tries = 0, 0
    while found < ctx.scale(8, 60) and tries < 4000:
        tries += 1
        g = gen_star_case(ctx.rng)
        if expansion_size(g) <= 40 and mapcase.yarrrml_ok(g) and any(t.get('nonasserted') and len(t.get('poms', [])) >= 2 for t in g['doc']) and not family.triggers(g):
            g['spelling'] = 'yarrrml'
            cases.append(g); found += 1
    # directed: a quoted triples map joined to the SAME source on one same-named column whose values repeat, the quoted triple built from other columns: each
    # record quotes the triples of every record sharing the key (a join, not "the same record").  Position x asserted x mode taken in turn.
    for i in range(ctx.scale(8, 48)):
        rows = [[v, k, 'z%d' % j] for j, (v, k) in enumerate([('a', 'k1'), ('b', 'k1'), ('c', 'k2'), ('d', 'k1'), ('e', None)][:3 + i % 3])]
        src = {'key': 'S0', 'kind': 'csv', 'cols': ['c1', 'c2', 'c3'], 'rows': rows}
        q0 = {'id': EX + 'tm/Q0', 'src': 'S0', 'nonasserted': (i // 2) % 2 == 0, 'subj': tm('templ', EX + 's/{c1}'), 'sjoins': [], 'classes': [], 'sgraphs': [],
              'poms': [{'preds': [tm('const', EX + 'p/p')], 'objs': [{'m': tm('ref', 'c3', 'lit'), 'lang': None, 'dt': None, 'joins': []}], 'graphs': []}]}
        if i % 2 == 0:
            q1 = {'id': EX + 'tm/Q1', 'src': 'S0', 'nonasserted': False, 'subj': tm('quoted', q0['id']), 'sjoins': [['c2', 'c2']], 'classes': [], 'sgraphs': [],
                  'poms': [{'preds': [tm('const', EX + 'p/seenBy')], 'objs': [{'m': tm('templ', EX + 'o/{c1}'), 'lang': None, 'dt': None, 'joins': []}], 'graphs': []}]}
        else:
            q1 = {'id': EX + 'tm/Q1', 'src': 'S0', 'nonasserted': False, 'subj': tm('templ', EX + 't/{c1}'), 'sjoins': [], 'classes': [], 'sgraphs': [],
                  'poms': [{'preds': [tm('const', EX + 'p/about')], 'objs': [{'m': tm('quoted', q0['id']), 'lang': None, 'dt': None, 'joins': [['c2', 'c2']]}], 'graphs': []}]}
        cases.append({'cfg': {'nquads': i % 4 == 3, 'mode': ['NO', 'PARTIAL-AGGREGATIONS', 'MAXIMAL'][i % 3]}, 'sources': [src], 'doc': [q1, q0] if i % 2 else [q0, q1]})
    family.run_family(ctx, res, cases, features, style_fn=style_fn)


def replay(ctx, res, payload):
    family.replay_family(ctx, res, payload, style_fn=style_fn)
