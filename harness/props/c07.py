"""C07 — referencing object maps implement the relational inner equi-join."""
from .. import family, mapcase

PROPS_FILES = ['theories/Props/C07.v']
FINDINGS_FILES = ['theories/Findings/C07.v']
LEVEL = 'proof'
TRUSTED = ['Model/Spec.v joined_rows: the relational inner equi-join (list comprehension over child x parent rows, NULL keys never match)',
           'Model/Engine.v merge_data / refobj branch: pandas index join and merge are modelled as the same relation (agreement measured by the correspondence)']
ASSUMES = ['CSV sources; other formats: C10']
EX = mapcase.EX


def gen_join_case(rng):
    keys = ['1', '2', '2', '3', 'a', 'A', ' 1', '1 ', '01', 'é']
    if rng.random() < 0.4:
        # values whose concatenations are ambiguous under some separator: (x+sep+y, z) vs (x, y+sep+z)
        sep = rng.choice(['_', '-', ' ', ',', '|', '', '\t', '/', '#'])
        keys = ['a', 'b', 'c', 'a' + sep + 'b', 'b' + sep + 'c', 'a' + sep, sep + 'c', sep]
    def table(key, cols, n):
        return {'key': key, 'kind': 'csv', 'cols': cols, 'rows': [[(None if rng.random() < 0.15 else rng.choice(keys)) for _ in cols] for _ in range(n)]}
    same = rng.random() < 0.35
    s0 = table('S0', ['id', 'k1', 'k2', 'name'], rng.choice([0, 1, 3, 4, 6]))
    s1 = s0 if same else table('S1', rng.choice([['pid', 'k1', 'k2', 'label'], ['id', 'k1', 'k2', 'name']]), rng.choice([0, 1, 3, 4, 6]))
    if not same and rng.random() < 0.2:
        s1['rows'] = [list(r) for r in s0['rows']]     # another file with equal content
        s1['cols'] = list(s0['cols'])
    sources = [s0] if same else [s0, s1]
    pc = s1['cols']
    parent_subj = rng.choice([{'k': 'templ', 'v': EX + 'p/{' + pc[0] + '}', 'ck': 'iri', 'tt': ''},
                              {'k': 'templ', 'v': EX + 'p/{' + pc[3] + '}', 'ck': 'iri', 'tt': ''},
                              {'k': 'templ', 'v': 'b{' + pc[0] + '}', 'ck': 'iri', 'tt': 'bnode'},
                              {'k': 'ref', 'v': pc[3], 'ck': 'iri', 'tt': 'iri'},
                              mapcase.tm_const_iri(EX + 'const/parent')])
    nconds = rng.choice([1, 1, 2, 3])
    conds = []
    for _ in range(nconds):
        c = rng.choice(['k1', 'k2', 'id'])
        p = c if (same and rng.random() < 0.5) else rng.choice([x for x in pc if x in ('k1', 'k2', 'id', 'pid')])
        conds.append([c, p])
    if same and rng.random() < 0.12:
        conds = []              # no join condition over the same logical table: the parent's subject term of the same row
    if same and nconds >= 2 and conds and rng.random() < 0.4:
        # a permutation: every column appears on both sides, but not paired with itself
        a, b = rng.sample(['k1', 'k2', 'id'], 2)
        conds = [[a, b], [b, a]] + conds[2:]
    if len(conds) >= 2 and rng.random() < 0.6:
        sep2 = rng.choice(['_', '-', ' ', ',', '|', '', '/', '#', '_'])
        (c1, p1), (c2, p2) = conds[0], conds[1]
        if c1 != c2 and p1 != p2:
            crow = [rng.choice(keys) for _ in s0['cols']]
            prow = [rng.choice(keys) for _ in s1['cols']]
            crow[s0['cols'].index(c1)], crow[s0['cols'].index(c2)] = 'a' + sep2 + 'b', 'c'
            prow[s1['cols'].index(p1)], prow[s1['cols'].index(p2)] = 'a', 'b' + sep2 + 'c'
            for (c, p) in conds[2:]:
                crow[s0['cols'].index(c)] = 'k'
                prow[s1['cols'].index(p)] = 'k'
            s0['rows'].append(crow)
            if s1 is not s0:
                s1['rows'].append(prow)
            else:
                s0['rows'].append(prow)
    child = {'id': EX + 'tm/Child', 'src': 'S0', 'nonasserted': False, 'subj': {'k': 'templ', 'v': EX + 'c/{id}', 'ck': 'iri', 'tt': ''}, 'sjoins': [],
             'classes': [], 'sgraphs': [], 'poms': [{'preds': [mapcase.tm_const_iri(EX + 'p/link')],
                                                    'objs': [{'m': {'k': 'parent', 'v': EX + 'tm/Parent', 'ck': 'iri', 'tt': ''}, 'lang': None, 'dt': None, 'joins': conds}],
                                                    'graphs': []}]}
    if rng.random() < 0.4:
        child['poms'].append({'preds': [mapcase.tm_const_iri(EX + 'p/name')], 'objs': [{'m': {'k': 'ref', 'v': 'name', 'ck': 'iri', 'tt': ''}, 'lang': None, 'dt': None, 'joins': []}], 'graphs': []})
    parent = {'id': EX + 'tm/Parent', 'src': s1['key'], 'nonasserted': rng.random() < 0.2, 'subj': parent_subj, 'sjoins': [], 'classes': [], 'sgraphs': [],
              'poms': ([{'preds': [mapcase.tm_const_iri(EX + 'p/label')], 'objs': [{'m': {'k': 'ref', 'v': pc[3], 'ck': 'iri', 'tt': ''}, 'lang': None, 'dt': None, 'joins': []}], 'graphs': []}]
                       if rng.random() < 0.7 else [])}
    return {'cfg': {'nquads': rng.random() < 0.3, 'mode': rng.choice(['NO', 'PARTIAL-AGGREGATIONS', 'MAXIMAL'])}, 'sources': sources, 'doc': [child, parent]}


def gen_hierarchy_case(rng):
    """One table joined with itself on different columns (employee.mgr = manager.id): rows that are join partners on the parent side
    while NULL in a column only the child side reads (the root of the hierarchy), and the converse."""
    ids = ['1', '2', '3', '4', '5', '6']
    n = rng.choice([3, 4, 6])
    rows = []
    for i in range(n):
        mgr = None if (i == 0 or rng.random() < 0.2) else rng.choice(ids[:i])
        rows.append([ids[i], mgr, (None if rng.random() < 0.25 else 'n' + ids[i]), (None if rng.random() < 0.25 else rng.choice(['x', 'y']))])
    rng.shuffle(rows)
    s0 = {'key': 'S0', 'kind': 'csv', 'cols': ['id', 'mgr', 'name', 'dept'], 'rows': rows}
    conds = [['mgr', 'id']] + ([['dept', 'dept']] if rng.random() < 0.25 else [])
    child_subj = rng.choice([{'k': 'templ', 'v': EX + 'c/{id}', 'ck': 'iri', 'tt': ''}, {'k': 'templ', 'v': EX + 'c/{id}/{name}', 'ck': 'iri', 'tt': ''}])
    parent_subj = rng.choice([{'k': 'templ', 'v': EX + 'c/{id}', 'ck': 'iri', 'tt': ''}, {'k': 'templ', 'v': EX + 'p/{id}/{name}', 'ck': 'iri', 'tt': ''},
                              {'k': 'templ', 'v': 'b{id}', 'ck': 'iri', 'tt': 'bnode'}])
    child = {'id': EX + 'tm/Child', 'src': 'S0', 'nonasserted': False, 'subj': child_subj, 'sjoins': [], 'classes': [], 'sgraphs': [],
             'poms': [{'preds': [mapcase.tm_const_iri(EX + 'p/reportsTo')],
                       'objs': [{'m': {'k': 'parent', 'v': EX + 'tm/Parent', 'ck': 'iri', 'tt': ''}, 'lang': None, 'dt': None, 'joins': conds}], 'graphs': []}]}
    if rng.random() < 0.5:
        child['poms'].append({'preds': [mapcase.tm_const_iri(EX + 'p/name')], 'objs': [{'m': {'k': 'ref', 'v': 'name', 'ck': 'iri', 'tt': ''}, 'lang': None, 'dt': None, 'joins': []}], 'graphs': []})
    parent = {'id': EX + 'tm/Parent', 'src': 'S0', 'nonasserted': rng.random() < 0.3, 'subj': parent_subj, 'sjoins': [], 'classes': [], 'sgraphs': [],
              'poms': ([{'preds': [mapcase.tm_const_iri(EX + 'p/dept')], 'objs': [{'m': {'k': 'ref', 'v': 'dept', 'ck': 'iri', 'tt': ''}, 'lang': None, 'dt': None, 'joins': []}], 'graphs': []}]
                       if rng.random() < 0.5 else [])}
    return {'cfg': {'nquads': rng.random() < 0.3, 'mode': rng.choice(['NO', 'PARTIAL-AGGREGATIONS', 'MAXIMAL'])}, 'sources': [s0], 'doc': [child, parent]}


def features(case):
    f = set()
    o = case['doc'][0]['poms'][0]['objs'][0]
    f.add('conds=%d' % len(o['joins']))
    f.add('same-source' if case['doc'][0]['src'] == case['doc'][1]['src'] else 'other-source')
    f.add('selfjoin-shape' if all(c == p for c, p in o['joins']) else 'general')
    f.add('parent-subject:' + case['doc'][1]['subj']['k'])
    return f


def run(ctx, res):
    res.rule = ('child and parent tables with duplicate keys on either side, NULL keys, keys differing only in blanks / case / leading zeros, no matches; 1-3 join conditions; '
                'same file, other file, other file with equal content; a sixth of the cases a hierarchy over one table (mgr = id) whose root rows are NULL in child-only columns; parent subject maps using or not using the join columns; each case against the Engine model and the Spec join; '
                'distinct = distinct case; non-trivial = at least one joined statement prescribed')
    family.run_family(ctx, res, [(gen_hierarchy_case(ctx.rng) if i % 6 == 5 else gen_join_case(ctx.rng)) for i in range(ctx.scale(180, 4200))], features, style_fn=style_fn)


from .c01 import style_fn       # spellings: YARRRML / legacy vocabulary / shared subject maps by a hash of the document


def replay(ctx, res, payload):
    family.replay_family(ctx, res, payload, style_fn=style_fn)
