"""C14 — function-valued term maps yield the function applied to each row."""
import json
from .. import family, mapcase

PROPS_FILES = ['theories/Props/C14.v']
FINDINGS_FILES = ['theories/Findings/C14.v', 'theories/Findings/Recorded.v']
LEVEL = 'proof'
TRUSTED = ['Model/Functions.v: ASCII-exact definitions of 8 built-in functions (parameters regenerated from bif_dict) and of the 5 user-defined functions of harness/udfs.py',
           'Model/Engine.v exec_fnml (row-wise reading of execute_fnml: inner executions stored as columns, binding by parameter IRI, null removal, explode) and Model/Spec.v spec_eval (the property\'s reading)']
ASSUMES = ['partial claim: Unicode case mappings, strptime, SHA-256, round and uuid are not modelled; such cases are judged by the partition-independence oracle only']
EX = mapcase.EX
GREL = 'http://users.ugent.be/~bjdmeest/function/grel.ttl#'
MK = 'https://github.com/morph-kgc/morph-kgc/function/built-in.ttl#'
FN = EX + 'fn/'
FUNS = {
    'upper': (GREL + 'toUpperCase', [GREL + 'valueParam']),
    'lower': (GREL + 'toLowerCase', [GREL + 'valueParam']),
    'reverse': (GREL + 'reverse', [GREL + 'valueParam']),
    'trim': (GREL + 'string_trim', [GREL + 'valueParam']),
    'replace': (GREL + 'string_replace', [GREL + 'valueParam', GREL + 'param_find', GREL + 'param_replace']),
    'concat': (MK + 'concat', [GREL + 'valueParam1', GREL + 'valueParam2', GREL + 'param_string_sep']),
    'split': (MK + 'string_split_explode', [GREL + 'valueParam', GREL + 'param_string_sep']),
    'ifcast': (MK + 'controls_if_cast', [GREL + 'bool_b', GREL + 'any_true', GREL + 'any_false']),
    'dup': (FN + 'dup', [FN + 'p_v']),
    'nullif': (FN + 'nullif', [FN + 'p_v', FN + 'p_x']),
    'empty': (FN + 'empty', [FN + 'p_v']),
    'maybe': (FN + 'maybe', [FN + 'p_v']),
    'pair': (FN + 'pair', [FN + 'p_a', FN + 'p_b']),
}
VALS = ['a', 'Bc', 'x y', ' pad ', 'a,b', 'a,b,c', ',', 'false', 'No', '0', 'yes', 'TRUE', 'é', 'ß', 'İ', 'x', 'None', 'nan', 'a-b', '', 'be\x07ll', 'zero\u200bwidth,x']


def tm(k, v, ck='iri', tt=''):
    return {'k': k, 'v': v, 'ck': ck, 'tt': tt}


class Gen:
    def __init__(self, rng, cols):
        self.rng, self.cols, self.execs, self.n = rng, cols, [], 0

    def arg(self, depth):
        r = self.rng.random()
        if r < 0.45:
            return ('ref', self.rng.choice(self.cols))
        if r < 0.6:
            return ('const', self.rng.choice(['x', ',', '-', 'a', ' ', 'no', 'b']))
        if r < 0.75:
            return ('templ', self.rng.choice(['{%s}', 'v:{%s}', '{%s}-{%s}' ]).replace('%s', self.rng.choice(self.cols), 1).replace('%s', self.rng.choice(self.cols)))
        if depth < 2:
            return ('exec', self.execution(depth + 1))
        return ('ref', self.rng.choice(self.cols))

    def execution(self, depth=0):
        name = self.rng.choice(list(FUNS))
        fid, params = FUNS[name]
        self.n += 1
        eid = EX + 'exec/E%d' % self.n
        inputs = []
        for i, p in enumerate(params):
            if name in ('concat', 'ifcast') and i == 2 and self.rng.random() < 0.5:
                continue                      # optional parameter left out
            k, v = self.arg(depth)
            if name == 'split' and i == 1:
                k, v = 'const', self.rng.choice([',', '-', ' ', 'b'])
            if name == 'replace' and i == 1:
                k, v = 'const', self.rng.choice(['a', ',', 'x y', 'B'])
            inputs.append([p, k, v])
        self.rng.shuffle(inputs)
        self.execs.append({'id': eid, 'fun': fid, 'inputs': inputs})
        return eid


def gen_fn_case(rng):
    cols = ['id', 'c1', 'c2', 'c3']
    n = rng.choice([1, 2, 3, 4, 5])
    rows = [[str(i + 1)] + [(None if rng.random() < 0.1 else rng.choice(VALS)) for _ in cols[1:]] for i in range(n)]
    g = Gen(rng, cols[1:])
    poms = []
    for i in range(rng.choice([1, 1, 2, 3])):
        pos = rng.choice(['object', 'object', 'object', 'predicate', 'graph', 'subject2'])
        pred = tm('const', EX + 'p/p%d' % i)
        obj = {'m': tm('ref', 'c1'), 'lang': None, 'dt': None, 'joins': []}
        graphs = []
        if pos == 'object':
            tt = rng.choice(['', '', 'lit', 'iri', 'bnode'])
            obj = {'m': tm('exec', g.execution(), 'iri', tt), 'lang': None, 'dt': None, 'joins': []}
            if tt in ('', 'lit') and rng.random() < 0.3:
                obj['lang' if rng.random() < 0.5 else 'dt'] = tm('const', 'en', 'lit') if rng.random() < 0.5 else None
                if obj.get('lang') is None:
                    obj['lang'] = None
                    obj['dt'] = tm('const', mapcase.XSD + rng.choice(['string', 'token', 'boolean']))
                else:
                    obj['dt'] = None
        elif pos == 'predicate':
            pred = tm('exec', g.execution())
        elif pos == 'graph':
            graphs = [tm('exec', g.execution())]
        poms.append({'preds': [pred], 'objs': [obj], 'graphs': graphs})
    subj = tm('templ', EX + 'r/{id}') if rng.random() < 0.8 else tm('exec', g.execution(), 'iri', rng.choice(['', 'iri', 'bnode']))
    if rng.random() < 0.15 and g.execs:
        # ONE function execution resource used by two term maps of the same rule (subject + object, object + graph, two objects)
        shared = rng.choice([o['m']['v'] for p in poms for o in p['objs'] if o['m']['k'] == 'exec'] or [g.execs[-1]['id']])
        where = rng.choice(['subject', 'graph', 'object'])
        if where == 'subject' and subj['k'] != 'exec':
            subj = tm('exec', shared, 'iri', rng.choice(['iri', 'bnode']))
        elif where == 'graph':
            poms[0]['graphs'] = poms[0]['graphs'] + [tm('exec', shared)]
        else:
            poms.append({'preds': [tm('const', EX + 'p/again')], 'objs': [{'m': tm('exec', shared, 'iri', rng.choice(['', 'lit', 'iri'])), 'lang': None, 'dt': None, 'joins': []}], 'graphs': []})
    doc = [{'id': EX + 'tm/T', 'src': 'S0', 'nonasserted': False, 'subj': subj, 'sjoins': [], 'classes': [], 'sgraphs': [], 'poms': poms}]
    if rng.random() < 0.3:
        doc.append({'id': EX + 'tm/Other', 'src': 'S0', 'nonasserted': False, 'subj': tm('templ', EX + 'o/{id}'), 'sjoins': [], 'classes': [EX + 'C'], 'sgraphs': [],
                    'poms': [{'preds': [tm('const', EX + 'p/x')], 'objs': [{'m': tm('ref', 'c2'), 'lang': None, 'dt': None, 'joins': []}], 'graphs': []}]})
    cfg = {'nquads': rng.random() < 0.5, 'mode': rng.choice(['NO', 'PARTIAL-AGGREGATIONS', 'MAXIMAL']), 'udfs': 'udfs.py'}
    if rng.random() < 0.2:
        cfg['na'] = rng.choice([[''], ['', 'nan', 'x'], ['A', 'a']])
    if rng.random() < 0.2:
        cfg['printable'] = True          # only_printable_chars applies to function results as to any other term
    return {'cfg': cfg, 'sources': [{'key': 'S0', 'kind': 'csv', 'cols': cols, 'rows': rows}], 'doc': doc, 'execs': g.execs}


def fn_triggers(case):
    out = set()
    used = set(e['fun'] for e in case.get('execs', []))
    if FN + 'empty' in used:
        out.add('empty-list-nan')
    return out


def features(case):
    f = set('fun:' + e['fun'].split('#')[-1].split('/')[-1] for e in case.get('execs', []))
    f |= set('arg:' + k for e in case.get('execs', []) for _, k, _ in e['inputs'])
    return f


def run(ctx, res):
    res.rule = ('compositions (depth <= 3) of 8 built-in functions and 5 user-defined functions over constants, references, templates and nested results, in object / predicate / graph / subject position, '
                'every term type, optional parameters left out, inputs in shuffled order, strings incl. empty, separator absent, non-ASCII case mappings; each case under its partitioning mode against the Engine model '
                'and the Spec, and under all three modes against each other; distinct = distinct case; non-trivial = at least one statement from a function-valued map')
    known = set(ctx.known)
    cases = [gen_fn_case(ctx.rng) for _ in range(ctx.scale(150, 3000))]
    # directed: one execution resource in two positions of the same rule -- a list result gives every combination per row, a scalar result
    # is the same value in both positions (each position escapes / encodes it in its own way)
    for rep_ in range(ctx.scale(12, 60)):
        rows = [[str(i + 1), ctx.rng.choice(['a,b', 'a,b,c', "O'Neil", 'say "hi"', 'x y ', 'p,q']), 'z'] for i in range(ctx.rng.choice([2, 3]))]
        if rep_ % 2 == 0:
            execs = [{'id': EX + 'exec/S1', 'fun': MK + 'string_split_explode', 'inputs': [[GREL + 'valueParam', 'ref', 'c1'], [GREL + 'param_string_sep', 'const', ',']]}]
        else:
            execs = [{'id': EX + 'exec/S1', 'fun': GREL + 'toUpperCase', 'inputs': [[GREL + 'valueParam', 'ref', 'c1']]}]
        pair = ['subject+object', 'object+graph', 'object+object'][(rep_ // 2) % 3]
        obj = {'m': tm('exec', EX + 'exec/S1', 'iri', ctx.rng.choice(['', 'lit'])), 'lang': None, 'dt': None, 'joins': []}
        subj = tm('exec', EX + 'exec/S1', 'iri', 'bnode') if pair == 'subject+object' else tm('templ', EX + 'r/{id}')
        poms = [{'preds': [tm('const', EX + 'p/a')], 'objs': [obj], 'graphs': [tm('exec', EX + 'exec/S1')] if pair == 'object+graph' else []}]
        if pair == 'object+object':
            poms.append({'preds': [tm('const', EX + 'p/b')], 'objs': [{'m': tm('exec', EX + 'exec/S1', 'iri', 'bnode'), 'lang': None, 'dt': None, 'joins': []}], 'graphs': []})
        cases.append({'cfg': {'nquads': True, 'mode': ctx.rng.choice(['NO', 'PARTIAL-AGGREGATIONS', 'MAXIMAL']), 'udfs': 'udfs.py'},
                      'sources': [{'key': 'S0', 'kind': 'csv', 'cols': ['id', 'c1', 'c2'], 'rows': rows}],
                      'doc': [{'id': EX + 'tm/T', 'src': 'S0', 'nonasserted': False, 'subj': subj, 'sjoins': [], 'classes': [], 'sgraphs': [], 'poms': poms}], 'execs': execs})
    # directed: a function-valued term map in a rule whose object is a referencing object map with ONE join condition; child rows share join keys
    for rep_j in range(ctx.scale(9, 60)):
        keys = ['a', 'b']
        vals_j = ['x', 'Yy', 'zed', 'a,b', 'ab', 'q']
        crows = [[str(i + 1), keys[(i // 2) % 2] if rep_j % 2 else ctx.rng.choice(keys), vals_j[(i + rep_j) % len(vals_j)]] for i in range(3 + rep_j % 3)]
        prows = [[k, 'n' + k] for k in keys]
        where = ['predicate', 'graph', 'subject'][rep_j % 3]
        # the function in turn: scalar, list-valued, and a user-defined one that gives the EMPTY list for some child rows only (rows that share their join key with others)
        fun_j = [GREL + 'toUpperCase', MK + 'string_split_explode', EX + 'fn/evens'][(rep_j // 3) % 3]
        execs = [{'id': EX + 'exec/J1', 'fun': fun_j, 'inputs': [[EX + 'fn/p_v' if fun_j.endswith('evens') else GREL + 'valueParam', 'ref', 'c1']]}]
        if execs[0]['fun'].endswith('explode'):
            execs[0]['inputs'].append([GREL + 'param_string_sep', 'const', ','])
        fm = tm('exec', EX + 'exec/J1', 'iri', 'iri')
        pred = fm if where == 'predicate' else tm('const', EX + 'p/rel')
        subj = tm('exec', EX + 'exec/J1', 'iri', 'bnode') if where == 'subject' else tm('templ', EX + 'c/{id}')
        pom = {'preds': [pred], 'objs': [{'m': {'k': 'parent', 'v': EX + 'tm/P', 'ck': 'iri', 'tt': ''}, 'lang': None, 'dt': None, 'joins': [['k', 'pk']]}],
               'graphs': [tm('exec', EX + 'exec/J1')] if where == 'graph' else []}
        cases.append({'cfg': {'nquads': True, 'mode': ctx.rng.choice(['NO', 'PARTIAL-AGGREGATIONS', 'MAXIMAL']), 'udfs': 'udfs.py'},
                      'sources': [{'key': 'S0', 'kind': 'csv', 'cols': ['id', 'k', 'c1'], 'rows': crows}, {'key': 'S1', 'kind': 'csv', 'cols': ['pk', 'name'], 'rows': prows}],
                      'doc': [{'id': EX + 'tm/C', 'src': 'S0', 'nonasserted': False, 'subj': subj, 'sjoins': [], 'classes': [], 'sgraphs': [], 'poms': [pom]},
                              {'id': EX + 'tm/P', 'src': 'S1', 'nonasserted': False, 'subj': tm('templ', EX + 'p/{pk}'), 'sjoins': [], 'classes': [], 'sgraphs': [],
                               'poms': [{'preds': [tm('const', EX + 'p/name')], 'objs': [{'m': tm('ref', 'name'), 'lang': None, 'dt': None, 'joins': []}], 'graphs': []}]}],
                      'execs': execs})
    # directed: a list-valued user-defined function over the ELEMENTS of an inner list-valued execution, empty for some elements of a row and not for others
    for rep_n in range(ctx.scale(6, 40)):
        nrows = [[str(i + 1), ['ab,c,de', 'x,yz', 'pq', 'a,b,c', 'mn,o'][(i + rep_n) % 5], 'z'] for i in range(2 + rep_n % 3)]
        execs = [{'id': EX + 'exec/N0', 'fun': MK + 'string_split_explode', 'inputs': [[GREL + 'valueParam', 'ref', 'c1'], [GREL + 'param_string_sep', 'const', ',']]},
                 {'id': EX + 'exec/N1', 'fun': EX + 'fn/evens', 'inputs': [[EX + 'fn/p_v', 'exec', EX + 'exec/N0']]}]
        pos = ['object', 'subject', 'graph'][rep_n % 3]
        fmn = tm('exec', EX + 'exec/N1', 'iri', 'lit' if pos == 'object' else 'iri')
        cases.append({'cfg': {'nquads': True, 'mode': ['NO', 'PARTIAL-AGGREGATIONS', 'MAXIMAL'][rep_n % 3], 'udfs': 'udfs.py'},
                      'sources': [{'key': 'S0', 'kind': 'csv', 'cols': ['id', 'c1', 'c2'], 'rows': nrows}],
                      'doc': [{'id': EX + 'tm/T', 'src': 'S0', 'nonasserted': False, 'subj': tm('exec', EX + 'exec/N1', 'iri', 'bnode') if pos == 'subject' else tm('templ', EX + 'r/{id}'), 'sjoins': [], 'classes': [], 'sgraphs': [],
                               'poms': [{'preds': [tm('const', EX + 'p/n')], 'objs': [{'m': fmn if pos == 'object' else tm('ref', 'c2', 'lit'), 'lang': None, 'dt': None, 'joins': []}],
                                         'graphs': [tm('exec', EX + 'exec/N1')] if pos == 'graph' else []}]}], 'execs': execs})
    batch = family.Batch(ctx)
    recs = batch.run(cases)
    for rec in recs:
        case = rec['case']
        I = rec['impl']
        if I[0] == 'ok' and any(str(x).startswith('NON-STRING') for x in I[1]):
            res.evaluations += 1
            if 'empty-list-nan' in known and 'empty-list-nan' in fn_triggers(case):
                res.violations.append({'key': 'empty-list-nan', 'what': 'recorded finding reproduced', 'replay': None}); res.count('finding:empty-list-nan')
            else:
                res.violations.append({'key': None, 'sig': 'non-string', 'what': 'the result set holds a non-string element: %r' % [x for x in I[1] if str(x).startswith('NON-STRING')][:2], 'replay': case})
            continue
        tag = family.judge(res, rec, known)
        for ft in features(case):
            res.count('feature:' + ft)
        if rec['spec'] and rec['spec'][0] == 'ok' and rec['spec'][1]:
            res.distinct.add(json.dumps(case, sort_keys=True, ensure_ascii=False))
    # partition independence (also for cases the model does not follow)
    sub = cases[:ctx.scale(50, 800)]
    per = {m: batch.run(sub, want_spec=False, cfg_override={'mode': m}) for m in ('NO', 'PARTIAL-AGGREGATIONS', 'MAXIMAL')}
    for i, c in enumerate(sub):
        outs = [per[m][i]['impl'] for m in ('NO', 'PARTIAL-AGGREGATIONS', 'MAXIMAL')]
        res.evaluations += 1
        if not all(family.same(outs[0], o) for o in outs[1:]):
            res.violations.append({'key': None, 'sig': 'modes', 'what': 'function-valued maps: partitioning modes disagree %s' % [(o[0], len(o[1]) if o[0] == 'ok' else o[1]) for o in outs], 'replay': c})
    # a user-defined function is the one defined in the configured file: the same mapping under two UDF files that define the same
    # function identifiers differently, run one after the other in ONE process, must give each file's own results
    import copy as _copy
    differing = ('/dup', '/nullif', '/pair')      # the functions the two files define differently
    udf_cases = [c for c in cases if c['cfg'].get('udfs') and any(str(e.get('fun', '')).endswith(differing) for e in c.get('execs', []))][:ctx.scale(6, 60)]
    for c in udf_cases:
        a = _copy.deepcopy(c); a['cfg']['udf_source'] = 'udfs.py'
        b = _copy.deepcopy(c); b['cfg']['udf_source'] = 'udfs_alt.py'
        alone = [family.run_sequence(ctx, [a])[0], family.run_sequence(ctx, [b])[0]]     # each in a fresh process of its own
        seq = family.run_sequence(ctx, [a, b, a], reuse_dirs=True)      # the third call names the very file of the first one
        res.evaluations += 1
        res.count('udf-file-sequence')
        for i, (got, exp) in enumerate(zip(seq, [alone[0], alone[1], alone[0]])):
            if not family.same(got, exp):
                res.violations.append({'key': None, 'sig': 'udf-file', 'what': 'call %d of the sequence [udfs.py, udfs_alt.py, udfs.py] in one process differs from the same call alone: %s vs %s'
                                       % (i + 1, str(got)[:160], str(exp)[:160]), 'replay': {'case': c}})
                break
    # applied to EACH row: functions none of whose arguments comes from the row (no parameter, constants only) and whose result differs per call
    # -- the built-in uuid and a key generator -- give as many different terms as there are rows
    EXN = mapcase.EX
    BIF = 'https://github.com/morph-kgc/morph-kgc/function/built-in.ttl#'
    for rep in range(ctx.scale(9, 45)):
        n = ctx.rng.choice([2, 3, 5, 8])
        which = ['uuid', 'tick', 'nested'][rep % 3]                      # every function and every position in turn
        pos = ['object', 'object-iri', 'subject'][(rep // 3) % 3]
        if which == 'uuid':
            execs = [{'id': EXN + 'ex/E0', 'fun': BIF + 'uuid', 'inputs': []}]
        elif which == 'tick':
            execs = [{'id': EXN + 'ex/E0', 'fun': EXN + 'fn/tick', 'inputs': [[EXN + 'fn/p_prefix', 'const', 'k']]}]
        else:
            execs = [{'id': EXN + 'ex/E1', 'fun': BIF + 'uuid', 'inputs': []},
                     {'id': EXN + 'ex/E0', 'fun': GREL + 'toUpperCase', 'inputs': [[GREL + 'valueParam', 'exec', EXN + 'ex/E1']]}]
        fm = {'object': tm('exec', EXN + 'ex/E0', 'iri', 'lit'), 'object-iri': tm('exec', EXN + 'ex/E0', 'iri', 'iri'), 'subject': tm('exec', EXN + 'ex/E0', 'iri', 'bnode')}[pos]
        if pos == 'subject':
            t = {'id': EXN + 'tm/T', 'src': 'S0', 'nonasserted': False, 'subj': fm, 'sjoins': [], 'classes': [], 'sgraphs': [],
                 'poms': [{'preds': [tm('const', EXN + 'p/q')], 'objs': [{'m': tm('ref', 'id', 'iri', 'lit'), 'lang': None, 'dt': None, 'joins': []}], 'graphs': []}]}
        else:
            t = {'id': EXN + 'tm/T', 'src': 'S0', 'nonasserted': False, 'subj': tm('templ', EXN + 's/{id}'), 'sjoins': [], 'classes': [], 'sgraphs': [],
                 'poms': [{'preds': [tm('const', EXN + 'p/q')], 'objs': [{'m': fm, 'lang': None, 'dt': None, 'joins': []}], 'graphs': []}]}
        case = {'cfg': {'nquads': False, 'mode': ctx.rng.choice(['NO', 'PARTIAL-AGGREGATIONS', 'MAXIMAL']), 'udfs': 'udfs_state.py', 'udf_source': 'udfs_state.py'},
                'sources': [{'key': 'S0', 'kind': 'csv', 'cols': ['id'], 'rows': [[str(i + 1)] for i in range(n)]}], 'doc': [t], 'execs': execs}
        out = family.run_sequence(ctx, [case])[0]
        res.evaluations += 1
        res.count('per-call:%s:%s' % (which, pos))
        terms = set(l.split(' ')[0 if pos == 'subject' else 2] for l in out[1]) if out[0] == 'ok' else set()
        if out[0] != 'ok' or len(terms) != n:
            res.violations.append({'key': None, 'sig': 'per-call', 'what': '%s in %s position over %d rows (the function has no row-dependent argument and returns a new value at each call): %d different terms instead of %d: %s'
                                   % (which, pos, n, len(terms), n, str(out)[:200]), 'replay': {'case': case}})
    # ... and the file may be rewritten at the SAME path between two calls of one process: the second call applies what the file defines now
    for c in udf_cases[:ctx.scale(3, 20)]:
        a = _copy.deepcopy(c); a['cfg']['udf_source'] = 'udfs.py'
        b = _copy.deepcopy(c); b['cfg']['udf_source'] = 'udfs_alt.py'
        second = family.overwrite_run(ctx, a, b)[1]
        exp = family.run_sequence(ctx, [b])[0]
        res.evaluations += 1
        res.count('udf-file-rewritten')
        if not family.same(second, exp):
            res.violations.append({'key': None, 'sig': 'udf-file-rewritten', 'what': 'the UDF file rewritten at the same path between two calls of one process: the second call gives %s, the file as it is now gives %s'
                                   % (str(second)[:160], str(exp)[:160]), 'replay': {'case': c}})
    # documented contracts of the built-ins on inputs the Gallina registry does not follow (Unicode case mappings ...):
    # reference definitions written here, independent of the code
    words = ['Straße', 'ǅ', 'İstanbul', 'ﬁn', 'ΟΔΥΣΣΕΥΣ', 'ὈΔΥΣΣΕΎΣ', 'µ', 'ß', 'ı', 'Ǆ', 'abc', 'ÀÉ', ' x\u2003', '\x1cq\x85', 'a,b', '', 'ΣΑΣ', 'i̇']
    ref = {GREL + 'toLowerCase': (lambda string: string.lower()), GREL + 'toUpperCase': (lambda string: string.upper()), GREL + 'toTitleCase': (lambda string: string.title()),
           GREL + 'reverse': (lambda string: string[::-1]), GREL + 'string_trim': (lambda string: string.strip())}
    for fid, fn in ref.items():
        r = ctx.pool.call('bif_call', fid=fid, kwargs_list=[{'string': w} for w in words])
        if not r.get('ok'):
            res.disagreements.append({'what': 'bif_call failed: %s' % str(r)[:200], 'replay': None}); continue
        for w, o in zip(words, r['result']):
            res.evaluations += 1
            exp = fn(w)
            if o.get('v') != exp:
                res.violations.append({'key': None, 'sig': 'contract:' + fid.split('#')[-1], 'what': 'built-in %s(%r) returns %r, its contract says %r' % (fid.split('#')[-1], w, o.get('v', o), exp),
                                       'replay': {'function': fid, 'input': w}})
    res.samples = [{'execs': cases[0]['execs'], 'doc': cases[0]['doc']}]


def replay(ctx, res, payload):
    c = payload.get('case') or {}
    if 'function' in c:
        print('replay:', ctx.pool.call('bif_call', fid=c['function'], kwargs_list=[{'string': c['input']}]))
        return
    family.replay_family(ctx, res, payload)
