"""C15 — typed literals keep their lexical form; canonicalisation never changes a value."""
import decimal, json, re
from .. import family, mapcase

PROPS_FILES = ['theories/Props/C15.v']
FINDINGS_FILES = ['theories/Findings/C15.v']
LEVEL = 'proof'
TRUSTED = ['Model/Terms.v canon / canon_integer: explicit model of str(int(float(s))) (Python float grammar subset, round-half-even to binary64 on N, truncation, NumPy int64 wrap)',
           'the value oracle (Python int / decimal) in harness/props/c15.py']
ASSUMES = ['lexical forms outside the modelled float grammar (inf, nan, underscores, non-ASCII digits) are judged by the oracle only']
XSD = mapcase.XSD
DTS = [XSD + 'integer', XSD + 'boolean', XSD + 'dateTime', XSD + 'decimal', XSD + 'double', XSD + 'date', XSD + 'string', mapcase.EX + 'dt/custom', XSD + 'int', XSD + 'long']


def gen_forms(rng, n):
    base = ['0', '1', '-1', '+7', '42', '007', '-0', '1.0', '2.00', '1.5', '-2.5', '.5', '5.', '1e3', '1E3', '1.5e2', '12e-1', '1e-3', ' 12', '12 ', '\t3\n',
            '9007199254740991', '9007199254740992', '9007199254740993', '9007199254740995', '-9007199254740993', '18014398509481985',
            '9223372036854775807', '9223372036854775808', '-9223372036854775808', '-9223372036854775809', '100000000000000000000', '1e19', '1e400',
            'abc', '', ' ', '1,5', '1_000', '0x10', 'NaN', 'inf', '-inf', 'Infinity', '１２', '12abc', '--1', '1e', 'e3', '+.5e+1',
            'true', 'TRUE', 'True', 'false', 'FALSE', '1', '0', 'T', 'yes', 'İ', 'ſ',
            '2020-01-01 10:00:00', '2020-01-01T10:00:00', ' 2020-01-01 10:00:00', '2020-01-01  10:00:00', '2020-01-01 10:00:00 ', '2020-01-01', '10:00:00']
    out = list(base)
    while len(out) < n:
        k = rng.choice(['int', 'dec', 'exp', 'big', 'text'])
        if k == 'int':
            out.append(rng.choice(['', '-', '+']) + str(rng.randrange(10 ** rng.randint(1, 22))))
        elif k == 'dec':
            out.append(rng.choice(['', '-']) + str(rng.randrange(10 ** rng.randint(1, 18))) + '.' + ''.join(rng.choice('0123456789') for _ in range(rng.randint(1, 6))))
        elif k == 'exp':
            out.append('%d.%de%s%d' % (rng.randrange(100), rng.randrange(1000), rng.choice(['', '+', '-']), rng.randrange(25)))
        elif k == 'big':
            out.append(str(2 ** rng.choice([53, 54, 60, 63, 64]) + rng.randrange(-3, 4)))
        else:
            out.append(mapcase.gen_value(rng, mapcase.NASTY))
    return out


def lit_body(term):
    """the lexical form between the quotes of a rendered literal, unescaped"""
    m = re.fullmatch(r'"(.*)"', term, re.S)
    if not m:
        return None
    s = m.group(1)
    return re.sub(r'\\(.)', lambda x: {'n': '\n', 't': '\t', 'r': '\r', 'b': '\b', 'f': '\f'}.get(x.group(1), x.group(1)), s, flags=re.S)


def value_preserved(dt, s, out):
    """the property's oracle: (ok, reason)"""
    if out == s:
        return True, 'kept'
    if dt == XSD + 'integer':
        try:
            a = decimal.Decimal(s.strip())
            b = decimal.Decimal(out)
            if a == b and re.fullmatch(r'-?\d+', out):
                return True, 'canonical'
            return False, 'value %s became %s' % (s, out)
        except Exception:
            return False, 'ill-typed value rewritten: %r -> %r' % (s, out)
    if dt == XSD + 'boolean':
        return (out == s.lower()), 'lower'
    if dt == XSD + 'dateTime':
        # the documented canonicalisation: the separator blank becomes T
        if re.fullmatch(r'\d{4}-\d\d-\d\d \d\d:\d\d:\d\d(\.\d+)?(Z|[-+]\d\d:\d\d)?', s) and out == s.replace(' ', 'T'):
            return True, 'T'
        return False, 'lexical form changed: %r -> %r' % (s, out)
    return False, 'lexical form of a %s changed: %r -> %r' % (dt, s, out)


def classify_integer(s):
    """which recorded finding (if any) an xsd:integer lexical form triggers"""
    t = s.strip()
    try:
        d = decimal.Decimal(t)
    except Exception:
        return 'integer-aborts'
    if not d.is_finite():
        return 'integer-aborts'
    if d != d.to_integral_value():
        return 'integer-truncates'
    if abs(d) >= 2 ** 63:
        return 'integer-wraps'
    if abs(d) > 2 ** 53:
        return 'integer-rounds'
    return None


def run(ctx, res):
    res.rule = ('~70 boundary lexical forms (around 2^53, 2^63, 10^20, fractions, exponents, signs, leading zeros, blanks, text, booleans, dateTimes with odd blanks) plus random integers / decimals / '
                'exponent forms / strings, under 10 datatypes, through materializer._materialize_template (reference- and template-valued) and through the extracted model `canon` + escaping; '
                'oracle: the parsed-back lexical form equals the source, or differs only by a documented canonicalisation that keeps the value (Python decimal); '
                'distinct = distinct (datatype, form); non-trivial = form that is not already canonical')
    known = set(ctx.known)
    forms = gen_forms(ctx.rng, ctx.scale(400, 6000))
    for dt in DTS:
        for kind in ('reference', 'template'):
            r = ctx.pool.call('canon_values', values=forms, datatype=dt, kind=kind, timeout=600)
            if not r.get('ok'):
                res.disagreements.append({'what': 'job failed: %s' % str(r)[:300], 'replay': {'datatype': dt}}); continue
            mres = ctx.model.run_many([['canon', dt, s] for s in forms])
            for s, iv, mv in zip(forms, r['result'], mres):
                res.evaluations += 1
                if 'v' in iv:
                    body = lit_body(iv['v'])
                    if kind == 'template' and body is not None:
                        body = body[1:-1] if body.startswith('x') and body.endswith('y') else None
                    I = ('ok', body)
                else:
                    I = ('exc', iv['exc'])
                M = ('ok', mv[1]) if mv[0] == 'ok' else (('exc', 'ValueError') if mv[0] == 'error' else ('unmodelled',))
                if M[0] != 'unmodelled' and I[:1] + ((I[1],) if I[0] == 'ok' else ()) != M[:1] + ((M[1],) if M[0] == 'ok' else ()):
                    res.disagreements.append({'what': 'canon(%s, %r): implementation %r, model %r' % (dt.split('#')[-1], s, I, M), 'replay': {'datatype': dt, 'form': s, 'kind': kind}})
                    agree = False
                else:
                    agree = True
                if M[0] == 'unmodelled':
                    res.count('model:unmodelled')
                res.distinct.add((dt, s))
                if I[0] == 'exc':
                    fid = 'integer-aborts' if dt == XSD + 'integer' else None
                    if fid == 'integer-aborts' and fid in known and agree:
                        res.violations.append({'key': fid, 'what': 'recorded finding reproduced', 'replay': None}); res.count('finding:' + fid)
                    else:
                        res.violations.append({'key': None, 'sig': 'abort:' + dt, 'what': 'an ill-typed value aborts the run: datatype %s, form %r: %s' % (dt, s, iv), 'replay': {'datatype': dt, 'form': s, 'kind': kind}})
                    continue
                ok, why = value_preserved(dt, s, I[1])
                if ok:
                    res.count('ok:' + why)
                    continue
                fid = classify_integer(s) if dt == XSD + 'integer' else ('datetime-blanks' if dt == XSD + 'dateTime' else ('boolean-unicode' if dt == XSD + 'boolean' else None))
                if fid in known and agree:
                    res.violations.append({'key': fid, 'what': 'recorded finding reproduced', 'replay': None}); res.count('finding:' + fid)
                else:
                    res.violations.append({'key': None, 'sig': 'value:' + dt + ':' + str(fid), 'what': 'datatype %s: %s' % (dt.split('#')[-1], why), 'replay': {'datatype': dt, 'form': s, 'kind': kind}})
    # end to end through the text readers (comma, tab and semicolon separated files; the latter takes the delimiter-sniffing
    # fallback of _read_csv): under datatypes the engine does not canonicalise the lexical form of the cell must arrive unchanged
    from .. import family, mapcase
    EX = mapcase.EX
    TAME = ['007', '1.50', '20.00', '1e3', '-0', '+5', '3.14159265358979323846', '0.10', '1E-2', '00', '12345678901234567890', '10', 'abc', '2.0', '1.0E0', '0x10', '1_000']
    cases = []
    for _ in range(ctx.scale(24, 400)):
        n = ctx.rng.choice([1, 2, 4, 6])
        rows = [[str(i + 1), ctx.rng.choice(TAME), ctx.rng.choice(TAME)] for i in range(n)]
        def tmap(k, v, ck='iri', tt=''):
            return {'k': k, 'v': v, 'ck': ck, 'tt': tt}
        poms = []
        for j, dt in enumerate(ctx.rng.sample(['decimal', 'double', 'float', 'string', None, 'anyURI', 'date'], 3)):
            poms.append({'preds': [tmap('const', EX + 'p/d%d' % j)], 'objs': [{'m': tmap('ref', ctx.rng.choice(['v', 'w'])), 'lang': None,
                         'dt': (tmap('const', XSD + dt) if dt else None), 'joins': []}], 'graphs': []})
        poms.append({'preds': [tmap('const', EX + 'p/t')], 'objs': [{'m': tmap('templ', 'x{v}y', 'iri', 'lit'), 'lang': None, 'dt': None, 'joins': []}], 'graphs': []})
        cases.append({'cfg': {'nquads': False, 'mode': 'NO'}, 'sources': [{'key': 'S0', 'kind': ctx.rng.choice(['csv', 'ssv', 'ssv', 'tsv']), 'cols': ['id', 'v', 'w'], 'rows': rows}],
                      'doc': [{'id': EX + 'tm/T', 'src': 'S0', 'nonasserted': False, 'subj': tmap('templ', EX + 'r/{id}'), 'sjoins': [], 'classes': [], 'sgraphs': [], 'poms': poms}]})
    # directed: ONE cell read by a literal under a canonicalised datatype AND by another term map of the same rule / of a rule quoting it (a graph template under
    # N-QUADS; the object of a triples map that quotes the first one, under a datatype that is not canonicalised): the second use must see the source text
    def tmap2(k, v, ck='iri', tt=''):
        return {'k': k, 'v': v, 'ck': ck, 'tt': tt}
    CANON = [('integer', ['12.0', '7', '3.0', '0042']), ('boolean', ['TRUE', 'False', 'true', 'T']), ('dateTime', ['2020-01-01 10:00:00', '2021-05-05 00:00:00.5', '2020-01-01T10:00:00'])]
    for di in range(ctx.scale(6, 36)):
        dtn, vals = CANON[di % 3]
        rows = [[str(i + 1), vals[(i + di) % len(vals)], 'z'] for i in range(2 + di % 3)]
        typed = {'preds': [tmap2('const', EX + 'p/c')], 'objs': [{'m': tmap2('ref', 'v'), 'lang': None, 'dt': tmap2('const', XSD + dtn), 'joins': []}], 'graphs': []}
        t0 = {'id': EX + 'tm/Q0', 'src': 'S0', 'nonasserted': False, 'subj': tmap2('templ', EX + 'r/{id}'), 'sjoins': [], 'classes': [], 'sgraphs': [], 'poms': [typed]}
        doc = [t0]
        if (di // 3) % 2 == 0:
            typed['graphs'] = [tmap2('templ', EX + 'g/{v}')]
        else:
            other = [tmap2('const', XSD + 'decimal'), tmap2('const', EX + 'dt/rawCell'), None][(di // 6) % 3]
            doc.append({'id': EX + 'tm/Q1', 'src': 'S0', 'nonasserted': False, 'subj': tmap2('quoted', t0['id']), 'sjoins': [], 'classes': [], 'sgraphs': [],
                        'poms': [{'preds': [tmap2('const', EX + 'p/raw')], 'objs': [{'m': tmap2('ref', 'v'), 'lang': None, 'dt': other, 'joins': []}], 'graphs': []}]})
        cases.append({'cfg': {'nquads': True, 'mode': ['NO', 'PARTIAL-AGGREGATIONS', 'MAXIMAL'][di % 3]}, 'sources': [{'key': 'S0', 'kind': 'csv', 'cols': ['id', 'v', 'w'], 'rows': rows}], 'doc': doc})
    family.run_family(ctx, res, cases, lambda c: {'file-kind:' + c['sources'][0]['kind']})
    res.samples = [{'datatype': XSD + 'integer', 'form': f} for f in forms[:6]]


def replay(ctx, res, payload):
    c = payload.get('case') or {}
    r = ctx.pool.call('canon_values', values=[c['form']], datatype=c['datatype'], kind=c.get('kind', 'reference'))
    m = ctx.model.run(['canon', c['datatype'], c['form']])
    print('replay: implementation %r, model %r' % (r.get('result'), m))
    iv = r['result'][0]
    if 'v' not in iv:
        res.violations.append({'key': None, 'what': 'replayed: aborts: %s' % iv, 'replay': c})
    else:
        ok, why = value_preserved(c['datatype'], c['form'], lit_body(iv['v']))
        if not ok:
            res.violations.append({'key': None, 'what': 'replayed: ' + why, 'replay': c})
