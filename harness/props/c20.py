"""C20 — inferred literal datatypes follow the R2RML natural mapping of SQL types."""
from ..common import Opt, dec_opt, is_err

PROPS_FILES = ['theories/Props/C20.v']
FINDINGS_FILES = ['theories/Findings/C20.v']
LEVEL = 'proof'
TRUSTED = ['Model/Spec20.v catalog_spec: the natural-mapping table extended to DBMS catalogue type names is hand-written specification data',
           'the catalogue query itself (information_schema / all_tab_columns / typeof) is mocked: only the lookup on its answer is modelled']
ASSUMES = ['type names are ASCII (Python str.upper == ASCII upper on them)',
           'the DBMS answers the catalogue query with exactly one row whose data_type is the declared type name']


def _variants(rng, name):
    out = [name, name.upper(), name.lower(), name.title()]
    for _ in range(3):
        k = rng.choice([1, 2, 2])
        nums = [str(rng.choice([1, 2, 6, 10, 15, 38, 255, 4000])) for _ in range(k)]
        sep = rng.choice([',', ', ', ' ,'])
        out.append(name + '(' + sep.join(nums) + ')')
    return out


def run(ctx, res):
    res.rule = ('every type name of the specification table (Model/Spec20.v) in 4 letter cases and 3 random parameter suffixes, '
                'plus random names glued from table keys and filler words; each through _get_column_table_datatype with the '
                'catalogue answer mocked (dialects MYSQL/POSTGRESQL/ORACLE) and through the extracted model; '
                'non-trivial = name on which at least one key of the table matches; distinct = distinct upper-cased name')
    model = ctx.model
    catalog = model.run(['c20.catalog'])
    spec = {t: dec_opt(x) for t, x in catalog}
    names = []
    base_of = {}
    for t in spec:
        for v in _variants(ctx.rng, t):
            names.append(v)
            if v.upper().split('(')[0] == t.upper() or v.upper() == t.upper():
                base_of[v] = t
    keys = [k for k, _ in ctx.tables['sql_rdf_datatype']]
    filler = ['UNSIGNED', 'VARYING', 'LARGE', 'OBJECT', 'ZONE', 'WITH', 'LOCAL', 'X', 'geo', 'TS', '_', ' ', 'TINY', 'MEDIUM', 'LONG']
    for _ in range(ctx.scale(300, 5000)):
        parts = [ctx.rng.choice(keys + filler) for _ in range(ctx.rng.randint(1, 3))]
        names.append(ctx.rng.choice(['', ' ', '_']).join(parts))
    names = list(dict.fromkeys(names))
    jobs = []
    dialects = [('MYSQL', 'data_type'), ('POSTGRESQL', 'data_type'), ('ORACLE', 'DATA_TYPE'), ('MSSQL', 'data_type')]
    for d, col in dialects:
        jobs.append({'fn': 'c20_lookup', 'args': {'type_names': names, 'dialect': d, 'column_label': col}})
    impl_res = ctx.pool.map(jobs, timeout=300)
    mres = model.run_many([['c20.lookup', n] for n in names])
    for (d, col), r in zip(dialects, impl_res):
        if not r['ok']:
            res.disagreements.append({'what': 'implementation job failed: %s %s' % (r.get('exc'), r.get('msg')), 'replay': {'dialect': d}})
            continue
        for n, iv, mv in zip(names, r['result'], mres):
            res.evaluations += 1
            m = dec_opt(mv) if not is_err(mv) else 'MODEL-ERROR'
            i = iv.get('v') if 'v' in iv else 'EXC:' + iv['exc']
            if m is not None or i is not None:
                res.distinct.add(n.upper())
            res.count('matched' if i else 'unmatched')
            if i != m:
                res.disagreements.append({'what': 'lookup(%r) dialect %s: implementation %r, model %r' % (n, d, i, m),
                                          'replay': {'type_name': n, 'dialect': d, 'impl': i, 'model': m}})
            if n in base_of:
                exp = spec[base_of[n]]
                if i != exp:
                    res.violations.append({'key': 'type:' + base_of[n].upper(), 'sig': 'type:' + base_of[n].upper(),
                                           'what': 'catalogue type %r (dialect %s): natural mapping says %s, implementation gives %s'
                                                   % (n, d, exp, i),
                                           'replay': {'type_name': n, 'dialect': d, 'expected': exp, 'got': i}})
    res.samples = [{'type_name': n, 'model': dec_opt(m)} for n, m in list(zip(names, mres))[:6]]
    # the inference guard: all 2^5 x 2 x 2 combinations of the model against the property's reading
    guard_cases = []
    for bits in range(32):
        e, r, l, h, o = [(bits >> k) & 1 == 1 for k in range(5)]
        for x in (None, 'http://ex/dt'):
            for c in (None, 'http://www.w3.org/2001/XMLSchema#integer'):
                if h and x is None:
                    x2 = 'http://ex/dt'
                else:
                    x2 = x
                guard_cases.append((e, r, l, h, o, x2, c))
    gres = model.run_many([['c20.infer', e, r, l, h, o, Opt(x), Opt(c)] for e, r, l, h, o, x, c in guard_cases])
    for gc, g in zip(guard_cases, gres):
        e, r, l, h, o, x, c = gc
        exp = c if (e and r and l and not h and o and c is not None) else x
        res.evaluations += 1
        if dec_opt(g) != exp:
            res.disagreements.append({'what': 'inference guard model differs from the property reading on %r' % (gc,), 'replay': list(gc)})


def replay(ctx, res, payload):
    case = payload.get('case') or {}
    n, d = case.get('type_name'), case.get('dialect', 'MYSQL')
    r = ctx.pool.call('c20_lookup', type_names=[n], dialect=d, column_label='DATA_TYPE' if d == 'ORACLE' else 'data_type')
    m = dec_opt(ctx.model.run(['c20.lookup', n]))
    got = r['result'][0].get('v') if r['ok'] else r
    print('replay: type %r dialect %s -> implementation %r, model %r, expected %r' % (n, d, got, m, case.get('expected')))
    if 'expected' in case and got != case['expected']:
        res.violations.append({'key': 'type:' + n.upper().split('(')[0], 'what': 'replayed: %r -> %r, expected %r' % (n, got, case['expected']), 'replay': case})
