"""C20 — inferred literal datatypes follow the R2RML natural mapping of SQL types."""
from ..common import Opt, dec_opt, is_err

PROPS_FILES = ['theories/Props/C20.v']
FINDINGS_FILES = ['theories/Findings/C20.v']
LEVEL = 'proof'
TRUSTED = ['Model/Spec20.v catalog_spec: the natural-mapping table extended to DBMS catalogue type names is hand-written specification data',
           'the catalogue query itself (information_schema / all_tab_columns / typeof) is mocked: only the lookup on its answer is modelled']
ASSUMES = ['type names are ASCII (Python str.upper == ASCII upper on them)',
           'the DBMS answers the catalogue query with exactly one row whose data_type is the declared type name']


def _variants(rng, name):
    out = [name, name.upper(), name.lower(), name.title()]
    for _ in range(3):
        k = rng.choice([1, 2, 2])
        nums = [str(rng.choice([1, 2, 6, 10, 15, 38, 255, 4000])) for _ in range(k)]
        sep = rng.choice([',', ', ', ' ,'])
        out.append(name + '(' + sep.join(nums) + ')')
    return out


def run(ctx, res):
    res.rule = ('every type name of the specification table (Model/Spec20.v) in 4 letter cases and 3 random parameter suffixes, '
                'plus random names glued from table keys and filler words; each through _get_column_table_datatype with the '
                'catalogue answer mocked (dialects MYSQL/POSTGRESQL/ORACLE) and through the extracted model; '
                'non-trivial = name on which at least one key of the table matches; distinct = distinct upper-cased name')
    model = ctx.model
    known_ids = set(ctx.known)
    catalog = model.run(['c20.catalog'])
    spec = {t: dec_opt(x) for t, x in catalog}
    names = []
    base_of = {}
    for t in spec:
        for v in _variants(ctx.rng, t):
            names.append(v)
            if v.upper().split('(')[0] == t.upper() or v.upper() == t.upper():
                base_of[v] = t
    keys = [k for k, _ in ctx.tables['sql_rdf_datatype']]
    filler = ['UNSIGNED', 'VARYING', 'LARGE', 'OBJECT', 'ZONE', 'WITH', 'LOCAL', 'X', 'geo', 'TS', '_', ' ', 'TINY', 'MEDIUM', 'LONG']
    for _ in range(ctx.scale(300, 5000)):
        parts = [ctx.rng.choice(keys + filler) for _ in range(ctx.rng.randint(1, 3))]
        names.append(ctx.rng.choice(['', ' ', '_']).join(parts))
    names = list(dict.fromkeys(names))
    jobs = []
    dialects = [('MYSQL', 'data_type'), ('POSTGRESQL', 'data_type'), ('ORACLE', 'DATA_TYPE'), ('MSSQL', 'data_type')]
    for d, col in dialects:
        jobs.append({'fn': 'c20_lookup', 'args': {'type_names': names, 'dialect': d, 'column_label': col}})
    impl_res = ctx.pool.map(jobs, timeout=300)
    mres = model.run_many([['c20.lookup', n] for n in names])
    for (d, col), r in zip(dialects, impl_res):
        if not r['ok']:
            res.disagreements.append({'what': 'implementation job failed: %s %s' % (r.get('exc'), r.get('msg')), 'replay': {'dialect': d}})
            continue
        for n, iv, mv in zip(names, r['result'], mres):
            res.evaluations += 1
            m = dec_opt(mv) if not is_err(mv) else 'MODEL-ERROR'
            i = iv.get('v') if 'v' in iv else 'EXC:' + iv['exc']
            if m is not None or i is not None:
                res.distinct.add(n.upper())
            res.count('matched' if i else 'unmatched')
            if i != m:
                res.disagreements.append({'what': 'lookup(%r) dialect %s: implementation %r, model %r' % (n, d, i, m),
                                          'replay': {'type_name': n, 'dialect': d, 'impl': i, 'model': m}})
            if n in base_of:
                exp = spec[base_of[n]]
                if i != exp:
                    res.violations.append({'key': 'type:' + base_of[n].upper(), 'sig': 'type:' + base_of[n].upper(),
                                           'what': 'catalogue type %r (dialect %s): natural mapping says %s, implementation gives %s'
                                                   % (n, d, exp, i),
                                           'replay': {'type_name': n, 'dialect': d, 'expected': exp, 'got': i}})
    res.samples = [{'type_name': n, 'model': dec_opt(m)} for n, m in list(zip(names, mres))[:6]]
    # the catalogue query itself: executed against a catalogue that also lists objects whose names differ from the mapped table / column only
    # in letter case -- the type found must be that of the column the mapping names
    sample = [n for n in names if n in base_of][:ctx.scale(60, 400)]
    sql_jobs = [{'fn': 'c20_lookup_sql', 'args': {'type_names': sample, 'dialect': d}} for d, _ in dialects]
    for (d, _), r in zip(dialects, ctx.pool.map(sql_jobs, timeout=300)):
        if not r['ok']:
            res.disagreements.append({'what': 'catalogue-query job failed: %s %s' % (r.get('exc'), r.get('msg')), 'replay': {'dialect': d}})
            continue
        for n, iv in zip(sample, r['result']):
            res.evaluations += 1
            res.count('catalogue-query:' + d)
            i = iv.get('v') if 'v' in iv else 'EXC:' + iv['exc']
            exp = spec[base_of[n]]
            if i != exp:
                key = 'type:' + base_of[n].upper()
                res.violations.append({'key': key if key in known_ids else None, 'sig': 'catalogue-query:' + d,
                                       'what': 'catalogue query (dialect %s) for column C of table T, declared %r, next to t.C / T.c of other types: natural mapping says %s, implementation gives %s' % (d, n, exp, i),
                                       'replay': {'type_name': n, 'dialect': d, 'expected': exp, 'got': i}})
    # the inference guard: all 2^5 x 2 x 2 combinations of the model against the property's reading
    guard_cases = []
    for bits in range(32):
        e, r, l, h, o = [(bits >> k) & 1 == 1 for k in range(5)]
        for x in (None, 'http://ex/dt'):
            for c in (None, 'http://www.w3.org/2001/XMLSchema#integer'):
                if h and x is None:
                    x2 = 'http://ex/dt'
                else:
                    x2 = x
                guard_cases.append((e, r, l, h, o, x2, c))
    gres = model.run_many([['c20.infer', e, r, l, h, o, Opt(x), Opt(c)] for e, r, l, h, o, x, c in guard_cases])
    for gc, g in zip(guard_cases, gres):
        e, r, l, h, o, x, c = gc
        exp = c if (e and r and l and not h and o and c is not None) else x
        res.evaluations += 1
        if dec_opt(g) != exp:
            res.disagreements.append({'what': 'inference guard model differs from the property reading on %r' % (gc,), 'replay': list(gc)})

    # end to end: a SQLite table whose catalogue answer is supplied by the harness (SQLite's own probe always answers `text`): only
    # reference-valued object maps that are plain literals (no language tag, no datatype, not an IRI / blank node) over the table get the
    # natural-mapping datatype of their column, every other object map of the same column is left as written, and nothing is inferred
    # when the option is off
    import os, shutil
    from .. import common, mapcase
    EXN, XSD = mapcase.EX, mapcase.XSD
    def tmq(k, v, ck='iri', tt=''):
        return {'k': k, 'v': v, 'ck': ck, 'tt': tt}
    type_pool = ['INTEGER', 'BIGINT', 'DOUBLE', 'DOUBLE PRECISION', 'BOOLEAN', 'DATE', 'VARCHAR(10)', 'TEXT', 'DECIMAL(10,2)', 'TIMESTAMP', 'REAL']
    lk = {t: dec_opt(m) for t, m in zip(type_pool, model.run_many([['c20.lookup', t] for t in type_pool]))}
    wd = common.workdir()
    for rep in range(ctx.scale(10, 80)):
        tv, tw = ctx.rng.choice(type_pool), ctx.rng.choice(type_pool)
        val = {'INTEGER': '5', 'BIGINT': '12', 'DOUBLE': '1.5', 'DOUBLE PRECISION': '2.5', 'BOOLEAN': 'true', 'DATE': '2020-01-02', 'VARCHAR(10)': 'abc', 'TEXT': 'x y',
               'DECIMAL(10,2)': '3.25', 'TIMESTAMP': '2020-01-02T03:04:05', 'REAL': '0.5'}
        rows = [['1', val[tv], val[tw]], ['2', val[tv], val[tw]]]
        shapes = [('plain', {'m': tmq('ref', 'v'), 'lang': None, 'dt': None, 'joins': []}),
                  ('dt', {'m': tmq('ref', 'v'), 'lang': None, 'dt': tmq('const', EXN + 'dt/own'), 'joins': []}),
                  ('lang', {'m': tmq('ref', 'v'), 'lang': tmq('const', 'en', 'lit'), 'dt': None, 'joins': []}),
                  ('iri', {'m': tmq('ref', 'v', 'iri', 'iri'), 'lang': None, 'dt': None, 'joins': []}),
                  ('plain-w', {'m': tmq('ref', 'w'), 'lang': None, 'dt': None, 'joins': []}),
                  ('templ', {'m': tmq('templ', '{v}', 'iri', 'lit'), 'lang': None, 'dt': None, 'joins': []})]
        ctx.rng.shuffle(shapes)
        shapes = shapes[:ctx.rng.choice([3, 4, 6])]
        poms = [{'preds': [tmq('const', EXN + 'p/' + name)], 'objs': [o], 'graphs': []} for name, o in shapes]
        on = ctx.rng.random() < 0.75
        case = {'cfg': {'nquads': False, 'mode': ctx.rng.choice(['NO', 'PARTIAL-AGGREGATIONS'])},
                'sources': [{'key': 'S0', 'kind': 'sqltable', 'cols': ['id', 'v', 'w'], 'rows': rows, 'types': ['TEXT', 'TEXT', 'TEXT']}],
                'doc': [{'id': EXN + 'tm/T', 'src': 'S0', 'nonasserted': False, 'subj': tmq('templ', EXN + 'r/{id}'), 'sjoins': [], 'classes': [], 'sgraphs': [], 'poms': poms}]}
        d = os.path.join(wd, 'inf%d' % rep); os.makedirs(d)
        cfg = mapcase.materialise_files(case, d).replace('[CONFIGURATION]\n', '[CONFIGURATION]\ninfer_sql_datatypes=%s\n' % ('yes' if on else 'no'))
        table = case['sources'][0]['table']
        r = ctx.pool.call('mat_set', config=cfg, cwd=d, catalogue={table + '\x00v': tv, table + '\x00w': tw})
        shutil.rmtree(d, ignore_errors=True)
        res.evaluations += 1
        res.count('infer-e2e:' + ('on' if on else 'off'))
        if not r.get('ok') or 'lines' not in (r.get('result') or {}):
            res.disagreements.append({'what': 'inference end to end: run failed %s' % str(r)[:300], 'replay': None}); continue
        got = sorted(r['result']['lines'])
        exp = []
        for i in ('1', '2'):
            for name, o in shapes:
                col = 'w' if o['m']['v'] == 'w' else 'v'
                v_ = val[tw] if col == 'w' else val[tv]
                if name in ('plain', 'plain-w'):
                    dt = lk[tw if col == 'w' else tv] if on else None
                    obj = '"%s"' % v_ + ('^^<%s>' % dt if dt else '')
                elif name == 'dt':
                    obj = '"%s"^^<%sdt/own>' % (v_, EXN)
                elif name == 'lang':
                    obj = '"%s"@en' % v_
                elif name == 'iri':
                    obj = '<%s>' % v_
                else:
                    obj = '"%s"' % v_
                exp.append('<%sr/%s> <%sp/%s> %s' % (EXN, i, EXN, name, obj))
        exp = sorted(set(exp))
        if got != exp:
            res.violations.append({'key': None, 'sig': 'infer-e2e', 'what': 'datatype inference end to end (infer_sql_datatypes=%s, column types v=%s w=%s): only implementation %r, only expected %r'
                                   % (on, tv, tw, [x for x in got if x not in exp][:4], [x for x in exp if x not in got][:4]), 'replay': {'case': case, 'types': [tv, tw], 'on': on}})
    # the same table and column names in two databases (one data-source section each) with different declared types: every section's
    # literals get the datatype of its own database
    for rep in range(ctx.scale(6, 40)):
        ta, tb = ctx.rng.sample(['INTEGER', 'DOUBLE', 'BOOLEAN', 'DATE', 'TEXT', 'DECIMAL(10,2)'], 2)
        c = mapcase.gen_shard_case(ctx.rng)
        c['cfg']['nquads'] = False
        c.pop('section_file_path', None)
        for s_ in c['sources']:
            s_.setdefault('table', 'people'); s_.setdefault('db', 'A' if s_['key'] == 'S0' else 'B')
        for t in c['doc']:
            t['classes'] = []
            t['poms'] = [p for p in t['poms'] if p['objs'][0]['m']['k'] == 'ref'][:1]
        c['doc'] = c['doc'][:2]; c['layout'] = [[[c['doc'][0]['id']]], [[c['doc'][1]['id']]]]
        vals2 = {'INTEGER': ['5', '12'], 'DOUBLE': ['1.5', '2.5'], 'BOOLEAN': ['true', 'false'], 'DATE': ['2020-01-02', '2021-03-04'], 'TEXT': ['x y', 'abc'], 'DECIMAL(10,2)': ['3.25', '4.50']}
        for s_, ty in zip(c['sources'], (ta, tb)):
            s_['kind'] = 'sqltable'
            for row in s_['rows']:
                row[1] = ctx.rng.choice(vals2[ty])          # lexical forms of the column's declared type (ill-typed values: C15)
        d = os.path.join(wd, 'infs%d' % rep); os.makedirs(d)
        cfg = mapcase.materialise_layout(c, d, c['layout']).replace('[CONFIGURATION]\n', '[CONFIGURATION]\ninfer_sql_datatypes=yes\n')
        r = ctx.pool.call('mat_set', config=cfg, cwd=d, catalogue={'m_A.db\x00people\x00name': ta, 'm_B.db\x00people\x00name': tb})
        shutil.rmtree(d, ignore_errors=True)
        res.evaluations += 1
        res.count('infer-e2e:two-databases')
        if not r.get('ok') or 'lines' not in (r.get('result') or {}):
            res.disagreements.append({'what': 'inference over two databases: run failed %s' % str(r)[:300], 'replay': None}); continue
        lkx = {t: dec_opt(m) for t, m in zip([ta, tb], model.run_many([['c20.lookup', ta], ['c20.lookup', tb]]))}
        exp = []
        for t, src, ty in zip(c['doc'], c['sources'], (ta, tb)):
            for row in src['rows']:
                if row[1] is None:
                    continue
                exp.append('<%s> <%sp/name> "%s"%s' % (t['subj']['v'].replace('{id}', row[0]), EXN, row[1], ('^^<%s>' % lkx[ty]) if lkx[ty] else ''))
        got, exp = sorted(r['result']['lines']), sorted(set(exp))
        if got != exp:
            res.violations.append({'key': None, 'sig': 'infer-two-dbs', 'what': 'datatype inference over two databases holding the same table name (name: %s in A, %s in B): only implementation %r, only expected %r'
                                   % (ta, tb, [x for x in got if x not in exp][:4], [x for x in exp if x not in got][:4]), 'replay': {'case': c, 'types': [ta, tb], 'on': True}})


def replay(ctx, res, payload):
    case = payload.get('case') or {}
    n, d = case.get('type_name'), case.get('dialect', 'MYSQL')
    r = ctx.pool.call('c20_lookup', type_names=[n], dialect=d, column_label='DATA_TYPE' if d == 'ORACLE' else 'data_type')
    m = dec_opt(ctx.model.run(['c20.lookup', n]))
    got = r['result'][0].get('v') if r['ok'] else r
    print('replay: type %r dialect %s -> implementation %r, model %r, expected %r' % (n, d, got, m, case.get('expected')))
    if 'expected' in case and got != case['expected']:
        res.violations.append({'key': 'type:' + n.upper().split('(')[0], 'what': 'replayed: %r -> %r, expected %r' % (n, got, case['expected']), 'replay': case})
