"""C01 — output equals the R2RML/RML generation rules for every mapping and table."""
import json, os
from .. import family, mapcase, findings

PROPS_FILES = ['theories/Props/C01.v']
FINDINGS_FILES = ['theories/Findings/C01.v', 'theories/Findings/Recorded.v']
LEVEL = 'proof'
TRUSTED = ['Model/Spec.v: the reading of the generation rules (hand-written specification)',
           'Model/Engine.v, Model/Mapping.v, Model/Data.v: hand-written model of materializer.py / mapping_parser.py, tied to the code by the correspondence on every run',
           'rdflib Turtle parser and SPARQL engine, pandas CSV reader: between the rendered case and the modelled normalisation (covered by the correspondence only)']
ASSUMES = ['cell values are valid Unicode strings without NUL; CSV sources (other source kinds: C06/C10)',
           'function-valued term maps are outside this check (C14)']


def gen_cases(ctx, n_simple, n_hard):
    cases = [mapcase.gen_core_case(ctx.rng, hard=False) for _ in range(n_simple)]
    cases += [mapcase.gen_core_case(ctx.rng, hard=True) for _ in range(n_hard)]
    # dense tables: few mappings, many composed values (every character class at the edges of a value)
    cases += [mapcase.gen_core_case(ctx.rng, hard=True, joins=False, nrows=ctx.scale(120, 400)) for _ in range(ctx.scale(10, 60))]
    # the same mapping over same-named tables of two databases (two data-source sections)
    cases += [mapcase.gen_shard_case(ctx.rng) for _ in range(ctx.scale(8, 80))]
    # delimited text files (comma / semicolon / tab) whose cells are words that readers like to interpret (NA, None, NULL, 0071, 1.50, true)
    cases += [mapcase.gen_words_case(ctx.rng) for _ in range(ctx.scale(12, 100))]
    # templates with escaped braces over cell values that themselves hold backslash-brace sequences: the term is built verbatim from the values
    for _ in range(ctx.scale(10, 80)):
        def tmz(k, v, ck='iri', tt=''):
            return {'k': k, 'v': v, 'ck': ck, 'tt': tt}
        vals = ['set\\}theory', 'x\\{y', 'a\\{b\\}', 'plain', '{}', 'back\\slash']
        rows = [[str(i + 1), ctx.rng.choice(vals), ctx.rng.choice(vals)] for i in range(ctx.rng.choice([2, 3, 4]))]
        tpl = ctx.rng.choice(['\\{{v}\\}', 'a\\{b\\}-{v}', '{v}\\}{w}', 'n\\{{w}'])
        obj = {'m': tmz('templ', tpl, 'iri', ctx.rng.choice(['lit', 'lit', 'bnode'])), 'lang': None, 'dt': None, 'joins': []}
        cases.append({'cfg': {'nquads': ctx.rng.random() < 0.5, 'mode': ctx.rng.choice(['NO', 'PARTIAL-AGGREGATIONS', 'MAXIMAL'])},
                      'sources': [{'key': 'S0', 'kind': 'csv', 'cols': ['id', 'v', 'w'], 'rows': rows}],
                      'doc': [{'id': mapcase.EX + 'tm/T', 'src': 'S0', 'nonasserted': False, 'subj': tmz('templ', mapcase.EX + 'r/{id}'), 'sjoins': [], 'classes': [], 'sgraphs': [],
                               'poms': [{'preds': [tmz('const', mapcase.EX + 'p/p')], 'objs': [obj], 'graphs': []}]}]})
    # a few runs with two worker processes (the library's multi-process path)
    for c in cases:
        if ctx.rng.random() < 0.05:
            c['cfg']['procs'] = 2
    return cases


def features(case):
    f = set()
    for role, m, o in family._tmaps(case):
        f.add('%s:%s' % (role, m['k']))
        if m.get('tt'):
            f.add('tt:' + m['tt'])
        if o and o.get('lang'):
            f.add('lang:' + o['lang']['k'])
        if o and o.get('dt'):
            f.add('dt:' + o['dt']['k'])
    for t in case['doc']:
        if t.get('classes'):
            f.add('class')
        if t.get('sgraphs'):
            f.add('sgraph')
        if not t.get('poms'):
            f.add('tm-without-pom')
    f.add('nquads' if case['cfg'].get('nquads') else 'ntriples')
    f.add('mode:' + case['cfg'].get('mode', 'default'))
    f.add('rows:%d' % min(6, max(len(s['rows']) for s in case['sources'])))
    return f


def style_fn(c):
    """spelling of the mapping file: cases that touch no recorded finding are written, by a hash of the document, in YARRRML (when expressible),
    in the legacy RML vocabulary, or with shared subject-map resources and expanded constants; the others in the canonical spelling"""
    import hashlib
    if c.get('layout') or family.triggers(c):
        return None
    h = int(hashlib.md5(json.dumps(c['doc'], sort_keys=True).encode()).hexdigest(), 16) % 6
    if h == 1 and mapcase.yarrrml_ok(c):
        return mapcase.Style(vocab='yarrrml')
    if h == 2:
        return mapcase.Style(vocab='legacy')
    if h == 3:
        st = mapcase.Style(shortcut=False)
        st.share_sm = {}
        return st
    return None


def run(ctx, res):
    res.rule = ('generated mappings (1-3 triples maps, 0-3 predicate-object maps with 1-2 predicate/object/graph maps each, constant / template / '
                'reference term maps of every term type, language tags and datatypes incl. maps, classes, subject-map graphs, referencing object maps) '
                'over CSV tables of 0-6 rows with nulls and a pool of nasty strings; half of them in another spelling (YARRRML, legacy vocabulary, shared subject-map resources), a few with two worker processes; each case through morph_kgc.materialize_set, the extracted Engine '
                'model and the extracted Spec; distinct = distinct abstract case; non-trivial = at least one statement prescribed')
    known = set(ctx.known)
    batch = family.Batch(ctx)
    # corpus first: one replay case per recorded finding
    corpus = [f['replay'] for f in ctx.known.values() if isinstance(f.get('replay'), dict) and 'doc' in f['replay']]
    cases = corpus + gen_cases(ctx, ctx.scale(60, 1500), ctx.scale(140, 4000))
    seen_f = {}
    for chunk_start in range(0, len(cases), 400):
        chunk = cases[chunk_start:chunk_start + 400]
        for rec in batch.run(chunk, style_fn=style_fn):
            tag = family.judge(res, rec, known)
            for ft in features(rec['case']):
                seen_f[ft] = seen_f.get(ft, 0) + 1
            if rec['spec'] and rec['spec'][0] == 'ok' and rec['spec'][1]:
                res.distinct.add(json.dumps(rec['case'], sort_keys=True, ensure_ascii=False))
            if rec['impl'][0] == 'exc':
                res.count('impl-exception:' + rec['impl'][1])
            if len(res.samples) < 4 and tag == 'agree' and rec['impl'][0] == 'ok' and rec['impl'][1]:
                res.samples.append({'case': rec['case'], 'lines': rec['impl'][1][:3]})
    res.histogram.update({'feature:' + k: v for k, v in sorted(seen_f.items())})
    res.extra['corpus_cases'] = len(corpus)


def replay(ctx, res, payload):
    case = payload.get('case')
    batch = family.Batch(ctx)
    rec = batch.run([case], style_fn=style_fn)[0]
    print('replay: impl=%s\n model=%s\n spec=%s' % (str(rec['impl'])[:1500], str(rec['model'])[:1500], str(rec['spec'])[:1500]))
    family.judge(res, rec, set(ctx.known))
