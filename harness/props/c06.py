"""C06 — a NULL suppresses exactly the statements that use it and never becomes a term."""
import json, re
from .. import family, mapcase

PROPS_FILES = ['theories/Props/C06.v']
FINDINGS_FILES = []
LEVEL = 'proof'
TRUSTED = ['Model/Data.v arrive: what each reader (pandas CSV/Excel, pyarrow, SQLAlchemy/SQLite, jsonpath, ElementTree, DuckDB) hands over for a NULL -- modelled, not verified; measured by this correspondence for every kind',
           'Model/Spec.v sval: NULL, a missing value and every na_values token are null']
ASSUMES = ['string-valued cells (typed columns: C11); column names are plain identifiers for the non-CSV kinds']
EX = mapcase.EX
KINDS = ['csv', 'tsv', 'json', 'json', 'xml', 'xml', 'parquet', 'feather', 'orc', 'xlsx', 'view', 'sqltable', 'sqlquery', 'frame', 'frame', 'pydict', 'pyjson']
VALS = ['a', 'b', 'x y', 'é', 'v1', 'None', 'nan', 'NULL', 'N/A', '', 'null', 'NaN', '<NA>', 'n/a']


def tm(k, v, ck='iri', tt=''):
    return {'k': k, 'v': v, 'ck': ck, 'tt': tt}


def gen_null_case(rng, kind=None):
    kind = kind or rng.choice(KINDS)
    cols = ['id', 'c1', 'c2', 'c3'] if not (kind == 'json' and rng.random() < 0.5) else ['id', 'n.c1', 'n.c2', 'm.k.c3']
    n = rng.choice([1, 2, 3, 4, 6])
    rows = [[str(i + 1)] + [(None if rng.random() < 0.3 else rng.choice(VALS)) for _ in cols[1:]] for i in range(n)]
    src = {'key': 'S0', 'kind': kind, 'cols': cols, 'rows': rows}
    if kind == 'json':
        src['null_style'] = rng.choice(['null', 'absent'])
    if kind == 'xml':
        src['null_style'] = rng.choice(['absent', 'empty'])
        for r in rows:
            for i, v in enumerate(r):
                if v == '<NA>':
                    r[i] = 'NA'
    if kind == 'sqlquery' and rng.random() < 0.5:
        src['query'] = 'SELECT id, c1, c2, c3 FROM "t0"'
    def o():
        r = rng.random()
        if r < 0.5:
            return {'m': tm('ref', rng.choice(cols[1:])), 'lang': None, 'dt': None, 'joins': []}
        if r < 0.8:
            return {'m': tm('templ', EX + 'o/{' + rng.choice(cols[1:]) + '}' + rng.choice(['', '/{' + rng.choice(cols[1:]) + '}'])), 'lang': None, 'dt': None, 'joins': []}
        return {'m': tm('templ', '{' + rng.choice(cols[1:]) + '} {' + rng.choice(cols[1:]) + '}', 'iri', 'lit'), 'lang': None, 'dt': None, 'joins': []}
    poms = [{'preds': [tm('const', EX + 'p/p%d' % i)], 'objs': [o()], 'graphs': ([tm('templ', EX + 'g/{' + rng.choice(cols[1:]) + '}')] if rng.random() < 0.2 else [])}
            for i in range(rng.choice([1, 2, 3]))]
    subj = tm('templ', EX + 'r/{id}') if rng.random() < 0.7 else tm('templ', EX + 'r/{id}/{' + rng.choice(cols[1:]) + '}')
    cfg = {'nquads': True, 'mode': rng.choice(['NO', 'PARTIAL-AGGREGATIONS'])}
    r = rng.random()
    if r < 0.5:
        pass
    elif r < 0.65:
        cfg['na'] = ['']
    elif r < 0.8:
        cfg['na'] = ['', 'NULL', 'None', 'N/A']
    elif r < 0.9:
        cfg['na'] = ['a', 'x y']
    else:
        cfg['na'] = ['', 'nan', 'null', 'NaN', 'n/a']
    return {'cfg': cfg, 'sources': [src], 'doc': [{'id': EX + 'tm/T', 'src': 'S0', 'nonasserted': False, 'subj': subj, 'sjoins': [], 'classes': [], 'sgraphs': [], 'poms': poms}]}


def duckdb_may_retype(case):
    """a tabular view is read by DuckDB with type detection: a column whose non-empty cells all look like numbers, booleans,
    dates or NaN is not a string column there (C10 records that); such tables are not null-placement cases"""
    import re
    for s in case['sources']:
        if s.get('kind') != 'view':
            continue
        for j in range(len(s['cols'])):
            col = [r[j] for r in s['rows'] if isinstance(r[j], str) and r[j] != '']
            if col and all(re.fullmatch(r'\s*([-+]?(\d+\.?\d*|\.\d+)([eE][-+]?\d+)?|nan|NaN|inf|true|false|TRUE|FALSE|True|False|\d{4}-\d\d-\d\d.*)\s*', v) for v in col):
                return True
    return False


def features(case):
    s = case['sources'][0]
    return {'kind:' + s['kind'] + (':' + s['null_style'] if 'null_style' in s else '') + (':nullable-dtypes' if s.get('dtypes') else ''), 'na:' + ','.join(case['cfg'].get('na', ['<default>']))}


NULL_TOKENS = ['None', 'nan', '<NA>', 'NaT', 'NaN']


def run(ctx, res):
    res.rule = ('one table with NULLs at random positions (30% of the cells) and null-like words as ordinary values, delivered as CSV, TSV, JSON (null / absent key), XML (absent / empty node), '
                'Parquet, Feather, ORC, Excel, DuckDB tabular view, SQLite table and SQLite query, x 5 na_values settings x rules referencing different column subsets; '
                'implementation against the Engine model (reader behaviour per kind) and the Spec; plus a scan of every output term for None / nan / <NA> / NaT not present in the data; '
                'distinct = distinct case; non-trivial = at least one referenced NULL and one statement')
    cases = [c for c in (gen_null_case(ctx.rng) for _ in range(ctx.scale(200, 5000))) if not duckdb_may_retype(c)]
    # NULL join keys on both sides (a NULL never matches, not even another NULL), over several source kinds
    from .c07 import gen_join_case
    for _ in range(ctx.scale(90, 2000)):
        c = gen_join_case(ctx.rng)
        k = ctx.rng.choice(['csv', 'csv', 'csv', 'csv', 'tsv', 'tsv', 'xlsx', 'json', 'parquet', 'sqlquery', 'sqltable', 'xml'])
        for s in c['sources']:
            s['kind'] = k
            s['cols'] = [x for x in s['cols']]
            for r in s['rows']:
                for i in range(len(r)):
                    if ctx.rng.random() < 0.2:
                        r[i] = None
                    elif k == 'xml' and isinstance(r[i], str) and (r[i].strip() != r[i] or '\t' in r[i]):
                        r[i] = 'w'
        cases.append(c)
    # a hierarchy over ONE source (child and parent triples map read the same table, joined on different columns): a NULL in a column
    # that only one side references must suppress that side's statements only
    for _ in range(ctx.scale(30, 400)):
        n = ctx.rng.choice([2, 3, 4, 6])
        ids = [str(i + 1) for i in range(n)]
        rows = []
        for i in range(n):
            rows.append([ids[i], (None if ctx.rng.random() < 0.35 else ctx.rng.choice(ids)), (None if ctx.rng.random() < 0.35 else ctx.rng.choice(['n1', 'n2', 'x y'])),
                         (None if ctx.rng.random() < 0.35 else ctx.rng.choice(['t1', 't2']))])
        src = {'key': 'S0', 'kind': ctx.rng.choice(['csv', 'csv', 'tsv', 'json', 'parquet', 'sqlquery']), 'cols': ['id', 'boss', 'name', 'title'], 'rows': rows}
        parent_subj = ctx.rng.choice([tm('templ', EX + 'p/{id}'), tm('templ', EX + 'p/{id}/{name}'), tm('templ', EX + 'p/{name}')])
        child_subj = ctx.rng.choice([tm('templ', EX + 'c/{id}'), tm('templ', EX + 'c/{id}/{title}')])
        doc = [{'id': EX + 'tm/C', 'src': 'S0', 'nonasserted': False, 'subj': child_subj, 'sjoins': [], 'classes': [], 'sgraphs': [],
                'poms': [{'preds': [tm('const', EX + 'p/boss')], 'objs': [{'m': {'k': 'parent', 'v': EX + 'tm/P', 'ck': 'iri', 'tt': ''}, 'lang': None, 'dt': None, 'joins': [['boss', 'id']]}], 'graphs': []}]},
               {'id': EX + 'tm/P', 'src': 'S0', 'nonasserted': False, 'subj': parent_subj, 'sjoins': [], 'classes': [], 'sgraphs': [],
                'poms': [{'preds': [tm('const', EX + 'p/title')], 'objs': [{'m': tm('ref', 'title'), 'lang': None, 'dt': None, 'joins': []}], 'graphs': []}]}]
        cases.append({'cfg': {'nquads': ctx.rng.random() < 0.5, 'mode': ctx.rng.choice(['NO', 'PARTIAL-AGGREGATIONS'])}, 'sources': [src], 'doc': doc})
    # in-memory frames with pandas nullable dtypes: a NULL is pd.NA in an Int64 / boolean / string column
    for _ in range(ctx.scale(30, 500)):
        n = ctx.rng.choice([1, 2, 3, 5])
        rows = []
        for i in range(n):
            rows.append([str(i + 1),
                         None if ctx.rng.random() < 0.3 else ('i', ctx.rng.choice([0, 1, 7, 10, -3, 2024])),
                         None if ctx.rng.random() < 0.3 else ('b', ctx.rng.random() < 0.5),
                         None if ctx.rng.random() < 0.3 else ctx.rng.choice(['a', 'x y', 'é', 'nan', 'None', 'v1'])])
        c = gen_null_case(ctx.rng, kind='frame')
        c['sources'][0].update({'cols': ['id', 'c1', 'c2', 'c3'], 'rows': rows, 'dtypes': {'c1': 'Int64', 'c2': 'boolean', 'c3': 'string'}})
        c['sources'][0].pop('null_style', None)
        cases.append(c)
    # a NULL in a column that only a graph map reads suppresses the statement in BOTH output formats (N-TRIPLES does not show the graph, the
    # statement still has no placement)
    from .c02 import gen_graph_only_null_case
    cases += [gen_graph_only_null_case(ctx.rng) for _ in range(ctx.scale(14, 150))]
    # na_values name cell TEXTS: a numeric-looking token is a null also where the source delivers numbers (database integers, JSON numbers, Parquet)
    for _ in range(ctx.scale(12, 120)):
        kind = ctx.rng.choice(['sqltable', 'sqlquery', 'json', 'parquet', 'feather'])
        ints = [7, 10, -1, -999, 5, 0]
        rows = [[str(i + 1), ['i', ctx.rng.choice(ints)], ['i', ctx.rng.choice(ints)]] for i in range(ctx.rng.choice([2, 3, 5]))]
        src = {'key': 'S0', 'kind': kind, 'cols': ['id', 'n', 'm'], 'rows': rows}
        if kind in ('sqltable', 'sqlquery'):
            src['types'] = ['TEXT', 'INTEGER', 'INTEGER']
        doc = [{'id': EX + 'tm/T', 'src': 'S0', 'nonasserted': False, 'subj': tm('templ', EX + 'r/{id}'), 'sjoins': [], 'classes': [], 'sgraphs': [],
                'poms': [{'preds': [tm('const', EX + 'p/n')], 'objs': [{'m': tm('ref', 'n'), 'lang': None, 'dt': None, 'joins': []}], 'graphs': []},
                         {'preds': [tm('const', EX + 'p/m')], 'objs': [{'m': tm('templ', EX + 'o/{m}'), 'lang': None, 'dt': None, 'joins': []}], 'graphs': []}]}]
        cases.append({'cfg': {'nquads': False, 'mode': 'NO', 'na': ctx.rng.choice([['-1'], ['-999', '7'], ['0', ''], ['10', 'nan']])}, 'sources': [src], 'doc': doc})
    family.run_family(ctx, res, cases, features, style_fn=style_fn)
    # second oracle on the same cases, implementation only: a null word that is not in the data must not appear
    batch = family.Batch(ctx)
    for rec in batch.run(cases[:ctx.scale(120, 2000)], want_spec=False):
        if rec['impl'][0] != 'ok':
            continue
        data_words = set(v for r in rec['case']['sources'][0]['rows'] for v in r if isinstance(v, str))
        for line in rec['impl'][1]:
            for tok in NULL_TOKENS:
                if tok not in data_words and re.search(r'(?<![A-Za-z])' + re.escape(tok) + r'(?![A-Za-z])', line) and not any(tok in w for w in data_words):
                    res.violations.append({'key': None, 'sig': 'null-word:' + tok + ':' + rec['case']['sources'][0]['kind'],
                                           'what': 'the word %r appears in %r although no cell holds it (source kind %s)' % (tok, line[:200], rec['case']['sources'][0]['kind']),
                                           'replay': rec['case']})


from .c01 import style_fn       # spellings: YARRRML / legacy vocabulary / shared subject maps by a hash of the document


def replay(ctx, res, payload):
    family.replay_family(ctx, res, payload, style_fn=style_fn)
