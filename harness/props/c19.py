"""C19 — every configuration is honoured or rejected, never silently misread."""
import json, os, shutil
from .. import common, family, mapcase

PROPS_FILES = ['theories/Props/C19.v']
FINDINGS_FILES = []
LEVEL = 'proof'
TRUSTED = ['Model/Config.v (defaults over the regenerated option tables, validation, getboolean, get_na_values, output path); ConfigParser INI syntax and interpolation are not modelled: the harness '
           'writes plain key=value lines', 'Python pathlib.with_suffix is modelled for file names without a trailing dot']
ASSUMES = ['ASCII option values; unknown option names are ignored by ConfigParser (observation, not part of the property)']
EX = mapcase.EX
OPTS = {
    'output_format': ['N-TRIPLES', 'N-QUADS', 'n-triples', 'n-quads', 'N-Quads', 'nquads', 'TURTLE', 'N-TRIPLES ', '', 'NQUADS', 'n_quads'],
    'logging_level': ['INFO', 'debug', 'Warning', 'ERROR', 'critical', 'notset', 'VERBOSE', '', 'warn', '10'],
    'mapping_partitioning': ['PARTIAL-AGGREGATIONS', 'partial-aggregations', 'MAXIMAL', 'maximal', 'NO', 'no', 'false', 'OFF', '0', 'yes', 'TRUE', '', 'partial', 'Maximal', 'none'],
    'output_dir': ['', 'outd', 'a/b'],
    'output_file': ['', 'kg', 'out/kg', 'kg.nt', 'kg.tar.gz', 'a.b/c', '.hidden', 'x.y.z', 'KG'],
    'na_values': ['', ',nan', 'NULL', 'a,b,a', 'x, y', ',', 'nan,,N/A', '$$,NULL', '$', 'US$,x'],
    'safe_percent_encoding': ['', ':/', '/', '-._~', ':/?#', '$$', '/$$:', '$/'],
    'only_printable_chars': ['yes', 'no', 'true', 'False', 'ON', 'off', '1', '0', '', 'maybe', 'y'],
    'infer_sql_datatypes': ['yes', 'no', '', 'TRUE', 'nope'],
    'number_of_processes': ['1', '2', '', '04', 'two'],
}


def gen_config(rng):
    m = {}
    for k, vals in OPTS.items():
        r = rng.random()
        if r < 0.45:
            continue
        v = rng.choice(vals)
        name = k if rng.random() < 0.8 else rng.choice([k.upper(), k.title()])
        m[name] = v
    return m


def interpolate(v):
    """the INI reader's value interpolation (ExtendedInterpolation) on values without ${...} references: $$ is a dollar sign, a lone $ is an error"""
    out, i = '', 0
    while i < len(v):
        if v[i] == '$':
            if v[i + 1:i + 2] == '$':
                out += '$'; i += 2; continue
            return None
        out += v[i]; i += 1
    return out


def ini_text(m, with_source=False):
    lines = ['[CONFIGURATION]'] + ['%s=%s' % (k, v) for k, v in m.items()]
    if with_source:
        lines += ['[DS]', 'mappings=' + with_source]
    return '\n'.join(lines) + '\n'


def run(ctx, res):
    res.rule = ('random assignments of 10 documented options (valid, invalid, empty, absent, upper / lower / title case of values and of option names); each INI text is loaded by '
                'load_config_from_argument as a string and as a file, every getter is read back and compared with Model/Config.v; then option effects: na_values / safe_percent_encoding / '
                'only_printable_chars / output_format through materialize_set against the Engine model, file_path vs mapping-named file, missing mapping path raises; '
                'distinct = distinct option assignment; non-trivial = at least one option given')
    known = set(ctx.known)
    wd = common.workdir()
    cfgs = [gen_config(ctx.rng) for _ in range(ctx.scale(300, 6000))]
    cfgs += [{k: v} for k, vals in OPTS.items() for v in vals]
    jobs = []
    for i, m in enumerate(cfgs):
        jobs.append({'fn': 'config_probe', 'args': {'text': ini_text(m)}})
        jobs.append({'fn': 'config_probe', 'args': {'text': ini_text(m), 'as_file': os.path.join(wd, 'cfg%d.ini' % i)}})
    out = ctx.pool.map(jobs, timeout=120)
    mres = ctx.model.run_many([['config.load', [[k.lower(), (interpolate(v) or '').strip()] for k, v in m.items()], 'g1'] for m in cfgs])
    for i, (m, mr) in enumerate(zip(cfgs, mres)):
        a, b = out[2 * i], out[2 * i + 1]
        res.evaluations += 1
        if m:
            res.distinct.add(json.dumps(m, sort_keys=True))
        if not a.get('ok') or not b.get('ok'):
            res.disagreements.append({'what': 'probe job failed: %s %s' % (str(a)[:200], str(b)[:200]), 'replay': m}); continue
        ra, rb = a['result'], b['result']
        if ra != rb:
            res.violations.append({'key': None, 'sig': 'file-vs-string', 'what': 'the same configuration behaves differently as a string and as a file: %s vs %s' % (str(ra)[:300], str(rb)[:300]), 'replay': {'options': m}})
            continue
        if any(interpolate(v) is None for v in m.values()):
            res.count('load:lone-dollar')
            if 'exc' not in ra:
                res.violations.append({'key': None, 'sig': 'lone-dollar', 'what': 'a value with a lone $ (an interpolation syntax error of the INI format) is accepted: %s' % str(ra)[:300], 'replay': {'options': m}})
            continue
        if 'exc' in ra:
            I = ('exc', ra['exc'])
        else:
            I = ('ok', ra['values'], ra['na'], ra['printable'], ra['infer'], ra['path'])
        if mr[0] == 'error':
            M = ('exc', mr[1])
        else:
            def b2(x):
                return True if x == 'true' else (False if x == 'false' else 'error')
            M = ('ok', list(mr[1]), sorted(mr[2]), b2(mr[3]), b2(mr[4]), (mr[5][0] if mr[5] else None))
        res.count('load:' + I[0])
        if I[0] != M[0]:
            res.disagreements.append({'what': 'configuration %r: implementation %s, model %s' % (m, str(I)[:300], str(M)[:300]), 'replay': {'options': m}}); continue
        if I[0] == 'ok':
            # number_of_processes default is machine dependent: compared as text
            if M[5] is None:
                M = M[:5] + (I[5],)
                res.count('path:unmodelled')
            if list(I[1]) != list(M[1]) or I[2] != M[2] or I[3] != M[3] or I[4] != M[4] or I[5] != M[5]:
                res.disagreements.append({'what': 'configuration %r read back differently: implementation %s, model %s' % (m, str(I)[:400], str(M)[:400]), 'replay': {'options': m}})
    # ---- effects of the documented options, end to end
    batch = family.Batch(ctx)
    cases = []
    for _ in range(ctx.scale(40, 600)):
        c = mapcase.gen_core_case(ctx.rng, hard=True, joins=False)
        c['cfg']['na'] = ctx.rng.choice([['', 'nan'], [''], ['NULL', 'x y'], ['a', 'b', '']])
        c['cfg']['safe'] = ctx.rng.choice(['', ':/', '/', '-._~:'])
        c['cfg']['printable'] = ctx.rng.random() < 0.5
        c['cfg']['nquads'] = ctx.rng.random() < 0.5
        cases.append(c)
    # safe_percent_encoding applies to every IRI position, the graph included
    def tmx(k, v, ck='iri', tt=''):
        return {'k': k, 'v': v, 'ck': ck, 'tt': tt}
    EXN = mapcase.EX
    for _ in range(ctx.scale(10, 80)):
        vals = ['a/b', 'x:y', 'é/ü', 'p q', 'a-b.c', 'k?q#f', 'plain']
        rows = [[str(i + 1), ctx.rng.choice(vals), ctx.rng.choice(vals)] for i in range(ctx.rng.choice([2, 3, 5]))]
        g = [tmx('templ', EXN + 'g/{v}')]
        doc = [{'id': EXN + 'tm/T', 'src': 'S0', 'nonasserted': False, 'subj': tmx('templ', EXN + 'r/{id}/{w}'), 'sjoins': [], 'classes': [], 'sgraphs': g if ctx.rng.random() < 0.5 else [],
                'poms': [{'preds': [tmx('const', EXN + 'p/p')], 'objs': [{'m': ctx.rng.choice([tmx('templ', EXN + 'o/{v}'), tmx('ref', 'v')]), 'lang': None, 'dt': None, 'joins': []}], 'graphs': g}]}]
        cases.append({'cfg': {'nquads': True, 'mode': ctx.rng.choice(['NO', 'PARTIAL-AGGREGATIONS', 'MAXIMAL']), 'safe': ctx.rng.choice([':/', '/', '-._~:', ':/?#']), 'printable': False},
                      'sources': [{'key': 'S0', 'kind': 'csv', 'cols': ['id', 'v', 'w'], 'rows': rows}], 'doc': doc})
    # na_values are compared with the text of the cell whatever type the source delivers it in (integers of a database or of JSON numbers)
    for _ in range(ctx.scale(10, 80)):
        kind = ctx.rng.choice(['sqltable', 'sqlquery', 'json', 'parquet'])
        ints = [7, 10, -999, 5, 0, 42]
        rows = [[str(i + 1), ['i', ctx.rng.choice(ints)], ['i', ctx.rng.choice(ints)]] for i in range(ctx.rng.choice([2, 3, 5]))]
        src = {'key': 'S0', 'kind': kind, 'cols': ['id', 'n', 'm'], 'rows': rows}
        if kind in ('sqltable', 'sqlquery'):
            src['types'] = ['TEXT', 'INTEGER', 'INTEGER']
        doc = [{'id': EXN + 'tm/T', 'src': 'S0', 'nonasserted': False, 'subj': tmx('templ', EXN + 'r/{id}'), 'sjoins': [], 'classes': [], 'sgraphs': [],
                'poms': [{'preds': [tmx('const', EXN + 'p/n')], 'objs': [{'m': tmx('ref', 'n'), 'lang': None, 'dt': None, 'joins': []}], 'graphs': []},
                         {'preds': [tmx('const', EXN + 'p/m')], 'objs': [{'m': tmx('templ', EXN + 'o/{m}'), 'lang': None, 'dt': None, 'joins': []}], 'graphs': []}]}]
        cases.append({'cfg': {'nquads': False, 'mode': 'NO', 'na': ctx.rng.choice([['-999'], ['-999', '7'], ['0', '42', ''], ['10']]), 'safe': '', 'printable': False}, 'sources': [src], 'doc': doc})
    # only_printable_chars applies to the results of function-valued term maps too
    from .c14 import gen_fn_case
    for _ in range(ctx.scale(24, 150)):
        c = gen_fn_case(ctx.rng)
        c['cfg']['printable'] = True
        for r_ in c['sources'][0]['rows']:
            for i_ in range(1, len(r_)):
                if r_[i_] is not None and ctx.rng.random() < 0.85:
                    r_[i_] = ctx.rng.choice(['be\x07ll', 'zero\u200bwidth', 'a\x1fb', 'B\x7fc,d'])
        cases.append(c)
    for rec in batch.run(cases):
        family.judge(res, rec, known)
    # file named by the mapping vs by the file_path option
    fp_cases = [c for c in cases if len(c['sources']) == 1][:ctx.scale(15, 200)]
    a = [r['impl'] for r in batch.run(fp_cases, want_spec=False)]
    b = [r['impl'] for r in batch.run([dict(c, file_path_option=c['sources'][0]['key']) for c in fp_cases], want_spec=False)]
    # ... whatever vocabulary the mapping names its logical table in: an R2RML mapping (rr:logicalTable / rr:tableName) over the file of file_path
    r2 = [c for c in fp_cases if c['sources'][0].get('kind', 'csv') == 'csv' and not c.get('execs') and not family.triggers(c)]
    r2_out = [r['impl'] for r in batch.run([dict(c, file_path_option=c['sources'][0]['key']) for c in r2], want_spec=False, style_fn=lambda c_: mapcase.Style(vocab='r2rml'))]
    r2_ref = {json.dumps(c, sort_keys=True, ensure_ascii=False): x for c, x in zip(fp_cases, a)}
    for c, y in zip(r2, r2_out):
        res.evaluations += 1
        res.count('file_path:r2rml')
        x = r2_ref[json.dumps(c, sort_keys=True, ensure_ascii=False)]
        if not family.same(x, y):
            res.violations.append({'key': None, 'sig': 'file_path:r2rml', 'what': 'an R2RML mapping (rr:tableName) over the file named by file_path gives %s, the RML mapping naming the file itself gives %s'
                                   % (str(y)[:200], str(x)[:200]), 'replay': {'case': c}})
    for c, x, y in zip(fp_cases, a, b):
        res.evaluations += 1
        if not family.same(x, y):
            res.violations.append({'key': None, 'sig': 'file_path', 'what': 'naming the file by the file_path option changes the result: %s vs %s' % (str(x)[:200], str(y)[:200]), 'replay': {'case': c}})
    # a mapping path that does not exist raises
    for name in ['nope.ttl', 'dir/none.ttl', 'm.ttl,missing.ttl']:
        d = os.path.join(wd, 'miss'); os.makedirs(d, exist_ok=True)
        c = fp_cases[0] if fp_cases else cases[0]
        cfg = mapcase.materialise_files(c, d).replace('mappings=m.ttl', 'mappings=' + name)
        r = family.impl_outcome(ctx.pool.call('mat_set', config=cfg, cwd=d))
        res.evaluations += 1
        if r[0] != 'exc':
            res.violations.append({'key': None, 'sig': 'missing-mapping', 'what': 'a mapping path that does not exist (%s) does not raise: %s' % (name, str(r)[:200]), 'replay': {'mappings': name}})
        shutil.rmtree(d, ignore_errors=True)
    res.samples = [{'options': cfgs[i]} for i in range(4)]


def replay(ctx, res, payload):
    c = payload.get('case') or {}
    if 'options' in c:
        m = c['options']
        r = ctx.pool.call('config_probe', text=ini_text(m))
        mr = ctx.model.run(['config.load', [[k.lower(), v.strip()] for k, v in m.items()], 'g1'])
        print('replay: implementation %s\n model %s' % (r, mr))
