"""C18 — RDFLib graph and Oxigraph store hold exactly the generated statements."""
import json, os, shutil
from .. import common, family, mapcase
from .c08 import gen_graph_case
from .c13 import gen_star_case as _gen_star, expansion_size


def gen_star_case(rng):
    c = _gen_star(rng)
    while expansion_size(c) > 40:
        c = _gen_star(rng)
    return c

PROPS_FILES = ['theories/Props/C18.v']
FINDINGS_FILES = []
LEVEL = 'proof'
TRUSTED = ['rdflib N-Quads parser / Graph and pyoxigraph Store.bulk_load (third-party): observed, not modelled',
           'expected quads are obtained by parsing every statement on its own with pyoxigraph (strict)']
ASSUMES = ['partial claim: the theorem is about the three lines of glue (join with ".\\n", final ".") against the line-oriented reader; which quads the two libraries then hold is decided by the differential check only',
           'blank nodes are compared up to renaming (both loaders rename them)']


def sanitize(case, tricky=False):
    """clean data and maps so that every generated term is valid (validity itself is C05's subject): cell values become
    plain tokens, reference-valued IRI maps become templates"""
    # plain tokens, and tokens that look like N-Quads syntax inside a literal (in IRIs they are percent-encoded): blank node labels, IRIs, quoted triples, statement ends
    # plain tokens; two of them are text that is not in Unicode normal form C (a loader must not normalise what it stores)
    toks = ['a1', 'b2', 'c3', 'd4', 'e5', 'x', 'y', 'zz', 'cafe\u0301', '\u212b\u1100\u1161']
    if tricky:
        toks = ['a1', 'b2', 'c3', 'x', 'k_:v1', '_:b2', '<http://ex.org/a> .', '<< a >>', 'e . f', '"q"@en', 'x^^<y>', 'http://ex.org/a_:b']
    for s in case['sources']:
        for n_row, r in enumerate(s['rows']):
            for i, v in enumerate(r):
                if isinstance(v, str):
                    r[i] = toks[(len(v) * 5 + i + n_row) % len(toks)]
    for role, m, o in family._tmaps(case):
        if m['k'] == 'ref' and (role in ('subject', 'predicate', 'graph') or m.get('tt') == 'iri'):
            m['k'], m['v'] = 'templ', mapcase.EX + 'v/{' + m['v'] + '}'
        if role == 'lang' and m['k'] != 'const':
            m.update({'k': 'const', 'v': 'en', 'ck': 'lit'})
    return case


def run(ctx, res):
    res.rule = ('results with named graphs, default-graph statements, blank nodes, tagged / typed literals, RDF-star statements and empty results (generators of C08 and C13, clean data), both output formats; '
                'materialize_set is compared with the quads held by materialize_oxigraph(...) and by the store behind materialize(...) and with what a caller iterating the returned rdflib Graph sees; '
                'distinct = distinct case; non-trivial = non-empty result with at least one named-graph or RDF-star statement')
    known = set(ctx.known)
    cases = []
    for _ in range(ctx.scale(80, 1500)):
        c = sanitize(gen_graph_case(ctx.rng) if ctx.rng.random() < 0.65 else gen_star_case(ctx.rng), tricky=ctx.rng.random() < 0.4)
        if family.triggers(c) - {'mixed-pom', 'selfjoin-elimination', 'star-repeated-join'}:
            continue
        cases.append(c)
    empty = {'cfg': {'nquads': True, 'mode': 'NO'}, 'sources': [{'key': 'S0', 'kind': 'csv', 'cols': ['id'], 'rows': []}],
             'doc': [{'id': mapcase.EX + 'tm/T', 'src': 'S0', 'nonasserted': False, 'subj': {'k': 'templ', 'v': mapcase.EX + 'r/{id}', 'ck': 'iri', 'tt': ''}, 'sjoins': [], 'classes': [mapcase.EX + 'C'], 'sgraphs': [], 'poms': []}]}
    cases.append(empty)
    # a large result whose blank nodes each occur in two statements (above any plausible batch size of a loader)
    n = ctx.scale(51000, 90000)       # two statements per row: above 100 000 statements (a plausible batch size of a loader)
    EX = mapcase.EX
    def tm(k, v, ck='iri', tt=''):
        return {'k': k, 'v': v, 'ck': ck, 'tt': tt}
    cases.append({'cfg': {'nquads': True, 'mode': 'NO'}, 'sources': [{'key': 'S0', 'kind': 'csv', 'cols': ['id', 'v'], 'rows': [[str(i), 'v%d' % i] for i in range(n)]}],
                  'doc': [{'id': EX + 'tm/T', 'src': 'S0', 'nonasserted': False, 'subj': tm('templ', 'b{id}', 'iri', 'bnode'), 'sjoins': [], 'classes': [], 'sgraphs': [],
                           'poms': [{'preds': [tm('const', EX + 'p/a')], 'objs': [{'m': tm('ref', 'v'), 'lang': None, 'dt': None, 'joins': []}], 'graphs': []},
                                    {'preds': [tm('const', EX + 'p/b')], 'objs': [{'m': tm('templ', EX + 'o/{id}'), 'lang': None, 'dt': None, 'joins': []}], 'graphs': [tm('const', EX + 'g/g1')]}]}]})
    wd = common.workdir()
    jobs, dirs = [], []
    for i, c in enumerate(cases):
        d = os.path.join(wd, 'ld%d' % i); os.makedirs(d)
        jobs.append({'fn': 'loaders', 'args': {'config': mapcase.materialise_files(c, d), 'cwd': d}}); dirs.append(d)
    outs = ctx.pool.map(jobs, timeout=300)
    for d in dirs:
        shutil.rmtree(d, ignore_errors=True)
    for c, r in zip(cases, outs):
        res.evaluations += 1
        if not r.get('ok'):
            res.disagreements.append({'what': 'loader job failed: %s' % str(r)[:300], 'replay': c}); continue
        o = r['result']
        if 'set_exc' in o:
            res.count('set-raises'); continue
        if o['unparseable']:
            res.count('set-has-invalid-lines'); continue       # C05's business (raw reference IRIs ...)
        exp = o['expected']
        star = any('<<' in l for l in o['set'])
        named = any(q[3] for q in exp)
        if exp and (star or named):
            res.distinct.add(json.dumps(c, sort_keys=True, ensure_ascii=False))
        res.count('result:%s%s%s' % ('empty' if not exp else 'nonempty', '+named' if named else '', '+star' if star else ''))
        # Oxigraph
        if 'oxigraph_exc' in o:
            res.violations.append({'key': None, 'sig': 'oxigraph-raises', 'what': 'materialize_oxigraph raises: %s' % o['oxigraph_exc'], 'replay': c})
        elif o.get('oxigraph_bnodes') != o.get('expected_bnodes'):
            res.violations.append({'key': None, 'sig': 'oxigraph-bnodes', 'what': 'the Oxigraph store holds %s distinct blank nodes, the set %s: blank nodes were split or merged while loading'
                                   % (o.get('oxigraph_bnodes'), o.get('expected_bnodes')), 'replay': c if len(c['sources'][0]['rows']) < 1000 else {'note': 'large generated case', 'rows': len(c['sources'][0]['rows'])}})
        elif o['oxigraph'] != exp:
            res.violations.append({'key': None, 'sig': 'oxigraph-quads', 'what': 'the Oxigraph store differs from the set: only store %r, only set %r'
                                   % ([q for q in o['oxigraph'] if q not in exp][:2], [q for q in exp if q not in o['oxigraph']][:2]), 'replay': c})
        # RDFLib
        if 'rdflib_exc' in o:
            import re as _re
            nonascii_label = any(_re.search(r'(?:^| )_:[^ ]*[^\x00-\x7f]', l) for l in o['set'])
            if star and 'rdflib-no-rdf-star' in known:
                res.violations.append({'key': 'rdflib-no-rdf-star', 'what': 'recorded finding reproduced', 'replay': None})
            elif nonascii_label and _rejected_nonascii_label(o['rdflib_exc']) and 'rdflib-nonascii-bnode-label' in known:
                # the rejected line itself starts with (or has as object) a non-ASCII label: the label is cut at the first non-ASCII character, so the message is
                # 'Failed to eat _:' when it starts with one and 'Predicate must be uriref' / 'object' messages when one comes later
                res.violations.append({'key': 'rdflib-nonascii-bnode-label', 'what': 'recorded finding reproduced', 'replay': None})
            else:
                res.violations.append({'key': None, 'sig': 'rdflib-raises', 'what': 'materialize raises: %s' % o['rdflib_exc'], 'replay': c})
            continue
        if o.get('rdflib_bnodes') != o.get('expected_bnodes'):
            res.violations.append({'key': None, 'sig': 'rdflib-bnodes', 'what': 'the rdflib store holds %s distinct blank nodes, the set %s' % (o.get('rdflib_bnodes'), o.get('expected_bnodes')),
                                   'replay': c if len(c['sources'][0]['rows']) < 1000 else {'note': 'large generated case'}})
            continue
        if o['rdflib_store'] != exp and 'rdflib-normalises-literals' in known:
            # rdflib rewrites the lexical form of literals typed with an XSD datatype when it can convert them (and "false" for ill-typed booleans)
            def untyped(qs):
                import re
                # as a set: several ill-typed literals normalise to one value ("x"^^boolean and "y"^^boolean are both "false"), so the store may hold fewer statements
                return sorted(set((q[0], q[1], re.sub(r'^".*"\^\^<http://www\.w3\.org/2001/XMLSchema#\w+>$', '"?"^^xsd', q[2], flags=re.S), q[3]) for q in qs))
            if untyped(o['rdflib_store']) == untyped(exp):
                res.violations.append({'key': 'rdflib-normalises-literals', 'what': 'recorded finding reproduced', 'replay': None})
                continue
        if o['rdflib_store'] != exp:
            res.violations.append({'key': None, 'sig': 'rdflib-store', 'what': 'the store behind the returned rdflib Graph differs from the set: only store %r, only set %r'
                                   % ([q for q in o['rdflib_store'] if q not in exp][:2], [q for q in exp if q not in o['rdflib_store']][:2]), 'replay': c})
            continue
        view = o['rdflib_view']
        exp_triples = sorted(set(tuple(q[:3]) for q in exp))
        if sorted(set(map(tuple, view))) != exp_triples:
            exp_set = set(exp_triples)
            if named and 'rdflib-named-graphs-hidden' in known and all(tuple(t) in exp_set for t in view):
                res.violations.append({'key': 'rdflib-named-graphs-hidden', 'what': 'recorded finding reproduced', 'replay': None})
            else:
                res.violations.append({'key': None, 'sig': 'rdflib-view', 'what': 'a caller iterating the returned Graph sees %d statements, the set has %d: missing %r'
                                       % (len(view), len(exp_triples), [t for t in exp_triples if list(t) not in view][:2]), 'replay': c})
    res.samples = [{'case': cases[0]}]


def _rejected_nonascii_label(exc):
    import re
    msg = exc.get('msg', '') if isinstance(exc, dict) else str(exc)
    if 'Invalid line' not in msg:
        return False
    line = msg.split('\n', 1)[1] if '\n' in msg else ''
    return bool(re.match(r"""['"]?(?:\S+ +\S+ +)?_:[^ ]*[^\x00-\x7f]""", line))


def replay(ctx, res, payload):
    c = payload.get('case')
    d = os.path.join(common.workdir(), 'replay'); os.makedirs(d, exist_ok=True)
    r = ctx.pool.call('loaders', config=mapcase.materialise_files(c, d), cwd=d)
    print('replay:', str(r)[:3000])
