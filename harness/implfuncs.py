"""Implementation-side job functions (executed inside worker processes, importing morph_kgc from /repo/src)."""
import io, os, sys, contextlib, importlib


def _bucket(e):
    return {'exc': type(e).__name__, 'msg': str(e)[:300]}


# ---------------------------------------------------------------- C20
def c20_lookup(type_names, dialect, column_label='data_type'):
    """Drives relational_db._get_column_table_datatype with the DB connection and the catalogue answer mocked."""
    import pandas as pd
    import morph_kgc.data_source.relational_db as R
    out = []
    orig_conn, orig_read = R._relational_db_connection, pd.read_sql_query
    try:
        for t in type_names:
            R._relational_db_connection = lambda config, source_name: (None, dialect)
            pd.read_sql_query = lambda q, con=None, **kw: pd.DataFrame({column_label: [t]})
            try:
                out.append({'v': R._get_column_table_datatype(None, 'S', 'T', 'C')})
            except Exception as e:
                out.append(_bucket(e))
    finally:
        R._relational_db_connection, pd.read_sql_query = orig_conn, orig_read
    return out


def c20_lookup_sql(type_names, dialect):
    """Like c20_lookup, but the catalogue query the implementation builds is EXECUTED: against an SQLite connection that holds a table
    information_schema.columns (and all_tab_columns for Oracle) with the row of table T / column C and rows whose names differ from them only in
    letter case (other objects of the same catalogue)."""
    import sqlite3
    import pandas as pd
    import morph_kgc.data_source.relational_db as R
    out = []
    orig_conn = R._relational_db_connection
    try:
        for t in type_names:
            con = sqlite3.connect(':memory:')
            con.execute("ATTACH DATABASE ':memory:' AS information_schema")
            con.execute('CREATE TABLE information_schema.columns (table_name TEXT, column_name TEXT, data_type TEXT)')
            con.execute('CREATE TABLE all_tab_columns (TABLE_NAME TEXT, COLUMN_NAME TEXT, DATA_TYPE TEXT)')
            rows = [('T', 'C', t), ('t', 'C', 'CLOB'), ('T', 'c', 'BLOB'), ('T2', 'C', 'DATE'), ('T', 'C2', 'BOOLEAN')]
            con.executemany('INSERT INTO information_schema.columns VALUES (?,?,?)', rows)
            con.executemany('INSERT INTO all_tab_columns VALUES (?,?,?)', rows)
            R._relational_db_connection = lambda config, source_name, _c=con: (_c, dialect)
            try:
                out.append({'v': R._get_column_table_datatype(None, 'S', 'T', 'C')})
            except Exception as e:
                out.append(_bucket(e))
            con.close()
    finally:
        R._relational_db_connection = orig_conn
    return out


def mat_set(config, cwd=None, catalogue=None):
    """morph_kgc.materialize_set on a config string/path. catalogue: optional {(table, column): type name} used to answer
    the datatype-catalogue query (so that inference can be exercised end-to-end on SQLite data)."""
    import pandas as pd
    import morph_kgc
    old = os.getcwd()
    orig_read = pd.read_sql_query
    if catalogue is not None:
        import re
        def fake(q, con=None, **kw):
            m = re.match(r"SELECT typeof\('(.*)'\) as data_type FROM '(.*)' LIMIT 1$", str(q))
            if m:
                # per database first (key: database file, table, column), then per table
                url = str(getattr(getattr(con, 'engine', con), 'url', ''))
                t = catalogue.get(os.path.basename(url) + '\x00' + m.group(2) + '\x00' + m.group(1), catalogue.get(m.group(2) + '\x00' + m.group(1)))
                return pd.DataFrame({'data_type': [t]}) if t is not None else pd.DataFrame({'data_type': []})
            return orig_read(q, con=con, **kw)
        pd.read_sql_query = fake
    try:
        if cwd:
            os.chdir(cwd)
        try:
            res = morph_kgc.materialize_set(config)
            return {'lines': sorted((x if isinstance(x, str) else 'NON-STRING:' + repr(x)) for x in res), 'types': sorted({type(x).__name__ for x in res})}
        except Exception as e:
            return _bucket(e)
    finally:
        pd.read_sql_query = orig_read
        os.chdir(old)


# ---------------------------------------------------------------- CLI and parser-level entry points
def cli_run(config, cwd, outputs=None, timeout=120, env_extra=None, argv_config='config.ini'):
    """Runs `python -m morph_kgc config.ini` in cwd.  Returns rc, the log text, and every regular file below the
    output locations (relative path -> text)."""
    import subprocess
    with open(os.path.join(cwd, argv_config), 'w', encoding='utf-8') as f:
        f.write(config)
    env = dict(os.environ)
    env.update(env_extra or {})
    p = subprocess.run([sys.executable, '-m', 'morph_kgc', argv_config], cwd=cwd, capture_output=True, text=True, timeout=timeout, env=env)
    return {'rc': p.returncode, 'log': (p.stdout + p.stderr)[-4000:], 'files': snapshot(cwd, outputs)}


def snapshot(cwd, roots=None):
    out = {}
    for root in (roots or ['.']):
        base = os.path.join(cwd, root)
        if os.path.isfile(base):
            out[root] = open(base, encoding='utf-8', errors='surrogateescape', newline='').read()
            continue
        for dp, dn, fn in os.walk(base):
            for f in fn:
                full = os.path.join(dp, f)
                rel = os.path.relpath(full, cwd)
                try:
                    out[rel] = open(full, encoding='utf-8', errors='surrogateescape', newline='').read()
                except Exception as e:
                    out[rel] = '<unreadable %s>' % type(e).__name__
            for d in dn:
                out[os.path.relpath(os.path.join(dp, d), cwd) + '/'] = ''
    return out


def rules_of(config, cwd=None):
    """retrieve_mappings: the normalised rule table with its mapping_partition column, as a list of dicts."""
    import pandas as pd
    old = os.getcwd()
    try:
        if cwd:
            os.chdir(cwd)
        try:
            from morph_kgc.args_parser import load_config_from_argument
            from morph_kgc.mapping.mapping_parser import retrieve_mappings
            cfg = load_config_from_argument(config)
            rml_df, fnml_df = retrieve_mappings(cfg)
            rows = []
            for _, r in rml_df.iterrows():
                rows.append({k: (None if (not isinstance(v, str) and pd.isna(v)) else str(v)) for k, v in r.items()})
            return {'rules': rows}
        except Exception as e:
            return _bucket(e)
    finally:
        os.chdir(old)


def oxi_parse_lines(lines):
    """Strict N-Quads parse (pyoxigraph) of each line + ' .'; returns per line None or a list of parsed quads as nested lists."""
    import io, pyoxigraph
    def term(t):
        if isinstance(t, pyoxigraph.NamedNode):
            return ['iri', t.value]
        if isinstance(t, pyoxigraph.BlankNode):
            return ['bnode', t.value]
        if isinstance(t, pyoxigraph.Literal):
            if t.language:
                return ['lit', t.value, '@', t.language]
            dt = t.datatype.value
            if dt == 'http://www.w3.org/2001/XMLSchema#string':
                return ['lit', t.value, '', '']
            return ['lit', t.value, '^', dt]
        if isinstance(t, pyoxigraph.DefaultGraph):
            return None
        if isinstance(t, pyoxigraph.Triple):
            return ['star', term(t.subject), term(t.predicate), term(t.object)]
        return ['other', str(t)]
    out = []
    for l in lines:
        try:
            qs = list(pyoxigraph.parse(io.BytesIO((l + ' .\n').encode('utf-8')), 'application/n-quads'))
            out.append([[term(q.subject), term(q.predicate), term(q.object), term(q.graph_name)] for q in qs])
        except Exception as e:
            out.append(None)
    return out


def mat_seq(items):
    """Several materialize_set calls in THIS process, in the given order: [{'config','cwd'}] -> list of results."""
    return [mat_set(it['config'], it.get('cwd')) for it in items]


def mat_overwrite(config, dir_a, dir_b, mappings=False):
    """In THIS process: materialize in dir_a; overwrite the data files of dir_a with those of dir_b (same names: the same
    mapping over another table); materialize again.  Returns both results."""
    import shutil as _sh
    r1 = mat_set(config, dir_a)
    for fn in os.listdir(dir_b):
        if not fn.endswith(('.ttl', '.ini')) or (mappings and not fn.endswith('.ini')):      # mappings=True: the mapping files are rewritten too
            _sh.copy(os.path.join(dir_b, fn), os.path.join(dir_a, fn))
    r2 = mat_set(config, dir_a)
    return [r1, r2]


def canon_values(values, datatype, termtype='http://w3id.org/rml/Literal', kind='reference'):
    """Drives materializer._materialize_template on one-row frames: the rendered object term for each value under the
    given datatype (the canonicalisation + escaping path), or the exception."""
    import pandas as pd
    from morph_kgc.args_parser import load_config_from_argument
    from morph_kgc import materializer as M
    from morph_kgc.constants import RML_REFERENCE, RML_TEMPLATE
    cfg = load_config_from_argument('[CONFIGURATION]\nlogging_level=ERROR\n')
    out = []
    for v in values:
        try:
            df = pd.DataFrame({'v': [v]}, dtype=str)
            if kind == 'reference':
                r = M._materialize_template(df, 'v', RML_REFERENCE, cfg, 'object', termtype=termtype, datatype=datatype)
            else:
                r = M._materialize_template(df, 'x{v}y', RML_TEMPLATE, cfg, 'object', termtype=termtype, datatype=datatype)
            out.append({'v': str(r['object'][0])})
        except Exception as e:
            out.append(_bucket(e))
    return out


def config_probe(text, as_file=None, group='g1'):
    """load_config_from_argument on an INI text (or on a file holding it) and every getter the model also computes."""
    from morph_kgc.args_parser import load_config_from_argument
    import logging
    arg = text
    if as_file:
        with open(as_file, 'w', encoding='utf-8') as f:
            f.write(text)
        arg = as_file
    root = logging.getLogger()
    try:
        try:
            c = load_config_from_argument(arg)
        except Exception as e:
            return _bucket(e)
        def safe(fn):
            try:
                return fn()
            except Exception as e:
                return 'error'
        return {'values': [c.get_output_format(), c.get_logging_level(), c.get_mapping_partitioning(), c.get_output_dir(), c.get_output_file(),
                           c.get_safe_percent_encoding(), str(safe(c.get_number_of_processes))],
                'na': sorted(c.get_na_values()), 'printable': safe(c.only_write_printable_characters), 'infer': safe(c.infer_sql_datatypes),
                'path': safe(lambda: c.get_output_file_path(group))}
    finally:
        for h in list(root.handlers):
            root.removeHandler(h)


def groups_of(config, cwd=None):
    """The statements of every mapping group, computed with the library internals (no file writing):
    {'all_groups': [...], 'asserted': {group: sorted lines}}"""
    old = os.getcwd()
    try:
        if cwd:
            os.chdir(cwd)
        try:
            from morph_kgc.args_parser import load_config_from_argument
            from morph_kgc.mapping.mapping_parser import retrieve_mappings
            from morph_kgc.materializer import _materialize_mapping_group_to_set
            from morph_kgc.constants import RML_TRIPLES_MAP_CLASS
            cfg = load_config_from_argument(config)
            rml_df, fnml_df = retrieve_mappings(cfg)
            asserted = rml_df.loc[rml_df['triples_map_type'] == RML_TRIPLES_MAP_CLASS]
            out = {}
            for name, g in asserted.groupby(by='mapping_partition'):
                out[str(name)] = sorted(_materialize_mapping_group_to_set(g, rml_df, fnml_df, cfg))
            return {'all_groups': sorted(set(str(x) for x in rml_df['mapping_partition'])), 'asserted': out,
                    'paths': {g: cfg.get_output_file_path(g) for g in set(str(x) for x in rml_df['mapping_partition'])},
                    'single': (None if cfg.get_output_dir() else cfg.get_output_file_path()), 'dirmode': bool(cfg.get_output_dir())}
        except Exception as e:
            return _bucket(e)
    finally:
        os.chdir(old)


WRAPPER = r'''
import os, sys, time, runpy
import morph_kgc.materializer as M
_orig = M.triples_to_file
_spec = dict(kv.split('=') for kv in os.environ.get('VERIF_DELAYS', '').split(',') if '=' in kv)
def _slow(triples, config, mapping_group=None):
    d = _spec.get(str(mapping_group), _spec.get('*'))
    if d:
        time.sleep(float(d))
    return _orig(triples, config, mapping_group)
M.triples_to_file = _slow
sys.argv = ['morph_kgc', sys.argv[1]]
runpy.run_module('morph_kgc', run_name='__main__')
'''


def cli_run_logged(config, cwd, outputs, shim, delays=None, timeout=300):
    """CLI run with the write(2) log shim preloaded and optional per-group delays before a group is written.
    Returns rc, log, files, and the logged writes [(pid, fd, requested, written, lastbyte, path)]."""
    import subprocess
    with open(os.path.join(cwd, 'config.ini'), 'w', encoding='utf-8') as f:
        f.write(config)
    with open(os.path.join(cwd, 'wrapper.py'), 'w') as f:
        f.write(WRAPPER)
    wlog = os.path.join(cwd, 'wlog.txt')
    if os.path.exists(wlog):
        os.remove(wlog)
    env = dict(os.environ, LD_PRELOAD=shim, WLOG_PATH=wlog, VERIF_DELAYS=','.join('%s=%s' % kv for kv in (delays or {}).items()))
    p = subprocess.run([sys.executable, 'wrapper.py', 'config.ini'], cwd=cwd, capture_output=True, text=True, timeout=timeout, env=env)
    writes = []
    if os.path.exists(wlog):
        for l in open(wlog, encoding='utf-8', errors='replace'):
            parts = l.rstrip('\n').split(' ', 5)
            if len(parts) == 6:
                writes.append([int(parts[0]), int(parts[1]), int(parts[2]), int(parts[3]), int(parts[4]), parts[5]])
    return {'rc': p.returncode, 'log': (p.stdout + p.stderr)[-3000:], 'files': snapshot(cwd, outputs), 'writes': writes}


def cli_history(steps, cwd, pre=None):
    """A sequence of CLI runs over one directory.  steps: [config text]; pre: {relative path: text} written first.
    After every step: the expectation computed with the library internals and a snapshot of all *.nt / *.nq files."""
    for rel, text in (pre or {}).items():
        full = os.path.join(cwd, rel)
        os.makedirs(os.path.dirname(full) or cwd, exist_ok=True)
        with open(full, 'w', encoding='utf-8') as f:
            f.write(text)
    out = []
    def snap():
        s = {}
        for dp, dn, fn in os.walk(cwd):
            for f in fn:
                if f.endswith('.nt') or f.endswith('.nq'):
                    full = os.path.join(dp, f)
                    s[os.path.relpath(full, cwd)] = open(full, encoding='utf-8', newline='').read()
        return s
    out.append({'snapshot': snap()})
    for cfg in steps:
        exp = groups_of(cfg, cwd)
        r = cli_run(cfg, cwd, outputs=[])
        out.append({'expect': exp, 'rc': r['rc'], 'log': r['log'][-600:], 'snapshot': snap()})
    return out


def loaders(config, cwd=None):
    """materialize_set, materialize (rdflib) and materialize_oxigraph for one configuration, in canonical quad form."""
    import io, pyoxigraph, rdflib, morph_kgc
    old = os.getcwd()
    out = {}
    try:
        if cwd:
            os.chdir(cwd)
        try:
            out['set'] = sorted(morph_kgc.materialize_set(config))
        except Exception as e:
            return {'set_exc': _bucket(e)}
        def oxi_term(t):
            if t is None or isinstance(t, pyoxigraph.DefaultGraph):
                return ''
            if isinstance(t, pyoxigraph.BlankNode):
                return '_:B'
            if isinstance(t, pyoxigraph.Triple):
                return '<< %s %s %s >>' % (oxi_term(t.subject), oxi_term(t.predicate), oxi_term(t.object))
            return str(t)
        # expected quads: every statement parsed on its own by the strict parser
        exp, bad = [], 0
        import re as _re
        labels = set()
        def bn_ids(t, acc):
            if isinstance(t, pyoxigraph.BlankNode):
                acc.add(t.value)
            elif isinstance(t, pyoxigraph.Triple):
                bn_ids(t.subject, acc); bn_ids(t.object, acc)
        for l in out['set']:
            try:
                for q in pyoxigraph.parse(io.BytesIO((l + ' .\n').encode('utf-8')), 'application/n-quads'):
                    exp.append([oxi_term(q.subject), oxi_term(q.predicate), oxi_term(q.object), oxi_term(q.graph_name)])
            except Exception:
                bad += 1
        # blank-node identity is given by the labels in the text: the well-formed statements parsed as ONE document by the strict parser
        # (labels inside literals or IRIs are not blank nodes, so the text is not searched for them)
        good = []
        for l in out['set']:
            try:
                list(pyoxigraph.parse(io.BytesIO((l + ' .\n').encode('utf-8')), 'application/n-quads')); good.append(l)
            except Exception:
                pass
        try:
            for q in pyoxigraph.parse(io.BytesIO(''.join(l + ' .\n' for l in good).encode('utf-8')), 'application/n-quads'):
                bn_ids(q.subject, labels); bn_ids(q.object, labels)
        except Exception:
            pass
        out['expected_bnodes'] = len(labels)
        out['expected'] = sorted(exp)
        out['unparseable'] = bad
        try:
            st = morph_kgc.materialize_oxigraph(config)
            out['oxigraph'] = sorted([oxi_term(q.subject), oxi_term(q.predicate), oxi_term(q.object), oxi_term(q.graph_name)] for q in st)
            out['oxigraph_len'] = len(st)
            ids = set()
            for q in st:
                bn_ids(q.subject, ids); bn_ids(q.object, ids)
            out['oxigraph_bnodes'] = len(ids)
        except Exception as e:
            out['oxigraph_exc'] = _bucket(e)
        def rd_term(t):
            if isinstance(t, rdflib.BNode):
                return '_:B'
            if isinstance(t, rdflib.Literal):
                if t.language:
                    return pyoxigraph.Literal(str(t), language=t.language).__str__()
                if t.datatype and str(t.datatype) != 'http://www.w3.org/2001/XMLSchema#string':
                    return pyoxigraph.Literal(str(t), datatype=pyoxigraph.NamedNode(str(t.datatype))).__str__()
                return pyoxigraph.Literal(str(t)).__str__()
            return '<%s>' % t
        try:
            g = morph_kgc.materialize(config)
            store_quads = []
            for (s, p, o), ctxs in g.store.triples((None, None, None), context=None):
                for c in ctxs:
                    name = getattr(c, 'identifier', c)
                    gname = '' if (isinstance(name, rdflib.BNode) or name == g.identifier) else '<%s>' % name
                    store_quads.append([rd_term(s), rd_term(p), rd_term(o), gname])
            out['rdflib_store'] = sorted(store_quads)
            out['rdflib_view'] = sorted([rd_term(s), rd_term(p), rd_term(o)] for s, p, o in g)
            out['rdflib_len'] = len(g)
            out['rdflib_bnodes'] = len(set(t for (s, p, o), _ in g.store.triples((None, None, None), context=None) for t in (s, o) if isinstance(t, rdflib.BNode)))
        except Exception as e:
            out['rdflib_exc'] = _bucket(e)
        return out
    finally:
        os.chdir(old)


def build_python_source(spec):
    import pandas as pd, json as _json
    out = {}
    for name, sp in spec.items():
        cols, rows = sp['cols'], sp['rows']
        if sp['type'] == 'frame':
            out[name] = pd.DataFrame([list(r) for r in rows], columns=cols) if rows else pd.DataFrame({c: pd.Series([], dtype='object') for c in cols})
            if sp.get('dup_index') and len(rows) >= 2:
                # a frame put together from two frames (pd.concat without ignore_index): the index labels 0, 1, ... occur twice
                h = len(rows) // 2
                out[name] = pd.concat([pd.DataFrame([list(r) for r in rows[:h]], columns=cols), pd.DataFrame([list(r) for r in rows[h:]], columns=cols)])
            for c_, dt_ in (sp.get('dtypes') or {}).items():
                out[name][c_] = out[name][c_].astype(dt_)       # pandas nullable dtypes: None becomes pd.NA
        elif sp['type'] == 'pylist':
            out[name] = [dict(zip(cols, r)) for r in rows]
        else:
            recs = []
            for r in rows:
                d = {}
                for c, v in zip(cols, r):
                    if v is None and sp.get('null_style') == 'absent':
                        continue
                    d[c] = v
                recs.append(d)
            obj = {'rows': recs}
            out[name] = obj if sp['type'] == 'pydict' else _json.dumps(obj, ensure_ascii=False)
    return out


def fingerprint(objs):
    import pandas as pd, json as _json
    fp = {}
    for k, v in objs.items():
        if isinstance(v, pd.DataFrame):
            fp[k] = ['frame', list(map(str, v.columns)), [[None if (not isinstance(x, str) and pd.isna(x)) else (x if isinstance(x, (str, int, float, bool)) else str(x)) for x in row] for row in v.values.tolist()],
                     [str(t) for t in v.dtypes]]
        else:
            fp[k] = ['obj', _json.dumps(v, sort_keys=True, ensure_ascii=False, default=str) if not isinstance(v, str) else v]
    return fp


def mat_set_py(config, cwd=None, py=None, entry='materialize_set'):
    """materialize_set with in-memory sources built from `py`; also returns a fingerprint of the caller's objects before and
    after the call"""
    import morph_kgc
    old = os.getcwd()
    try:
        if cwd:
            os.chdir(cwd)
        objs = build_python_source(py or {})
        before = fingerprint(objs)
        try:
            res = morph_kgc.materialize_set(config, objs) if objs else morph_kgc.materialize_set(config)
            out = {'lines': sorted(res, key=lambda x: str(x)), 'types': sorted({type(x).__name__ for x in res})}
        except Exception as e:
            out = _bucket(e)
        out['before'] = before
        out['after'] = fingerprint(objs)
        return out
    finally:
        os.chdir(old)


def _tree_hash(cwd):
    import hashlib
    h = {}
    for dp, dn, fn in os.walk(cwd):
        for f in fn:
            full = os.path.join(dp, f)
            try:
                h[os.path.relpath(full, cwd)] = hashlib.sha1(open(full, 'rb').read()).hexdigest()
            except Exception:
                h[os.path.relpath(full, cwd)] = 'unreadable'
    return h


def call_sequence(items, reuse_objects=None):
    """Several library calls in THIS process, one after the other.  items: [{'config','cwd','py'}].
    reuse_objects: {index: earlier index} -- pass the very same Python objects as an earlier call did.
    Returns per call: result, fingerprints of the caller's objects before / after, hashes of every file of cwd before / after."""
    import morph_kgc
    out, kept = [], {}
    for i, it in enumerate(items):
        old = os.getcwd()
        try:
            os.chdir(it['cwd'])
            if reuse_objects and str(i) in reuse_objects:
                objs = kept[int(reuse_objects[str(i)])]
            else:
                objs = build_python_source(it.get('py') or {})
            kept[i] = objs
            before, files_before = fingerprint(objs), _tree_hash(it['cwd'])
            try:
                entry = it.get('entry', 'set')
                if entry == 'rdflib':
                    import rdflib
                    g = morph_kgc.materialize(it['config'], objs) if objs else morph_kgc.materialize(it['config'])
                    res = set(' '.join('_:b' if isinstance(t, rdflib.BNode) else t.n3() for t in tr) for tr in g)
                elif entry == 'oxigraph':
                    import re as _re
                    st = morph_kgc.materialize_oxigraph(it['config'], objs) if objs else morph_kgc.materialize_oxigraph(it['config'])
                    import pyoxigraph as _ox
                    def _canon_term(t):
                        # pyoxigraph gives every blank node a random identifier (29 to 32 hexadecimal digits: leading zeros are not printed): all become _:b
                        if isinstance(t, _ox.BlankNode):
                            return '_:b'
                        if isinstance(t, _ox.Triple):
                            return '<< %s %s %s >>' % (_canon_term(t.subject), _canon_term(t.predicate), _canon_term(t.object))
                        return str(t)
                    res = set(' '.join(_canon_term(t) for t in (q.subject, q.predicate, q.object, q.graph_name)) for q in st)
                else:
                    res = morph_kgc.materialize_set(it['config'], objs) if objs else morph_kgc.materialize_set(it['config'])
                r = {'lines': sorted(res, key=lambda x: str(x))}
            except Exception as e:
                r = _bucket(e)
            r.update({'before': before, 'after': fingerprint(objs), 'files_changed': sorted(k for k, v in _tree_hash(it['cwd']).items() if files_before.get(k) != v),
                      'files_removed': sorted(k for k in files_before if not os.path.exists(os.path.join(it['cwd'], k)))})
            out.append(r)
        finally:
            os.chdir(old)
    return out


def bif_call(fid, kwargs_list):
    """Calls a built-in function of the registry directly on a list of keyword-argument dicts."""
    from morph_kgc.fnml.built_in_functions import bif_dict
    out = []
    f = bif_dict[fid]['function']
    for kw in kwargs_list:
        try:
            out.append({'v': f(**kw)})
        except Exception as e:
            out.append(_bucket(e))
    return out
