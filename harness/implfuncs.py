"""Implementation-side job functions (executed inside worker processes, importing morph_kgc from /repo/src)."""
import io, os, sys, contextlib, importlib


def _bucket(e):
    return {'exc': type(e).__name__, 'msg': str(e)[:300]}


# ---------------------------------------------------------------- C20
def c20_lookup(type_names, dialect, column_label='data_type'):
    """Drives relational_db._get_column_table_datatype with the DB connection and the catalogue answer mocked."""
    import pandas as pd
    import morph_kgc.data_source.relational_db as R
    out = []
    orig_conn, orig_read = R._relational_db_connection, pd.read_sql_query
    try:
        for t in type_names:
            R._relational_db_connection = lambda config, source_name: (None, dialect)
            pd.read_sql_query = lambda q, con=None, **kw: pd.DataFrame({column_label: [t]})
            try:
                out.append({'v': R._get_column_table_datatype(None, 'S', 'T', 'C')})
            except Exception as e:
                out.append(_bucket(e))
    finally:
        R._relational_db_connection, pd.read_sql_query = orig_conn, orig_read
    return out


def mat_set(config, cwd=None, catalogue=None):
    """morph_kgc.materialize_set on a config string/path. catalogue: optional {(table, column): type name} used to answer
    the datatype-catalogue query (so that inference can be exercised end-to-end on SQLite data)."""
    import pandas as pd
    import morph_kgc
    old = os.getcwd()
    orig_read = pd.read_sql_query
    if catalogue is not None:
        import re
        def fake(q, con=None, **kw):
            m = re.match(r"SELECT typeof\('(.*)'\) as data_type FROM '(.*)' LIMIT 1$", str(q))
            if m:
                t = catalogue.get(m.group(2) + '\x00' + m.group(1))
                return pd.DataFrame({'data_type': [t]}) if t is not None else pd.DataFrame({'data_type': []})
            return orig_read(q, con=con, **kw)
        pd.read_sql_query = fake
    try:
        if cwd:
            os.chdir(cwd)
        try:
            res = morph_kgc.materialize_set(config)
            return {'lines': sorted(res, key=lambda x: str(x)), 'types': sorted({type(x).__name__ for x in res})}
        except Exception as e:
            return _bucket(e)
    finally:
        pd.read_sql_query = orig_read
        os.chdir(old)
