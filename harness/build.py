"""Build step shared by all checks: regenerate tables from /repo, full .vo build (make -k), staleness report,
anti-cheat scan, Print Assumptions capture for one property, rebuild of the extracted runner."""
import fcntl, glob, os, re, shutil, subprocess, sys, time
from . import common, tables_extract

COQ = common.COQ
ALLOWED_AXIOMS = set()   # target: "Closed under the global context" everywhere; anything else must be listed here AND in DESIGN §9

CHEAT = re.compile(r'^\s*(Axiom|Axioms|Parameter|Parameters|Conjecture|Admitted|Admit Obligations)\b|\badmit\b|'
                   r'Unset\s+Guard\s+Checking|Unset\s+Positivity|Unset\s+Universe\s+Checking|bypass_check|type-in-type|impredicative-set')


def _vfiles():
    out = []
    for root, _, files in os.walk(os.path.join(COQ, 'theories')):
        for f in files:
            if f.endswith('.v'):
                out.append(os.path.relpath(os.path.join(root, f), COQ))
    return sorted(out)


def _strip_comments(text):
    out, depth, i = [], 0, 0
    while i < len(text):
        if text.startswith('(*', i):
            depth += 1; i += 2
        elif text.startswith('*)', i) and depth:
            depth -= 1; i += 2
        else:
            if depth == 0:
                out.append(text[i])
            elif text[i] == '\n':
                out.append('\n')
            i += 1
    return ''.join(out)


def cheat_scan():
    """Returns a list of 'file:line: text' offences."""
    bad = []
    for vf in _vfiles():
        text = _strip_comments(open(os.path.join(COQ, vf)).read())
        depth = 0
        for n, line in enumerate(text.split('\n'), 1):
            if re.match(r'^\s*(Section|Module Type)\b', line):
                depth += 1
            elif re.match(r'^\s*End\b', line) and depth:
                depth -= 1
            if CHEAT.search(line):
                bad.append('%s:%d: %s' % (vf, n, line.strip()))
            if depth == 0 and re.match(r'^\s*(Variable|Variables|Hypothesis|Hypotheses|Context)\b', line):
                bad.append('%s:%d: %s (outside a section)' % (vf, n, line.strip()))
    return bad


def _run(cmd, timeout, cwd=COQ):
    p = subprocess.run(cmd, cwd=cwd, capture_output=True, text=True, timeout=timeout)
    return p.returncode, p.stdout + p.stderr


class BuildInfo:
    def __init__(self):
        self.tables = None
        self.tables_error = None
        self.make_rc = None
        self.make_tail = ''
        self.stale = []          # .v files whose .vo is not up to date after make -k
        self.cheats = []
        self.runner_ok = False
        self.wall = 0.0

    def built(self, vfile):
        return vfile not in self.stale and os.path.exists(os.path.join(COQ, vfile + 'o'))


def build(jobs=16, timeout=1500):
    t0 = time.time()
    info = BuildInfo()
    os.makedirs(COQ, exist_ok=True)
    lock = open(os.path.join(COQ, '.lock'), 'w')
    fcntl.flock(lock, fcntl.LOCK_EX)
    try:
        try:
            info.tables, _ = tables_extract.regenerate()
        except Exception as e:   # fail closed: reported by the caller through the violation protocol
            info.tables_error = str(e)
        proj = '-Q theories Morph\n-arg -w -arg -notation-overridden,-deprecated-hint-without-locality,-deprecated-instance-without-locality\n' \
               + '\n'.join(_vfiles()) + '\n'
        pp = os.path.join(COQ, '_CoqProject')
        if not os.path.exists(pp) or open(pp).read() != proj or not os.path.exists(os.path.join(COQ, 'Makefile')):
            open(pp, 'w').write(proj)
            _run(['coq_makefile', '-f', '_CoqProject', '-o', 'Makefile'], 120)
        rc, out = _run(['make', '-k', '-j%d' % jobs], timeout)
        info.make_rc = rc
        info.make_tail = '\n'.join(l for l in out.split('\n') if not l.startswith('Closed under'))[-4000:]
        rc2, out2 = _run(['make', '-n', '-k'], 300)
        info.stale = sorted(set(re.findall(r'COQC (\S+\.v)', out2)))
        info.cheats = cheat_scan()
        # write(2) logging shim for C04 (LD_PRELOAD)
        shim_c = os.path.join(common.ROOT, 'harness', 'shim', 'wlog.c')
        shim_so = os.path.join(common.ROOT, 'harness', 'shim', 'wlog.so')
        if os.path.exists(shim_c) and (not os.path.exists(shim_so) or os.path.getmtime(shim_so) < os.path.getmtime(shim_c)):
            _run(['cc', '-shared', '-fPIC', '-O1', '-o', shim_so, shim_c, '-ldl'], 120, cwd=os.path.dirname(shim_c))
        # extracted runner
        src_ml = os.path.join(COQ, 'model.ml')
        ok_extract = 'theories/Extract/Extract.v' not in info.stale and os.path.exists(src_ml)
        if ok_extract:
            dst_ml = os.path.join(common.RUNNER, 'model.ml')
            need = (not os.path.exists(common.DRIVER) or not os.path.exists(dst_ml)
                    or open(dst_ml).read() != open(src_ml).read()
                    or os.path.getmtime(os.path.join(common.RUNNER, 'driver.ml')) > os.path.getmtime(common.DRIVER))
            if need:
                shutil.copy(src_ml, dst_ml)
                shutil.copy(os.path.join(COQ, 'model.mli'), os.path.join(common.RUNNER, 'model.mli'))
                rc3, out3 = _run(['ocamlfind', 'ocamlopt', '-O3', '-w', '-a', 'model.mli', 'model.ml', 'driver.ml', '-o', 'driver'],
                                 600, cwd=common.RUNNER)
                if rc3 != 0:
                    info.make_tail += '\nOCAML: ' + out3[-1500:]
            info.runner_ok = os.path.exists(common.DRIVER) and open(os.path.join(common.RUNNER, 'model.ml')).read() == open(src_ml).read()
    finally:
        fcntl.flock(lock, fcntl.LOCK_UN)
        lock.close()
    info.wall = time.time() - t0
    return info


def obligations_names(vfile):
    text = _strip_comments(open(os.path.join(COQ, vfile)).read())
    return re.findall(r'^\s*(?:Theorem|Lemma|Example)\s+([A-Za-z0-9_\']+)', text, re.M)


def obligations(vfile, timeout=600):
    """Re-compiles one Props/Findings file and returns (ok, theorems, assumptions_by_theorem, output).
    theorems: names declared with Theorem in the file."""
    path = os.path.join(COQ, vfile)
    text = _strip_comments(open(path).read())
    thms = re.findall(r'^\s*(?:Theorem|Lemma|Example)\s+([A-Za-z0-9_\']+)', text, re.M)
    rc, out = _run(['coqc', '-q', '-Q', 'theories', 'Morph', '-w', '-notation-overridden', vfile], timeout)
    assumptions = {}
    printed = re.findall(r'^\s*Print Assumptions\s+([A-Za-z0-9_\']+)', text, re.M)
    # output blocks appear in order of the Print Assumptions commands
    blocks = re.split(r'(?=^Closed under the global context|^Axioms:)', out, flags=re.M)
    blocks = [b.strip() for b in blocks if b.strip().startswith(('Closed under', 'Axioms:'))]
    for name, b in zip(printed, blocks):
        assumptions[name] = b
    return rc == 0, thms, assumptions, out[-3000:]
