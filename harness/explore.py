"""Scratch driver: run N generated core cases through implementation, Engine model and Spec; print disagreement kinds."""
import os, sys, random, json, collections
from harness import common, impl, mapcase

def canon_lines(ls):
    return sorted(set(l.rstrip(' ') for l in ls))

def run(n, seed, hard):
    rng = random.Random(seed)
    model = common.Model()
    pool = impl.Pool()
    wd = common.workdir()
    cases = [mapcase.gen_core_case(rng, hard=hard) for _ in range(n)]
    jobs = []
    for i, c in enumerate(cases):
        d = os.path.join(wd, 'c%d' % i); os.makedirs(d)
        cfg = mapcase.materialise_files(c, d)
        jobs.append({'fn': 'mat_set', 'args': {'config': cfg, 'cwd': d}})
    ires = pool.map(jobs, timeout=120)
    mres = model.run_many([mapcase.w_case('mat', c) for c in cases])
    sres = model.run_many([mapcase.w_case('spec', c) for c in cases])
    pool.close()
    kinds = collections.Counter()
    shown = 0
    for c, i, m, s in zip(cases, ires, mres, sres):
        if not i['ok']:
            iv = ('exc', i.get('exc'))
        elif 'lines' in i['result']:
            iv = ('ok', canon_lines(i['result']['lines']))
        else:
            iv = ('exc', i['result']['exc'], i['result']['msg'][:100])
        mv = ('ok', canon_lines(m[1])) if m[0] == 'ok' else ('exc', m[1])
        sv = ('ok', canon_lines(s[1]))
        k = ('impl=model' if iv[:2] == mv[:2] or (iv[0] == 'exc' and mv[0] == 'exc') else 'impl!=model',
             'impl=spec' if iv == sv else 'impl!=spec', iv[0], mv[0] + (':' + mv[1] if mv[0] == 'exc' else ''))
        kinds[k] += 1
        if (k[0] == 'impl!=model' or k[1] == 'impl!=spec') and shown < int(os.environ.get('SHOW', '3')):
            shown += 1
            print('----', k)
            print(json.dumps(c, ensure_ascii=False)[:3000])
            if iv[0] == 'ok' and mv[0] == 'ok':
                print(' impl-spec:', [x for x in iv[1] if x not in sv[1]][:5], ' spec-impl:', [x for x in sv[1] if x not in iv[1]][:5])
                print(' impl-model:', [x for x in iv[1] if x not in mv[1]][:5])
                print(' model-impl:', [x for x in mv[1] if x not in iv[1]][:5])
            else:
                print(' impl:', str(iv)[:500]); print(' model:', str(mv)[:500])
    for k, v in sorted(kinds.items(), key=lambda kv: -kv[1]):
        print(v, k)

if __name__ == '__main__':
    run(int(sys.argv[1]), int(sys.argv[2]), sys.argv[3] == 'hard')
