# a user-defined function with module-level state (a surrogate-key generator): the engine executes the UDF file for every
# function execution of every rule, so the state starts empty each time and the keys depend only on the rule's own frame
_seen = {}


@udf(fun_id='http://ex.org/fn/seq', v='http://ex.org/fn/p_v')
def seq(v):
    if v not in _seen:
        _seen[v] = len(_seen)
    return 'k%d' % _seen[v]


# a generator that takes only a constant: one call per row gives one key per row
_ticks = []


@udf(fun_id='http://ex.org/fn/tick', prefix='http://ex.org/fn/p_prefix')
def tick(prefix):
    _ticks.append(prefix)
    return '%s%d' % (prefix, len(_ticks))
