"""Worker process: runs implementation-side jobs (functions of harness.implfuncs) on request.
Protocol: one JSON object per line on the original stdout; everything the implementation prints goes to stderr."""
import json, os, sys, traceback


def main():
    proto = os.fdopen(os.dup(1), 'w')
    os.dup2(2, 1)
    sys.stdout = sys.stderr
    from harness import implfuncs
    for line in sys.stdin:
        job = json.loads(line)
        try:
            fn = getattr(implfuncs, job['fn'])
            res = {'ok': True, 'result': fn(**job['args'])}
        except BaseException as e:  # noqa
            if isinstance(e, KeyboardInterrupt):
                raise
            res = {'ok': False, 'exc': type(e).__name__, 'msg': str(e)[:500], 'tb': traceback.format_exc()[-1500:]}
        proto.write(json.dumps(res) + '\n')
        proto.flush()


if __name__ == '__main__':
    main()
