"""Regenerates MANIFEST.json from the table below (kept in one place so that it stays valid)."""
import json, os
ROOT = os.path.dirname(os.path.dirname(os.path.abspath(__file__)))
CLAIMS = {
 'C20': dict(
    text='Proof (Coq): the datatype lookup model (longest key first over the SQL type table REGENERATED from /repo on every run) '
         'maps every catalogue type name of the specification table to its natural-mapping datatype except 7 names recorded as known findings '
         '(natural_mapping_table_partial, by kernel-checked computation over the finite table), ignores any digit/comma/blank parameter list for ANY type name '
         '(params_irrelevant, unbounded), and the inference guard lets explicit datatypes/language tags win and adds nothing when off. '
         'The model is tied to the code by running _get_column_table_datatype (catalogue answer mocked) and the extracted model on the same ~760 names x 4 dialects.',
    note='Trusted: Coq kernel, extraction (ExtrOcamlBasic) + OCaml driver, the table translator, Model/Spec20.v (hand-written natural-mapping table), '
         'the mock of the catalogue query. Not covered: the catalogue SQL itself (SQLite typeof(<literal>) always answers text: known finding), sql_metadata table discovery.',
    technique='Coq proof over regenerated table + differential correspondence (extracted model vs implementation)', ref='7 C20'),
}
CLAIMS.update({
 'C01': dict(
    text='Proof (Coq) + correspondence. Executable Gallina model of the normalisation chain (Model/Mapping.v) and of the materializer as written (Model/Engine.v: row-wise reading '
         'of the vectorised code incl. working-column shadowing, the split/join template loop, joins, quoted maps) and an independent reading of the generation rules (Model/Spec.v). '
         'Theorems proved so far are listed in Props/C01.v (null filter exactness, ...); the full Engine = Spec refinement is NOT proved: on every run the implementation is compared with BOTH '
         'the Engine model and the Spec on generated mappings x tables; a deviation from the Spec is a violation unless it is one of the recorded findings reproduced exactly by the Engine model.',
    note='Partial: engine_refines_spec is not proved in Coq; the tie Spec<->code rests on the differential check (220 cases quick, ~5600 thorough). Function-valued maps: C14. Sources other than CSV: C06/C10.',
    technique='Coq model (Engine + Spec) with proved lemmas, differential correspondence impl vs extracted Engine vs extracted Spec', ref='7 C01', category='proof'),
 'C02': dict(
    text='Proof (Coq): for EVERY labelling of the rule table, materialising group by group and uniting equals materialising rule by rule (grouping_irrelevant, grouping_fails_iff, modes_agree; '
         'unbounded, by induction over the rule list), and the partitioners are total exactly on rule tables whose templates all contain a reference (partition_total, partition_fails_iff). At document level, whatever groups are formed, the grouped run gives exactly the document of the generation rules: for plain documents and for documents with referencing object maps, quoted subject maps, quoted object maps (any_partitioning_gives_the_generation_rules_document and its three forms, Proofs/DocUnionP.v, DocGroupedP.v). '
         'Tied to the code by running every generated case under NO / PARTIAL-AGGREGATIONS / MAXIMAL and comparing the three results with each other and with the model.',
    note='The theorem is about the model of __init__.py/__main__.py grouping (groupby + per-group set + union); pandas groupby and multiprocessing are not modelled. Known finding: reference-free template.',
    technique='Coq proof (union over any labelling) + differential correspondence across the three partitioning modes', ref='7 C02'),
 'C03': dict(
    text='Correspondence against a pairwise criterion (Model/Partition.v `separable`): every pair of asserted rules that the implementation (PARTIAL-AGGREGATIONS, MAXIMAL) puts into different groups must be '
         'separable at some position (incomparable constant prefixes / different constants / blank node vs not / different literal type); plus CLI runs checked for duplicate lines and for the reported total. '
         'The Coq theorems that the criterion is safe for all data are under construction (Props/C03.v).',
    note='Until Props/C03.v holds the disjointness theorems this is a differential check, not a proof: level other.',
    technique='differential check of the implementation partition against the model criterion + CLI duplicate oracle (proof of the criterion pending)', ref='7 C03', category='other'),
 'C05': dict(
    text='Proof (Coq), unbounded over all strings: the 8 sequential str.replace calls equal the character-wise ECHAR map (escape_lit_charwise), reading a rendered literal back yields the value '
         '(unescape_escape, literal_closing_quote), no raw line break survives, UTF-8 and percent-encoding round-trip (utf8_roundtrip, pct_decode_encode) and emit only unreserved / safe / %XX '
         '(pct_output_alphabet), a line printed from well-formed terms parses as exactly that statement and printing is injective (parse_render, print_injective). Correspondence: implementation lines = model lines on '
         'thousands of composed strings x 8 term kinds x safe_percent_encoding / only_printable_chars; every line parsed by pyoxigraph (strict) and decoded back to the source value.',
    note='Reference-valued IRIs, blank-node labels and reference-valued language tags are copied raw by the code: recorded findings (Findings/C05.v). Model/NQuads.v omits UCHAR and quoted triples.',
    technique='Coq proofs over all strings + differential correspondence + strict-parser round-trip oracle', ref='7 C05'),
})
CLAIMS.update({
 'C04': dict(text='Proof (Coq) + correspondence, partial. Theorems: the library result is a union over groups, invariant under any assignment / order of groups (union_schedule_invariant); under the modelled CPython 3.12 '
    'write policy (TextIOWrapper pending chunk + BufferedWriter, 8192 bytes) one f.write per statement line gives raw write(2) payloads made of whole lines only, for all line counts and lengths (payloads_whole_lines); any '
    'interleaving of atomic appends holds exactly the payloads of all writers (interleaving_preserves_payloads); in output_dir mode every group file holds the same lines whatever order the groups complete in (group_files_independent_of_schedule). Correspondence: an LD_PRELOAD shim logs every write(2) to the output files for 1/2/4(/32) processes: complete, '
    'ending in a line feed, sizes equal to the model prediction; forced schedules keep the multiset of lines; library result independent of number_of_processes.',
    note='Partial: the write policy is a model of CPython, not of /repo; atomicity of write(2) on O_APPEND is assumed; schedules are sampled (delays), not enumerated; multiprocessing is not modelled.',
    technique='Coq proofs (union over any schedule; write-policy invariant; merge permutation) + write(2)-level correspondence', ref='7 C04'),
 'C06': dict(text='Correspondence over 17 source kinds (CSV, TSV, JSON null/absent, nested JSON, XML absent/empty, Parquet, Feather, ORC, Excel, DuckDB view, SQLite table/query, DataFrame, dict, JSON string) x na_values settings x NULL positions: '
    'implementation vs the Engine model (Model/Data.v arrive + preprocess) vs the Spec (a NULL suppresses exactly the statements that reference it), plus a scan for None/nan/<NA> words not in the data. Coq: null_filter_exact (C01) states the filter; '
    'the per-kind reader behaviour is modelled, not proved.',
    note='Two genuine defects found by this check were repaired (fix: commits 52bd578, ecec88a).', technique='differential correspondence implementation / extracted Coq Engine model / extracted Coq Spec', ref='7 C06', category='other'),
 'C07': dict(text='Correspondence: child x parent tables with duplicate / NULL / ambiguous keys, 1-3 conditions, same / other / equal-content sources, permuted self-conditions: implementation vs Engine model (merge_data, parent projection, self-join elimination) vs the Spec join (list comprehension).',
    note='Known finding: self-join elimination (NULL / non-unique key). Theorems relating merge_data to the Spec join are not yet in Props/C07.v.', technique='differential correspondence implementation / extracted Coq Engine model / extracted Coq Spec', ref='7 C07', category='other'),
 'C08': dict(text='Correspondence: 0-3 constant / template / reference graph maps on subject maps and predicate-object maps, rr:defaultGraph, NULL graph values, classes, both formats; every line incl. the fourth component against the Engine model and the Spec graph placement (graph_terms).',
    note='Theorems about prepare (class -> POM, subject graphs -> POMs, default graph) not yet in Props/C08.v.', technique='differential correspondence implementation / extracted Coq Engine model / extracted Coq Spec', ref='7 C08', category='other'),
 'C09': dict(text='Differential check across spellings of one abstract mapping: vocabulary (RML, legacy RML + R2RML term maps, R2RML with file_path) x shortcut / expanded x rr:class / explicit POM x graph on subject map / on every POM x merged / split POMs x '
    'Turtle / shuffled N-Triples / RDF-XML / re-serialised prefixed Turtle / .rml extension; all results must be equal (and equal to the Engine model in the canonical spelling).',
    note='rdflib parsers, SPARQL and the vocabulary rewrites are outside the Coq model; YARRRML is not rendered (not covered).', technique='differential check over spellings (serialisation-level invariance cannot be carried by the model)', ref='7 C09', category='other'),
 'C10': dict(text='Differential check: one table of strings delivered in 15 source kinds and through file_path; every result must equal the CSV result and the Engine model (Model/Data.v arrive states what each reader must hand over).',
    note='The readers are third-party code; no theorem about /repo can carry this. Known findings: DataFrame quote stripping, DuckDB type / dialect detection for tabular views. In-memory sources were repaired (fix: bead264).',
    technique='differential check over source formats against the reader model', ref='7 C10', category='other'),
 'C11': dict(text='Differential check: result(whole table) = result(part 1) + result(part 2) for random cuts, = result(permuted + duplicated rows), for string tables and typed tables (SQLite table/query, JSON, Parquet, Feather, ORC) and for canonicalised datatypes; '
    'typed cases also against the Engine model (pandas column coercion, float64 rounding) and the Spec.',
    note='Known finding: column dtype coercion (10 -> 10.0 next to NULL / float). rows_additive theorem not yet in Props/C11.v.', technique='differential check (union over row splits) + correspondence with the Coq reader model', ref='7 C11', category='other'),
 'C12': dict(text='Differential check: a document run as one file must equal every dependency-closed layout of its triples maps over files and sections (also with file-relative identifiers), reordering, and the union of its components run alone; a triples map repeated in two sections must be rejected.',
    note='Genuine defect repaired (fix: c61aea7, duplicate check ran after renumbering).', technique='differential check over document layouts + correspondence with the Coq Engine model / Spec', ref='7 C12', category='other'),
 'C13': dict(text='Correspondence: chains of quoted triples maps (depth 1-3, subject / object / both, joins, asserted / non-asserted, NULLs) against the Engine model (expand_tm, quoted branches of mat_rule) and the Spec (subj_terms / tm_triples / obj_terms, unbounded depth).',
    note='Known finding: repeated joins on one frame fail. Theorems on the expanded rule tree not yet in Props/C13.v.', technique='differential correspondence implementation / extracted Coq Engine model / extracted Coq Spec', ref='7 C13', category='other'),
 'C14': dict(text='Correspondence: compositions of 8 built-ins (parameters regenerated from bif_dict) and 5 UDFs over all argument kinds and positions against the Engine model (exec_fnml: inner executions as columns, binding by parameter IRI, null removal, explode) and the Spec (spec_eval), '
    'all three partitioning modes against each other, and reference contracts of the case-mapping built-ins on Unicode inputs.',
    note='Two genuine defects repaired (fix: 07bcd78, 8a50972). Known findings: function-valued graph map under N-TRIPLES, rule without references.', technique='differential correspondence implementation / extracted Coq Engine model / extracted Coq Spec + contract oracle', ref='7 C14', category='other'),
 'C15': dict(text='Proof (Coq) + correspondence: other datatypes are untouched for every string (other_datatypes_untouched), xsd:boolean lower-casing preserves the truth value (boolean_value_preserved), xsd:dateTime changes exactly the blanks (datetime_blanks_only), '
    'the float detour of xsd:integer is exact below 2^53 (integer_float_exact_below_2_53); refuted witnesses for rounding / truncation / wrap / abort. materializer._materialize_template is driven on 400 lexical forms x 10 datatypes and compared with the model canon and with a decimal value oracle.',
    note='Known findings: integer rounds / truncates / wraps / aborts, dateTime blanks, boolean Unicode.', technique='Coq proofs about canon + differential correspondence + value oracle', ref='7 C15'),
 'C16': dict(text='Proof (Coq), partial + correspondence: over the state the repository shares with its caller (in-memory sources read by reference), repeated calls return identical results although the DataFrame is rewritten by the first (repeated_calls_identical), '
    'and a frame without double quotes is left unchanged (caller_frame_unchanged_partial; refuted otherwise). Sequences of 2-7 calls in one process (options, sources, UDF files varied, objects reused) against each call alone in a fresh process; fingerprints of caller objects and hashes of input files.',
    note='Partial: hidden process state cannot be expressed in a pure Gallina model; it is covered by the differential check only.', technique='Coq proof over the modelled shared state + differential check of call sequences', ref='7 C16'),
 'C17': dict(text='Proof (Coq) + correspondence: over the abstract file system (remove targeted files, append per group), after any history of runs every targeted and written file holds exactly the current run\'s lines, a targeted unwritten file does not survive, other files are untouched '
    '(run_targets_exact, history_targets_exact, cleared_unwritten_absent, other_files_untouched). Histories of 1-4 CLI runs (formats, modes, output_file / output_dir incl. nested and dotted names, dying runs, pre-existing files) are compared file by file with the model.',
    note='Stale files of other group names in a shared output_dir are an observation, not a violation (reading stated in DESIGN).', technique='Coq proof by induction over run histories + file-system correspondence', ref='7 C17'),
 'C18': dict(text='Proof (Coq), partial + correspondence: joining the statements with ".\\n" and a final "." gives a document whose lines are exactly the statements (document_lines_are_statements, load_per_statement, empty_result_loads_nothing); '
    'the quads held by materialize_oxigraph and by the store behind materialize, blank-node identity included, are compared with the set on named-graph, RDF-star, blank-node and empty results.',
    note='The loaders are third-party. Known findings: rdflib Graph hides named graphs; rdflib cannot parse RDF-star.', technique='Coq proof about the glue + differential check of loader contents', ref='7 C18'),
 'C19': dict(text='Proof (Coq) over the REGENERATED option tables + correspondence: absent / empty options take their defaults (absent_or_empty_takes_default, absent_takes_default, empty_partitioning_takes_default), enumerated options accept exactly the documented values case-insensitively '
    '(enum_accepts_iff, enum_stored_upper); ~450 INI texts (string and file) read back through every getter against Model/Config.v; option effects end to end; file_path; missing mapping path.',
    note='Two genuine defects repaired (fix: 94fd825, 5381a3d). ConfigParser syntax / interpolation not modelled.', technique='Coq proof over regenerated tables + differential correspondence of the configuration getters', ref='7 C19'),
})
# --- entries superseding the ones above (theorems landed)
CORR = 'differential correspondence implementation / extracted Coq Engine model / extracted Coq Spec'
CLAIMS.update({
 'C01': dict(
    text='Proof (Coq) + correspondence. Theorems (Props/C01.v, all axiom-free): the null filter is exact; str.join inverts str.split; the engine regex and the R2RML template parser read every well-formed template alike; '
         '_materialize_template (split at the first {ref}, append, continue) computes substitution of the transformed values and touches no data column; the term built for a constant / reference / template is the '
         'term of the generation rules (IRI-safe encoding, canonical form, ECHAR escaping, delimiters) and is missing exactly where they give none; one row through one rule gives exactly the rule\'s statement '
         '(subject, predicate, object, language / datatype, graph); a whole rule over the preprocessed frame gives exactly the statements of the generation rules for its rows; the generation rules read on the surface document and read rule by rule on the '
         'normalised table coincide (document_rules_are_rule_table_rules); and END TO END (engine_document_is_generation_rules_document): for every document of constant / reference / template maps (classes, subject graph maps, '
         'language / datatype maps), every table and configuration, N-QUADS and N-TRIPLES, what the engine materialises from the normalised rule table over the delivered rows is exactly Spec.spec_lines of the surface document over the same rows. '
         'The hypotheses are the complements of recorded findings (template escapes, reserved column names, unescaped constant text). The same END-TO-END equality is proved with referencing object maps '
         '(engine_document_with_joins_is_generation_rules_document, Proofs/DocJoinP.v: join conditions, and R2RML\'s plain form without condition over the same logical source), with quoted subject maps and with quoted object maps '
         '(Props/C13.v, Proofs/DocQuotedP.v / DocQuotedObjP.v); the fragment predicates (Model/Fragment.v theorem_applies*) are decidable and are evaluated by the extracted runner on every generated case: inside the fragments a '
         'completed run that differs from the Spec cannot be attributed to a recorded finding. Functions have their own theorems (C14); the '
         'composition and the normalisation from files are decided on every run by comparing the implementation with BOTH the extracted Engine model and the extracted Spec on generated mappings x tables.',
    note='Trusted: Coq kernel, extraction + driver, the translator, Model/Spec.v as the reading of the generation rules, the pandas / rdflib behaviour the Engine model transcribes (measured by the correspondence). '
         'Not proved: Engine = Spec for joins composed with quoted maps, quoted maps with join conditions or nested deeper than one level, and nested executions.',
    technique='Coq proofs (template loop = substitution; engine term/row/rule = generation rules) + ' + CORR, ref='0.3 C01'),
 'C03': dict(
    text='Proof (Coq) + correspondence. Theorems: the sort-and-scan of the partitioner separates two rules at a position only if their invariants are prefix-incomparable (prefix_scan_separates_incomparable, '
         'equality_scan_separates_different, blank_nodes_apart, on the sorted input the code produces: partitioner_input_sorted), and rules so separated can never generate the same term, for ALL rows: '
         'incomparable_invariants_never_collide, different_constants_never_collide, blank_node_never_equals_iri_or_literal, literal_types_never_collide. Correspondence: the groups of the real partitioner '
         '(PARTIAL-AGGREGATIONS, MAXIMAL) are compared with the model labels and every separated pair is checked against the criterion; CLI runs are checked for duplicate lines and the reported total.',
    note='Known finding: with N-TRIPLES output rules differing only in their graph map are separated (refuted witness in Findings/C03.v). Escape-free templates assumed by the collision theorems.',
    technique='Coq proof (scan separates only incomparable keys; incomparable keys never collide) + differential check of the real partition', ref='0.3 C03'),
 'C06': dict(
    text='Proof (Coq) + correspondence. Theorems: _preprocess_data keeps exactly the rows with no NULL and no na_values token in a referenced column (null_suppresses_exactly, null_in_referenced_column, '
         'na_token_in_referenced_column) and no null is ever cast to text (null_never_becomes_text), for every frame, reference set and na_values list; at document level a statement exists iff some asserted rule has a delivered row with no NULL / na token in any referenced column (statements_come_from_null_free_rows); a NULL or na token in a join key joins with nothing, not even another NULL, in the generation rules and in the engine merge (null_join_key_joins_nothing, engine_merged_rows_have_every_join_key); for every document a NULL in a column the subject map references gives no statement through that triples map (null_in_a_subject_reference_gives_no_statement). What each reader hands over for a NULL is modelled '
         '(Model/Data.v arrive) and measured on every run over all source kinds x na_values settings x NULL positions, against the Engine model and the Spec, plus a scan of the output for null words not in the data.',
    note='Two genuine defects found by this check were repaired (fix: 52bd578, ecec88a). Readers are third-party: modelled, not verified.',
    technique='Coq proof of the null filter + ' + CORR, ref='0.3 C06'),
 'C07': dict(
    text='Proof (Coq) + correspondence. Theorems: _merge_data yields exactly the pairs (child row, parent row) that agree on every join condition with non-null values -- the inner equi-join -- for all frames '
         '(merge_is_inner_equijoin); on frame rows that relation is the join condition of the generation rules (engine_join_is_spec_join, spec_join_rows); a joined row gives exactly the statement whose subject, predicate and graph come from the child row and whose object is the parent\'s subject term from the parent row (join_row_statement); a whole referencing rule yields exactly the statements of the matching pairs of the two preprocessed frames (join_rule_statements). Correspondence: pandas merge on generated keys (duplicates, NULLs, separator-ambiguous values, 1-3 conditions, '
         'self-joins with permuted conditions) against the Engine model and the Spec.',
    note='Known finding: self-join elimination (NULL / non-unique key), refuted witness in Findings/C07.v. Document level (document_with_joins_is_generation_rules_document): for documents whose predicate-object maps hold '
         'ordinary or referencing object maps, engine(document) = generation rules(document) on the delivered tables, both formats (Proofs/DocJoinP.v).', technique='Coq proof (inner equi-join; document-level join theorem) + ' + CORR, ref='0.3 C07'),
 'C08': dict(
    text='Proof (Coq) + correspondence. Theorems over the normalisation chain and the row tail of the materializer: a predicate-object map is placed in exactly its own and the subject map\'s graphs '
         '(pom_gets_exactly_its_graphs), the default graph iff none or rml:defaultGraph (default_graph_iff_none, default_graph_has_empty_component), class statements follow the subject graphs, N-TRIPLES output is the '
         'graph-less projection (ntriples_is_graphless; rules_ntriples_is_projection_of_nquads for the generation rules on every document; engine_ntriples_is_projection_of_nquads for the engine on documents of constant / reference / template maps); the statement of a joined row takes its graph from the child row alone (joined_statement_takes_its_graph_from_the_child_row). Correspondence: 0-3 constant / template / reference graph maps, NULL graph values, both formats, against the Engine model and the Spec.',
    note='Known finding shared with C14: function-valued graph map under N-TRIPLES.', technique='Coq proof (graph placement) + ' + CORR, ref='0.3 C08'),
 'C09': dict(
    text='Proof (Coq) + correspondence. The model\'s abstract syntax identifies vocabularies and constant shortcuts; inside it the three factorings the property names are theorems on the normalisation chain, for every '
         'document: classes as rdf:type predicate-object maps (classes_as_type_poms), subject graph maps repeated on every predicate-object map (subject_graphs_on_every_pom), the fully explicit spelling '
         '(explicit_spelling), multi-valued against split predicate-object maps (multi_valued_as_split, for documents without mixed maps; refuted for a mixed one in Findings/C09.v) -- identical rule tables; the order of the triples maps in the file is irrelevant for every document with distinct identifiers (order_of_triples_maps_is_irrelevant, generation rules, Proofs/DocOrderP.v). '
         'Vocabulary (R2RML / RML / legacy / YARRRML), shortcuts, serialisations (Turtle, shuffled N-Triples, RDF/XML, prefixes, base, blank-node labels, extension) are compared pairwise on the implementation for every generated mapping.',
    note='rdflib parsers, SPARQL and the vocabulary rewrites are outside the Coq model (correspondence only). YARRRML is rendered for the fragment its translator supports (no functions / RML-star in YARRRML). Genuine defect repaired (fix: f1b9f2f).',
    technique='Coq proof (normalisation invariant under the factorings) + differential check over spellings', ref='0.3 C09'),
 'C10': dict(
    text='Proof (Coq), partial + correspondence. The readers are third-party code: Model/Data.v arrive states what each one hands over, and that statement is measured on every run (one abstract table rendered into every '
         'source kind and through file_path, each result against the CSV result and the model). Theorems: given those reader models, for tables of strings and NULLs what reaches term construction is the same in CSV / TSV / Excel '
         '(text readers), XML, tabular views, columnar files and SQL queries: exactly the rows whose referenced cells are non-null strings, every referenced column reading exactly the string of the table '
         '(format_independent_reading_partial, two_formats_same_frame_partial) -- no character added, dropped or altered, NULL in one is NULL in all (the empty string being a null token, as by default). At document level two deliveries handing over the same row sets give the same statements, end to end, for plain documents and for documents with referencing object maps / quoted subject maps / quoted object maps (same_delivered_rows_same_statements and its three forms, Proofs/DocRowsP.v, DocRowSetsP.v).',
    note='Partial: JSON, SQL tables and in-memory sources by correspondence only. Known findings: DataFrame quote stripping, DuckDB type / dialect detection for tabular views. In-memory sources were repaired (fix: bead264).',
    technique='Coq proof (format-independent frame, given the reader models) + differential check over source formats', ref='0.3 C10'),
 'C11': dict(
    text='Proof (Coq) + correspondence. Theorems: for a plain rule the engine over a frame is the concatenation of a function of each row (engine_is_rowwise), hence additive over unions of row sets (rows_additive) and '
         'insensitive to duplicates and order (duplicates_and_order_irrelevant); _preprocess_data is additive and has set semantics (preprocess_additive, preprocess_set_semantics). At document level (plain documents): every statement comes from one row, the result over a union of row sets is the union of the results, for the generation rules and end to end for the engine; for EVERY document (joins, quoted maps of any depth, functions) the generation rules read each table as a set of rows (every_document_depends_on_row_sets_only, Proofs/DocRowSetsP.v). Correspondence: whole vs halves vs '
         'permuted + duplicated tables for string and typed sources, typed cases also against the reader model (column coercion, binary64 rounding).',
    note='Known finding: column dtype coercion (10 -> 10.0 next to NULL / float), refuted witness in Findings/C11.v.', technique='Coq proof (row-wise engine) + differential check over row splits', ref='0.3 C11'),
 'C12': dict(
    text='Proof (Coq), partial + correspondence. Engine-level theorems for RDF-star-free rule tables: a rule\'s statements depend on the rest of the table only through the parent rule it names '
         '(rule_depends_only_on_its_references_partial); a table made of two reference-closed parts yields the union of their results and fails iff one fails (document_is_union_of_parts_partial); renumbering the rules '
         'and rewriting parent references changes nothing (rule_numbering_is_irrelevant_partial). Document level: for plain documents Spec(d1 ++ d2) = Spec(d1) U Spec(d2) and the result of the engine is the union of its results (plain_document_means_the_union_of_its_parts, engine_on_a_plain_document_is_the_union_over_its_parts); for EVERY document the order of the triples maps is irrelevant and every statement of a part is a statement of the whole (triples_map_order_is_irrelevant, every_part_is_included_in_the_whole_partial, Proofs/DocOrderP.v; the converse for closed parts of arbitrary nesting needs an acyclic reference graph and is not proved). Correspondence: every document against every dependency-closed layout over files and sections, reordering, '
         'the union of components run alone, and the rejection of an identifier repeated across sections.',
    note='Partial: quoted maps, rdflib graph merging and validate_mappings are decided by the correspondence only. Genuine defect repaired (fix: c61aea7).',
    technique='Coq proof (union over closed parts, renaming invariance) + differential check over document layouts', ref='0.3 C12'),
 'C13': dict(
    text='Proof (Coq), partial + correspondence. Theorems: any pipeline of row-wise frame stages is one function of the row (frame_pipeline_is_rowwise); for a quoted triples map in subject or in object position over the same rows, '
         'every statement is << t >> p o [g] (resp. s p << t >> [g]) with t exactly the triple the generation rules give the quoted map for that row, and none iff a part is missing (quoted_subject_embeds_the_quoted_triple_partial, '
         'quoted_rule_statements_partial, quoted_object_embeds_the_quoted_triple_partial, quoted_object_rule_statements_partial); only asserted rules contribute and assertedness is inherited from the triples map (only_asserted_rules_contribute, rules_inherit_assertedness); for every document and nesting depth the generation rules quote a triples map the same whether or not it is asserted, the flags only select which triples maps contribute statements of their own (quoting_does_not_depend_on_assertedness, assertedness_only_selects_the_contributing_triples_maps, Proofs/DocAssertP.v). '
         'Correspondence: nestings of depth 1-3, subject / object / both, joins, asserted / non-asserted, NULLs, against the Engine model and the (depth-recursive) Spec.',
    note='Document level: for documents of plain triples maps and triples maps that quote a plain one in their subject map (engine_document_with_quoted_subjects_is_generation_rules_document) or in object maps '
         '(engine_document_with_quoted_objects_is_generation_rules_document), one level, same rows, asserted or not: engine(document) = generation rules(document), both formats. '
         'Partial: quoted maps with join conditions and deeper nestings by correspondence only. Known finding: repeated joins on one frame fail.',
    technique='Coq proof (quoted subject / object embeds the quoted triple; document-level theorems) + ' + CORR, ref='0.3 C13'),
 'C14': dict(
    text='Proof (Coq), partial + correspondence. Theorems: _materialize_fnml_template substitutes the raw row values (fnml_template_is_substitution); for an execution over constants, references and templates the values '
         'for a row are exactly the function applied to that row\'s arguments -- none for a null result or null token, one per element of a list result, failure iff the function raises '
         '(execution_is_function_application_partial) and every value becomes exactly the term the generation rules give (execution_terms_are_rule_terms_partial); a rule with a function-valued map does not depend on the other rules (execution_rule_independent_of_other_rules; partition independence is C02); contracts of '
         'split_explode / reverse / toUpperCase for all strings. Correspondence: compositions of 8 built-ins (parameters REGENERATED from bif_dict) and 5 UDFs, nested executions, all positions, three modes, '
         'and each modelled built-in against the real function.',
    note='Partial: nested executions by correspondence only. Two genuine defects repaired (fix: 07bcd78, 8a50972). Known findings: function-valued graph map under N-TRIPLES, rule without references.',
    technique='Coq proof (execution = function application per row) + ' + CORR + ' + built-in contract oracle', ref='0.3 C14'),
})
NOT_YET = {}

def main():
    props = [json.loads(l) for l in open(os.path.join(ROOT, 'properties.jsonl'))]
    checks, na = [], []
    for p in props:
        pid = p['id']
        if pid in CLAIMS:
            c = CLAIMS[pid]
            checks.append({
                'property_id': pid,
                'quick_cmd': 'bin/check %s --tier quick' % pid,
                'thorough_cmd': 'bin/check %s --tier thorough' % pid,
                'evidence_file': '/verif/evidence/%s.json' % pid,
                'replay_cmd_template': 'bin/check %s --replay {path}' % pid,
                'engine': 'coq-model',
                'level_claimed': {'category': c.get('category', 'proof'), 'text': c['text'], 'design_ref': 'DESIGN.md ' + c['ref']},
                'level_note': c['note'],
                'technique': c['technique'],
            })
        else:
            na.append({'property_id': pid, 'reason': NOT_YET.get(pid, 'check not built yet in this development (planned: Coq model + correspondence, see DESIGN.md 7)')})
    m = {
        'version': 1,
        'setup_cmd': 'bin/setup',
        'hooks': {'guard': 'MORPH_KGC_VERIF', 'enable': 'no source hooks: checks import /repo/src unmodified (MORPH_KGC_VERIF=1 is exported but nothing in /repo reads it)',
                  'baseline_off_cmd': 'cd /repo && /venv/bin/python -m pytest -ra -q -p no:cacheprovider --timeout=900 --continue-on-collection-errors',
                  'source_commits': [], 'add_only': True},
        'engines': [{'name': 'coq-model', 'path': '/verif/coq', 'serves_properties': sorted(CLAIMS),
                     'kind_free_text': 'Coq 8.16 development (Model/ executable Gallina model, Proofs/, Props/ theorem statements), extracted to OCaml (runner/) and compared with the implementation by harness/'}],
        'checks': checks,
        'notes': 'All checks share bin/check <ID>; every run regenerates Gen/Tables.v from /repo, rebuilds the Coq development (make -k), recompiles the property file to capture Print Assumptions, rebuilds the extracted runner and runs the correspondence. Known findings: /verif/known_findings.json. No hook or instrumentation was added to /repo (source_commits is empty); the ten unguarded `fix:` commits in /repo (9131995 52bd578 ecec88a c61aea7 94fd825 5381a3d bead264 07bcd78 8a50972 f1b9f2f) repair genuine defects and are listed with what failed under `fixed` in known_findings.json and in DESIGN.md 0.4.',
        'not_applicable': na,
    }
    json.dump(m, open(os.path.join(ROOT, 'MANIFEST.json'), 'w'), indent=1)

if __name__ == '__main__':
    main()
