"""Regenerates MANIFEST.json from the table below (kept in one place so that it stays valid)."""
import json, os
ROOT = os.path.dirname(os.path.dirname(os.path.abspath(__file__)))
CLAIMS = {
 'C20': dict(
    text='Proof (Coq): the datatype lookup model (longest key first over the SQL type table REGENERATED from /repo on every run) '
         'maps every catalogue type name of the specification table to its natural-mapping datatype except 7 names recorded as known findings '
         '(natural_mapping_table_partial, by kernel-checked computation over the finite table), ignores any digit/comma/blank parameter list for ANY type name '
         '(params_irrelevant, unbounded), and the inference guard lets explicit datatypes/language tags win and adds nothing when off. '
         'The model is tied to the code by running _get_column_table_datatype (catalogue answer mocked) and the extracted model on the same ~760 names x 4 dialects.',
    note='Trusted: Coq kernel, extraction (ExtrOcamlBasic) + OCaml driver, the table translator, Model/Spec20.v (hand-written natural-mapping table), '
         'the mock of the catalogue query. Not covered: the catalogue SQL itself (SQLite typeof(<literal>) always answers text: known finding), sql_metadata table discovery.',
    technique='Coq proof over regenerated table + differential correspondence (extracted model vs implementation)', ref='7 C20'),
}
CLAIMS.update({
 'C01': dict(
    text='Proof (Coq) + correspondence. Executable Gallina model of the normalisation chain (Model/Mapping.v) and of the materializer as written (Model/Engine.v: row-wise reading '
         'of the vectorised code incl. working-column shadowing, the split/join template loop, joins, quoted maps) and an independent reading of the generation rules (Model/Spec.v). '
         'Theorems proved so far are listed in Props/C01.v (null filter exactness, ...); the full Engine = Spec refinement is NOT proved: on every run the implementation is compared with BOTH '
         'the Engine model and the Spec on generated mappings x tables; a deviation from the Spec is a violation unless it is one of the recorded findings reproduced exactly by the Engine model.',
    note='Partial: engine_refines_spec is not proved in Coq; the tie Spec<->code rests on the differential check (220 cases quick, ~5600 thorough). Function-valued maps: C14. Sources other than CSV: C06/C10.',
    technique='Coq model (Engine + Spec) with proved lemmas, differential correspondence impl vs extracted Engine vs extracted Spec', ref='7 C01', category='proof'),
 'C02': dict(
    text='Proof (Coq): for EVERY labelling of the rule table, materialising group by group and uniting equals materialising rule by rule (grouping_irrelevant, grouping_fails_iff, modes_agree; '
         'unbounded, by induction over the rule list), and the partitioners are total exactly on rule tables whose templates all contain a reference (partition_total, partition_fails_iff). '
         'Tied to the code by running every generated case under NO / PARTIAL-AGGREGATIONS / MAXIMAL and comparing the three results with each other and with the model.',
    note='The theorem is about the model of __init__.py/__main__.py grouping (groupby + per-group set + union); pandas groupby and multiprocessing are not modelled. Known finding: reference-free template.',
    technique='Coq proof (union over any labelling) + differential correspondence across the three partitioning modes', ref='7 C02'),
 'C03': dict(
    text='Correspondence against a pairwise criterion (Model/Partition.v `separable`): every pair of asserted rules that the implementation (PARTIAL-AGGREGATIONS, MAXIMAL) puts into different groups must be '
         'separable at some position (incomparable constant prefixes / different constants / blank node vs not / different literal type); plus CLI runs checked for duplicate lines and for the reported total. '
         'The Coq theorems that the criterion is safe for all data are under construction (Props/C03.v).',
    note='Until Props/C03.v holds the disjointness theorems this is a differential check, not a proof: level other.',
    technique='differential check of the implementation partition against the model criterion + CLI duplicate oracle (proof of the criterion pending)', ref='7 C03', category='other'),
 'C05': dict(
    text='Proof (Coq), unbounded over all strings: the 8 sequential str.replace calls equal the character-wise ECHAR map (escape_lit_charwise), reading a rendered literal back yields the value '
         '(unescape_escape, literal_closing_quote), no raw line break survives, UTF-8 and percent-encoding round-trip (utf8_roundtrip, pct_decode_encode) and emit only unreserved / safe / %XX '
         '(pct_output_alphabet), a line printed from well-formed terms parses as exactly that statement and printing is injective (parse_render, print_injective). Correspondence: implementation lines = model lines on '
         'thousands of composed strings x 8 term kinds x safe_percent_encoding / only_printable_chars; every line parsed by pyoxigraph (strict) and decoded back to the source value.',
    note='Reference-valued IRIs, blank-node labels and reference-valued language tags are copied raw by the code: recorded findings (Findings/C05.v). Model/NQuads.v omits UCHAR and quoted triples.',
    technique='Coq proofs over all strings + differential correspondence + strict-parser round-trip oracle', ref='7 C05'),
})
NOT_YET = {}

def main():
    props = [json.loads(l) for l in open(os.path.join(ROOT, 'properties.jsonl'))]
    checks, na = [], []
    for p in props:
        pid = p['id']
        if pid in CLAIMS:
            c = CLAIMS[pid]
            checks.append({
                'property_id': pid,
                'quick_cmd': 'bin/check %s --tier quick' % pid,
                'thorough_cmd': 'bin/check %s --tier thorough' % pid,
                'evidence_file': '/verif/evidence/%s.json' % pid,
                'replay_cmd_template': 'bin/check %s --replay {path}' % pid,
                'engine': 'coq-model',
                'level_claimed': {'category': c.get('category', 'proof'), 'text': c['text'], 'design_ref': 'DESIGN.md ' + c['ref']},
                'level_note': c['note'],
                'technique': c['technique'],
            })
        else:
            na.append({'property_id': pid, 'reason': NOT_YET.get(pid, 'check not built yet in this development (planned: Coq model + correspondence, see DESIGN.md 7)')})
    m = {
        'version': 1,
        'setup_cmd': 'bin/setup',
        'hooks': {'guard': 'MORPH_KGC_VERIF', 'enable': 'no source hooks: checks import /repo/src unmodified (MORPH_KGC_VERIF=1 is exported but nothing in /repo reads it)',
                  'baseline_off_cmd': 'cd /repo && /venv/bin/python -m pytest -ra -q -p no:cacheprovider --timeout=900 --continue-on-collection-errors',
                  'source_commits': [], 'add_only': True},
        'engines': [{'name': 'coq-model', 'path': '/verif/coq', 'serves_properties': sorted(CLAIMS),
                     'kind_free_text': 'Coq 8.16 development (Model/ executable Gallina model, Proofs/, Props/ theorem statements), extracted to OCaml (runner/) and compared with the implementation by harness/'}],
        'checks': checks,
        'notes': 'All checks share bin/check <ID>; every run regenerates Gen/Tables.v from /repo, rebuilds the Coq development (make -k), recompiles the property file to capture Print Assumptions, rebuilds the extracted runner and runs the correspondence. Known findings: /verif/known_findings.json.',
        'not_applicable': na,
    }
    json.dump(m, open(os.path.join(ROOT, 'MANIFEST.json'), 'w'), indent=1)

if __name__ == '__main__':
    main()
