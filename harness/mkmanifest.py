"""Regenerates MANIFEST.json from the table below (kept in one place so that it stays valid)."""
import json, os
ROOT = os.path.dirname(os.path.dirname(os.path.abspath(__file__)))
CLAIMS = {
 'C20': dict(
    text='Proof (Coq): the datatype lookup model (longest key first over the SQL type table REGENERATED from /repo on every run) '
         'maps every catalogue type name of the specification table to its natural-mapping datatype except 7 names recorded as known findings '
         '(natural_mapping_table_partial, by kernel-checked computation over the finite table), ignores any digit/comma/blank parameter list for ANY type name '
         '(params_irrelevant, unbounded), and the inference guard lets explicit datatypes/language tags win and adds nothing when off. '
         'The model is tied to the code by running _get_column_table_datatype (catalogue answer mocked) and the extracted model on the same ~760 names x 4 dialects.',
    note='Trusted: Coq kernel, extraction (ExtrOcamlBasic) + OCaml driver, the table translator, Model/Spec20.v (hand-written natural-mapping table), '
         'the mock of the catalogue query. Not covered: the catalogue SQL itself (SQLite typeof(<literal>) always answers text: known finding), sql_metadata table discovery.',
    technique='Coq proof over regenerated table + differential correspondence (extracted model vs implementation)', ref='7 C20'),
}
NOT_YET = {}

def main():
    props = [json.loads(l) for l in open(os.path.join(ROOT, 'properties.jsonl'))]
    checks, na = [], []
    for p in props:
        pid = p['id']
        if pid in CLAIMS:
            c = CLAIMS[pid]
            checks.append({
                'property_id': pid,
                'quick_cmd': 'bin/check %s --tier quick' % pid,
                'thorough_cmd': 'bin/check %s --tier thorough' % pid,
                'evidence_file': '/verif/evidence/%s.json' % pid,
                'replay_cmd_template': 'bin/check %s --replay {path}' % pid,
                'engine': 'coq-model',
                'level_claimed': {'category': c.get('category', 'proof'), 'text': c['text'], 'design_ref': 'DESIGN.md ' + c['ref']},
                'level_note': c['note'],
                'technique': c['technique'],
            })
        else:
            na.append({'property_id': pid, 'reason': NOT_YET.get(pid, 'check not built yet in this development (planned: Coq model + correspondence, see DESIGN.md 7)')})
    m = {
        'version': 1,
        'setup_cmd': 'bin/setup',
        'hooks': {'guard': 'MORPH_KGC_VERIF', 'enable': 'no source hooks: checks import /repo/src unmodified (MORPH_KGC_VERIF=1 is exported but nothing in /repo reads it)',
                  'baseline_off_cmd': 'cd /repo && /venv/bin/python -m pytest -ra -q -p no:cacheprovider --timeout=900 --continue-on-collection-errors',
                  'source_commits': [], 'add_only': True},
        'engines': [{'name': 'coq-model', 'path': '/verif/coq', 'serves_properties': sorted(CLAIMS),
                     'kind_free_text': 'Coq 8.16 development (Model/ executable Gallina model, Proofs/, Props/ theorem statements), extracted to OCaml (runner/) and compared with the implementation by harness/'}],
        'checks': checks,
        'notes': 'All checks share bin/check <ID>; every run regenerates Gen/Tables.v from /repo, rebuilds the Coq development (make -k), recompiles the property file to capture Print Assumptions, rebuilds the extracted runner and runs the correspondence. Known findings: /verif/known_findings.json.',
        'not_applicable': na,
    }
    json.dump(m, open(os.path.join(ROOT, 'MANIFEST.json'), 'w'), indent=1)

if __name__ == '__main__':
    main()
