"""Known findings: read-only at run time."""
import json, os
from . import common

PATH = os.path.join(common.ROOT, 'known_findings.json')


def load(prop):
    if not os.path.exists(PATH):
        return {}
    data = json.load(open(PATH))
    return {f['id']: f for f in data.get('findings', []) if f['property'] == prop or prop in f.get('also', [])}
