"""Pool of worker processes that run the real morph_kgc (from /repo's working tree) with time limits."""
import json, os, queue, subprocess, sys, threading, time
from . import common


class _Worker:
    def __init__(self, stderr_path):
        self.stderr_path = stderr_path
        self.start()

    def start(self):
        self.err = open(self.stderr_path, 'ab')
        self.p = subprocess.Popen([common.PY, '-m', 'harness.worker'], cwd=common.ROOT, env=common.IMPL_ENV,
                                  stdin=subprocess.PIPE, stdout=subprocess.PIPE, stderr=self.err, text=True, bufsize=1)

    def kill(self):
        try:
            self.p.kill(); self.p.wait(timeout=10)
        except Exception:
            pass
        try:
            self.err.close()
        except Exception:
            pass

    def call(self, job, timeout):
        self.p.stdin.write(json.dumps(job) + '\n')
        self.p.stdin.flush()
        box = {}

        def rd():
            box['line'] = self.p.stdout.readline()
        t = threading.Thread(target=rd, daemon=True)
        t.start()
        t.join(timeout)
        if t.is_alive() or not box.get('line'):
            self.kill()
            self.start()
            return {'ok': False, 'exc': 'Timeout' if t.is_alive() else 'WorkerDied', 'msg': '', 'tb': ''}
        return json.loads(box['line'])


class Pool:
    def __init__(self, n=None):
        self.n = n or max(2, min(14, (os.cpu_count() or 4) - 2))
        self.workers = None

    def _ensure(self):
        if self.workers is None:
            wd = common.workdir()
            self.workers = [_Worker(os.path.join(wd, 'worker%d.err' % i)) for i in range(self.n)]

    def map(self, jobs, timeout=120, fresh=False):
        """jobs: list of {'fn':..., 'args': {...}}; returns results in order."""
        if not jobs:
            return []
        self._ensure()
        q = queue.Queue()
        for i, j in enumerate(jobs):
            q.put((i, j))
        out = [None] * len(jobs)

        def loop(w):
            while True:
                try:
                    i, j = q.get_nowait()
                except queue.Empty:
                    return
                out[i] = w.call(j, timeout)
                if fresh:
                    w.kill(); w.start()
        ths = [threading.Thread(target=loop, args=(w,), daemon=True) for w in self.workers[:min(self.n, len(jobs))]]
        for t in ths: t.start()
        for t in ths: t.join()
        return out

    def call(self, fn, timeout=120, **args):
        return self.map([{'fn': fn, 'args': args}], timeout=timeout)[0]

    def close(self):
        if self.workers:
            for w in self.workers:
                w.kill()
            self.workers = None
