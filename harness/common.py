"""Shared harness plumbing: paths, wire format, model runner, scratch dirs."""
import os, re, shutil, subprocess, sys, tempfile, atexit, json, time

HERE = os.path.dirname(os.path.abspath(__file__))
ROOT = os.path.dirname(HERE)
REPO = os.environ.get('VERIF_REPO', '/repo')
PY = '/venv/bin/python'
COQ = os.path.join(ROOT, 'coq')
RUNNER = os.path.join(ROOT, 'runner')
DRIVER = os.path.join(RUNNER, 'driver')
WORK_BASE = os.path.join(ROOT, '.work')
REPLAYS = os.path.join(ROOT, 'replays')
CORPUS = os.path.join(ROOT, 'corpus')
EVIDENCE = os.path.join(ROOT, 'evidence')

IMPL_ENV = dict(os.environ, PYTHONPATH=os.path.join(REPO, 'src'), PYTHONHASHSEED='0', PYTHONDONTWRITEBYTECODE='1',
                MORPH_KGC_VERIF='1')

_workdir = None


def workdir():
    global _workdir
    if _workdir is None:
        os.makedirs(WORK_BASE, exist_ok=True)
        _workdir = tempfile.mkdtemp(prefix='w%d-' % os.getpid(), dir=WORK_BASE)
        atexit.register(lambda: shutil.rmtree(_workdir, ignore_errors=True))
    return _workdir


# ---------------------------------------------------------------- wire format
class Opt:
    """option value on the wire: () or (x)"""
    def __init__(self, v): self.v = v


def enc(x):
    if isinstance(x, Opt):
        return '()' if x.v is None else '(' + enc(x.v) + ')'
    if isinstance(x, bool):
        return enc('true' if x else 'false')
    if isinstance(x, int):
        return enc(str(x))
    if isinstance(x, str):
        return '[' + ' '.join(str(ord(c)) for c in x) + ']'
    if isinstance(x, (list, tuple)):
        return '(' + ' '.join(enc(y) for y in x) + ')'
    raise TypeError('cannot encode %r' % (x,))


_tok = re.compile(r'\(|\)|\[[0-9 ]*\]')


def dec(text):
    stack = [[]]
    for m in _tok.finditer(text):
        t = m.group(0)
        if t == '(':
            stack.append([])
        elif t == ')':
            l = stack.pop()
            stack[-1].append(l)
        else:
            body = t[1:-1].split()
            stack[-1].append(''.join(chr(int(c)) for c in body))
    if len(stack) != 1 or len(stack[0]) != 1:
        raise ValueError('bad sexp from model: %r' % text[:200])
    return stack[0][0]


def dec_opt(x):
    """() -> None, (v) -> v"""
    if x == []:
        return None
    return x[0]


class Model:
    """Runs the extracted model (OCaml) on batches of cases."""
    def __init__(self):
        if not os.path.exists(DRIVER):
            raise RuntimeError('model runner not built: ' + DRIVER)
        self.calls = 0

    def _run_chunk(self, cases, timeout):
        inp = '\n'.join(enc(c) for c in cases) + '\n'
        p = subprocess.run(['bash', '-c', 'ulimit -s unlimited 2>/dev/null; exec "%s"' % DRIVER], input=inp,
                           capture_output=True, text=True, timeout=timeout)
        if p.returncode != 0:
            raise RuntimeError('model runner failed: ' + p.stderr[-1000:])
        lines = p.stdout.split('\n')
        if lines and lines[-1] == '':
            lines.pop()
        if len(lines) != len(cases):
            raise RuntimeError('model runner returned %d results for %d cases' % (len(lines), len(cases)))
        out = []
        for l in lines:
            if l.startswith('!driver-error'):
                out.append(['error', l])
            else:
                out.append(dec(l))
        return out

    def run_many(self, cases, timeout=1800):
        """cases: list of python objects (each a list with a tag first). Returns list of decoded results.
        The extracted runner is single-threaded: larger batches are cut into interleaved chunks that run side by side."""
        if not cases:
            return []
        k = min(12, max(1, len(cases) // 4))
        if k == 1:
            out = self._run_chunk(cases, timeout)
        else:
            from concurrent.futures import ThreadPoolExecutor
            chunks = [cases[i::k] for i in range(k)]
            with ThreadPoolExecutor(max_workers=k) as ex:
                parts = list(ex.map(lambda ch: self._run_chunk(ch, timeout), chunks))
            out = [None] * len(cases)
            for i, part in enumerate(parts):
                out[i::k] = part
        self.calls += len(cases)
        return out

    def run(self, case):
        return self.run_many([case])[0]


def is_err(r):
    return isinstance(r, list) and len(r) >= 1 and r[0] == 'error'


def write_replay(prop, payload):
    os.makedirs(REPLAYS, exist_ok=True)
    path = os.path.join(REPLAYS, '%s-%d-%d.json' % (prop, int(time.time()), os.getpid()))
    n = 0
    while os.path.exists(path):
        n += 1
        path = os.path.join(REPLAYS, '%s-%d-%d-%d.json' % (prop, int(time.time()), os.getpid(), n))
    with open(path, 'w') as f:
        json.dump(payload, f, indent=1, ensure_ascii=False, default=str)
    return path
