"""Shared machinery of the mapping-family checks (C01, C02, C03, C06, C07, C08, C09, C11, C12, C13 ...):
run abstract cases through the implementation (library / CLI), the Engine model and the Spec; canonicalise; classify
by finding-trigger predicates; apply the acceptance rule of DESIGN 5.2."""
import copy, json, os, re, shutil
from . import common, mapcase

WORKING = set(mapcase.WORKING_COLS) | {'placeholder'}


def canon_lines(ls):
    return sorted(set(l.rstrip(' ') for l in ls))


def impl_outcome(r):
    """worker reply -> ('ok', lines) | ('exc', bucket, msg)"""
    if not r.get('ok'):
        return ('exc', r.get('exc', 'Other'), r.get('msg', ''))
    res = r['result']
    if 'lines' in res:
        return ('ok', canon_lines(res['lines']))
    return ('exc', res.get('exc', 'Other'), res.get('msg', '')[:200])


def model_outcome(m):
    if common.is_err(m):
        if len(m) > 1 and m[1] == 'Unmodelled':
            return ('unmodelled',)
        return ('exc', m[1] if len(m) > 1 else 'Other', '')
    if m and m[0] == 'ok':
        return ('ok', canon_lines(m[1]))
    return ('exc', 'Other', str(m)[:100])


def same(a, b):
    if a[0] != b[0]:
        return False
    if a[0] == 'ok':
        return a[1] == b[1]
    return True   # both raise: the exception class is compared only in the histogram


# ------------------------------------------------------------------ trigger predicates of the recorded findings
def _tmaps(case):
    for t in case['doc']:
        yield 'subject', t['subj'], None
        for g in t.get('sgraphs', []):
            yield 'graph', g, None
        for p in t.get('poms', []):
            for m in p['preds']:
                yield 'predicate', m, None
            for o in p['objs']:
                yield 'object', o['m'], o
                if o.get('lang'):
                    yield 'lang', o['lang'], None
                if o.get('dt'):
                    yield 'dt', o['dt'], None
            for g in p.get('graphs', []):
                yield 'graph', g, None


def triggers(case):
    """Set of finding ids whose trigger predicate the case satisfies."""
    out = set()
    srcs = {s['key']: s for s in case['sources']}
    cols = set(c for s in case['sources'] for c in s['cols'])
    if all(not t.get('poms') and not t.get('classes') for t in case['doc']):
        out.add('no-pom-section')
    for t in case['doc']:
        if t['subj']['k'] == 'const' and not srcs[t['src']]['rows'] and (t.get('poms') or t.get('classes')):
            out.add('all-constant-empty-source')
    for t in case['doc']:
        if t['subj']['k'] == 'const':
            for p in t.get('poms', []):
                gs = p.get('graphs', []) + t.get('sgraphs', [])
                if (not gs or any(g['k'] == 'const' for g in gs)) and any(m['k'] == 'const' for m in p['preds']):
                    for o in p['objs']:
                        if o['m']['k'] == 'const' and any(o.get(k) and o[k]['k'] != 'const' for k in ('lang', 'dt')):
                            out.add('all-constant-dynamic-langdt')
    if not case['cfg'].get('nquads') and any(role == 'graph' and m['k'] == 'exec' for role, m, o in _tmaps(case)):
        out.add('ntriples-graph-function')
    # a rule without any reference that is not all-constant (a function over constants): the reader is asked for no column
    execs = {e['id']: e for e in case.get('execs', [])}
    def has_ref(m, depth=0):
        if m['k'] in ('ref', 'templ', 'quoted', 'parent'):
            return m['k'] != 'templ' or '{' in m['v']
        if m['k'] == 'exec' and depth < 5:
            e = execs.get(m['v'])
            return e is None or any(k in ('ref', 'templ') or (k == 'exec' and has_ref({'k': 'exec', 'v': v}, depth + 1)) for _, k, v in e['inputs'])
        return False
    if execs:
        for t in case['doc']:
            for p in t.get('poms', []):
                for pm in p['preds']:
                    for o in p['objs']:
                        gs = (p.get('graphs', []) + t.get('sgraphs', [])) or [None]
                        for g in gs:
                            maps = [t['subj'], pm, o['m']] + ([g] if g else []) + [x for x in (o.get('lang'), o.get('dt')) if x]
                            if not any(has_ref(m) for m in maps) and any(m['k'] == 'exec' for m in maps):
                                out.add('no-reference-rule')
    if any(c in WORKING or c.startswith('parent_') or c.startswith('keep_subject') for c in cols):
        out.add('reserved-column')
    if any('{' in c or '}' in c or '\\' in c for c in cols):
        out.add('brace-column')
    for role, m, o in _tmaps(case):
        if m['k'] == 'const' and re.search(r'\{[^}]+', m['v']):
            out.add('brace-constant')
        if m['k'] == 'const' and ('\\{' in m['v'] or '\\}' in m['v']):
            out.add('brace-constant')
        if m['k'] == 'templ' and '\\\\' in m['v']:
            out.add('template-backslash')
        if m['k'] == 'templ' and re.search(r'\\[{}]', re.sub(r'\\\\', '', m['v'])) and re.search(r'\{[^}]*\\', m['v']):
            out.add('template-backslash')
        lit = (m.get('tt') == 'lit') or (m['k'] == 'const' and m.get('ck') == 'lit') or \
              (role == 'object' and not m.get('tt') and o is not None and (o.get('lang') or o.get('dt')))
        if lit and m['k'] == 'const' and re.search(r'["\\\n\r\t\x08\x0c\']', m['v']):
            out.add('unescaped-constant-literal')
        if lit and m['k'] == 'templ' and re.search(r'["\n\r\t\x08\x0c\']', m['v']):
            out.add('unescaped-constant-literal')
        if role == 'dt' and m['k'] == 'const' and m['v'] == mapcase.XSD + 'integer':
            out.add('integer-canon')
        if role == 'object' and m['k'] == 'parent':
            parent = next((t for t in case['doc'] if t['id'] == m['v']), None)
            child = next((t for t in case['doc'] if any(oo is o for p in t.get('poms', []) for oo in p['objs'])), None)
            if parent is not None and child is not None and parent['src'] == child['src'] and all(c == p for c, p in o.get('joins', [])):
                out.add('selfjoin-elimination')
        if m['k'] == 'const' and m.get('ck', 'iri') == 'iri' and any(t['id'] == m['v'] for t in case['doc']):
            out.add('constant-equals-triples-map-id')
    # quoted triples maps with join conditions: a frame that already went through a join may be joined again (parent_
    # columns overlap); the failure shape (exception text) is part of the recorded finding
    nq = nqj = 0
    for t in case['doc']:
        if t['subj']['k'] == 'quoted':
            nq += 1; nqj += 1 if t.get('sjoins') else 0
        for p in t.get('poms', []):
            for o in p['objs']:
                if o['m']['k'] == 'quoted':
                    nq += 1; nqj += 1 if o.get('joins') else 0
    if nqj >= 1 and nq >= 2:
        out.add('star-repeated-join')
    for t in case['doc']:
        for p in t.get('poms', []):
            kinds = set('parent' if o['m']['k'] == 'parent' else 'ord' for o in p['objs'])
            if len(kinds) == 2:
                out.add('mixed-pom')
    return out


# ------------------------------------------------------------------ running batches
class Batch:
    def __init__(self, ctx):
        self.ctx = ctx
        self.n = 0

    def run(self, cases, style_fn=None, entry='mat_set', want_spec=True, cfg_override=None, timeout=180):
        """Returns list of dicts {'case','impl','model','spec'} for abstract cases."""
        wd = common.workdir()
        jobs = []
        for c in cases:
            self.n += 1
            d = os.path.join(wd, 'k%d' % self.n)
            os.makedirs(d)
            cc = c if cfg_override is None else dict(c, cfg=dict(c['cfg'], **cfg_override))
            if cc.get('layout'):
                # the triples maps are spread over several data-source sections / files (each section with its own database)
                cfg = mapcase.materialise_layout(cc, d, cc['layout'], style_fn(cc) if style_fn else None)
            else:
                cfg = mapcase.materialise_files(cc, d, style_fn(cc) if style_fn else None)
            py = mapcase.python_sources(cc)
            if py:
                jobs.append({'fn': 'mat_set_py', 'args': {'config': cfg, 'cwd': d, 'py': py}})
            else:
                jobs.append({'fn': entry, 'args': {'config': cfg, 'cwd': d}})
        ires = self.ctx.pool.map(jobs, timeout=timeout)
        for j in jobs:
            shutil.rmtree(j['args']['cwd'], ignore_errors=True)
        eff = [c if cfg_override is None else dict(c, cfg=dict(c['cfg'], **cfg_override)) for c in cases]
        mres = self.ctx.model.run_many([mapcase.w_case('mat', c) for c in eff])
        sres = self.ctx.model.run_many([mapcase.w_case('spec', c) for c in eff]) if want_spec else [None] * len(cases)
        # inside the domain of the end-to-end theorems (Props/C01.v engine_document_is_generation_rules_document and
        # engine_document_with_joins_is_generation_rules_document; decided by the extracted predicates Model/Fragment.v theorem_applies / _joins / _quoted / _qobj; Props/C13.v for the quoted fragments) the Engine model and the Spec are PROVED equal on completed runs
        ares = self.ctx.model.run_many([['applies', mapcase.w_cfg(c['cfg']), mapcase.w_doc(c)] for c in eff]) if want_spec else [None] * len(cases)
        out = []
        for c, i, m, s, a in zip(eff, ires, mres, sres, ares):
            dom = (bool(a) and a[0] == 'ok' and a[1] == 'true' and all(x.get('kind', 'csv') == 'csv' for x in c['sources']) and not c.get('execs') and not c.get('file_path_option')
                   and not any(str(col).startswith('parent_') for x in c['sources'] for col in x['cols']))      # hypothesis of the join theorem: no data column named parent_*
            out.append({'case': c, 'impl': impl_outcome(i), 'model': model_outcome(m),
                        'spec': model_outcome(s) if s is not None else None, 'in_domain': dom})
        return out


# findings whose failure is a schema-level exception that the row-wise model cannot exhibit on empty frames: the exception
# text is part of the recorded shape
EXC_SHAPES = {'star-repeated-join': ['columns overlap', 'duplicate columns', 'both an index level and a column label']}


def judge(res, rec, known_ids, prop_triggers=None):
    """Acceptance rule.  rec: one dict of Batch.run.  Adds to res.violations / res.disagreements.  Returns a tag."""
    case, I, M, S = rec['case'], rec['impl'], rec['model'], rec['spec']
    trig = triggers(case) if prop_triggers is None else prop_triggers(case)
    res.evaluations += 1
    if rec.get('in_domain'):
        res.count('theorem-domain')
        if M[0] == 'ok' and S is not None and S[0] == 'ok' and not same(M, S):
            res.disagreements.append({'what': 'inside the theorem domain the extracted Engine model and the extracted Spec differ (the theorem says they cannot)', 'replay': case})
        if I[0] == 'ok':
            res.count('theorem-domain:completed-runs')
            known_ids = set()         # no deviation of a completed run may be attributed to a recorded finding here
    agree_model = (M[0] == 'unmodelled') or same(I, M)
    agree_spec = S is None or S[0] == 'unmodelled' or same(I, S)
    if M[0] == 'unmodelled':
        res.count('model:unmodelled')
    if agree_model and agree_spec:
        res.count('agree')
        return 'agree'
    def brief(x):
        return x if x[0] != 'ok' else ('ok', x[1][:6], len(x[1]))
    def diff(a, b):
        if a[0] == 'ok' and b[0] == 'ok':
            return {'only_impl': [x for x in a[1] if x not in b[1]][:5], 'only_other': [x for x in b[1] if x not in a[1]][:5]}
        return {'impl': brief(a), 'other': brief(b)}
    if not agree_spec:
        # the property's own oracle fails on this input
        exc_hit = [t for t in sorted(trig) if t in known_ids and I[0] == 'exc' and any(m in (I[2] or '') for m in EXC_SHAPES.get(t, []))]
        if (agree_model and trig) or exc_hit:
            hit = exc_hit or [t for t in sorted(trig) if t in known_ids]
            if hit:
                for t in hit:
                    res.violations.append({'key': t, 'sig': t, 'what': 'recorded finding reproduced', 'replay': case})
                res.count('finding:' + hit[0])
                return 'finding'
        res.count('violation')
        res.violations.append({'key': None, 'sig': json.dumps(diff(I, S), ensure_ascii=False)[:300],
                               'what': 'implementation differs from the specification reading: %s (triggers %s; model %s)'
                                       % (json.dumps(diff(I, S), ensure_ascii=False)[:600], sorted(trig), 'agrees with impl' if agree_model else 'differs too'),
                               'replay': case})
        return 'violation'
    # spec agrees (or absent) but the Engine model does not: correspondence broken, no failing input from this case
    if trig & set(known_ids):
        res.count('repaired-or-variant:' + sorted(trig & set(known_ids))[0])
        return 'repaired'
    res.count('model-disagreement')
    res.disagreements.append({'what': 'Engine model differs from the implementation: %s' % json.dumps(diff(I, M), ensure_ascii=False)[:600], 'replay': case})
    return 'disagreement'


def shrink(case, still_fails, budget=60):
    """Greedy shrinking of an abstract case: drop triples maps, POMs, maps, rows, columns while `still_fails(case)`."""
    cur = copy.deepcopy(case)
    def attempts(c):
        for i in range(len(c['doc'])):
            if len(c['doc']) > 1:
                d = copy.deepcopy(c); del d['doc'][i]; yield d
        for ti, t in enumerate(c['doc']):
            for pi in range(len(t.get('poms', []))):
                d = copy.deepcopy(c); del d['doc'][ti]['poms'][pi]; yield d
            for key in ('classes', 'sgraphs'):
                for k in range(len(t.get(key, []))):
                    d = copy.deepcopy(c); del d['doc'][ti][key][k]; yield d
            for pi, p in enumerate(t.get('poms', [])):
                for key in ('preds', 'objs', 'graphs'):
                    for k in range(len(p.get(key, []))):
                        if key != 'graphs' and len(p[key]) <= 1:
                            continue
                        d = copy.deepcopy(c); del d['doc'][ti]['poms'][pi][key][k]; yield d
        for si, s in enumerate(c['sources']):
            for ri in range(len(s['rows'])):
                d = copy.deepcopy(c); del d['sources'][si]['rows'][ri]; yield d
    while budget > 0:
        progressed = False
        for cand in attempts(cur):
            budget -= 1
            if budget <= 0:
                break
            try:
                if still_fails(cand):
                    cur = cand; progressed = True
                    break
            except Exception:
                pass
        if not progressed:
            break
    return cur


def has_noref(case):
    for role, m, o in _tmaps(case):
        if m['k'] == 'templ' and '{' not in m['v'].replace('\\{', ''):
            return True
    return False


def run_sequence(ctx, cases, style_fn=None, timeout=600, reuse_dirs=False):
    """All cases in ONE worker process, one call after the other (state carried between calls shows up as a difference
    to the independent runs).  Returns impl outcomes in order.  reuse_dirs: a case equal to an earlier one of the sequence runs in
    that earlier call's directory, on the very same files (same paths)."""
    wd = common.workdir()
    items, dirs, seen = [], [], {}
    for c in cases:
        key = json.dumps(c, sort_keys=True, ensure_ascii=False)
        if reuse_dirs and key in seen:
            items.append(dict(seen[key])); continue
        d = os.path.join(wd, 'seq%d_%d' % (id(cases) % 100000, len(items)))
        os.makedirs(d)
        items.append({'config': mapcase.materialise_files(c, d, style_fn(c) if style_fn else None), 'cwd': d})
        seen[key] = items[-1]
        dirs.append(d)
    r = ctx.pool.map([{'fn': 'mat_seq', 'args': {'items': items}}], timeout=timeout, fresh=True)[0]
    for d in dirs:
        shutil.rmtree(d, ignore_errors=True)
    if not r.get('ok'):
        return [('exc', r.get('exc', 'Other'), r.get('msg', ''))] * len(cases)
    return [impl_outcome({'ok': True, 'result': x}) for x in r['result']]


def overwrite_run(ctx, case_a, case_b, timeout=300, mappings=False, style=None):
    """In ONE fresh process: materialize case_a in its directory, copy every non-mapping file of case_b's directory over it (same
    names: data files, the UDF file), materialize again with the same configuration.  Returns the two outcomes."""
    wd = common.workdir()
    da, db = os.path.join(wd, 'ovw_a_%d' % (id(case_a) % 1000000)), os.path.join(wd, 'ovw_b_%d' % (id(case_a) % 1000000))
    os.makedirs(da); os.makedirs(db)
    cfg_a = mapcase.materialise_files(case_a, da, style); mapcase.materialise_files(case_b, db, style)
    r = ctx.pool.map([{'fn': 'mat_overwrite', 'args': {'config': cfg_a, 'dir_a': da, 'dir_b': db, 'mappings': mappings}}], timeout=timeout, fresh=True)[0]
    shutil.rmtree(da, ignore_errors=True); shutil.rmtree(db, ignore_errors=True)
    if not r.get('ok'):
        return [('exc', r.get('exc', 'Other'), r.get('msg', ''))] * 2
    return [impl_outcome({'ok': True, 'result': x}) for x in r['result']]


def run_family(ctx, res, cases, features=None, chunk=400, style_fn=None):
    """The C01-style loop: corpus + cases through implementation / Engine / Spec with the acceptance rule."""
    known = set(ctx.known)
    batch = Batch(ctx)
    corpus = [f['replay'] for f in ctx.known.values() if isinstance(f.get('replay'), dict) and 'doc' in f['replay']]
    allc = corpus + cases
    seen = {}
    for st in range(0, len(allc), chunk):
        for rec in batch.run(allc[st:st + chunk], style_fn=style_fn):
            tag = judge(res, rec, known)
            if features:
                try:
                    fts = features(rec['case'])
                except Exception:
                    fts = {'corpus-shape'}
                for ft in fts:
                    seen[ft] = seen.get(ft, 0) + 1
            if rec['spec'] and rec['spec'][0] == 'ok' and rec['spec'][1]:
                res.distinct.add(json.dumps(rec['case'], sort_keys=True, ensure_ascii=False))
            if rec['impl'][0] == 'exc':
                res.count('impl-exception:' + rec['impl'][1])
            if len(res.samples) < 3 and tag == 'agree' and rec['impl'][0] == 'ok' and rec['impl'][1]:
                res.samples.append({'case': rec['case'], 'lines': rec['impl'][1][:3]})
    res.histogram.update({'feature:' + k: v for k, v in sorted(seen.items())})
    res.extra['corpus_cases'] = len(corpus)


def replay_family(ctx, res, payload, style_fn=None):
    case = payload.get('case')
    rec = Batch(ctx).run([case], style_fn=style_fn)[0]
    print('replay: impl=%s\n model=%s\n spec=%s' % (str(rec['impl'])[:1500], str(rec['model'])[:1500], str(rec['spec'])[:1500]))
    judge(res, rec, set(ctx.known))
