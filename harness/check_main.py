"""Entry point of every check:  python -m harness.check_main <ID> [--tier quick|thorough] [--replay FILE]"""
import argparse, importlib, json, os, random, sys, time, traceback
from . import build, common, findings, impl

TRUSTED_BASE_COMMON = [
    'Coq 8.16.1 kernel (coqc); vm_compute used for finite-table lemmas and refutation witnesses; no native_compute',
    'axioms: none declared; Print Assumptions of every property theorem is recorded below',
    'extraction: ExtrOcamlBasic only (Extract Inductive bool/option/unit/list/prod/sumbool/sumor; inlined fst/snd/andb/orb/negb); N, Z, positive, nat remain Coq datatypes; OCaml 4.13.1; runner/driver.ml (tokenizer, int<->N, printer)',
    'harness/tables_extract.py (table translator: imports /repo/src modules and emits Gen/Tables.v on every run)',
    'correspondence harness: generators, renderers, canonicalisation and acceptance rule in /verif/harness (differential testing)',
]


class Ctx:
    def __init__(self, prop, tier, seed, info):
        self.prop, self.tier, self.seed, self.info = prop, tier, seed, info
        self.rng = random.Random(seed)
        self.model = common.Model() if info.runner_ok else None
        self.pool = impl.Pool()
        self.tables = info.tables
        self.known = findings.load(prop)
        self.quick = tier == 'quick'

    def scale(self, quick_n, thorough_n):
        return quick_n if self.quick else thorough_n


class Result:
    def __init__(self):
        self.violations = []      # dicts: {'key': finding-id or None, 'what': str, 'replay': payload}
        self.disagreements = []   # model != implementation on a case of the modelled domain: {'what','replay'}
        self.evaluations = 0
        self.distinct = set()
        self.rule = ''
        self.samples = []
        self.histogram = {}
        self.notes = []
        self.extra = {}

    def count(self, key, n=1):
        self.histogram[key] = self.histogram.get(key, 0) + n


def main(argv=None):
    ap = argparse.ArgumentParser()
    ap.add_argument('prop')
    ap.add_argument('--tier', default=os.environ.get('VERIF_TIER', 'quick'))
    ap.add_argument('--replay')
    a = ap.parse_args(argv)
    prop = a.prop.upper()
    tier = a.tier if a.tier in ('quick', 'thorough') else 'quick'
    try:
        seed = int(os.environ.get('VERIF_SEED', '20260930'))
    except ValueError:
        seed = 20260930
    t0 = time.time()
    mod = importlib.import_module('harness.props.' + prop.lower())
    info = build.build()
    ctx = Ctx(prop, tier, seed, info)
    out_lines = []
    rc = 0
    res = Result()
    proof_problems = []
    obligations_n = discharged_n = 0
    assumptions = {}
    try:
        # ---- proof obligations
        if info.tables_error:
            proof_problems.append('table translator failed (fail closed): ' + info.tables_error[:300])
        if info.cheats:
            proof_problems.append('forbidden constructs in the development: ' + '; '.join(info.cheats[:5]))
        for vf in mod.PROPS_FILES:
            if info.built(vf):
                ok, thms, asm, out = build.obligations(vf)
            else:
                ok, thms, asm, out = False, build.obligations_names(vf), {}, info.make_tail
            obligations_n += len(thms)
            if ok:
                discharged_n += len(thms)
                for name, text in asm.items():
                    assumptions[name] = text
                    if not text.startswith('Closed under the global context'):
                        axs = [l.split(':')[0].strip() for l in text.split('\n')[1:] if ':' in l and not l.startswith(' ' * 4)]
                        bad = [x for x in axs if x and x not in build.ALLOWED_AXIOMS]
                        if bad:
                            proof_problems.append('theorem %s depends on axioms not in the allow-list: %s' % (name, bad))
                missing = [t for t in thms if t not in asm]
                if missing:
                    proof_problems.append('no Print Assumptions for: %s' % missing)
            else:
                proof_problems.append('proof obligations of %s no longer check: %s' % (vf, out[-600:]))
        # ---- thorough tier: the independent checker re-checks the compiled closure of the property file and lists every axiom in it
        coqchk = None
        if tier == 'thorough' and not a.replay and not proof_problems:
            import subprocess
            mods = ['Morph.' + vf[len('theories/'):-2].replace('/', '.') for vf in mod.PROPS_FILES]
            t1 = time.time()
            try:
                cp = subprocess.run(['coqchk', '-o', '-silent', '-Q', 'theories', 'Morph'] + mods, cwd=common.COQ, capture_output=True, text=True, timeout=1800)
                txt = cp.stdout + cp.stderr
                axioms = txt.split('* Axioms:')[1].split('* Constants')[0].strip() if '* Axioms:' in txt else '?'
                coqchk = {'modules': mods, 'rc': cp.returncode, 'axioms': axioms, 'wall_s': round(time.time() - t1, 1)}
                if cp.returncode != 0:
                    proof_problems.append('coqchk rejects the compiled development: ' + txt[-600:])
                elif axioms != '<none>':
                    proof_problems.append('coqchk lists axioms in the closure of %s: %s' % (mods, axioms[:400]))
            except Exception as e:
                proof_problems.append('coqchk did not finish: %r' % e)
        soft = {}
        for vf in getattr(mod, 'FINDINGS_FILES', []):
            if info.built(vf):
                ok, thms, asm, out = build.obligations(vf)
                soft[vf] = {'ok': ok, 'theorems': thms}
            else:
                soft[vf] = {'ok': False, 'theorems': []}
        # ---- correspondence / oracles
        if a.replay:
            payload = json.load(open(a.replay))
            mod.replay(ctx, res, payload)
        else:
            mod.run(ctx, res)
    except Exception:
        proof_problems.append('check crashed: ' + traceback.format_exc()[-1500:])
    finally:
        ctx.pool.close()

    new_v = [v for v in res.violations if v.get('key') not in ctx.known]
    if os.environ.get('VERIF_DEBUG'):
        for v in new_v:
            print('DEBUG-VIOLATION', v['what'][:1200]); print('   CASE', json.dumps(v.get('replay'), ensure_ascii=False)[:int(os.environ.get('VERIF_DEBUG'))])
        for d in res.disagreements:
            print('DEBUG-DISAGREE', d['what'][:1200]); print('   CASE', json.dumps(d.get('replay'), ensure_ascii=False)[:int(os.environ.get('VERIF_DEBUG'))])
    known_v = {}
    for v in res.violations:
        if v.get('key') in ctx.known:
            known_v.setdefault(v['key'], v)
    for k, v in sorted(known_v.items()):
        out_lines.append('KNOWN-FINDING: property=%s %s: %s' % (prop, k, ctx.known[k]['what']))
    seen = set()
    for v in new_v:
        sig = v.get('sig') or v['what']
        if sig in seen:
            continue
        seen.add(sig)
        if len(seen) > 5:
            break
        path = common.write_replay(prop, {'property': prop, 'what': v['what'], 'case': v.get('replay'), 'seed': seed, 'tier': tier})
        out_lines.append('VIOLATION property=%s replay=%s' % (prop, path))
        rc = 1
    if not new_v and (proof_problems or res.disagreements):
        payload = {'property': prop, 'seed': seed, 'tier': tier,
                   'no_longer_checks': proof_problems + ['correspondence model/implementation: ' + d['what'] for d in res.disagreements[:5]],
                   'disagreement_cases': [d.get('replay') for d in res.disagreements[:5]]}
        path = common.write_replay(prop, payload)
        out_lines.append('VIOLATION property=%s replay=%s no-failing-input-found' % (prop, path))
        rc = 1

    wall = time.time() - t0
    ev = {
        'property_id': prop, 'tier': tier, 'seed': seed, 'level': getattr(mod, 'LEVEL', 'proof'),
        'coverage': {
            'obligations': obligations_n, 'discharged': discharged_n,
            'checker_cmd': 'make -C /verif/coq -k (coqc 8.16.1, full .vo build) + coqc on ' + ', '.join(mod.PROPS_FILES),
            'trusted_base': TRUSTED_BASE_COMMON + getattr(mod, 'TRUSTED', []),
            'assumptions_per_theorem': assumptions,
            'findings_lemmas': soft if 'soft' in dir() else {},
            'coqchk': (coqchk if 'coqchk' in dir() and coqchk else 'thorough tier only'),
            'evaluations': res.evaluations, 'distinct_nontrivial': len(res.distinct), 'rule': res.rule,
            'samples': res.samples[:8] or ['(none)'], 'input_distribution': res.histogram,
            'model_impl_disagreements': len(res.disagreements),
            'known_findings_reproduced': sorted(known_v), 'notes': res.notes,
            'build': {'make_rc': info.make_rc, 'stale_files': info.stale, 'wall_s': round(info.wall, 1)},
        },
        'assumptions': getattr(mod, 'ASSUMES', []),
        'wall_s': round(wall, 2),
        'violations': len(new_v) + (1 if (not new_v and rc) else 0),
    }
    ev['coverage'].update(res.extra)
    if ev['level'] != 'proof':
        ev['coverage']['explanation'] = getattr(mod, 'EXPLANATION', res.rule)
    os.makedirs(common.EVIDENCE, exist_ok=True)
    tmp = os.path.join(common.EVIDENCE, '.%s.%d.tmp' % (prop, os.getpid()))
    json.dump(ev, open(tmp, 'w'), indent=1, ensure_ascii=False, default=str)
    os.replace(tmp, os.path.join(common.EVIDENCE, prop + '.json'))
    for l in out_lines:
        print(l)
    print('%s %s tier=%s seed=%d obligations=%d/%d evaluations=%d distinct=%d wall=%.1fs'
          % (prop, 'FAIL' if rc else 'ok', tier, seed, discharged_n, obligations_n, res.evaluations, len(res.distinct), wall))
    if proof_problems:
        for p in proof_problems:
            print('  problem: ' + p[:400].replace('\n', ' | '))
    return rc


if __name__ == '__main__':
    sys.exit(main())
