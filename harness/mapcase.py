"""Abstract mapping cases: wire encoding for the model, rendering for the implementation (Turtle in several spellings,
CSV / SQLite / ... data, INI text), and seeded generators.  An abstract case is plain JSON-able data:

 case   = {'cfg': {...}, 'sources': [source], 'doc': [tm]}
 source = {'key','kind','cols','rows'}             rows: lists of None | str | ['i',int] | ['f',int] | ['b',bool]
 tmap   = {'k': const|templ|ref|quoted|parent, 'v': str, 'ck': iri|lit|bnode, 'tt': ''|iri|bnode|lit|star}
 obj    = {'m': tmap, 'lang': tmap|None, 'dt': tmap|None, 'joins': [[child,parent]]}
 pom    = {'preds': [tmap], 'objs': [obj], 'graphs': [tmap]}
 tm     = {'id','src','nonasserted','subj': tmap,'sjoins','classes': [iri],'sgraphs': [tmap],'poms': [pom]}
"""
import csv, io, json, os, random, sqlite3
from .common import Opt

RML = 'http://w3id.org/rml/'
RR = 'http://www.w3.org/ns/r2rml#'
RDF_TYPE = 'http://www.w3.org/1999/02/22-rdf-syntax-ns#type'
XSD = 'http://www.w3.org/2001/XMLSchema#'
DEFAULT_NA = ['', 'nan']


# ------------------------------------------------------------------ wire encoding
def w_tmap(m):
    return [m['k'], m['v'], m.get('ck', 'iri'), m.get('tt', '')]


def w_opt(m):
    return [] if m is None else [w_tmap(m)]


def w_obj(o):
    return [w_tmap(o['m']), w_opt(o.get('lang')), w_opt(o.get('dt')), [list(j) for j in o.get('joins', [])]]


def w_pom(p):
    return [[w_tmap(x) for x in p['preds']], [w_obj(o) for o in p['objs']], [w_tmap(g) for g in p.get('graphs', [])]]


def w_tm(t):
    return [t['id'], t['src'], bool(t.get('nonasserted')), w_tmap(t['subj']), [list(j) for j in t.get('sjoins', [])],
            list(t.get('classes', [])), [w_tmap(g) for g in t.get('sgraphs', [])], [w_pom(p) for p in t.get('poms', [])]]


def w_value(v):
    if v is None:
        return []
    if isinstance(v, str):
        return ['s', v]
    tag, x = v
    if tag == 'b':
        return ['b', 'true' if x else 'false']
    if tag == 'd':
        return ['s', str(x)]        # a timestamp cell: str(pandas.Timestamp) is its full 'YYYY-MM-DD HH:MM:SS' text, cell by cell
    return [tag, str(x)]


WIRE_KIND = {'ssv': 'csv', 'pydict': 'json', 'pyjson': 'json', 'pylist': 'columnar', 'csv': 'csv', 'tsv': 'csv', 'xlsx': 'csv', 'parquet': 'columnar', 'feather': 'columnar', 'orc': 'columnar', 'json': 'json', 'xml': 'xml',
             'view': 'view', 'sqltable': 'sqltable', 'sqlquery': 'sqlquery', 'frame': 'frame'}


def w_source(s):
    # an in-memory frame with pandas nullable dtypes (Int64 / boolean / string) keeps its cell types and its NULLs (pd.NA): no column
    # coercion; the reader model that says exactly that (typed cells printed by str(), NULL stays NULL) is the node reader
    return [s['key'], 'xml' if s.get('dtypes') else WIRE_KIND[s.get('kind', 'csv')], list(s['cols']), [[w_value(v) for v in r] for r in s['rows']]]


def w_cfg(c):
    return [bool(c.get('nquads')), bool(c.get('printable')), c.get('safe', ''), list(c.get('na', DEFAULT_NA))]


def w_execs(case):
    return [[e['id'], e['fun'], [[p, k, v] for p, k, v in e.get('inputs', [])]] for e in case.get('execs', [])]


def w_case(tag, case):
    return [tag, w_cfg(case['cfg']), [w_source(s) for s in case['sources']], [w_tm(t) for t in case['doc']], w_execs(case)]


def w_doc(case):
    return [w_tm(t) for t in case['doc']]


# ------------------------------------------------------------------ Turtle rendering
def ttl_str(s):
    out = ['"']
    for ch in s:
        o = ord(ch)
        if ch == '\\':
            out.append('\\\\')
        elif ch == '"':
            out.append('\\"')
        elif ch == '\n':
            out.append('\\n')
        elif ch == '\r':
            out.append('\\r')
        elif ch == '\t':
            out.append('\\t')
        elif o < 0x20 or o == 0x7f:
            out.append('\\u%04X' % o)
        else:
            out.append(ch)
    out.append('"')
    return ''.join(out)


def ttl_iri(s):
    return '<' + ''.join(ch if ch not in '<>"{}|^`\\' and ord(ch) > 0x20 else '\\u%04X' % ord(ch) for ch in s) + '>'


class Vocab:
    """Property / class names of one mapping vocabulary."""
    def __init__(self, name):
        self.name = name
        n = RML if name in ('rml', 'legacy') else RR
        self.ns = n
        self.logical_source = RML + 'logicalSource' if name == 'rml' else ('http://semweb.mmlab.be/ns/rml#logicalSource' if name == 'legacy' else RR + 'logicalTable')
        L = 'http://semweb.mmlab.be/ns/rml#'
        self.source = {'rml': RML + 'source', 'legacy': L + 'source', 'r2rml': None}[name]
        self.reffor = {'rml': RML + 'referenceFormulation', 'legacy': L + 'referenceFormulation', 'r2rml': None}[name]
        base = RML if name == 'rml' else RR
        self.subject_map = base + 'subjectMap'
        self.pom = base + 'predicateObjectMap'
        self.predicate_map = base + 'predicateMap'
        self.object_map = base + 'objectMap'
        self.graph_map = base + 'graphMap'
        self.subject = base + 'subject'
        self.predicate = base + 'predicate'
        self.object = base + 'object'
        self.graph = base + 'graph'
        self.constant = base + 'constant'
        self.template = base + 'template'
        self.reference = {'rml': RML + 'reference', 'legacy': L + 'reference', 'r2rml': RR + 'column'}[name]
        self.term_type = base + 'termType'
        self.cls = base + 'class'
        self.language = base + 'language'
        self.datatype = base + 'datatype'
        self.language_map = RML + 'languageMap'
        self.datatype_map = RML + 'datatypeMap'
        self.parent_tm = base + 'parentTriplesMap'
        self.join = base + 'joinCondition'
        self.child = base + 'child'
        self.parent = base + 'parent'
        self.iri = base + 'IRI'
        self.literal = base + 'Literal'
        self.bnode = base + 'BlankNode'
        self.triples_map = base + 'TriplesMap'
        self.default_graph = base + 'defaultGraph'
        self.table_name = RR + 'tableName' if name == 'r2rml' else RML + 'tableName'
        self.sql_query = RR + 'sqlQuery' if name == 'r2rml' else RML + 'query'
        # RML-star terms: the legacy vocabulary has its own (http://semweb.mmlab.be/ns/rml#)
        self.quoted = (L if name == 'legacy' else RML) + 'quotedTriplesMap'
        self.star = (L if name == 'legacy' else RML) + 'RDFstarTriple'
        self.non_asserted = (L if name == 'legacy' else RML) + 'NonAssertedTriplesMap'


def _p(iri):
    return '<' + iri + '>'


class Style:
    """Spelling choices of one rendering (C09)."""
    def __init__(self, vocab='rml', shortcut=True, cls='class', sgraph='subject', split_poms=False, rng=None,
                 serialisation='turtle', bnode_prefix='b'):
        self.vocab, self.shortcut, self.cls, self.sgraph, self.split_poms = vocab, shortcut, cls, sgraph, split_poms
        self.rng = rng
        self.serialisation = serialisation
        self.bnode_prefix = bnode_prefix
        self.idmap = {}          # triples map id -> token to print instead of its absolute IRI (e.g. a relative IRI)


def _const_node(m, bn):
    if m.get('ck', 'iri') == 'lit':
        return ttl_str(m['v'])
    if m.get('ck') == 'bnode':
        return '_:' + m['v']
    return ttl_iri(m['v'])


def _termtype(V, tt):
    return {'iri': V.iri, 'lit': V.literal, 'bnode': V.bnode, 'star': V.star}[tt]


def render_tmap(V, m, short_prop, full_prop, style, extra=''):
    """Returns the ' ; '-joined property list fragment attaching term map m to its owner."""
    can_short = (m['k'] == 'const' and not m.get('tt') and not extra and style.shortcut
                 and not (style.rng is not None and style.rng.random() < 0.3))
    if can_short and short_prop:
        return '%s %s' % (_p(short_prop), _const_node(m, None))
    body = []
    if m['k'] == 'const':
        body.append('%s %s' % (_p(V.constant), _const_node(m, None)))
    elif m['k'] == 'templ':
        body.append('%s %s' % (_p(V.template), ttl_str(m['v'])))
    elif m['k'] == 'ref':
        body.append('%s %s' % (_p(V.reference), ttl_str(m['v'])))
    elif m['k'] == 'exec':
        body.append('%s %s' % (_p(RML + 'functionExecution'), ttl_iri(m['v'])))
    elif m['k'] == 'quoted':
        body.append('%s %s' % (_p(V.quoted), style.idmap.get(m['v']) or ttl_iri(m['v'])))
    elif m['k'] == 'parent':
        body.append('%s %s' % (_p(V.parent_tm), style.idmap.get(m['v']) or ttl_iri(m['v'])))
    if m.get('tt'):
        body.append('%s %s' % (_p(V.term_type), _p(_termtype(V, m['tt']))))
    if extra:
        body.append(extra)
    return '%s [ %s ]' % (_p(full_prop), ' ; '.join(body))


def render_obj(V, o, style):
    extra = []
    for key, short, full in (('lang', V.language, V.language_map), ('dt', V.datatype, V.datatype_map)):
        m = o.get(key)
        if m is None:
            continue
        if m['k'] == 'const' and (style.vocab == 'r2rml' or (style.shortcut and not (style.rng and style.rng.random() < 0.3))):
            node = ttl_str(m['v']) if key == 'lang' else ttl_iri(m['v'])
            extra.append('%s %s' % (_p(short), node))
        else:
            mm = dict(m)
            if key == 'lang':
                mm['ck'] = 'lit'
            extra.append(render_tmap(V, mm, None, full, Style(style.vocab, shortcut=False)))
    for c, p in o.get('joins', []):
        extra.append('%s [ %s %s ; %s %s ]' % (_p(V.join), _p(V.child), ttl_str(c), _p(V.parent), ttl_str(p)))
    return render_tmap(V, o['m'], V.object, V.object_map, style, ' ; '.join(extra))


def render_source(V, src, style, paths):
    kind = src.get('kind', 'csv')
    if kind in ('sqltable',):
        return '%s [ %s %s ]' % (_p(V.logical_source), _p(V.table_name), ttl_str(src['table']))
    if kind in ('sqlquery', 'view'):
        return '%s [ %s %s ]' % (_p(V.logical_source), _p(V.sql_query), ttl_str(src['query']))
    if kind in ('frame', 'pydict', 'pyjson', 'pylist'):
        SD = 'https://w3id.org/okn/o/sd#'
        parts = ['%s [ a %s ; %s %s ]' % (_p(V.source), _p(SD + 'DatasetSpecification'), _p(SD + 'name'), ttl_str('var_' + src['key']))]
        parts.append('%s %s' % (_p(V.reffor), _p(RML + {'frame': 'DataFrame', 'pylist': 'DataFrame', 'pydict': 'Dictionary', 'pyjson': 'Dictionary'}[kind])))
        if kind in ('pydict', 'pyjson'):
            parts.append('%s %s' % (_p(RML + 'iterator'), ttl_str('$.rows[*]')))
        return '%s [ %s ]' % (_p(V.logical_source), ' ; '.join(parts))
    if style.vocab == 'r2rml':
        # R2RML has no file sources: the logical table is given by file_path in the configuration
        return '%s [ %s %s ]' % (_p(V.logical_source), _p(V.table_name), ttl_str('unused'))
    parts = ['%s %s' % (_p(V.source), ttl_str(paths[src['key']]))]
    rf = {'csv': 'CSV', 'tsv': 'CSV', 'ssv': 'CSV', 'json': 'JSONPath', 'xml': 'XPath'}.get(kind)
    if rf and not src.get('no_reffor'):
        parts.append('%s %s' % (_p(V.reffor), _p(RML + rf if style.vocab == 'rml' else 'http://semweb.mmlab.be/ns/ql#' + rf)))
    if src.get('iterator'):
        it = RML + 'iterator' if style.vocab == 'rml' else 'http://semweb.mmlab.be/ns/rml#iterator'
        parts.append('%s %s' % (_p(it), ttl_str(src['iterator'])))
    return '%s [ %s ]' % (_p(V.logical_source), ' ; '.join(parts))


def render_tm(V, t, srcs, style, paths):
    props = []
    if t.get('nonasserted'):
        props.append('a %s' % _p(V.non_asserted))
    elif t.get('typed', True):
        props.append('a %s' % _p(V.triples_map))
    props.append(render_source(V, srcs[t['src']], style, paths))
    sm_extra = []
    classes = list(t.get('classes', []))
    poms = [dict(p) for p in t.get('poms', [])]
    sgraphs = list(t.get('sgraphs', []))
    # graph maps moved from the subject map to the predicate-object maps are equivalent only if the class statements
    # are explicit predicate-object maps too (rr:class statements live in the subject map's graphs)
    if style.cls == 'pom' or (style.sgraph == 'pom' and sgraphs):
        for c in classes:
            poms.append({'preds': [{'k': 'const', 'v': RDF_TYPE, 'ck': 'iri', 'tt': ''}],
                         'objs': [{'m': {'k': 'const', 'v': c, 'ck': 'iri', 'tt': ''}}], 'graphs': []})
        classes = []
    if style.sgraph == 'pom' and poms:
        for p in poms:
            p['graphs'] = list(p.get('graphs', [])) + sgraphs
        sgraphs = []
    for c in classes:
        sm_extra.append('%s %s' % (_p(V.cls), ttl_iri(c)))
    for g in sgraphs:
        sm_extra.append(render_tmap(V, g, V.graph, V.graph_map, style))
    for c, p in t.get('sjoins', []):
        sm_extra.append('%s [ %s %s ; %s %s ]' % (_p(V.join), _p(V.child), ttl_str(c), _p(V.parent), ttl_str(p)))
    frag = render_tmap(V, t['subj'], V.subject, V.subject_map, style, ' ; '.join(sm_extra))
    share = getattr(style, 'share_sm', None)
    if share is not None and frag.startswith(_p(V.subject_map) + ' [ ') and frag.endswith(' ]'):
        # one subject map RESOURCE referenced by every triples map whose subject map reads the same
        body = frag[len(_p(V.subject_map)) + 3:-2]
        node = share.setdefault(body, '<http://ex.org/sm/SM%d>' % len(share))
        frag = '%s %s' % (_p(V.subject_map), node)
    props.append(frag)
    if style.split_poms:
        split = []
        for p in poms:
            for pm in p['preds']:
                for o in p['objs']:
                    split.append({'preds': [pm], 'objs': [o], 'graphs': p.get('graphs', [])})
        poms = split
    for p in poms:
        body = [render_tmap(V, pm, V.predicate, V.predicate_map, style) for pm in p['preds']]
        body += [render_obj(V, o, style) for o in p['objs']]
        body += [render_tmap(V, g, V.graph, V.graph_map, style) for g in p.get('graphs', [])]
        props.append('%s [ %s ]' % (_p(V.pom), ' ; '.join(body)))
    return '%s %s .\n' % (style.idmap.get(t['id']) or ttl_iri(t['id']), ' ;\n   '.join(props))


def render_execs(case):
    out = []
    for e in case.get('execs', []):
        ins = []
        for p, k, v in e.get('inputs', []):
            vm = {'const': '%s %s' % (_p(RML + 'constant'), ttl_str(v)), 'ref': '%s %s' % (_p(RML + 'reference'), ttl_str(v)),
                  'templ': '%s %s' % (_p(RML + 'template'), ttl_str(v)), 'exec': '%s %s' % (_p(RML + 'functionExecution'), ttl_iri(v))}[k]
            ins.append('%s [ %s %s ; %s [ %s ] ]' % (_p(RML + 'input'), _p(RML + 'parameter'), ttl_iri(p), _p(RML + 'inputValueMap'), vm))
        out.append('%s %s %s%s .\n' % (ttl_iri(e['id']), _p(RML + 'function'), ttl_iri(e['fun']), ''.join(' ;\n   ' + i for i in ins)))
    return ''.join(out)


def render_mapping(case, style, paths, tms=None):
    V = Vocab(style.vocab)
    srcs = {s['key']: s for s in case['sources']}
    text = ''.join(render_tm(V, t, srcs, style, paths) for t in (tms if tms is not None else case['doc'])) + render_execs(case)
    share = getattr(style, 'share_sm', None)
    if share:
        text += ''.join('%s %s .\n' % (node, body) for body, node in share.items())
        share.clear()
    return text


# ------------------------------------------------------------------ data rendering
def cell_text(v):
    if v is None:
        return ''
    if isinstance(v, str):
        return v
    tag, x = v
    if tag == 'i':
        return str(x)
    if tag == 'f':
        return str(x) + '.0'
    return 'True' if x else 'False'


def write_csv(path, cols, rows, sep=','):
    with open(path, 'w', encoding='utf-8', newline='') as f:
        w = csv.writer(f, delimiter=sep, quoting=csv.QUOTE_MINIMAL, lineterminator='\r\n')
        w.writerow(cols)
        for r in rows:
            w.writerow([cell_text(v) for v in r])


def write_sqlite(path, tables):
    """tables: {name: (cols, rows, decltypes or None)}"""
    if os.path.exists(path):
        os.remove(path)
    con = sqlite3.connect(path)
    for name, (cols, rows, types) in tables.items():
        decl = ', '.join('"%s" %s' % (c.replace('"', '""'), (types[i] if types else 'TEXT')) for i, c in enumerate(cols))
        con.execute('CREATE TABLE "%s" (%s)' % (name, decl))
        def conv(v):
            if v is None or isinstance(v, str):
                return v
            tag, x = v
            return float(x) if tag == 'f' else (int(x) if tag in ('i', 'b') else x)
        con.executemany('INSERT INTO "%s" VALUES (%s)' % (name, ','.join('?' * len(cols))), [[conv(v) for v in r] for r in rows])
    con.commit()
    con.close()


def plain_value(v):
    """cell -> python value for typed writers"""
    if v is None or isinstance(v, str):
        return v
    tag, x = v
    if tag == 'd':
        import pandas as _pd
        return _pd.Timestamp(x)
    return float(x) if tag == 'f' else (bool(x) if tag == 'b' else int(x))


def write_json(path, cols, rows, null_style='null'):
    recs = json_records(cols, rows, null_style)
    with open(path, 'w', encoding='utf-8') as f:
        json.dump(recs, f, ensure_ascii=False)


def json_records(cols, rows, null_style='null'):
    recs = []
    for r in rows:
        d = {}
        for c, v in zip(cols, r):
            if v is None and null_style == 'absent':
                continue
            tgt, parts = d, c.split('.')
            for q in parts[:-1]:      # dotted column names are paths into nested objects
                tgt = tgt.setdefault(q, {})
            tgt[parts[-1]] = plain_value(v)
        recs.append(d)
    return recs


def write_xml(path, cols, rows, null_style='absent'):
    from xml.sax.saxutils import escape
    out = ['<?xml version="1.0" encoding="UTF-8"?>\n<root>']
    for r in rows:
        out.append('<row>')
        for c, v in zip(cols, r):
            if v is None:
                if null_style == 'empty':
                    out.append('<%s/>' % c)
                continue
            out.append('<%s>%s</%s>' % (c, escape(cell_text(v)), c))
        out.append('</row>')
    out.append('</root>')
    with open(path, 'w', encoding='utf-8') as f:
        f.write(''.join(out))


def write_frame_file(path, kind, cols, rows):
    import pandas as pd
    if kind == 'xlsx':
        df = pd.DataFrame([[plain_value(v) for v in r] for r in rows], columns=cols)
        df.to_excel(path, index=False, engine='openpyxl')
        return
    import pyarrow as pa
    arrays = []
    for i, c in enumerate(cols):
        vals = [plain_value(r[i]) for r in rows]
        kinds = set(type(v) for v in vals if v is not None)
        typ = pa.string()
        if kinds == {int}:
            typ = pa.int64()
        elif kinds and kinds <= {int, float}:
            typ = pa.float64(); vals = [None if v is None else float(v) for v in vals]
        elif kinds == {bool}:
            typ = pa.bool_()
        elif kinds and all(k.__name__ == 'Timestamp' for k in kinds):
            typ = pa.timestamp('ns')
        elif kinds - {str}:
            vals = [None if v is None else str(v) for v in vals]
        arrays.append(pa.array(vals, type=typ))
    table = pa.Table.from_arrays(arrays, names=list(cols))
    if kind == 'parquet':
        import pyarrow.parquet as pq
        pq.write_table(table, path)
    elif kind == 'feather':
        import pyarrow.feather as pf
        pf.write_feather(table, path)
    elif kind == 'orc':
        import pyarrow.orc as po
        po.write_table(table, path)
    else:
        raise ValueError(kind)


FILE_KINDS = ('csv', 'tsv', 'json', 'xml', 'parquet', 'feather', 'orc', 'xlsx')
MEMORY_KINDS = ('frame', 'pydict', 'pyjson', 'pylist')


def _db_file(name, tag):
    return name + ('' if tag is None else '_' + tag) + '.db'


def _section_db(case, tm_ids):
    """the database of a data-source section: that of the first relational source its triples maps read"""
    srcs = {s['key']: s for s in case['sources']}
    for t in case['doc']:
        if t['id'] in tm_ids and srcs[t['src']].get('kind') in ('sqltable', 'sqlquery'):
            return srcs[t['src']].get('db')
    return next((s.get('db') for s in case['sources'] if s.get('kind') in ('sqltable', 'sqlquery')), None)


def gen_words_case(rng, kinds=('ssv', 'ssv', 'csv', 'tsv')):
    """a delimited text file (comma, semicolon, tab) whose cells are words that readers like to interpret: NA / None / NULL / N/A / nan,
    numbers with leading zeros or trailing zeros, booleans -- every cell is text and only the configured na_values are null"""
    words = ['NA', 'None', 'NULL', 'N/A', 'nan', 'n/a', 'a', 'b', '1', '0071', '1.50', 'true', 'TRUE', '-', '#N/A', 'x y']
    nums = ['0071', '1.50', '1', '10', '-3', '+5', '1e3']
    n = rng.choice([2, 3, 4, 6])
    numeric_col = rng.random() < 0.4
    rows = [[str(i + 1), rng.choice(words), rng.choice(nums if numeric_col and i < n - 1 else words)] for i in range(n)]
    def tm(k, v, ck='iri', tt=''):
        return {'k': k, 'v': v, 'ck': ck, 'tt': tt}
    poms = [{'preds': [tm('const', EX + 'p/c1')], 'objs': [{'m': tm('ref', 'c1'), 'lang': None, 'dt': None, 'joins': []}], 'graphs': []},
            {'preds': [tm('const', EX + 'p/c2')], 'objs': [{'m': rng.choice([tm('ref', 'c2'), tm('templ', 'v={c2}', 'iri', 'lit')]), 'lang': None, 'dt': None, 'joins': []}], 'graphs': []}]
    return {'cfg': {'nquads': False, 'mode': 'NO'}, 'sources': [{'key': 'S0', 'kind': rng.choice(list(kinds)), 'cols': ['id', 'c1', 'c2'], 'rows': rows}],
            'doc': [{'id': EX + 'tm/T', 'src': 'S0', 'nonasserted': False, 'subj': tm('templ', EX + 'r/{id}'), 'sjoins': [], 'classes': [], 'sgraphs': [], 'poms': poms}]}


def gen_shard_case(rng):
    """the same mapping applied to same-named tables of two databases (two data-source sections with their own db_url): the two triples
    maps have the same shape, so their rules fall into the same mapping groups"""
    import copy
    cols = ['id', 'name', 'city']
    def rows(tag):
        return [[tag + str(i + 1) if rng.random() < 0.5 else str(i + 1), rng.choice(['ann', 'bob', 'cy', 'dee']) + tag.lower(), rng.choice(['x', 'y', None])] for i in range(rng.choice([1, 2, 3, 4]))]
    kind = rng.choice(['sqltable', 'sqltable', 'sqlquery'])
    srcs = [{'key': 'S0', 'kind': kind, 'table': 'people', 'db': 'A', 'cols': cols, 'rows': rows('A')},
            {'key': 'S1', 'kind': kind, 'table': 'people', 'db': 'B', 'cols': cols, 'rows': rows('B')}]
    def tm(k, v, ck='iri', tt=''):
        return {'k': k, 'v': v, 'ck': ck, 'tt': tt}
    t0 = {'id': EX + 'tm/ShardA', 'src': 'S0', 'nonasserted': False, 'subj': tm('templ', EX + 'person/{id}'), 'sjoins': [], 'classes': ([EX + 'class/Person'] if rng.random() < 0.5 else []), 'sgraphs': [],
          'poms': [{'preds': [tm('const', EX + 'p/name')], 'objs': [{'m': tm('ref', 'name'), 'lang': None, 'dt': None, 'joins': []}], 'graphs': []}]}
    if rng.random() < 0.5:
        t0['poms'].append({'preds': [tm('const', EX + 'p/city')], 'objs': [{'m': tm('templ', EX + 'city/{city}'), 'lang': None, 'dt': None, 'joins': []}], 'graphs': []})
    t1 = copy.deepcopy(t0); t1['id'] = EX + 'tm/ShardB'; t1['src'] = 'S1'
    if rng.random() < 0.4:
        # subject templates that the partitioner separates: the two rules share a mapping group only when partitioning is off
        t0['subj'] = tm('templ', EX + 'a/person/{id}'); t1['subj'] = tm('templ', EX + 'b/person/{id}')
    doc = [t0, t1]
    layout = [[[t0['id']]], [[t1['id']]]]
    if rng.random() < 0.3:
        # a referencing object map inside each shard (parent data of the same table name)
        for t, sk in ((t0, 'S0'), (t1, 'S1')):
            par = {'id': t['id'] + 'Parent', 'src': sk, 'nonasserted': False, 'subj': tm('templ', EX + 'city/{city}'), 'sjoins': [], 'classes': [], 'sgraphs': [], 'poms': []}
            t['poms'].append({'preds': [tm('const', EX + 'p/livesWith')], 'objs': [{'m': tm('parent', par['id']), 'lang': None, 'dt': None, 'joins': [['city', 'city']]}], 'graphs': []})
            doc.append(par)
        layout = [[[t0['id'], t0['id'] + 'Parent']], [[t1['id'], t1['id'] + 'Parent']]]
    out = {'cfg': {'nquads': rng.random() < 0.3, 'mode': rng.choice(['NO', 'PARTIAL-AGGREGATIONS', 'MAXIMAL'])}, 'sources': srcs, 'doc': doc, 'layout': layout}
    if len(doc) == 2 and rng.random() < 0.3:
        # one section reads a CSV file named by its file_path option, the other a database table
        srcs[0]['kind'] = 'csv'; srcs[0].pop('table', None); srcs[0].pop('db', None)
        out['section_file_path'] = {0: 'S0'}
    return out


def materialise_files(case, wd, style=None, name='m'):
    """Writes data + mapping files for `case` into directory wd; returns the config text (paths relative to wd)."""
    style = style or Style()
    paths = {}
    sqlite_tables = {}
    file_paths = {}
    shared_json = {}
    for i, s in enumerate(case['sources']):
        kind = s.get('kind', 'csv')
        if kind in ('csv', 'tsv'):
            fn = '%s_%d.%s' % (name, i, kind)
            write_csv(os.path.join(wd, fn), s['cols'], s['rows'], ',' if kind == 'csv' else '\t')
            paths[s['key']] = fn
        elif kind == 'ssv':
            # a .csv file whose delimiter is a semicolon: read through the delimiter-sniffing fallback of _read_csv
            fn = '%s_%d.csv' % (name, i)
            write_csv(os.path.join(wd, fn), s['cols'], s['rows'], ';')
            paths[s['key']] = fn
        elif kind == 'json' and s.get('shared_file'):
            # several sources are parts of ONE JSON document {"part": [records], ...} (file named by the case, e.g. *.geojson), each read through its own iterator
            fn = s['shared_file']
            shared_json.setdefault(fn, {})[s['part']] = json_records(s['cols'], s['rows'], s.get('null_style', 'null'))
            paths[s['key']] = fn
            s['iterator'] = '$.%s[*]' % s['part']
        elif kind == 'json':
            fn = '%s_%d.json' % (name, i)
            write_json(os.path.join(wd, fn), s['cols'], s['rows'], s.get('null_style', 'null'))
            paths[s['key']] = fn
            s.setdefault('iterator', '$[*]')
        elif kind == 'xml':
            fn = '%s_%d.xml' % (name, i)
            write_xml(os.path.join(wd, fn), s['cols'], s['rows'], s.get('null_style', 'absent'))
            paths[s['key']] = fn
            s.setdefault('iterator', '/root/row')
        elif kind in ('parquet', 'feather', 'orc', 'xlsx'):
            fn = '%s_%d.%s' % (name, i, kind)
            write_frame_file(os.path.join(wd, fn), kind, s['cols'], s['rows'])
            paths[s['key']] = fn
        elif kind == 'view':
            # rml:query over a CSV file (tabular view, evaluated by DuckDB)
            fn = '%s_%d.csv' % (name, i)
            write_csv(os.path.join(wd, fn), s['cols'], s['rows'], ',')
            s['query'] = s.get('query_template', "SELECT * FROM '{path}'").format(path=fn)
            paths[s['key']] = fn
        elif kind in ('frame', 'pydict', 'pyjson', 'pylist'):
            paths[s['key']] = None
        elif kind in ('sqltable', 'sqlquery'):
            s.setdefault('table', 't%d' % i)
            if kind == 'sqlquery':
                s.setdefault('query', 'SELECT * FROM "%s"' % s['table'])
            # 'db': the database (file) holding the table -- several sources may be same-named tables of different databases
            sqlite_tables.setdefault(s.get('db'), {})[s['table']] = (s['cols'], s['rows'], s.get('types'))
    for tag, tabs in sqlite_tables.items():
        write_sqlite(os.path.join(wd, _db_file(name, tag)), tabs)
    for fn, parts in shared_json.items():
        with open(os.path.join(wd, fn), 'w', encoding='utf-8') as f:
            json.dump(parts, f, ensure_ascii=False)
    if case.get('file_path_option'):
        # the file is named by the file_path option of the section instead of the mapping (one file source only)
        key = case['file_path_option']
        file_paths[key] = paths[key]
    mp = name + '.ttl'
    if style.vocab == 'yarrrml':
        # the YARRRML spelling (cases of yarrrml_ok only; the renderer names the CSV files itself)
        mp = name + '.yml'
        with open(os.path.join(wd, mp), 'w', encoding='utf-8') as f:
            f.write(render_yarrrml(case, style=style))
    else:
        with open(os.path.join(wd, mp), 'w', encoding='utf-8') as f:
            f.write(render_mapping(case, style, {k: ('ignored-by-file_path.csv' if k in file_paths else v) for k, v in paths.items()}))
    if case['cfg'].get('udfs'):
        import shutil as _sh
        _sh.copy(os.path.join(os.path.dirname(os.path.abspath(__file__)), case['cfg'].get('udf_source', 'udfs.py')), os.path.join(wd, case['cfg']['udfs']))
    opts = {'mappings': mp}
    if sqlite_tables:
        opts['db_url'] = 'sqlite:///' + _db_file(name, _section_db(case, [t['id'] for t in case['doc']]))
    if file_paths:
        opts['file_path'] = list(file_paths.values())[0]
    return config_text(case, [('DS', opts)])


def materialise_layout(case, wd, layout, style=None, name='m', relative_ids=False):
    """Like materialise_files, but the triples maps are spread over several mapping files and data-source sections.
    layout: [[[tm ids of file 0 of section 0], [file 1]], [[file 0 of section 1]], ...]"""
    style = style or Style()
    cfg1 = materialise_files(case, wd, style, name)        # writes the data files (and one complete mapping file, unused)
    paths = {}
    for i, s in enumerate(case['sources']):
        kind = s.get('kind', 'csv')
        paths[s['key']] = '%s_%d.%s' % (name, i, 'csv' if kind == 'view' else kind)
    by_id = {t['id']: t for t in case['doc']}
    sections = []
    has_db = any(s.get('kind') in ('sqltable', 'sqlquery') for s in case['sources'])
    for si, files in enumerate(layout):
        names = []
        for fi, ids in enumerate(files):
            fn = '%s_s%d_f%d.ttl' % (name, si, fi)
            # relative identifiers: every file names its triples maps <#L0>, <#L1>, ... (resolved against the file's own base)
            style.idmap = {tid: '<#L%d>' % k for k, tid in enumerate(ids)} if relative_ids else {}
            sfp = (case.get('section_file_path') or {}).get(si, (case.get('section_file_path') or {}).get(str(si)))
            spaths = dict(paths, **({sfp: 'ignored-by-file_path.csv'} if sfp else {}))
            with open(os.path.join(wd, fn), 'w', encoding='utf-8') as f:
                f.write(render_mapping(case, style, spaths, tms=[by_id[i] for i in ids]))
            names.append(fn)
        opts = {'mappings': ','.join(names)}
        sfp = (case.get('section_file_path') or {}).get(si, (case.get('section_file_path') or {}).get(str(si)))
        if sfp:
            opts['file_path'] = paths[sfp]          # this section names its file by the file_path option
        srcs_here = [s_ for s_ in case['sources'] if any(by_id[i]['src'] == s_['key'] for i in sum(files, []))]
        if has_db and any(s_.get('kind') in ('sqltable', 'sqlquery') for s_ in srcs_here):
            opts['db_url'] = 'sqlite:///' + _db_file(name, _section_db(case, sum(files, [])))
        sections.append(('DS%d' % si, opts))
    return config_text(case, sections)


def python_sources(case):
    """{variable name: spec} for the in-memory sources of a case (built into objects inside the worker)"""
    out = {}
    for s in case['sources']:
        if s.get('kind') in ('frame', 'pydict', 'pyjson', 'pylist'):
            out['var_' + s['key']] = {'type': s['kind'], 'cols': list(s['cols']), 'rows': [[plain_value(v) for v in r] for r in s['rows']],
                                     'null_style': s.get('null_style', 'null'), 'dtypes': s.get('dtypes'), 'dup_index': s.get('dup_index')}
    return out


def config_text(case, sections, extra=None):
    c = case['cfg']
    lines = ['[CONFIGURATION]', 'number_of_processes=%s' % c.get('procs', 1), 'logging_level=ERROR',
             'output_format=%s' % ('N-QUADS' if c.get('nquads') else 'N-TRIPLES')]
    if 'mode' in c:
        lines.append('mapping_partitioning=%s' % c['mode'])
    if 'na' in c:
        lines.append('na_values=%s' % ','.join(c['na']))
    if c.get('safe'):
        lines.append('safe_percent_encoding=%s' % c['safe'].replace('%', '%%').replace('$', '$$'))   # ExtendedInterpolation: a literal $ is written $$
    if c.get('printable'):
        lines.append('only_printable_chars=yes')
    if c.get('udfs'):
        lines.append('udfs=%s' % c['udfs'])
    for k, v in (extra or {}).items():
        lines.append('%s=%s' % (k, v))
    for name, opts in sections:
        lines.append('[%s]' % name)
        for k, v in opts.items():
            lines.append('%s=%s' % (k, v))
    return '\n'.join(lines) + '\n'


# ------------------------------------------------------------------ generators
EX = 'http://ex.org/'
NASTY = ['a', 'b', 'A b', 'x y', '1', '01', '10', '3.5', 'true', 'TRUE', 'None', 'nan', 'NULL', '', ' ', 'é', 'ß', '日本', '😀',
         'a"b', "it's", 'back\\slash', 'line\nbreak', 'tab\there', 'cr\rx', 'a{b}', '{', '}', '<x>', 'p%q', 'a/b', 'a:b', 'q?r#s',
         'x&y', 'a|b', 'a^b', 'a`b', 'u​v', '\x07bell', 'end\\', '\\{', 'a,b', 'é è', '  lead', 'trail  ', '%41', '~-._']
SIMPLE = ['a', 'b', 'c', '1', '2', '10', 'x y', 'é', 'A b', 'v1', 'v2', 'z']
COLS = ['id', 'name', 'c1', 'c2', 'c3', 'k', 'Name', 'first name', 'col.x', 'ñ', 'a-b', 'ID']
WORKING_COLS = ['subject', 'predicate', 'object', 'graph', 'triple', 'reference_results', 'lang_datatype']
LANGS = ['en', 'es', 'en-GB', 'fr']
DTS = [XSD + 'string', XSD + 'integer', XSD + 'boolean', XSD + 'dateTime', XSD + 'date', XSD + 'decimal', EX + 'dt/custom']
CONST_TEXT = ['', 'x', 'res/', 'a-b_', 'v=', 'é', 'q/', '#', '.']


def gen_template(rng, cols, kind, nrefs=None, allow_escape=True):
    """kind: 'iri' | 'lit' | 'bnode'"""
    n = nrefs if nrefs is not None else rng.choice([1, 1, 1, 2, 2, 3])
    parts = []
    if kind == 'iri':
        parts.append(EX + rng.choice(['r/', 's/', 'res', 'p#', 'long/path/', '']))
    elif kind == 'bnode':
        parts.append(rng.choice(['b', 'n_', '']))
    else:
        parts.append(rng.choice(['', 'Name: ', 'v ', '(', '"q" ' if rng.random() < 0.1 else '']))
    for i in range(n):
        parts.append('{' + rng.choice(cols).replace('{', '\\{').replace('}', '\\}') + '}')
        if i < n - 1 or rng.random() < 0.4:
            t = rng.choice(['/', '-', '_', ' ' if kind == 'lit' else '.', '', 'x'])
            if allow_escape and rng.random() < 0.08:
                t += rng.choice(['\\{', '\\}', '\\{x\\}'])
            parts.append(t)
    return ''.join(parts)


def tm_const_iri(v):
    return {'k': 'const', 'v': v, 'ck': 'iri', 'tt': ''}


def gen_termmap(rng, cols, role, p_explicit_tt=0.25, hard=False):
    """role: subject | predicate | object | graph"""
    r = rng.random()
    if role == 'predicate':
        if r < 0.8:
            return tm_const_iri(EX + 'p/' + rng.choice(['name', 'knows', 'p1', 'p2', 'p3', 'pp', 'p']))
        if r < 0.92:
            return {'k': 'templ', 'v': EX + 'p/' + rng.choice(['', 'x', 'p']) + '{' + rng.choice(cols) + '}', 'ck': 'iri', 'tt': ''}
        return {'k': 'ref', 'v': rng.choice(cols), 'ck': 'iri', 'tt': 'iri' if rng.random() < 0.5 else ''}
    if role == 'graph':
        if r < 0.55:
            return tm_const_iri(EX + 'g/' + rng.choice(['g1', 'g2', 'g', 'g1x']))
        if r < 0.85:
            return {'k': 'templ', 'v': EX + 'g/' + rng.choice(['', 'g', 'g1']) + '{' + rng.choice(cols) + '}', 'ck': 'iri', 'tt': ''}
        return {'k': 'ref', 'v': rng.choice(cols), 'ck': 'iri', 'tt': ''}
    if role == 'subject':
        if r < 0.6:
            return {'k': 'templ', 'v': gen_template(rng, cols, 'iri'), 'ck': 'iri', 'tt': 'iri' if rng.random() < p_explicit_tt else ''}
        if r < 0.72:
            return {'k': 'templ', 'v': gen_template(rng, cols, 'bnode'), 'ck': 'iri', 'tt': 'bnode'}
        if r < 0.82:
            return {'k': 'ref', 'v': rng.choice(cols), 'ck': 'iri', 'tt': rng.choice(['', 'iri', 'bnode'])}
        return tm_const_iri(EX + 'const/' + rng.choice(['s1', 's2', 's']))
    # object
    if r < 0.3:
        return {'k': 'ref', 'v': rng.choice(cols), 'ck': 'iri', 'tt': rng.choice(['', '', 'lit', 'iri', 'bnode'])}
    if r < 0.5:
        return {'k': 'templ', 'v': gen_template(rng, cols, 'iri'), 'ck': 'iri', 'tt': rng.choice(['', '', 'iri'])}
    if r < 0.62:
        return {'k': 'templ', 'v': gen_template(rng, cols, 'lit'), 'ck': 'iri', 'tt': 'lit'}
    if r < 0.68:
        return {'k': 'templ', 'v': gen_template(rng, cols, 'bnode'), 'ck': 'iri', 'tt': 'bnode'}
    if r < 0.85:
        return tm_const_iri(EX + 'o/' + rng.choice(['o1', 'o2', 'o', 'C']))
    return {'k': 'const', 'v': rng.choice(['lit', 'hello world', 'x', '42', 'é']), 'ck': 'lit', 'tt': rng.choice(['', '', 'lit'])}


def gen_object(rng, cols):
    m = gen_termmap(rng, cols, 'object')
    o = {'m': m, 'lang': None, 'dt': None, 'joins': []}
    lit_capable = (m['tt'] in ('', 'lit')) and not (m['k'] == 'const' and m['ck'] == 'iri' and m['tt'] == '') and m['k'] in ('ref', 'templ', 'const')
    if m['k'] == 'templ' and m['tt'] == '' :
        lit_capable = rng.random() < 0.3
        if lit_capable:
            m['v'] = gen_template(rng, cols, 'lit')
    if lit_capable and rng.random() < 0.45:
        if rng.random() < 0.5:
            if rng.random() < 0.8:
                o['lang'] = {'k': 'const', 'v': rng.choice(LANGS), 'ck': 'lit', 'tt': ''}
            else:
                o['lang'] = {'k': 'ref', 'v': rng.choice(cols), 'ck': 'lit', 'tt': ''}
        else:
            if rng.random() < 0.8:
                o['dt'] = {'k': 'const', 'v': rng.choice(DTS), 'ck': 'iri', 'tt': ''}
            else:
                o['dt'] = {'k': 'templ', 'v': EX + 'dt/{' + rng.choice(cols) + '}', 'ck': 'iri', 'tt': ''}
    return o


UNRESERVED = 'abcxyzABZ0129-._~'
SPECIAL = [' ', '\n', '\t', '\r', '"', "'", '\\', '%', '/', ':', '?', '#', '{', '}', '<', '>', '|', '^', '`', '&', '=', '+', ',', ';', '@', '[', ']',
           'é', 'ß', 'İ', 'ǆ', '日', '😀', '\u200b', '\x07', '\x08', '\x0c', '\x1f', '\x7f', '\x85', '\xa0', '\u2028', '\ufeff', '\U000e0001']


def gen_value(rng, pool):
    r = rng.random()
    if r < 0.45:
        return rng.choice(pool)
    tok = ''.join(rng.choice(UNRESERVED) for _ in range(rng.randint(0, 4)))
    if r < 0.70:
        sp = rng.choice(SPECIAL)
        return rng.choice([tok + sp, sp + tok, tok + sp + tok[:1], sp])
    return ''.join(rng.choice(UNRESERVED) if rng.random() < 0.6 else rng.choice(SPECIAL) for _ in range(rng.randint(0, 6)))


def gen_table(rng, key, pool, ncols=None, nrows=None, cols_pool=COLS, p_null=0.15, working=0.0):
    n = ncols or rng.randint(2, 4)
    names = rng.sample(cols_pool, n)
    if working and rng.random() < working:
        names[rng.randrange(n)] = rng.choice(WORKING_COLS)
    m = nrows if nrows is not None else rng.choice([0, 1, 2, 3, 3, 4, 5, 6])
    rows = [[None if rng.random() < p_null else (gen_value(rng, pool) if pool is NASTY else rng.choice(pool)) for _ in names] for _ in range(m)]
    return {'key': key, 'kind': 'csv', 'cols': names, 'rows': rows}


def gen_core_case(rng, hard=False, joins=True, nquads=None, nrows=None):
    pool = NASTY if hard else SIMPLE
    nsrc = rng.choice([1, 1, 2])
    sources = [gen_table(rng, 'S%d' % i, pool, working=0.05 if hard else 0.0, nrows=nrows) for i in range(nsrc)]
    ntm = rng.choice([1, 1, 2, 2, 3])
    doc = []
    for i in range(ntm):
        src = rng.choice(sources)
        cols = src['cols']
        t = {'id': EX + 'tm/TM%d' % i, 'src': src['key'], 'nonasserted': False, 'subj': gen_termmap(rng, cols, 'subject'),
             'sjoins': [], 'classes': [EX + 'class/' + rng.choice(['C1', 'C2', 'C']) for _ in range(rng.choice([0, 0, 1, 2]))],
             'sgraphs': [gen_termmap(rng, cols, 'graph') for _ in range(rng.choice([0, 0, 0, 1, 2]))], 'poms': []}
        for _ in range(rng.choice([0, 1, 1, 2, 3])):
            p = {'preds': [gen_termmap(rng, cols, 'predicate') for _ in range(rng.choice([1, 1, 1, 2]))],
                 'objs': [gen_object(rng, cols) for _ in range(rng.choice([1, 1, 2]))],
                 'graphs': [gen_termmap(rng, cols, 'graph') for _ in range(rng.choice([0, 0, 0, 1, 2]))]}
            if rng.random() < 0.06:
                p['graphs'].append(tm_const_iri(RML + 'defaultGraph'))
            t['poms'].append(p)
        doc.append(t)
    if joins and ntm >= 2 and rng.random() < 0.5:
        # referencing object maps from TM0 to other triples maps; several may share predicate and parent and differ
        # only in their join conditions
        child = doc[0]
        csrc = next(s for s in sources if s['key'] == child['src'])
        shared_pred = gen_termmap(rng, csrc['cols'], 'predicate')
        for _ in range(rng.choice([1, 1, 2, 3])):
            parent = doc[rng.randrange(1, ntm)]
            psrc = next(s for s in sources if s['key'] == parent['src'])
            conds = [[rng.choice(csrc['cols']), rng.choice(psrc['cols'])] for _ in range(rng.choice([1, 1, 2]))]
            if csrc is psrc and rng.random() < 0.4:
                conds = [[c, c] for c, _ in conds]
            if csrc is psrc and rng.random() < 0.3:
                conds = []          # R2RML's plain referencing object map: same logical table, no join condition (the parent's subject on the same row)
            child['poms'].append({'preds': [shared_pred if rng.random() < 0.6 else gen_termmap(rng, csrc['cols'], 'predicate')],
                                  'objs': [{'m': {'k': 'parent', 'v': parent['id'], 'ck': 'iri', 'tt': ''}, 'lang': None, 'dt': None, 'joins': conds}],
                                  'graphs': []})
    cfg = {'nquads': rng.random() < 0.6 if nquads is None else nquads, 'mode': rng.choice(['NO', 'PARTIAL-AGGREGATIONS', 'MAXIMAL'])}
    if hard and rng.random() < 0.3:
        cfg['na'] = rng.choice([['', 'nan'], [''], ['', 'NULL', 'None'], ['x', 'a']])
    if hard and rng.random() < 0.2:
        cfg['safe'] = rng.choice([':/', '/', ':/?#'])
    if hard and rng.random() < 0.15:
        cfg['printable'] = True
    return {'cfg': cfg, 'sources': sources, 'doc': doc}


# ---------------------------------------------------------------- YARRRML spelling (C09)
_YARRRML_DEFAULT_PREFIXES = ('rml:', 'fno:', 'xsd:', 'rdfs:')


def _y_value_ok(m, allow_lit=False):
    v = m['v']
    if any(v.startswith(p) for p in _YARRRML_DEFAULT_PREFIXES) or v == 'a' or v == '':
        return False
    if m['k'] == 'const':
        ck = m.get('ck', 'iri')
        if ck == 'iri':
            return v.startswith('http') or v.startswith('ftp')
        if ck == 'lit':
            return allow_lit and not (v.startswith('http') or v.startswith('ftp')) and '$(' not in v
        return False
    if m['k'] == 'templ':
        if '\\' in v or '$(' in v or '{' not in v:
            return False
        if v.startswith('{') and v.count('{') == 1:
            return False            # YARRRML reads a template that starts with its only reference as a reference
        import re as _re
        return all(')' not in n and '$' not in n for n in _re.findall(r'\{([^}]*)\}', v))
    if m['k'] == 'ref':
        return ')' not in v and '$' not in v and '{' not in v
    return False


def yarrrml_ok(case):
    """the abstract mapping lies in the fragment the YARRRML translator of /repo supports and the renderer below writes"""
    if any(s.get('kind', 'csv') != 'csv' for s in case['sources']) or case.get('file_path_option'):
        return False
    quoted_ids = set(t['subj']['v'] for t in case['doc'] if t['subj']['k'] == 'quoted') | set(o['m']['v'] for t in case['doc'] for p in t.get('poms', []) for o in p['objs'] if o['m']['k'] == 'quoted')
    for t in case['doc']:
        if t.get('nonasserted') and t['id'] not in quoted_ids:
            return False            # YARRRML marks a mapping non-asserted where it is quoted (quotedNonAsserted)
        if t['subj']['k'] == 'quoted':
            if len(t.get('sjoins', [])) > 1 or any(')' in a or ')' in b for a, b in t.get('sjoins', [])):
                return False
        elif t.get('sjoins') or not _y_value_ok(t['subj']) or t['subj'].get('tt') not in ('', None, 'iri', 'bnode'):
            return False
        if any(not (c.startswith('http')) for c in t.get('classes', [])):
            return False
        for g in t.get('sgraphs', []):
            if not _y_value_ok(g) or g.get('tt'):
                return False
        for p in t.get('poms', []):
            for pm in p['preds']:
                if pm['k'] not in ('const', 'templ') or not _y_value_ok(pm) or pm.get('tt'):
                    return False
            for g in p.get('graphs', []):
                if not _y_value_ok(g) or g.get('tt'):
                    return False
            for o in p['objs']:
                m = o['m']
                if m['k'] in ('parent', 'quoted'):
                    if len(o.get('joins', [])) > 1 or any(')' in a or ')' in b for a, b in o.get('joins', [])):
                        return False
                    continue
                if not _y_value_ok(m, allow_lit=True):
                    return False
                extras = sum(1 for x in (o.get('lang'), o.get('dt'), m.get('tt')) if x)
                if extras > 1:
                    return False
                for ld in (o.get('lang'), o.get('dt')):
                    if ld and (ld['k'] != 'const' or any(ld['v'].startswith(p) for p in _YARRRML_DEFAULT_PREFIXES)):
                        return False
                if o.get('dt') and not o['dt']['v'].startswith('http'):
                    return False
    return True


def _y_text(m):
    if m['k'] == 'ref':
        return '$(%s)' % m['v']
    if m['k'] == 'templ':
        import re as _re
        return _re.sub(r'\{([^}]*)\}', lambda mo: '$(%s)' % mo.group(1), m['v'])
    return m['v']


_Y_TYPE = {'iri': 'iri', 'lit': 'literal', 'bnode': 'blanknode'}


def render_yarrrml(case, rng=None, style=None):
    """YARRRML text of the abstract mapping (fragment of yarrrml_ok); sources are the CSV files materialise_files writes"""
    import io
    from ruamel.yaml import YAML
    keys = {t['id']: 'tm%d' % i for i, t in enumerate(case['doc'])}
    files = {s['key']: 'm_%d.csv' % i for i, s in enumerate(case['sources'])}
    by_id = {t['id']: t for t in case['doc']}
    mappings = {}
    for t in case['doc']:
        mv = {'sources': [['%s~csv' % files[t['src']]]]}
        def cond(j):
            a, b = j
            return {'function': 'equal', 'parameters': [['str1', '$(%s)' % a], ['str2', '$(%s)' % b]]}
        def qkey(tid):
            return 'quotedNonAsserted' if by_id[tid].get('nonasserted') else 'quoted'
        if t['subj']['k'] == 'quoted':
            subj = {qkey(t['subj']['v']): keys[t['subj']['v']]}
            if t.get('sjoins'):
                subj['condition'] = cond(t['sjoins'][0])
        else:
            subj = {'value': _y_text(t['subj'])}
            if t['subj'].get('tt'):
                subj['type'] = _Y_TYPE[t['subj']['tt']]
        mv['s'] = subj
        if t.get('sgraphs'):
            mv['graphs'] = [_y_text(g) for g in t['sgraphs']]
        po = []
        for c in t.get('classes', []):
            po.append({'p': 'a', 'o': {'value': c, 'type': 'iri'}})
        for p in t.get('poms', []):
            objs = []
            for o in p['objs']:
                m = o['m']
                if m['k'] == 'parent':
                    od = {'mapping': keys[m['v']]}
                    if o.get('joins'):
                        od['condition'] = cond(o['joins'][0])
                elif m['k'] == 'quoted':
                    od = {qkey(m['v']): keys[m['v']]}
                    if o.get('joins'):
                        od['condition'] = cond(o['joins'][0])
                else:
                    od = {'value': _y_text(m)}
                    if o.get('lang'):
                        od['language'] = o['lang']['v']
                    elif o.get('dt'):
                        od['datatype'] = o['dt']['v']
                    elif m.get('tt'):
                        od['type'] = _Y_TYPE[m['tt']]
                objs.append(od)
            d = {'p': [_y_text(pm) for pm in p['preds']], 'o': objs}
            if p.get('graphs'):
                d['graphs'] = [_y_text(g) for g in p['graphs']]
            po.append(d)
        if po:
            mv['po'] = po
        mappings[keys[t['id']]] = mv
    buf = io.StringIO()
    y = YAML(typ='safe', pure=True)
    y.default_flow_style = False
    y.dump({'mappings': mappings}, buf)
    return buf.getvalue()
