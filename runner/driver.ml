(* Glue only: tokenizer for the wire format, int <-> N, printer.  All decoding into model types happens in Gallina. *)
type t = At of int list | Li of t list

(* format:  ( ... )  list;  [c c c]  atom of code points (decimal) *)
let parse (s : string) : t =
  let len = String.length s in
  let pos = ref 0 in
  let skip () = while !pos < len && (s.[!pos] = ' ' || s.[!pos] = '\n' || s.[!pos] = '\r') do incr pos done in
  let rec item () : t =
    skip ();
    if !pos >= len then failwith "eof";
    match s.[!pos] with
    | '(' -> incr pos; let acc = ref [] in
             let rec loop () = skip (); if !pos >= len then failwith "eof in list";
               if s.[!pos] = ')' then incr pos else (acc := item () :: !acc; loop ()) in
             loop (); Li (List.rev !acc)
    | '[' -> incr pos; let acc = ref [] in
             let rec loop () = skip (); if !pos >= len then failwith "eof in atom";
               if s.[!pos] = ']' then incr pos
               else begin
                 let st = !pos in
                 while !pos < len && s.[!pos] >= '0' && s.[!pos] <= '9' do incr pos done;
                 if !pos = st then failwith "bad atom";
                 acc := int_of_string (String.sub s st (!pos - st)) :: !acc; loop () end in
             loop (); At (List.rev !acc)
    | _ -> failwith "bad token"
  in item ()

let rec print (b : Buffer.t) (x : t) : unit =
  match x with
  | At cs -> Buffer.add_char b '[';
             List.iteri (fun i c -> if i > 0 then Buffer.add_char b ' '; Buffer.add_string b (string_of_int c)) cs;
             Buffer.add_char b ']'
  | Li l -> Buffer.add_char b '(';
            List.iteri (fun i y -> if i > 0 then Buffer.add_char b ' '; print b y) l;
            Buffer.add_char b ')'

let rec pos_of_int (n : int) : Model.positive =
  if n = 1 then Model.XH else if n land 1 = 1 then Model.XI (pos_of_int (n lsr 1)) else Model.XO (pos_of_int (n lsr 1))
let n_of_int (n : int) : Model.n = if n = 0 then Model.N0 else Model.Npos (pos_of_int n)
let rec int_of_pos = function Model.XH -> 1 | Model.XO p -> 2 * int_of_pos p | Model.XI p -> 2 * int_of_pos p + 1
let int_of_n = function Model.N0 -> 0 | Model.Npos p -> int_of_pos p
let rec to_model (x : t) : Model.sexp =
  match x with At cs -> Model.A (List.map n_of_int cs) | Li l -> Model.L (List.map to_model l)
let rec of_model (x : Model.sexp) : t =
  match x with Model.A cs -> At (List.map int_of_n cs) | Model.L l -> Li (List.map of_model l)

let () =
  try
    while true do
      let line = input_line stdin in
      let out = Buffer.create 256 in
      (try print out (of_model (Model.run_case (to_model (parse line))))
       with Failure m -> Buffer.clear out; Buffer.add_string out ("!driver-error " ^ m)
          | Stack_overflow -> Buffer.clear out; Buffer.add_string out "!driver-error stack-overflow");
      print_string (Buffer.contents out); print_newline ()
    done
  with End_of_file -> ()
