From Coq Require Extraction.
From Coq Require Import ExtrOcamlBasic.
From Morph Require Import Base.Sexp Model.Run.
Extraction Language OCaml.
Extraction "model.ml" run_case.
