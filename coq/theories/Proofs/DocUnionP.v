(* C12 at document level: the generation rules read on a document of plain triples maps give, for the concatenation of two
   documents, the union of what they give for each; with the end-to-end theorem of C01 the engine does too. *)
From Coq Require Import String Lia.
From Morph Require Import Base.UStr Gen.Tables Model.Terms Model.Data Model.Engine Model.Mapping Model.Spec Model.Fragment
     Model.Partition Model.Grouping Proofs.DataP Proofs.GroupingP Proofs.TermP Proofs.RowSpecP Proofs.DocSpecP Proofs.DocEngineP Proofs.DocQuotedP.
Local Open Scope N_scope.

Lemma flat_map_ext_in {A B} (f g : A -> list B) l : (forall x, In x l -> f x = g x) -> flat_map f l = flat_map g l.
Proof. induction l as [|a l IH]; intro H; simpl; auto. rewrite H by now left. rewrite IH; auto. intros x Hx. apply H. now right. Qed.

Section Union.
  Variables (scfg : scfg) (fe : fenv) (tables : ustr -> stable).

  (* the statements of a plain triples map do not depend on the document around it *)
  Lemma plain_tm_lines_doc_indep doc doc' t sr : plain_tm t = true ->
    tm_row_lines scfg fe doc tables t sr = tm_row_lines scfg fe doc' tables t sr.
  Proof.
    intro Hpl. pose proof Hpl as Hpl0. unfold plain_tm in Hpl. rewrite !andb_true_iff in Hpl. destruct Hpl as [[[Hsub Hsg] Hpoms] _].
    assert (Hobj : forall pm o, In pm (t_poms t ++ map class_pom (t_classes t)) -> In o (p_objs pm) -> plain_objmap o = true).
    { intros pm o Hpm Ho. apply in_app_iff in Hpm as [H|H].
      - rewrite forallb_forall in Hpoms. specialize (Hpoms pm H). unfold plain_pom in Hpoms. rewrite !andb_true_iff in Hpoms. destruct Hpoms as [[_ P] _]. rewrite forallb_forall in P. auto.
      - apply in_map_iff in H as (c & <- & _). pose proof (class_pom_plain c) as P. unfold plain_pom in P. rewrite !andb_true_iff in P. destruct P as [[_ P] _]. rewrite forallb_forall in P. auto. }
    destruct (spec_fuel_S doc) as (f & Ef). destruct (spec_fuel_S doc') as (f' & Ef').
    unfold tm_row_lines. rewrite Ef, Ef'.
    assert (Es : subj_terms scfg fe doc tables (S f) t sr = subj_terms scfg fe doc' tables (S f') t sr).
    { unfold plain_map in Hsub. apply andb_true_iff in Hsub as [Hk _]. cbn [subj_terms]. destruct (m_kind (t_subj t)); try discriminate; reflexivity. }
    rewrite Es. apply flat_map_ext. intro s. apply flat_map_ext_in. intros pm Hpm. apply flat_map_ext. intro p. apply flat_map_ext. intro pt.
    apply flat_map_ext_in. intros o Ho.
    assert (Eo : obj_terms scfg fe doc tables (S f) t o sr = obj_terms scfg fe doc' tables (S f') t o sr).
    { pose proof (Hobj pm o Hpm Ho) as P. unfold plain_objmap, plain_map in P. rewrite !andb_true_iff in P. destruct P as [[Hk _] _].
      cbn [obj_terms]. destruct (m_kind (o_tm o)); try discriminate; reflexivity. }
    now rewrite Eo.
  Qed.

  Theorem plain_document_is_union_of_parts d1 d2 : forallb plain_tm d1 = true -> forallb plain_tm d2 = true ->
    forall x, In x (spec_lines scfg fe (d1 ++ d2) tables) <-> In x (spec_lines scfg fe d1 tables) \/ In x (spec_lines scfg fe d2 tables).
  Proof.
    intros H1 H2 x. unfold spec_lines. rewrite !mem_dedup, flat_map_app, in_app_iff.
    rewrite (flat_map_ext_in (fun t => if asserted t then flat_map (tm_row_lines scfg fe (d1 ++ d2) tables t) (tables (t_src t)) else [])
                             (fun t => if asserted t then flat_map (tm_row_lines scfg fe d1 tables t) (tables (t_src t)) else []) d1).
    2:{ intros t Ht. destruct (asserted t); auto. apply flat_map_ext. intro sr. apply plain_tm_lines_doc_indep. rewrite forallb_forall in H1. auto. }
    rewrite (flat_map_ext_in (fun t => if asserted t then flat_map (tm_row_lines scfg fe (d1 ++ d2) tables t) (tables (t_src t)) else [])
                             (fun t => if asserted t then flat_map (tm_row_lines scfg fe d2 tables t) (tables (t_src t)) else []) d2).
    2:{ intros t Ht. destruct (asserted t); auto. apply flat_map_ext. intro sr. apply plain_tm_lines_doc_indep. rewrite forallb_forall in H2. auto. }
    reflexivity.
  Qed.
End Union.

(* ... and so does the engine: what it materialises for the concatenation of two plain documents is the union of what it
   materialises for each (each over its own normalised rule table, the same delivered rows) *)
Theorem engine_plain_document_is_union_of_parts cfg fe scfg raw d1 d2 r1 r2 r12 l1 l2 l12 :
  cfg_agree cfg scfg -> c_nquads cfg = s_nquads scfg -> s_na scfg = c_na cfg ->
  forallb plain_tm d1 = true -> forallb plain_tm d2 = true ->
  normalise d1 = Ok r1 -> normalise d2 = Ok r2 -> normalise (d1 ++ d2) = Ok r12 ->
  (forall rl, In rl r1 -> simple_rule rl) -> (forall rl, In rl r2 -> simple_rule rl) -> (forall rl, In rl r12 -> simple_rule rl) ->
  (forall rules rl rw n, In rules [r1; r2; r12] -> In rl rules -> In rw (raw (r_src rl)) -> In n (rule_names rl) -> assoc n rw <> None) ->
  materialize_rules cfg fe r1 (delivered cfg raw) = Ok l1 -> materialize_rules cfg fe r2 (delivered cfg raw) = Ok l2 ->
  materialize_rules cfg fe r12 (delivered cfg raw) = Ok l12 ->
  forall x, In x l12 <-> In x l1 \/ In x l2.
Proof.
  intros Hcfg Hnq Hna P1 P2 N1 N2 N12 S1 S2 S12 Hcols M1 M2 M12 x.
  assert (P12 : forallb plain_tm (d1 ++ d2) = true) by (rewrite forallb_app, P1, P2; reflexivity).
  rewrite (engine_document_is_spec_document cfg fe scfg raw Hcfg Hnq Hna (d1 ++ d2) r12 l12 P12 N12 S12 (fun rl rw n => Hcols r12 rl rw n (or_intror (or_intror (or_introl eq_refl)))) M12 x).
  rewrite (engine_document_is_spec_document cfg fe scfg raw Hcfg Hnq Hna d1 r1 l1 P1 N1 S1 (fun rl rw n => Hcols r1 rl rw n (or_introl eq_refl)) M1 x).
  rewrite (engine_document_is_spec_document cfg fe scfg raw Hcfg Hnq Hna d2 r2 l2 P2 N2 S2 (fun rl rw n => Hcols r2 rl rw n (or_intror (or_introl eq_refl))) M2 x).
  apply plain_document_is_union_of_parts; assumption.
Qed.

(* C02 at document level: any grouping of the rules gives the document of the generation rules *)
Theorem grouped_document_is_spec_document cfg fe scfg raw (lab : rule -> label) d0 rules l :
  cfg_agree cfg scfg -> c_nquads cfg = s_nquads scfg -> s_na scfg = c_na cfg ->
  forallb plain_tm d0 = true -> normalise d0 = Ok rules -> (forall rl, In rl rules -> simple_rule rl) ->
  (forall rl rw n, In rl rules -> In rw (raw (r_src rl)) -> In n (rule_names rl) -> assoc n rw <> None) ->
  materialize_grouped cfg fe rules (delivered cfg raw) lab = Ok l ->
  forall x, In x l <-> In x (spec_lines scfg fe d0 (spec_tables raw)).
Proof.
  intros Hcfg Hnq Hna Hpl Hn Hs Hcols Hg x.
  destruct (materialize_rules cfg fe rules (delivered cfg raw)) as [l2|e] eqn:E.
  - rewrite (grouped_same_statements cfg fe rules (delivered cfg raw) lab l l2 Hg E x).
    exact (engine_document_is_spec_document cfg fe scfg raw Hcfg Hnq Hna d0 rules l2 Hpl Hn Hs Hcols E x).
  - exfalso. assert (H : exists e', materialize_grouped cfg fe rules (delivered cfg raw) lab = Err e') by (apply grouped_err_iff; eauto).
    destruct H as (e' & H). congruence.
Qed.
