(* C15: the canonicalisations of materializer.py L117-125. *)
From Coq Require Import String Lia ZifyBool ZifyN.
From Morph Require Import Base.UStr Gen.Tables Model.Terms.
Local Open Scope N_scope.

Lemma ueqb_refl' a : ueqb a a = true.
Proof. induction a; simpl; auto. now rewrite N.eqb_refl. Qed.

(* every datatype other than the three named ones leaves the lexical form alone *)
Lemma canon_other dt s :
  ueqb dt Tables.c_xsd_boolean = false -> ueqb dt Tables.c_xsd_datetime = false -> ueqb dt Tables.c_xsd_integer = false ->
  canon dt s = COk s.
Proof. intros H1 H2 H3. unfold canon. now rewrite H1, H2, H3. Qed.

(* xsd:boolean: ASCII lower-casing is idempotent and does not touch the canonical forms *)
Lemma low1_idem c : low1 (low1 c) = low1 c.
Proof. unfold low1. destruct ((65 <=? c) && (c <=? 90)) eqn:E; [|now rewrite E].
  apply andb_true_iff in E as [E1 E2]. assert (((65 <=? c + 32) && (c + 32 <=? 90)) = false) as -> by lia. reflexivity. Qed.
Lemma lower_idem s : lower (lower s) = lower s.
Proof. unfold lower. rewrite map_map. apply map_ext. apply low1_idem. Qed.
Definition bool_value (s : ustr) : option bool :=
  let l := lower s in
  if ueqb l (u "true") || ueqb l (u "1") then Some true
  else if ueqb l (u "false") || ueqb l (u "0") then Some false else None.
Lemma canon_boolean_value s r : canon Tables.c_xsd_boolean s = COk r -> bool_value r = bool_value s.
Proof.
  unfold canon. rewrite ueqb_refl'. destruct (forallb (fun c => c <? 128) s); [|discriminate].
  intro H. injection H as <-. unfold bool_value. now rewrite lower_idem.
Qed.

(* xsd:dateTime: every blank becomes 'T'; nothing else changes, and a form without blanks is untouched *)
Lemma replace1_absent c r s : memN c s = false -> replace1 c r s = s.
Proof.
  induction s as [|x s IH]; simpl; auto. unfold memN in *. simpl. intro H. apply orb_false_iff in H as [H1 H2].
  rewrite N.eqb_sym in H1. rewrite H1. simpl. f_equal. now apply IH.
Qed.
Lemma canon_datetime s : canon Tables.c_xsd_datetime s = COk (map (fun c => if c =? 32 then 84 else c) s).
Proof.
  unfold canon. assert (ueqb Tables.c_xsd_datetime Tables.c_xsd_boolean = false) as -> by reflexivity.
  rewrite ueqb_refl'. f_equal. unfold replace1. induction s as [|x s IH]; simpl; auto. rewrite IH. destruct (x =? 32); reflexivity.
Qed.
Lemma canon_datetime_length s r : canon Tables.c_xsd_datetime s = COk r -> length r = length s.
Proof. rewrite canon_datetime. intro H. injection H as <-. apply map_length. Qed.

(* xsd:integer: the float round trip is exact below 2^53 *)
Lemma rne_div_one x : rne_div x 1 = x.
Proof. unfold rne_div. rewrite N.div_1_r, N.mod_1_r. reflexivity. Qed.
Lemma trunc_round64_exact a : 0 < a -> a < 2 ^ 53 -> trunc_round64 a 1 = a.
Proof.
  intros Hp H. unfold trunc_round64. rewrite N.div_1_r.
  assert (a =? 0 = false) as -> by (apply N.eqb_neq; lia).
  assert (L : N.log2 a < 53) by (apply N.log2_lt_pow2; auto).
  assert (52 <? N.log2 a = false) as -> by (apply N.ltb_ge; lia).
  rewrite rne_div_one. apply N.div_mul. apply N.pow_nonzero. discriminate.
Qed.
