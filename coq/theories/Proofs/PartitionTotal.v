(* When do the partitioners produce a labelling at all?  (they raise on a template without an unescaped '{') *)
From Coq Require Import String Lia.
From Morph Require Import Base.UStr Gen.Tables Model.Terms Model.Data Model.Engine Model.Partition.
Local Open Scope N_scope.

Lemma all_some_none {A} (l : list (option A)) : all_some l = None <-> In None l.
Proof.
  induction l as [|[x|] l IH]; simpl.
  - split; [discriminate|tauto].
  - destruct (all_some l) eqn:E.
    + split; [discriminate|]. intros [H|H]; [discriminate|]. apply IH in H. discriminate.
    + split; auto. intros _. right. now apply IH.
  - split; auto.
Qed.
Lemma pa_labels_none rules : pa_labels rules = None <-> exists r, In r rules /\ keys_of rules r = None.
Proof.
  unfold pa_labels. destruct (all_some (map (keys_of rules) rules)) eqn:E.
  - split; [discriminate|]. intros (r & Hr & Hk). assert (In None (map (keys_of rules) rules)) by (rewrite <- Hk; now apply in_map).
    apply all_some_none in H. congruence.
  - split; auto. intros _. apply all_some_none in E. apply in_map_iff in E as (r & Hk & Hr). eauto.
Qed.
Lemma max_labels_for_none rules ord : max_labels_for rules ord = None <-> exists r, In r rules /\ keys_of rules r = None.
Proof.
  unfold max_labels_for. destruct (all_some (map (keys_of rules) rules)) eqn:E.
  - split; [discriminate|]. intros (r & Hr & Hk). assert (In None (map (keys_of rules) rules)) by (rewrite <- Hk; now apply in_map).
    apply all_some_none in H. congruence.
  - split; auto. intros _. apply all_some_none in E. apply in_map_iff in E as (r & Hk & Hr). eauto.
Qed.

(* a sufficient, checkable condition: every template-valued map has an unescaped '{' and every parent reference resolves *)
Definition template_ok (k : mkind) (v : ustr) : bool :=
  match k with KTempl => memN 123 (replace_all esc_open aux v) | _ => true end.
Definition rule_ok (rules : list rule) (r : rule) : bool :=
  template_ok (r_sk r) (r_sv r) && template_ok (r_pk r) (r_pv r) && template_ok (r_gk r) (r_gv r) &&
  match r_ok r with
  | KParent => match find_rule rules (r_ov r) with Some p => template_ok (r_sk p) (r_sv p) | None => false end
  | k => template_ok k (r_ov r)
  end.
Lemma invariant_of_some k v : template_ok k v = true -> exists s, invariant_of k v = Some s.
Proof.
  unfold template_ok, invariant_of, invariant_of_template. destruct k; eauto. intros ->. eauto.
Qed.
Lemma keys_of_some rules r : rule_ok rules r = true -> keys_of rules r <> None.
Proof.
  unfold rule_ok, keys_of. intro H. apply andb_true_iff in H as [H Ho]. apply andb_true_iff in H as [H Hg]. apply andb_true_iff in H as [Hs Hp].
  destruct (invariant_of_some _ _ Hs) as (s & ->). destruct (invariant_of_some _ _ Hp) as (p & ->). destruct (invariant_of_some _ _ Hg) as (g & ->).
  destruct (r_ok r) eqn:Ek; try (destruct (invariant_of_some _ _ Ho) as (o & ->); discriminate).
  destruct (find_rule rules (r_ov r)) as [pr|]; [|discriminate].
  destruct (r_sk pr) eqn:Epk; try discriminate; destruct (invariant_of_some _ _ Ho) as (o & Eo); rewrite Eo; discriminate.
Qed.
Lemma partition_total rules : forallb (rule_ok rules) rules = true -> pa_labels rules <> None /\ forall ord, max_labels_for rules ord <> None.
Proof.
  intro H. rewrite forallb_forall in H. split; [|intro ord]; intro E.
  - apply pa_labels_none in E as (r & Hr & Hk). now apply (keys_of_some rules r (H r Hr)).
  - apply max_labels_for_none in E as (r & Hr & Hk). now apply (keys_of_some rules r (H r Hr)).
Qed.
