(* C10 / C11 for EVERY document (referencing object maps with and without join conditions, quoted triples maps of any depth, function
   executions): the generation rules read each table as a SET of rows -- the order of the rows and repeated rows change nothing. *)
From Coq Require Import String Lia.
From Morph Require Import Base.UStr Gen.Tables Model.Terms Model.Data Model.Engine Model.Mapping Model.Spec Proofs.DataP Proofs.GroupingP.
Local Open Scope N_scope.

Lemma fm_equiv {A B} (f g : A -> list B) l1 l2 :
  (forall a, In a l1 <-> In a l2) -> (forall a, In a l1 -> forall x, In x (f a) <-> In x (g a)) ->
  forall x, In x (flat_map f l1) <-> In x (flat_map g l2).
Proof.
  intros Hl Hf x. rewrite !in_flat_map. split; intros (a & Ha & Hx).
  - exists a. split; [now apply Hl|]. now apply (Hf a Ha).
  - exists a. assert (Ha' : In a l1) by now apply Hl. split; auto. now apply (Hf a Ha').
Qed.
Lemma map_equiv {A B} (f : A -> B) l1 l2 : (forall a, In a l1 <-> In a l2) -> forall x, In x (map f l1) <-> In x (map f l2).
Proof. intros Hl x. rewrite !in_map_iff. split; intros (a & E & Ha); exists a; split; auto; now apply Hl. Qed.

Section RowSets.
  Variables (cfg : scfg) (fe : fenv) (doc : document) (t1 t2 : ustr -> stable).
  Hypothesis Hset : forall src sr, In sr (t1 src) <-> In sr (t2 src).

  Lemma joined_rows_equiv child src conds : forall p, In p (joined_rows cfg t1 child src conds) <-> In p (joined_rows cfg t2 child src conds).
  Proof.
    intro p. unfold joined_rows. destruct conds as [|c cs]; [tauto|]. rewrite !filter_In. split; intros [H1 H2]; split; auto; now apply Hset.
  Qed.

  Lemma subj_S tables f t r : subj_terms cfg fe doc tables (S f) t r =
    match m_kind (t_subj t) with
    | KQuoted => match find_tm doc (m_value (t_subj t)) with
                 | Some q => flat_map (fun r' => map quote_triple (tm_triples cfg fe doc tables f q r')) (joined_rows cfg tables r (t_src q) (t_sjoins t))
                 | None => [] end
    | k => spec_terms cfg fe k (m_value (t_subj t)) (spec_tt_subject (t_subj t)) [] r
    end.
  Proof. reflexivity. Qed.
  Lemma triples_S tables f t r : tm_triples cfg fe doc tables (S f) t r =
    flat_map (fun s => flat_map (fun pm =>
      match graph_terms cfg fe t pm r with
      | [] => []
      | _ => flat_map (fun p => flat_map (fun pt => flat_map (fun o => map (fun ot => s ++ [32] ++ pt ++ [32] ++ ot) (obj_terms cfg fe doc tables f t o r)) (p_objs pm))
                                 (spec_terms cfg fe (m_kind p) (m_value p) TIri [] r)) (p_preds pm)
      end) (t_poms t ++ map class_pom (t_classes t))) (subj_terms cfg fe doc tables f t r).
  Proof. reflexivity. Qed.
  Lemma obj_S tables f t o r : obj_terms cfg fe doc tables (S f) t o r =
    match m_kind (o_tm o) with
    | KParent => match find_tm doc (m_value (o_tm o)) with
                 | Some p => flat_map (fun r' => subj_terms cfg fe doc tables f p r') (joined_rows cfg tables r (t_src p) (o_joins o))
                 | None => [] end
    | KQuoted => match find_tm doc (m_value (o_tm o)) with
                 | Some q => flat_map (fun r' => map quote_triple (tm_triples cfg fe doc tables f q r')) (joined_rows cfg tables r (t_src q) (o_joins o))
                 | None => [] end
    | k => match spec_suffix cfg o r with
           | None => []
           | Some (suffix, dt) => map (fun x => x ++ suffix) (spec_terms cfg fe k (m_value (o_tm o)) (spec_tt_object o) dt r)
           end
    end.
  Proof. reflexivity. Qed.

  Lemma terms_equiv : forall f t r,
    (forall x, In x (subj_terms cfg fe doc t1 f t r) <-> In x (subj_terms cfg fe doc t2 f t r)) /\
    (forall x, In x (tm_triples cfg fe doc t1 f t r) <-> In x (tm_triples cfg fe doc t2 f t r)) /\
    (forall o x, In x (obj_terms cfg fe doc t1 f t o r) <-> In x (obj_terms cfg fe doc t2 f t o r)).
  Proof.
    induction f as [|f IH]; intros t r; [cbn; tauto|].
    split; [|split].
    - intro x. rewrite !subj_S. destruct (m_kind (t_subj t)); try tauto.
      destruct (find_tm doc (m_value (t_subj t))) as [q|]; [|tauto].
      apply fm_equiv; [apply joined_rows_equiv|]. intros r' _. apply map_equiv. intro y. apply (proj1 (proj2 (IH q r'))).
    - intro x. rewrite !triples_S. apply fm_equiv; [intro s; apply (proj1 (IH t r))|]. intros s _.
      apply fm_equiv; [tauto|]. intros pm _. destruct (graph_terms cfg fe t pm r); [tauto|].
      apply fm_equiv; [tauto|]. intros p _. apply fm_equiv; [tauto|]. intros pt _. apply fm_equiv; [tauto|]. intros o _.
      apply map_equiv. intro y. apply (proj2 (proj2 (IH t r)) o).
    - intros o x. rewrite !obj_S. destruct (m_kind (o_tm o)); try tauto.
      + destruct (find_tm doc (m_value (o_tm o))) as [q|]; [|tauto].
        apply fm_equiv; [apply joined_rows_equiv|]. intros r' _. apply map_equiv. intro y. apply (proj1 (proj2 (IH q r'))).
      + destruct (find_tm doc (m_value (o_tm o))) as [p|]; [|tauto].
        apply fm_equiv; [apply joined_rows_equiv|]. intros r' y. apply (proj1 (IH p r')).
  Qed.

  Lemma tm_row_lines_equiv t r : forall x, In x (tm_row_lines cfg fe doc t1 t r) <-> In x (tm_row_lines cfg fe doc t2 t r).
  Proof.
    unfold tm_row_lines. apply fm_equiv; [intro s; apply (proj1 (terms_equiv _ t r))|]. intros s _.
    apply fm_equiv; [tauto|]. intros pm _. apply fm_equiv; [tauto|]. intros p _. apply fm_equiv; [tauto|]. intros pt _.
    apply fm_equiv; [tauto|]. intros o _. apply fm_equiv; [intro ot; apply (proj2 (proj2 (terms_equiv _ t r)) o)|]. intros ot _. tauto.
  Qed.

  Theorem document_depends_on_row_sets : forall x, In x (spec_lines cfg fe doc t1) <-> In x (spec_lines cfg fe doc t2).
  Proof.
    intro x. unfold spec_lines. rewrite !mem_dedup. apply fm_equiv; [tauto|]. intros t _. destruct (asserted t); [|tauto].
    apply fm_equiv; [apply Hset|]. intros r _. apply tm_row_lines_equiv.
  Qed.
End RowSets.

(* the engine, end to end, on the join / quoted fragments: two deliveries that hand over the same rows for every source (any order, with or
   without repeated rows) give the same statements *)
From Morph Require Import Model.Fragment Proofs.TermP Proofs.RowSpecP Proofs.RowwiseP Proofs.JoinRuleP Proofs.DocSpecP Proofs.DocEngineP
     Proofs.DocJoinP Proofs.DocQuotedP Proofs.DocQuotedObjP.

Lemma spec_tables_same raw1 raw2 : (forall src rw, In rw (raw1 src) <-> In rw (raw2 src)) ->
  forall src sr, In sr (spec_tables raw1 src) <-> In sr (spec_tables raw2 src).
Proof. intros H src sr. unfold spec_tables. rewrite !in_map_iff. split; intros (rw & E & Hrw); exists rw; split; auto; now apply H. Qed.

Theorem engine_join_document_depends_on_delivered_row_sets cfg fe scfg raw1 raw2 d0 rules l1 l2 :
  cfg_agree cfg scfg -> c_nquads cfg = s_nquads scfg -> s_na scfg = c_na cfg ->
  forallb jplain_tm d0 = true -> nodupb (map t_id d0) = true -> parents_ok d0 = true -> normalise d0 = Ok rules -> nodupb (map r_id rules) = true ->
  (forall rl, In rl rules -> simple_rule rl \/ join_rule_ok rules rl) ->
  (forall raw rl rw n, In raw [raw1; raw2] -> In rl rules -> In rw (raw (r_src rl)) -> In n (rule_names rl ++ child_names rl ++ joins_child (r_ojoin rl)) -> assoc n rw <> None) ->
  (forall raw src rw k, In raw [raw1; raw2] -> In rw (raw src) -> assoc (parent_prefix ++ k) rw = None) ->
  (forall src rw, In rw (raw1 src) <-> In rw (raw2 src)) ->
  materialize_rules cfg fe rules (delivered cfg raw1) = Ok l1 -> materialize_rules cfg fe rules (delivered cfg raw2) = Ok l2 ->
  forall x, In x l1 <-> In x l2.
Proof.
  intros Hcfg Hnq Hna H1 H2 H3 H4 H5 H6 Hcols Hpar Hsame M1 M2 x.
  rewrite (engine_document_is_spec_document_joins cfg fe scfg raw1 Hcfg Hnq Hna d0 rules l1 H1 H2 H3 H4 H5 H6
             (fun rl rw n => Hcols raw1 rl rw n (or_introl eq_refl)) (fun src rw k => Hpar raw1 src rw k (or_introl eq_refl)) M1 x).
  rewrite (engine_document_is_spec_document_joins cfg fe scfg raw2 Hcfg Hnq Hna d0 rules l2 H1 H2 H3 H4 H5 H6
             (fun rl rw n => Hcols raw2 rl rw n (or_intror (or_introl eq_refl))) (fun src rw k => Hpar raw2 src rw k (or_intror (or_introl eq_refl))) M2 x).
  apply document_depends_on_row_sets. now apply spec_tables_same.
Qed.
Theorem engine_quoted_document_depends_on_delivered_row_sets cfg fe scfg raw1 raw2 d0 rules l1 l2 :
  cfg_agree cfg scfg -> c_nquads cfg = s_nquads scfg -> s_na scfg = c_na cfg ->
  quoted_doc d0 = true -> normalise d0 = Ok rules -> nodupb (map r_id rules) = true ->
  (forall rl, In rl rules -> simple_rule rl \/ quoting_rule_ok rules rl) ->
  (forall raw rl rw n, In raw [raw1; raw2] -> In rl rules -> In rw (raw (r_src rl)) -> In n (rule_ref_set fe rules rl) -> assoc n rw <> None) ->
  (forall src rw, In rw (raw1 src) <-> In rw (raw2 src)) ->
  materialize_rules cfg fe rules (delivered cfg raw1) = Ok l1 -> materialize_rules cfg fe rules (delivered cfg raw2) = Ok l2 ->
  forall x, In x l1 <-> In x l2.
Proof.
  intros Hcfg Hnq Hna H1 H2 H3 H4 Hcols Hsame M1 M2 x.
  rewrite (engine_document_is_spec_document_quoted cfg fe scfg raw1 Hcfg Hnq Hna d0 rules l1 H1 H2 H3 H4 (fun rl rw n => Hcols raw1 rl rw n (or_introl eq_refl)) M1 x).
  rewrite (engine_document_is_spec_document_quoted cfg fe scfg raw2 Hcfg Hnq Hna d0 rules l2 H1 H2 H3 H4 (fun rl rw n => Hcols raw2 rl rw n (or_intror (or_introl eq_refl))) M2 x).
  apply document_depends_on_row_sets. now apply spec_tables_same.
Qed.
Theorem engine_qobj_document_depends_on_delivered_row_sets cfg fe scfg raw1 raw2 d0 rules l1 l2 :
  cfg_agree cfg scfg -> c_nquads cfg = s_nquads scfg -> s_na scfg = c_na cfg ->
  qobj_doc d0 = true -> normalise d0 = Ok rules -> nodupb (map r_id rules) = true ->
  (forall rl, In rl rules -> simple_rule rl \/ qobj_rule_ok rules rl) ->
  (forall raw rl rw n, In raw [raw1; raw2] -> In rl rules -> In rw (raw (r_src rl)) -> In n (rule_ref_set fe rules rl) -> assoc n rw <> None) ->
  (forall src rw, In rw (raw1 src) <-> In rw (raw2 src)) ->
  materialize_rules cfg fe rules (delivered cfg raw1) = Ok l1 -> materialize_rules cfg fe rules (delivered cfg raw2) = Ok l2 ->
  forall x, In x l1 <-> In x l2.
Proof.
  intros Hcfg Hnq Hna H1 H2 H3 H4 Hcols Hsame M1 M2 x.
  rewrite (engine_document_is_spec_document_qobj cfg fe scfg raw1 Hcfg Hnq Hna d0 rules l1 H1 H2 H3 H4 (fun rl rw n => Hcols raw1 rl rw n (or_introl eq_refl)) M1 x).
  rewrite (engine_document_is_spec_document_qobj cfg fe scfg raw2 Hcfg Hnq Hna d0 rules l2 H1 H2 H3 H4 (fun rl rw n => Hcols raw2 rl rw n (or_intror (or_introl eq_refl))) M2 x).
  apply document_depends_on_row_sets. now apply spec_tables_same.
Qed.
