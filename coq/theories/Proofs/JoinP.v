(* C07: the engine's merge is the inner equi-join relation. *)
From Coq Require Import String Lia.
From Morph Require Import Base.UStr Model.Terms Model.Data Model.Engine Model.Mapping Model.Spec Proofs.DataP.
Local Open Scope N_scope.

Definition joins (c p : row) (conds : list (ustr * ustr)) : Prop :=
  forall cd, In cd conds -> exists a, rget (fst cd) c = Some a /\ rget (snd cd) p = Some a.
Lemma cond_holds_iff c p cd : cond_holds c p cd = true <-> exists a, rget (fst cd) c = Some a /\ rget (snd cd) p = Some a.
Proof.
  unfold cond_holds. destruct (rget (fst cd) c) as [a|]; destruct (rget (snd cd) p) as [b|]; split; try discriminate.
  - intro H. apply ueqb_eq in H; subst. eauto.
  - intros (x & H1 & H2). injection H1 as <-. injection H2 as <-. apply ueqb_refl.
  - intros (x & H1 & H2); discriminate.
  - intros (x & H1 & H2); discriminate.
  - intros (x & H1 & H2); discriminate.
Qed.
(* every matching pair of rows, and nothing else: one joined row per pair (many-to-many included), for one or several
   conditions alike *)
Theorem merge_is_equijoin child parent conds m : merge_data child parent conds = Ok m ->
  forall x, In x m <-> exists c p, In c child /\ In p parent /\ joins c p conds /\ x = c ++ add_prefix parent_prefix p.
Proof.
  unfold merge_data. destruct conds as [|cd conds]; [discriminate|].
  destruct (negb (join_cols_ok child parent (cd :: conds))); [discriminate|].
  destruct (existsb _ child); [discriminate|]. intro H. injection H as <-. intro x.
  rewrite in_flat_map. split.
  - intros (c & Hc & Hx). apply in_flat_map in Hx as (p & Hp & Hx).
    match type of Hx with context [if ?b then _ else _] => destruct b eqn:E end; [|contradiction]. destruct Hx as [Hx|Hx]; [subst x|contradiction].
    exists c, p. repeat split; auto. intros cd' Hin. change (forallb (cond_holds c p) (cd :: conds) = true) in E. rewrite forallb_forall in E. apply cond_holds_iff. now apply E.
  - intros (c & p & Hc & Hp & Hj & ->). exists c. split; auto. apply in_flat_map. exists p. split; auto.
    assert (E : forallb (cond_holds c p) (cd :: conds) = true). { apply forallb_forall. intros cd' Hin. apply cond_holds_iff. now apply Hj. }
    match goal with |- context [if ?b then _ else _] => replace b with true by (symmetry; exact E) end. now left.
Qed.
(* the specification side: the rows a child row is joined with *)
Lemma joined_rows_spec cfg tables child src conds p : conds <> [] ->
  (In p (joined_rows cfg tables child src conds) <-> In p (tables src) /\ conds_hold cfg child p conds = true).
Proof. intro H. unfold joined_rows. destruct conds; [congruence|]. apply filter_In. Qed.
