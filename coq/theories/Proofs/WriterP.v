(* C17: targeted files hold exactly the current run's statements.  C04: every write(2) payload is made of whole lines,
   and any interleaving of whole-line appends keeps exactly the lines. *)
From Coq Require Import String Lia Permutation.
From Morph Require Import Base.UStr Model.Writer Proofs.DataP.
Local Open Scope N_scope.

(* ---------------------------------------------------------------- file system *)
Lemma fs_get_remove_same p f : fs_get (fs_remove p f) p = None.
Proof. unfold fs_get. induction f as [|[q c] r IH]; simpl; auto. destruct (ueqb p q) eqn:E; auto. simpl. now rewrite E. Qed.
Lemma fs_get_remove_other p q f : ueqb q p = false -> fs_get (fs_remove p f) q = fs_get f q.
Proof.
  intro H. unfold fs_get. induction f as [|[k c] r IH]; simpl; auto. destruct (ueqb p k) eqn:E.
  - apply ueqb_eq in E; subst. now rewrite H.
  - simpl. destruct (ueqb q k); auto.
Qed.
Lemma fs_get_append_same p ls f : fs_get (fs_append p ls f) p = Some (match fs_get f p with Some c => c ++ ls | None => ls end).
Proof.
  unfold fs_get. induction f as [|[q c] r IH]; simpl; [now rewrite ueqb_refl|].
  destruct (ueqb p q) eqn:E; simpl; rewrite E; auto.
Qed.
Lemma fs_get_append_other p q ls f : ueqb q p = false -> fs_get (fs_append p ls f) q = fs_get f q.
Proof.
  intro H. unfold fs_get. induction f as [|[k c] r IH]; simpl; [now rewrite H|].
  destruct (ueqb p k) eqn:E; simpl.
  - apply ueqb_eq in E; subst. now rewrite H.
  - destruct (ueqb q k); auto.
Qed.
Lemma clears_get ps : forall f p, fs_get (fold_left (fun acc q => fs_remove q acc) ps f) p = if mem p ps then None else fs_get f p.
Proof.
  induction ps as [|q ps IH]; intros f p; simpl; auto. rewrite IH. destruct (ueqb p q) eqn:E; simpl.
  - apply ueqb_eq in E; subst. rewrite fs_get_remove_same. now destruct (mem q ps).
  - rewrite fs_get_remove_other by auto. reflexivity.
Qed.
Lemma written_to_nil p ws : existsb (fun w => ueqb p (fst w)) ws = false -> written_to p ws = [].
Proof. induction ws as [|[q ls] ws IH]; simpl; auto. intro H. apply orb_false_iff in H as [H1 H2]. rewrite H1. auto. Qed.
Lemma writes_get ws : forall f p,
  fs_get (fold_left (fun acc w => fs_append (fst w) (snd w) acc) ws f) p =
  match written_to p ws, existsb (fun w => ueqb p (fst w)) ws with
  | _, false => fs_get f p
  | ls, true => Some (match fs_get f p with Some c => c ++ ls | None => ls end)
  end.
Proof.
  induction ws as [|[q ls] ws IH]; intros f p; simpl; auto.
  rewrite IH. destruct (ueqb p q) eqn:E; simpl.
  - apply ueqb_eq in E; subst. rewrite fs_get_append_same.
    destruct (existsb (fun w => ueqb q (fst w)) ws) eqn:Ex.
    + destruct (fs_get f q); simpl; rewrite ?app_assoc; reflexivity.
    + rewrite (written_to_nil q ws Ex), app_nil_r. now destruct (written_to q ws).
  - rewrite fs_get_append_other by auto. reflexivity.
Qed.

(* after a run, every file the run writes to (and clears first) holds exactly the lines of this run, whatever was on disk *)
Theorem run_target_exact f r p :
  mem p (clears r) = true -> existsb (fun w => ueqb p (fst w)) (writes r) = true ->
  fs_get (cli_run f r) p = Some (written_to p (writes r)).
Proof. intros Hc Hw. unfold cli_run. rewrite writes_get, Hw, clears_get, Hc. reflexivity. Qed.
(* a cleared file that no asserted group writes to does not exist afterwards *)
Theorem run_cleared_unwritten f r p :
  mem p (clears r) = true -> existsb (fun w => ueqb p (fst w)) (writes r) = false -> fs_get (cli_run f r) p = None.
Proof. intros Hc Hw. unfold cli_run. rewrite writes_get, Hw, clears_get, Hc. now destruct (written_to p (writes r)). Qed.
(* and a file the run does not name is left as it was *)
Theorem run_other_untouched f r p :
  mem p (clears r) = false -> existsb (fun w => ueqb p (fst w)) (writes r) = false -> fs_get (cli_run f r) p = fs_get f p.
Proof. intros Hc Hw. unfold cli_run. rewrite writes_get, Hw, clears_get, Hc. now destruct (written_to p (writes r)). Qed.
(* hence, for every history of runs, the targets of the last run hold exactly its statements *)
Corollary history_last_exact f hist r p :
  mem p (clears r) = true -> existsb (fun w => ueqb p (fst w)) (writes r) = true ->
  fs_get (fold_left cli_run (hist ++ [r]) f) p = Some (written_to p (writes r)).
Proof. intros Hc Hw. rewrite fold_left_app. simpl. now apply run_target_exact. Qed.

(* ---------------------------------------------------------------- write policy *)
(* a byte string made of whole lines of the given list (in any selection and order) *)
Definition Whole (lines : list (list N)) (bs : list N) : Prop := exists ls, incl ls lines /\ bs = concat ls.
Lemma whole_nil lines : Whole lines []. Proof. exists []. split; [intros x []|reflexivity]. Qed.
Lemma whole_app lines a b : Whole lines a -> Whole lines b -> Whole lines (a ++ b).
Proof. intros (la & Ia & ->) (lb & Ib & ->). exists (la ++ lb). split; [now apply incl_app|now rewrite concat_app]. Qed.
Lemma whole_line lines l : In l lines -> Whole lines l.
Proof. intro H. exists [l]. split; [intros x [<-|[]]; auto|simpl; now rewrite app_nil_r]. Qed.
Definition Inv (lines : list (list N)) (s : wstate) : Prop :=
  Whole lines (pending s) /\ Whole lines (buf s) /\ Forall (Whole lines) (out s).
Lemma inv_buffered lines b s : Whole lines b -> Inv lines s -> Inv lines (buffered_write b s).
Proof.
  intros Hb (Hp & Hbuf & Ho). unfold buffered_write.
  destruct (Nat.leb (length (buf s) + length b) chunk); [repeat split; auto; now apply whole_app|].
  assert (Ho1 : Forall (Whole lines) (match buf s with [] => out s | bs => bs :: out s end)) by (destruct (buf s); auto).
  destruct (Nat.ltb chunk (length b)); repeat split; simpl; auto using whole_nil.
Qed.
Lemma inv_text_flush lines s : Inv lines s -> Inv lines (text_flush s).
Proof.
  intros (Hp & Hbuf & Ho). unfold text_flush. destruct (pending s) eqn:E; [repeat split; auto; now rewrite E|].
  apply inv_buffered; auto. repeat split; simpl; auto using whole_nil.
Qed.
Lemma inv_text_write lines l s : In l lines -> Inv lines s -> Inv lines (text_write l s).
Proof.
  intros Hl Hs. unfold text_write.
  set (s1 := if Nat.ltb chunk (length (pending s) + length l) then text_flush s else s).
  assert (H1 : Inv lines s1) by (unfold s1; destruct (Nat.ltb chunk _); auto using inv_text_flush).
  destruct H1 as (Hp & Hb & Ho).
  assert (H2 : Inv lines {| pending := pending s1 ++ l; buf := buf s1; out := out s1 |}) by (repeat split; simpl; auto using whole_app, whole_line).
  destruct (Nat.leb chunk _); auto using inv_text_flush.
Qed.
Lemma inv_fold lines : forall ls s, incl ls lines -> Inv lines s -> Inv lines (fold_left (fun s l => text_write l s) ls s).
Proof.
  induction ls as [|l ls IH]; intros s Hi Hs; simpl; auto. apply IH; [intros x Hx; apply Hi; now right|].
  apply inv_text_write; auto. apply Hi. now left.
Qed.
(* every raw write(2) payload consists of whole lines -- for every sequence of lines of any lengths *)
Theorem payloads_whole_lines_proof lines : Forall (Whole lines) (raw_payloads lines).
Proof.
  unfold raw_payloads. apply Forall_rev.
  assert (H : Inv lines (fold_left (fun s l => text_write l s) lines init_w)).
  { apply inv_fold; [apply incl_refl|]. repeat split; simpl; auto using whole_nil. }
  apply inv_text_flush in H. destruct H as (Hp & Hb & Ho). unfold final_flush.
  destruct (buf (text_flush _)) eqn:E; auto. simpl. constructor; auto.
Qed.

(* interleaving: a shared file is some merge of the writers' payload sequences (each append is atomic) *)
Inductive Merge {A} : list (list A) -> list A -> Prop :=
| merge_done : forall ws, Forall (fun w => w = []) ws -> Merge ws []
| merge_step : forall pre x w post rest, Merge (pre ++ w :: post) rest -> Merge (pre ++ (x :: w) :: post) (x :: rest).
Lemma all_nil_concat {A} (ws : list (list A)) : Forall (fun w => w = []) ws -> concat ws = [].
Proof. induction 1 as [|w ws Hw _ IH]; simpl; auto. now rewrite Hw, IH. Qed.
(* any interleaving holds exactly the payloads of all writers, each once *)
Theorem merge_permutation {A} (ws : list (list A)) file : Merge ws file -> Permutation file (concat ws).
Proof.
  induction 1 as [ws H|pre x w post rest _ IH].
  - rewrite all_nil_concat by auto. constructor.
  - rewrite concat_app in *. simpl in *. apply Permutation_cons_app. exact IH.
Qed.

(* ---------------------------------------------------------------- output_dir: one file per mapping group, any completion order *)
Lemma written_to_perm p ws1 ws2 : Permutation ws1 ws2 -> NoDup (map fst ws1) -> written_to p ws1 = written_to p ws2.
Proof.
  induction 1 as [|w l1 l2 HP IH|x y l|l1 l2 l3 H1 IH1 H2 IH2]; intro Hnd; auto.
  - cbn [map] in Hnd. inversion Hnd; subst. unfold written_to. cbn [flat_map]. f_equal. now apply IH.
  - cbn [map] in Hnd. inversion Hnd as [|a b Hnot Hnd']; subst. unfold written_to. cbn [flat_map].
    destruct (ueqb p (fst y)) eqn:Ey, (ueqb p (fst x)) eqn:Ex; auto; try now rewrite ?app_nil_r.
    apply ueqb_eq in Ey, Ex. exfalso. apply Hnot. left. congruence.
  - rewrite IH1 by auto. apply IH2. apply (Permutation_NoDup (Permutation_map fst H1) Hnd).
Qed.
Lemma existsb_perm {A} (g : A -> bool) l1 l2 : Permutation l1 l2 -> existsb g l1 = existsb g l2.
Proof. induction 1; simpl; auto; [now rewrite IHPermutation|destruct (g x), (g y); reflexivity|congruence]. Qed.
Theorem group_files_schedule_invariant f r1 r2 :
  clears r1 = clears r2 -> Permutation (writes r1) (writes r2) -> NoDup (map fst (writes r1)) ->
  forall p, fs_get (cli_run f r1) p = fs_get (cli_run f r2) p.
Proof.
  intros Hc Hp Hnd p. unfold cli_run. rewrite !writes_get, Hc.
  rewrite (written_to_perm p _ _ Hp Hnd), (existsb_perm _ _ _ Hp). reflexivity.
Qed.
