(* The reader of Model/NQuads.v inverts the printer on well-formed statements. *)
From Coq Require Import String Lia.
From Morph Require Import Base.UStr Model.Terms Model.NQuads Proofs.EscP.
Local Open Scope N_scope.

Lemma read_iri_ok b rest : forallb iri_char_ok b = true -> read_iri (b ++ 62 :: rest) = Some (b, rest).
Proof.
  induction b as [|c b IH]; simpl; intro H; [reflexivity|].
  apply andb_true_iff in H as [Hc Hb]. rewrite Hc.
  assert (c =? 62 = false) as ->.
  { unfold iri_char_ok in Hc. destruct (c =? 62) eqn:E; auto. rewrite !andb_true_iff in Hc. simpl in Hc. intuition discriminate. }
  rewrite (IH Hb). reflexivity.
Qed.
Lemma read_word_ok w rest : forallb not_blank w = true -> read_word (w ++ 32 :: rest) = (w, 32 :: rest).
Proof.
  induction w as [|c w IH]; simpl; intro H; [reflexivity|].
  apply andb_true_iff in H as [Hc Hw]. unfold not_blank in Hc. apply negb_true_iff in Hc. rewrite Hc, (IH Hw). reflexivity.
Qed.
Lemma read_word_dot_ok w rest : forallb not_blank w = true -> (match rev w with 46 :: _ => true | _ => false end) = false ->
  read_word_dot (w ++ 32 :: rest) = (w, 32 :: rest).
Proof. intros H1 H2. unfold read_word_dot. rewrite (read_word_ok w rest H1). destruct (rev w) as [|c r]; auto. destruct (N.eqb_spec c 46); [subst; discriminate|]. destruct c as [|p]; auto. repeat (destruct p as [p|p|]; auto). exfalso; apply n; reflexivity. Qed.
Lemma read_term_print t rest : wf_term t = true -> read_term (print_term t ++ 32 :: rest) = Some (t, 32 :: rest).
Proof.
  destruct t as [b|l|v a]; simpl; intro H.
  - unfold wf_iri in H. apply andb_true_iff in H as [H1 H2]. rewrite <- app_assoc. simpl. rewrite (read_iri_ok b _ H1), H2. reflexivity.
  - apply andb_true_iff in H as [H H3]. apply andb_true_iff in H as [H1 H2]. apply negb_true_iff in H3. rewrite (read_word_dot_ok l rest H2 H3), H1. reflexivity.
  - rewrite <- app_assoc. simpl. rewrite read_string_escape. destruct a as [|t|i]; simpl.
    + reflexivity.
    + apply andb_true_iff in H as [H H3]. apply andb_true_iff in H as [H1 H2]. apply negb_true_iff in H3. rewrite (read_word_dot_ok t rest H2 H3), H1. reflexivity.
    + unfold wf_iri in H. apply andb_true_iff in H as [H1 H2]. rewrite <- app_assoc. simpl. rewrite (read_iri_ok i _ H1), H2. reflexivity.
Qed.
Lemma skip_blanks_term t r : skip_blanks (print_term t ++ r) = print_term t ++ r.
Proof. destruct t; reflexivity. Qed.
Lemma print_term_not_dot t r : is_dot (print_term t ++ r) = false.
Proof. destruct t as [b|l|v a]; reflexivity. Qed.

Theorem parse_render_proof q : wf_stmt q = true -> parse_line (print_stmt q) = Some q.
Proof.
  destruct q as [[[s p] o] g]. unfold wf_stmt. rewrite !andb_true_iff. intros [[[[[Hs Hp] Ho] Hss] Hpp] Hg].
  unfold parse_line, print_stmt.
  rewrite skip_blanks_term, (read_term_print s _ Hs). simpl skip_blanks at 1.
  rewrite skip_blanks_term, (read_term_print p _ Hp). simpl skip_blanks at 1.
  rewrite skip_blanks_term, (read_term_print o _ Ho). rewrite Hss, Hpp. simpl negb. cbv iota.
  destruct g as [gt|].
  - apply andb_true_iff in Hg as [Hg1 Hg2].
    change (skip_blanks (32 :: print_term gt ++ [32; 46])) with (skip_blanks (print_term gt ++ [32; 46])).
    rewrite skip_blanks_term, print_term_not_dot, (read_term_print gt [46] Hg1), Hg2. reflexivity.
  - reflexivity.
Qed.

(* printing is injective on well-formed statements: distinct statements give distinct lines *)
Corollary print_stmt_injective q1 q2 : wf_stmt q1 = true -> wf_stmt q2 = true -> print_stmt q1 = print_stmt q2 -> q1 = q2.
Proof. intros H1 H2 E. apply parse_render_proof in H1, H2. rewrite E in H1. congruence. Qed.
