(* C01 / C07: the end-to-end theorem for documents WITH referencing object maps (join conditions).
   Part A: the generation rules read on the surface document and read on the normalised rule table give the same
   statements -- a rule whose object is a referencing object map contributes, for every pair (child row, parent row) that
   agrees on all join conditions, subject / predicate / graph from the child row and the parent's subject term from the
   parent row.  Part B: the engine on the preprocessed frames gives exactly these.  Extends DocSpecP / DocEngineP. *)
From Coq Require Import String Lia.
From Morph Require Import Base.UStr Gen.Tables Model.Terms Model.Data Model.Engine Model.Mapping Model.Spec Model.Fragment
     Proofs.DataP Proofs.GroupingP Proofs.TemplateP Proofs.TermP Proofs.RowwiseP Proofs.RowSpecP Proofs.RuleSpecP Proofs.NormaliseP Proofs.GraphsP
     Proofs.UnionP Proofs.QuotedP Proofs.JoinP Proofs.JoinRuleP Proofs.DocSpecP Proofs.DocEngineP.
Local Open Scope N_scope.

(* ---------------------------------------------------------------- the statement of a join rule for a pair of rows *)
(* k, v: the parent's subject map (kind, value) *)
Definition doc_join_line (scfg : scfg) (rl : rule) (k : mkind) (v : ustr) (csr psr : srow) : option ustr :=
  match spec_lex scfg (r_sk rl) (r_sv rl) (r_stt rl) [] csr with None => None | Some s =>
  match spec_lex scfg (r_pk rl) (r_pv rl) TIri [] csr with None => None | Some p =>
  match spec_lex scfg k v (r_ott rl) [] psr with None => None | Some o =>
  match rule_graph_opt scfg rl csr with None => None | Some g =>
  let triple := render (r_stt rl) s ++ [32] ++ render TIri p ++ [32] ++ render (r_ott rl) o in
  Some (if s_nquads scfg then triple ++ [32] ++ g else triple)
  end end end end.

Section ParentObj.
  Variables (scfg : scfg) (fe : fenv) (doc : document) (tables : ustr -> stable).

  Lemma spec_fuel_SS : exists f, spec_fuel doc = S (S f).
  Proof. unfold spec_fuel. simpl. eauto. Qed.

  Lemma join_obj_fields o : join_objmap o = true ->
    m_kind (o_tm o) = KParent /\ m_tt (o_tm o) = None /\ o_joins o <> [] /\ undelimit_joins (o_joins o) = o_joins o /\ is_parent o = true.
  Proof.
    unfold join_objmap. rewrite !andb_true_iff. intros [[[Hk Hn] Hj] Hu].
    assert (Ek : m_kind (o_tm o) = KParent) by (destruct (m_kind (o_tm o)); try discriminate; reflexivity).
    split; [exact Ek|]. split; [destruct (m_tt (o_tm o)); [discriminate|reflexivity]|].
    split; [destruct (o_joins o); [discriminate|discriminate]|].
    split; [|unfold is_parent; now rewrite Ek].
    unfold undelimit_joins. rewrite <- (map_id (o_joins o)) at 2. apply map_ext_in. intros [a b] Hab. rewrite forallb_forall in Hu.
    specialize (Hu (a, b) Hab). cbn [fst snd] in *. apply andb_true_iff in Hu as [U1 U2]. apply ueqb_eq in U1, U2. now rewrite U1, U2.
  Qed.

  Lemma ref_obj_fields o : ref_objmap o = true ->
    m_kind (o_tm o) = KParent /\ m_tt (o_tm o) = None /\ undelimit_joins (o_joins o) = o_joins o /\ is_parent o = true.
  Proof.
    unfold ref_objmap. intro H. apply orb_true_iff in H as [H|H]; [destruct (join_obj_fields o H) as (A & B & _ & C & D); auto|].
    unfold self_objmap in H. rewrite !andb_true_iff in H. destruct H as [[Hk Hn] Hj].
    assert (Ek : m_kind (o_tm o) = KParent) by (destruct (m_kind (o_tm o)); try discriminate; reflexivity).
    split; [exact Ek|]. split; [destruct (m_tt (o_tm o)); [discriminate|reflexivity]|].
    split; [destruct (o_joins o); [reflexivity|discriminate]|unfold is_parent; now rewrite Ek].
  Qed.

  (* the object terms of a referencing object map: the parent's subject terms on the joined parent rows (the same row when there
     is no join condition) *)
  Lemma parent_obj_equiv f t o p sr ot : ref_objmap o = true -> find_tm doc (m_value (o_tm o)) = Some p -> plain_map (t_subj p) = true ->
    (In ot (obj_terms scfg fe doc tables (S (S f)) t o sr) <->
     exists psr sl, In psr (joined_rows scfg tables sr (t_src p) (o_joins o)) /\
       spec_lex scfg (m_kind (t_subj p)) (m_value (t_subj p)) (spec_tt_subject (t_subj p)) [] psr = Some sl /\ ot = render (spec_tt_subject (t_subj p)) sl).
  Proof.
    intros Hj Hf Hp. destruct (ref_obj_fields o Hj) as (Ek & _ & _ & _).
    assert (Pk : is_plain (m_kind (t_subj p)) = true) by (unfold plain_map in Hp; now apply andb_true_iff in Hp as [X _]).
    assert (Eo : obj_terms scfg fe doc tables (S (S f)) t o sr =
                 flat_map (fun r' => spec_terms scfg fe (m_kind (t_subj p)) (m_value (t_subj p)) (spec_tt_subject (t_subj p)) [] r')
                          (joined_rows scfg tables sr (t_src p) (o_joins o))).
    { cbn [obj_terms]. rewrite Ek, Hf. apply flat_map_ext. intro r'. cbn [subj_terms]. destruct (m_kind (t_subj p)); try discriminate; reflexivity. }
    rewrite Eo, in_flat_map. split.
    - intros (psr & Hin & Hot). apply spec_terms_plain in Hot as (sl & E & ->); auto. exists psr, sl. auto.
    - intros (psr & sl & Hin & E & ->). exists psr. split; [exact Hin|]. apply spec_terms_plain; eauto.
  Qed.
End ParentObj.

Lemma class_pom_jplain c : jplain_pom (class_pom c) = true.
Proof.
  pose proof (class_pom_plain c) as H. unfold plain_pom in H. rewrite !andb_true_iff in H. destruct H as [[A B] C].
  unfold jplain_pom. rewrite A, B, C. reflexivity.
Qed.
Lemma ref_obj_is_parent o : ref_objmap o = true -> is_parent o = true.
Proof. intro H. now destruct (ref_obj_fields o H) as (_ & _ & _ & X). Qed.
Lemma eff_jplain p : (forallb plain_objmap (p_objs p) || forallb ref_objmap (p_objs p)) = true -> effective_objs p = p_objs p.
Proof.
  intro H. apply orb_true_iff in H as [H|H]; [now apply effective_plain|].
  unfold effective_objs. replace (filter (fun o => negb (is_parent o)) (p_objs p)) with (@nil objmap); [reflexivity|].
  induction (p_objs p) as [|o l IH]; auto. cbn [forallb] in H. apply andb_true_iff in H as [H1 H2]. cbn [filter]. rewrite (ref_obj_is_parent o H1). cbn [negb]. auto.
Qed.
Lemma obj_kind p o : (forallb plain_objmap (p_objs p) || forallb ref_objmap (p_objs p)) = true -> In o (p_objs p) -> plain_objmap o = true \/ ref_objmap o = true.
Proof. intros H Ho. apply orb_true_iff in H as [H|H]; rewrite forallb_forall in H; auto. Qed.

Section TmJoin.
  Variables (scfg : scfg) (fe : fenv) (doc : document) (tables : ustr -> stable) (d : document).

  Theorem tm_lines_equiv2 t sr rs :
    jplain_tm t = true ->
    (forall pm o, In pm (t_poms t) -> In o (p_objs pm) -> ref_objmap o = true ->
       exists p, find_tm doc (m_value (o_tm o)) = Some p /\ plain_map (t_subj p) = true /\ ott_of d o = spec_tt_subject (t_subj p)) ->
    base_rules_of d (prepare_tm t) = Ok rs ->
    forall x, In x (tm_row_lines scfg fe doc tables t sr) <->
      exists rl, In rl rs /\
        ((r_ok rl <> KParent /\ doc_rule_line scfg rl sr = Some x) \/
         (r_ok rl = KParent /\ exists p psr, find_tm doc (r_ov rl) = Some p /\ plain_map (t_subj p) = true /\ r_ott rl = spec_tt_subject (t_subj p) /\
            In psr (joined_rows scfg tables sr (t_src p) (r_ojoin rl)) /\
            doc_join_line scfg rl (m_kind (t_subj p)) (m_value (t_subj p)) sr psr = Some x)).
  Proof.
    intros Hpl Hpar Hb x. unfold jplain_tm in Hpl. rewrite !andb_true_iff in Hpl. destruct Hpl as [[[Hsub Hsg] Hpoms] _].
    set (poms := t_poms t ++ map class_pom (t_classes t)).
    assert (Hpp : forall pm, In pm poms -> jplain_pom pm = true).
    { intros pm H. apply in_app_iff in H as [H|H]; [rewrite forallb_forall in Hpoms; auto|]. apply in_map_iff in H as (c & <- & _). apply class_pom_jplain. }
    assert (Hpar' : forall pm o, In pm poms -> In o (p_objs pm) -> ref_objmap o = true ->
       exists p, find_tm doc (m_value (o_tm o)) = Some p /\ plain_map (t_subj p) = true /\ ott_of d o = spec_tt_subject (t_subj p)).
    { intros pm o H Ho Hj. apply in_app_iff in H as [H|H]; [eauto|]. apply in_map_iff in H as (c & <- & _). cbn [class_pom p_objs] in Ho. destruct Ho as [<-|[]]. discriminate. }
    assert (Eprep : t_poms (prepare_tm t) = map (fun p => {| p_preds := p_preds p; p_objs := p_objs p; p_graphs := placed_graphs t p |}) poms) by apply prepare_poms.
    destruct (spec_fuel_SS doc) as (f & Ef).
    rewrite tm_row_lines_in. rewrite Ef. fold poms. clearbody poms.
    destruct poms as [|pm0 pms] eqn:Epoms.
    { split; [intros (s & pm & p & pt & o & ot & g & _ & [] & _)|].
      intros (rl & Hrl & Hx). exfalso. rewrite base_rules_unfold in Hb. cbv zeta in Hb. rewrite Eprep in Hb. cbn [map] in Hb.
      destruct (negb _) in Hb; [discriminate|]. injection Hb as <-. destruct Hrl as [<-|[]]. destruct Hx as [[_ Hx]|[Hk _]]; [|discriminate Hk].
      unfold doc_rule_line, spec_parts, spec_po, spec_po_gen in Hx. cbn [mk_rule r_pk r_pv spec_lex] in Hx. destruct (spec_lex scfg _ _ _ [] sr) in Hx; discriminate. }
    assert (Hne : t_poms (prepare_tm t) <> []) by (rewrite Eprep; discriminate).
    destruct (base_rules_in d (prepare_tm t) rs Hb Hne) as [Hv Hin]. cbv zeta in Hin.
    set (a := negb (t_nonasserted (prepare_tm t)) && _) in Hin. set (stt := tt_final (tt_early (t_subj (prepare_tm t)))) in *.
    assert (Estt : stt = spec_tt_subject (t_subj t)) by (apply tt_subject_is_spec; exact Hv).
    assert (Esubj : forall s, In s (subj_terms scfg fe doc tables (S (S f)) t sr) <->
                     exists sl, spec_lex scfg (m_kind (t_subj t)) (m_value (t_subj t)) stt [] sr = Some sl /\ s = render stt sl).
    { intro s. rewrite Estt. unfold plain_map in Hsub. apply andb_true_iff in Hsub as [Hk _].
      assert (E : subj_terms scfg fe doc tables (S (S f)) t sr = spec_terms scfg fe (m_kind (t_subj t)) (m_value (t_subj t)) (spec_tt_subject (t_subj t)) [] sr)
        by (cbn [subj_terms]; destruct (m_kind (t_subj t)); try discriminate; reflexivity).
      rewrite E. now apply spec_terms_plain. }
    split.
    - intros (s & pm & p & pt & o & ot & g & Hs & Hpm & Hp & Hpt & Ho & Hot & Hg & ->).
      pose proof (Hpp pm Hpm) as Ppm. unfold jplain_pom in Ppm. rewrite !andb_true_iff in Ppm. destruct Ppm as [[Pp Po] Pg].
      assert (Plp : plain_map p = true) by (rewrite forallb_forall in Pp; auto).
      apply Esubj in Hs as (sl & Esl & ->).
      apply spec_terms_plain in Hpt as (pl & Epl & ->); [|unfold plain_map in Plp; now apply andb_true_iff in Plp as [X _]].
      apply (graph_equiv scfg fe tables t pm sr g Hsg Pg) in Hg as (gm & Hgm & Egt).
      pose proof (placed_graphs_plain t pm gm Hsg Pg Hgm) as Plg.
      assert (Hpm' : In {| p_preds := p_preds pm; p_objs := p_objs pm; p_graphs := placed_graphs t pm |} (t_poms (prepare_tm t)))
        by (rewrite Eprep; apply in_map_iff; exists pm; auto).
      destruct (obj_kind pm o Po Ho) as [Plo|Jo].
      + apply (obj_equiv scfg fe doc tables (S f) t o sr ot Plo) in Hot as (ld & ldk & ldv & ol & suffix & Hld & Eol & Esuf & ->).
        exists (mk_rule (prepare_tm t) a stt (m_kind p) (m_value p) (m_kind (o_tm o)) (m_value (o_tm o)) (spec_tt_object o) ld ldk ldv (m_kind gm) (m_value gm) (o_joins o)).
        split.
        * apply Hin. exists {| p_preds := p_preds pm; p_objs := p_objs pm; p_graphs := placed_graphs t pm |}. split; [exact Hpm'|].
          unfold pom_rules. apply gen_in. exists p, o, (spec_tt_object o), ld, ldk, ldv, gm. cbn [p_preds p_objs p_graphs]. repeat split; auto.
          unfold effective_objs. cbn [p_objs]. fold (effective_objs pm). rewrite (eff_jplain pm Po). apply in_flat_map. exists o. split; auto.
          unfold obj_rows. rewrite (plain_obj_not_parent o Plo). apply in_map_iff. exists (ld, ldk, ldv). split; auto.
          unfold ott_of. rewrite (plain_obj_not_parent o Plo). now rewrite tt_object_is_spec.
        * left. split.
          { cbn [mk_rule r_ok]. intro E. unfold plain_objmap, plain_map in Plo. rewrite !andb_true_iff in Plo. destruct Plo as [[Hk _] _]. rewrite E in Hk. discriminate. }
          rewrite (rule_line_is_tuple scfg (prepare_tm t) a stt p o ld ldk ldv gm sr Hsub Plp Plo Plg).
          unfold tuple_line. cbn [prepare_tm complete_default_graph sgraphs_to_pom class_to_pom t_subj]. rewrite Esl, Epl, Eol, Esuf, Egt. reflexivity.
      + destruct (Hpar' pm o Hpm Ho Jo) as (p' & Hf & Hp' & Eott).
        destruct (ref_obj_fields o Jo) as (Ek & _ & Eju & Eip).
        apply (parent_obj_equiv scfg fe doc tables f t o p' sr ot Jo Hf Hp') in Hot as (psr & ol & Hpsr & Eol & ->).
        exists (mk_rule (prepare_tm t) a stt (m_kind p) (m_value p) (m_kind (o_tm o)) (m_value (o_tm o)) (ott_of d o) LDNone KNone [] (m_kind gm) (m_value gm) (o_joins o)).
        split.
        * apply Hin. exists {| p_preds := p_preds pm; p_objs := p_objs pm; p_graphs := placed_graphs t pm |}. split; [exact Hpm'|].
          unfold pom_rules. apply gen_in. exists p, o, (ott_of d o), LDNone, KNone, [], gm. cbn [p_preds p_objs p_graphs]. repeat split; auto.
          unfold effective_objs. cbn [p_objs]. fold (effective_objs pm). rewrite (eff_jplain pm Po). apply in_flat_map. exists o. split; auto.
          unfold obj_rows. rewrite Eip. now left.
        * right. rewrite Ek. cbn [mk_rule r_ok r_ov r_ott r_ojoin undelimit]. split; [reflexivity|]. exists p', psr. rewrite Eju.
          split; [exact Hf|]. split; [exact Hp'|]. split; [exact Eott|]. split; [exact Hpsr|].
          unfold doc_join_line, rule_graph_opt. cbn [mk_rule r_sk r_sv r_stt r_pk r_pv r_ott r_gk r_gv].
          assert (Hgm' : plain_map gm = true) by (unfold plain_graph in Plg; now apply andb_true_iff in Plg as [X _]).
          cbn [prepare_tm complete_default_graph sgraphs_to_pom class_to_pom t_subj].
          rewrite (plain_map_undelimit _ Hsub), (plain_map_undelimit _ Plp), (plain_map_undelimit _ Hgm'). rewrite Esl, Epl. rewrite Eott, Eol.
          unfold rule_graph_term in Egt. rewrite Egt. reflexivity.
    - intros (rl & Hrl & Hx). apply Hin in Hrl as (pm' & Hpm' & Hr). rewrite Eprep in Hpm'. apply in_map_iff in Hpm' as (pm & <- & Hpm).
      pose proof (Hpp pm Hpm) as Ppm. unfold jplain_pom in Ppm. rewrite !andb_true_iff in Ppm. destruct Ppm as [[Pp Po] Pg].
      unfold pom_rules in Hr. apply gen_in in Hr as (p & o & ott & ld & ldk & ldv & gm & Hp & Hrow & Hgm & ->). cbn [p_preds p_objs p_graphs] in *.
      unfold effective_objs in Hrow. cbn [p_objs] in Hrow. fold (effective_objs pm) in Hrow. rewrite (eff_jplain pm Po) in Hrow. apply in_flat_map in Hrow as (o' & Ho & Hrow).
      assert (Plp : plain_map p = true) by (rewrite forallb_forall in Pp; auto).
      pose proof (placed_graphs_plain t pm gm Hsg Pg Hgm) as Plg.
      destruct (obj_kind pm o' Po Ho) as [Plo|Jo].
      + unfold obj_rows in Hrow. rewrite (plain_obj_not_parent o' Plo) in Hrow. apply in_map_iff in Hrow as ([[ld' ldk'] ldv'] & E & Hld).
        unfold ott_of in E. rewrite (plain_obj_not_parent o' Plo), tt_object_is_spec in E. injection E as <- <- <- <- <-.
        destruct Hx as [[_ Hx]|[Hk _]].
        2:{ exfalso. cbn [mk_rule r_ok] in Hk. unfold plain_objmap, plain_map in Plo. rewrite !andb_true_iff in Plo. destruct Plo as [[Hk' _] _]. rewrite Hk in Hk'. discriminate. }
        rewrite (rule_line_is_tuple scfg (prepare_tm t) a stt p o' ld' ldk' ldv' gm sr Hsub Plp Plo Plg) in Hx.
        unfold tuple_line in Hx. cbn [prepare_tm complete_default_graph sgraphs_to_pom class_to_pom t_subj] in Hx.
        destruct (spec_lex scfg (m_kind (t_subj t)) (m_value (t_subj t)) stt [] sr) as [sl|] eqn:Esl; [|discriminate].
        destruct (spec_lex scfg (m_kind p) (m_value p) TIri [] sr) as [pl|] eqn:Epl; [|discriminate].
        destruct (spec_lex scfg (m_kind (o_tm o')) (m_value (o_tm o')) (spec_tt_object o') ldv' sr) as [ol|] eqn:Eol; [|discriminate].
        destruct (suffix_of_row scfg ld' ldk' ldv' sr) as [suffix|] eqn:Esuf; [|discriminate].
        destruct (rule_graph_term scfg gm sr) as [gt|] eqn:Egt; [|discriminate]. injection Hx as <-.
        exists (render stt sl), pm, p, (render TIri pl), o', (render (spec_tt_object o') ol ++ suffix), gt.
        split; [apply Esubj; eauto|]. split; [exact Hpm|]. split; [exact Hp|].
        split; [apply spec_terms_plain; [unfold plain_map in Plp; now apply andb_true_iff in Plp as [X _]|]; eauto|].
        split; [exact Ho|].
        split; [apply (obj_equiv scfg fe doc tables (S f) t o' sr _ Plo); exists ld', ldk', ldv', ol, suffix; auto|].
        split; [apply (graph_equiv scfg fe tables t pm sr gt Hsg Pg); eauto|].
        reflexivity.
      + destruct (ref_obj_fields o' Jo) as (Ek & _ & Eju & Eip).
        unfold obj_rows in Hrow. rewrite Eip in Hrow. destruct Hrow as [E|[]]. injection E as <- <- <- <- <-.
        destruct Hx as [[Hnk _]|[_ (p' & psr & Hf & Hp' & Eott & Hpsr & Hx)]]; [exfalso; apply Hnk; cbn [mk_rule r_ok]; exact Ek|].
        rewrite Ek in *. cbn [mk_rule r_ok r_ov r_ott r_ojoin undelimit] in Hf, Eott, Hpsr. rewrite Eju in Hpsr.
        unfold doc_join_line, rule_graph_opt in Hx. cbn [mk_rule r_sk r_sv r_stt r_pk r_pv r_ott r_gk r_gv] in Hx.
        assert (Hgm' : plain_map gm = true) by (unfold plain_graph in Plg; now apply andb_true_iff in Plg as [X _]).
        cbn [prepare_tm complete_default_graph sgraphs_to_pom class_to_pom t_subj] in Hx.
        rewrite (plain_map_undelimit _ Hsub), (plain_map_undelimit _ Plp), (plain_map_undelimit _ Hgm') in Hx.
        destruct (spec_lex scfg (m_kind (t_subj t)) (m_value (t_subj t)) stt [] sr) as [sl|] eqn:Esl; [|discriminate].
        destruct (spec_lex scfg (m_kind p) (m_value p) TIri [] sr) as [pl|] eqn:Epl; [|discriminate].
        rewrite Eott in Hx.
        destruct (spec_lex scfg (m_kind (t_subj p')) (m_value (t_subj p')) (spec_tt_subject (t_subj p')) [] psr) as [ol|] eqn:Eol; [|discriminate].
        fold (rule_graph_term scfg gm sr) in Hx.
        destruct (rule_graph_term scfg gm sr) as [gt|] eqn:Egt; [|discriminate]. injection Hx as <-.
        exists (render stt sl), pm, p, (render TIri pl), o', (render (spec_tt_subject (t_subj p')) ol), gt.
        split; [apply Esubj; eauto|]. split; [exact Hpm|]. split; [exact Hp|].
        split; [apply spec_terms_plain; [unfold plain_map in Plp; now apply andb_true_iff in Plp as [X _]|]; eauto|].
        split; [exact Ho|].
        split; [apply (parent_obj_equiv scfg fe doc tables f t o' p' sr _ Jo Hf Hp'); exists psr, ol; auto|].
        split; [apply (graph_equiv scfg fe tables t pm sr gt Hsg Pg); eauto|].
        reflexivity.
  Qed.
End TmJoin.

(* ---------------------------------------------------------------- the normalisation chain on documents with referencing object maps *)
Definition unstarred (r : rule) : bool := negb (mkind_eqb (r_sk r) KQuoted) && negb (mkind_eqb (r_ok r) KQuoted).
Lemma expand_unstarred f nb tm : (forall kr, In kr nb -> unstarred (snd kr) = true) ->
  expand_tm (S f) nb tm = Ok (map (fun kr => with_id (fst kr) (snd kr)) (filter (fun kr => ueqb (r_tm (snd kr)) tm) nb)).
Proof.
  intro H. cbn [expand_tm].
  rewrite (rmap_all_ext_in _ (fun kr => Ok [with_id (fst kr) (snd kr)])).
  - rewrite rmap_all_pure. cbn [rbind]. f_equal. induction (filter _ nb) as [|x l IH]; simpl; auto. now rewrite IH.
  - intros [k r] Hin. apply filter_In in Hin as [Hin _]. specialize (H (k, r) Hin). unfold unstarred in H. cbn [snd] in H.
    rewrite !andb_true_iff, !negb_true_iff in H. destruct H as [H1 H2]. rewrite H1, H2. reflexivity.
Qed.

Lemma base_rules_valid d t rs : base_rules_of d t = Ok rs -> valid_subject_tt (tt_final (tt_early (t_subj t))) = true.
Proof. rewrite base_rules_unfold. cbv zeta. destruct (valid_subject_tt _); [reflexivity|discriminate]. Qed.

Lemma jplain_base_rules d t rs : jplain_tm t = true -> base_rules_of d (prepare_tm t) = Ok rs ->
  forall r, In r rs -> unstarred r = true /\ r_src r = t_src t /\ r_asserted r = asserted t /\ r_tm r = t_id t /\
    r_sk r = m_kind (t_subj t) /\ r_sv r = m_value (t_subj t) /\ r_stt r = tt_final (tt_early (t_subj t)) /\
    (r_ok r = KParent -> exists pm o, In pm (t_poms t) /\ In o (p_objs pm) /\ ref_objmap o = true /\ r_ov r = m_value (o_tm o) /\ r_ojoin r = o_joins o /\ r_ott r = ott_of d o /\
                                      r_ld r = LDNone /\ r_ldv r = []).
Proof.
  intros Hpl Hb r Hr. unfold jplain_tm in Hpl. rewrite !andb_true_iff in Hpl. destruct Hpl as [[[Hsub Hsg] Hpoms] _].
  assert (Hsk : mkind_eqb (m_kind (t_subj t)) KQuoted = false).
  { unfold plain_map in Hsub. apply andb_true_iff in Hsub as [H _]. now destruct (m_kind (t_subj t)). }
  assert (Ea : negb (t_nonasserted (prepare_tm t)) && negb (match t_poms (prepare_tm t) with [] => true | _ => false end) = asserted t).
  { rewrite prepared_nopoms. unfold asserted. reflexivity. }
  destruct (t_poms (prepare_tm t)) as [|p0 ps0] eqn:Ep.
  - rewrite base_rules_unfold in Hb. cbv zeta in Hb. rewrite Ep in Hb. destruct (negb _) in Hb; [discriminate|]. injection Hb as <-.
    destruct Hr as [<-|[]]. unfold unstarred. cbn [mk_rule r_sk r_sv r_stt r_ok r_src r_asserted r_tm]. cbn [prepare_tm complete_default_graph sgraphs_to_pom class_to_pom t_subj t_src t_id].
    rewrite Hsk, (plain_map_undelimit _ Hsub). repeat split; auto. discriminate.
  - assert (Hne : t_poms (prepare_tm t) <> []) by (rewrite Ep; discriminate).
    destruct (base_rules_in d (prepare_tm t) rs Hb Hne) as [_ Hin]. cbv zeta in Hin. apply Hin in Hr as (pm' & Hpm' & Hr).
    unfold prepare_tm in Hpm'. rewrite prepare_poms in Hpm'. apply in_map_iff in Hpm' as (pm & <- & Hpm).
    assert (Ppm : jplain_pom pm = true).
    { apply in_app_iff in Hpm as [H|H]; [rewrite forallb_forall in Hpoms; auto|]. apply in_map_iff in H as (c & <- & _). apply class_pom_jplain. }
    unfold jplain_pom in Ppm. rewrite !andb_true_iff in Ppm. destruct Ppm as [[Pp Po] Pg].
    unfold pom_rules in Hr. apply gen_in in Hr as (p & o & ott & ld & ldk & ldv & gm & Hp & Hrow & Hgm & ->). cbn [p_preds p_objs p_graphs] in *.
    unfold effective_objs in Hrow. cbn [p_objs] in Hrow. fold (effective_objs pm) in Hrow. rewrite (eff_jplain pm Po) in Hrow. apply in_flat_map in Hrow as (o' & Ho & Hrow).
    unfold obj_rows in Hrow. apply in_map_iff in Hrow as (ldr & E & Hldr). injection E as <- <- Eldr.
    unfold unstarred. cbn [mk_rule r_sk r_sv r_stt r_ok r_ov r_ott r_ojoin r_src r_asserted r_tm r_ld r_ldv]. cbn [prepare_tm complete_default_graph sgraphs_to_pom class_to_pom t_subj t_src t_id].
    rewrite Hsk, (plain_map_undelimit _ Hsub).
    destruct (obj_kind pm o' Po Ho) as [Plo|Jo].
    + unfold plain_objmap, plain_map in Plo. rewrite !andb_true_iff in Plo. destruct Plo as [[Hk _] _].
      repeat split; auto.
      * destruct (m_kind (o_tm o')); try discriminate; reflexivity.
      * rewrite <- Ea. rewrite Ep. reflexivity.
      * intro E. rewrite E in Hk. discriminate.
    + destruct (ref_obj_fields o' Jo) as (Ek & _ & Eju & Eip). rewrite Ek. cbn [undelimit].
      rewrite Eip in Hldr. destruct Hldr as [Hldr|[]]. rewrite <- Hldr in Eldr. injection Eldr as <- <- <-.
      repeat split; auto.
      * rewrite <- Ea. rewrite Ep. reflexivity.
      * intros _. apply in_app_iff in Hpm as [Hpm|Hpm].
        -- exists pm, o'. repeat split; auto.
        -- apply in_map_iff in Hpm as (c & <- & _). cbn [class_pom p_objs] in Ho. destruct Ho as [<-|[]]. discriminate.
Qed.

Lemma resolve_fields mid r r' : resolve_parent mid r = Ok r' ->
  r_id r' = r_id r /\ r_tm r' = r_tm r /\ r_src r' = r_src r /\ r_asserted r' = r_asserted r /\ r_sk r' = r_sk r /\ r_sv r' = r_sv r /\ r_stt r' = r_stt r /\
  r_pk r' = r_pk r /\ r_pv r' = r_pv r /\ r_gk r' = r_gk r /\ r_gv r' = r_gv r /\ r_ld r' = r_ld r /\ r_ldv r' = r_ldv r.
Proof.
  unfold resolve_parent. destruct (mkind_eqb (r_ok r) KParent); [|intro E; injection E as <-; repeat split; reflexivity].
  destruct (first_rule_of_tm mid (r_ov r)) as [p|]; [|discriminate].
  destruct (ueqb (r_src r) (r_src p) && _); intro E; injection E as <-; repeat split; reflexivity.
Qed.
Lemma resolve_plain mid r r' : r_ok r <> KParent -> resolve_parent mid r = Ok r' -> r' = r.
Proof.
  intros H. unfold resolve_parent. destruct (mkind_eqb (r_ok r) KParent) eqn:E; [|now intro X; injection X].
  exfalso. apply H. now apply mkind_eqb_eq.
Qed.
Lemma resolve_join mid r r' : r_ok r = KParent -> resolve_parent mid r = Ok r' ->
  exists p0, first_rule_of_tm mid (r_ov r) = Some p0 /\
    ((ueqb (r_src r) (r_src p0) && forallb (fun cp => ueqb (fst cp) (snd cp)) (r_ojoin r)) = false ->
     r_ok r' = KParent /\ r_ov r' = r_id p0 /\ r_ott r' = r_ott r /\ r_ojoin r' = r_ojoin r) /\
    ((ueqb (r_src r) (r_src p0) && forallb (fun cp => ueqb (fst cp) (snd cp)) (r_ojoin r)) = true ->
     r_ok r' = r_sk p0 /\ r_ov r' = r_sv p0 /\ r_ott r' = r_stt p0 /\ r_ojoin r' = []).
Proof.
  intros H. unfold resolve_parent. rewrite H. cbn [mkind_eqb]. destruct (first_rule_of_tm mid (r_ov r)) as [p|]; [|discriminate].
  intro E. exists p. split; auto. split; intro Hn; rewrite Hn in E; injection E as <-; cbn; auto.
Qed.

Lemma find_rule_nodup l x : nodupb (map r_id l) = true -> In x l -> find_rule l (r_id x) = Some x.
Proof.
  unfold find_rule. induction l as [|y l IH]; [contradiction|]. cbn [map nodupb find]. intros H Hin. apply andb_true_iff in H as [H1 H2]. apply negb_true_iff in H1.
  destruct Hin as [->|Hin]; [now rewrite ueqb_refl|].
  destruct (ueqb (r_id y) (r_id x)) eqn:E; [|auto]. apply ueqb_eq in E. exfalso.
  assert (X : mem (r_id y) (map r_id l) = true) by (apply mem_In; rewrite E; now apply in_map). congruence.
Qed.
Lemma find_tm_nodup d t : nodupb (map t_id d) = true -> In t d -> find_tm d (t_id t) = Some t.
Proof.
  unfold find_tm. induction d as [|y l IH]; [contradiction|]. cbn [map nodupb find]. intros H Hin. apply andb_true_iff in H as [H1 H2]. apply negb_true_iff in H1.
  destruct Hin as [->|Hin]; [now rewrite ueqb_refl|].
  destruct (ueqb (t_id y) (t_id t)) eqn:E; [|auto]. apply ueqb_eq in E. exfalso.
  assert (X : mem (t_id y) (map t_id l) = true) by (apply mem_In; rewrite E; now apply in_map). congruence.
Qed.
Lemma find_prepare id d0 : find (fun t => ueqb (t_id t) id) (map prepare_tm d0) = option_map prepare_tm (find (fun t => ueqb (t_id t) id) d0).
Proof. induction d0 as [|t l IH]; auto. cbn [map find]. change (t_id (prepare_tm t)) with (t_id t). destruct (ueqb (t_id t) id); auto. Qed.

Lemma doc_join_line_fields scfg rl rl' k v csr psr :
  r_sk rl' = r_sk rl -> r_sv rl' = r_sv rl -> r_stt rl' = r_stt rl -> r_pk rl' = r_pk rl -> r_pv rl' = r_pv rl -> r_ott rl' = r_ott rl ->
  r_gk rl' = r_gk rl -> r_gv rl' = r_gv rl -> doc_join_line scfg rl' k v csr psr = doc_join_line scfg rl k v csr psr.
Proof. intros A B C D E F G H. unfold doc_join_line, rule_graph_opt. now rewrite A, B, C, D, E, F, G, H. Qed.
Lemma doc_rule_line_as_join scfg rl sr : r_ld rl = LDNone -> r_ldv rl = [] ->
  doc_rule_line scfg rl sr = doc_join_line scfg rl (r_ok rl) (r_ov rl) sr sr.
Proof.
  intros El Elv. unfold doc_rule_line, doc_join_line, spec_parts, spec_po, spec_po_gen, spec_suffix_of. rewrite El, Elv.
  destruct (spec_lex scfg (r_sk rl) (r_sv rl) (r_stt rl) [] sr); auto. destruct (spec_lex scfg (r_pk rl) (r_pv rl) TIri [] sr); auto.
  destruct (spec_lex scfg (r_ok rl) (r_ov rl) (r_ott rl) [] sr); auto. now rewrite app_nil_r.
Qed.
Lemma mkind_eqb_neq a b : mkind_eqb a b = false -> a <> b.
Proof. intros H ->. destruct b; discriminate. Qed.

Section DocJoinEquiv.
  Variables (scfg : scfg) (fe : fenv) (tables : ustr -> stable).

  Theorem doc_spec_is_rule_spec2 d0 rules :
    forallb jplain_tm d0 = true -> nodupb (map t_id d0) = true -> parents_ok d0 = true -> normalise d0 = Ok rules -> nodupb (map r_id rules) = true ->
    forall x, In x (spec_lines scfg fe d0 tables) <->
      (exists rl sr, In rl rules /\ r_asserted rl = true /\ r_ok rl <> KParent /\ In sr (tables (r_src rl)) /\ doc_rule_line scfg rl sr = Some x) \/
      (exists rl q csr psr, In rl rules /\ r_asserted rl = true /\ r_ok rl = KParent /\ find_rule rules (r_ov rl) = Some q /\
          In csr (tables (r_src rl)) /\ In psr (tables (r_src q)) /\ conds_hold scfg csr psr (r_ojoin rl) = true /\
          doc_join_line scfg rl (r_sk q) (r_sv q) csr psr = Some x).
  Proof.
    intros Hpl Hnd Hpo Hn Hnr. unfold normalise in Hn. set (d := prepare d0) in *.
    destruct (forallb _ d) in Hn; [discriminate|].
    destruct (rmap_all (base_rules_of d) d) as [base|e] eqn:Eb; cbn [rbind] in Hn; [|discriminate].
    apply rmap_all_ok in Eb.
    assert (Ed : d = map prepare_tm d0) by reflexivity.
    assert (Tm : forall t, In t d0 -> exists rs, In rs base /\ base_rules_of d (prepare_tm t) = Ok rs).
    { intros t Ht. assert (X : In (prepare_tm t) d) by (rewrite Ed; now apply in_map). destruct (Forall2_in_l _ _ _ _ Eb X) as (rs & H1 & H2). eauto. }
    assert (Rs : forall rs, In rs base -> exists t, In t d0 /\ base_rules_of d (prepare_tm t) = Ok rs).
    { intros rs Hrs. destruct (Forall2_in_r _ _ _ _ Eb Hrs) as (t' & H1 & H2). rewrite Ed in H1. apply in_map_iff in H1 as (t & <- & Ht). eauto. }
    assert (Pl : forall t, In t d0 -> jplain_tm t = true) by (rewrite forallb_forall in Hpl; auto).
    set (nb := number_from 0 (concat base)) in *.
    assert (Unq : forall kr, In kr nb -> unstarred (snd kr) = true).
    { intros [k r] H. apply number_from_in in H. apply in_concat in H as (rs & Hrs & Hr). destruct (Rs rs Hrs) as (t & Ht & Hb).
      now destruct (jplain_base_rules d t rs (Pl t Ht) Hb r Hr). }
    rewrite (rmap_all_ext _ (fun tm => Ok (map (fun kr => with_id (fst kr) (snd kr)) (filter (fun kr => ueqb (r_tm (snd kr)) tm) nb)))) in Hn
      by (intro tm; now apply expand_unstarred).
    rewrite rmap_all_pure in Hn. cbn [rbind] in Hn.
    set (mid := concat (map _ (dedup_first (tm_ids d)))) in Hn.
    assert (Mid : forall rl, In rl mid <-> exists k r, In (k, r) nb /\ In (r_tm r) (tm_ids d) /\ rl = with_id k r).
    { intro rl. unfold mid. rewrite in_concat. split.
      - intros (l & Hl & Hr). apply in_map_iff in Hl as (tm & <- & Htm). apply in_map_iff in Hr as ([k r] & <- & Hf).
        apply filter_In in Hf as [Hf E]. apply ueqb_eq in E. cbn [snd fst] in *. exists k, r. repeat split; auto. rewrite E. now apply dedup_first_in.
      - intros (k & r & Hkr & Hid & ->). eexists. split; [apply in_map_iff; exists (r_tm r); split; [reflexivity|now apply dedup_first_in]|].
        apply in_map_iff. exists (k, r). split; auto. apply filter_In. split; auto. apply ueqb_refl. }
    destruct (rmap_all (resolve_parent mid) mid) as [rules'|e] eqn:Er; cbn [rbind] in Hn; [|discriminate].
    destruct (existsb rule_has_blank rules') in Hn; [discriminate|]. injection Hn as ->.
    apply rmap_all_ok in Er.
    assert (MidBase : forall rl, In rl mid -> exists k r t rs, rl = with_id k r /\ In t d0 /\ base_rules_of d (prepare_tm t) = Ok rs /\ In r rs).
    { intros rl H. apply Mid in H as (k & r & Hkr & _ & ->). apply number_from_in in Hkr. apply in_concat in Hkr as (rs & Hrs & Hr).
      destruct (Rs rs Hrs) as (t & Ht & Hb). exists k, r, t, rs. auto. }
    assert (InMid : forall t rs r, In t d0 -> In rs base -> base_rules_of d (prepare_tm t) = Ok rs -> In r rs -> exists k, In (with_id k r) mid).
    { intros t rs r Ht Hrs Hb Hr. assert (Hc : In r (concat base)) by (apply in_concat; eauto).
      destruct (number_from_all (concat base) 0 r Hc) as (k & Hk). exists k. apply Mid. exists k, r. repeat split; auto.
      destruct (jplain_base_rules d t rs (Pl t Ht) Hb r Hr) as (_ & _ & _ & Htm & _). rewrite Htm. unfold tm_ids. rewrite Ed, map_map. apply in_map_iff. exists t. auto. }
    assert (ParentInfo : forall t pm o, In t d0 -> In pm (t_poms t) -> In o (p_objs pm) -> ref_objmap o = true ->
              exists p, In p d0 /\ find_tm d0 (m_value (o_tm o)) = Some p /\ plain_map (t_subj p) = true /\ ott_of d o = spec_tt_subject (t_subj p) /\
                        tt_final (tt_early (t_subj p)) = spec_tt_subject (t_subj p) /\
                        (if self_objmap o then ueqb (t_src t) (t_src p) = true
                         else (ueqb (t_src t) (t_src p) && forallb (fun cp => ueqb (fst cp) (snd cp)) (o_joins o)) = false)).
    { intros t pm o Ht Hpm Ho Jo. unfold parents_ok in Hpo. rewrite forallb_forall in Hpo. specialize (Hpo t Ht). rewrite forallb_forall in Hpo. specialize (Hpo pm Hpm).
      rewrite forallb_forall in Hpo. specialize (Hpo o Ho). unfold parent_ok in Hpo. rewrite Jo in Hpo.
      destruct (find (fun p => ueqb (t_id p) (m_value (o_tm o))) d0) as [p|] eqn:Ef; [|discriminate].
      pose proof (find_some _ _ Ef) as [Hp _]. exists p. split; [exact Hp|]. split; [exact Ef|].
      pose proof (Pl p Hp) as Pp. unfold jplain_tm in Pp. rewrite !andb_true_iff in Pp. destruct Pp as [[[Psub _] _] _].
      split; [exact Psub|].
      assert (Ett : tt_final (tt_early (t_subj p)) = spec_tt_subject (t_subj p)).
      { apply tt_subject_is_spec. destruct (Tm p Hp) as (rs & _ & Hb). exact (base_rules_valid d (prepare_tm p) rs Hb). }
      split; [|split; [exact Ett|]].
      - destruct (ref_obj_fields o Jo) as (_ & Emt & _ & Eip). unfold ott_of. rewrite Eip, Emt. unfold parent_subject_tt. rewrite Ed, find_prepare, Ef. cbn [option_map].
        change (t_subj (prepare_tm p)) with (t_subj p). exact Ett.
      - destruct (self_objmap o); [exact Hpo|now apply negb_true_iff in Hpo]. }
    assert (ParentRule : forall pid p p0, find_tm d0 pid = Some p -> first_rule_of_tm mid pid = Some p0 ->
              r_src p0 = t_src p /\ r_sk p0 = m_kind (t_subj p) /\ r_sv p0 = m_value (t_subj p) /\ r_stt p0 = tt_final (tt_early (t_subj p)) /\ In p0 mid).
    { intros pid p p0 Hf Hfirst. unfold first_rule_of_tm in Hfirst. apply find_some in Hfirst as [Hp0 Etm]. apply ueqb_eq in Etm.
      destruct (MidBase p0 Hp0) as (k & r & t' & rs & -> & Ht' & Hb & Hr).
      destruct (jplain_base_rules d t' rs (Pl t' Ht') Hb r Hr) as (_ & Hsrc & _ & Htm & Esk & Esv & Estt & _).
      cbn [with_id r_tm] in Etm. rewrite Htm in Etm. pose proof (find_tm_nodup d0 t' Hnd Ht') as X. rewrite Etm, Hf in X. injection X as ->.
      cbn [with_id r_src r_sk r_sv r_stt]. auto. }
    assert (Resolved : forall p0, In p0 mid -> exists q, In q rules /\ resolve_parent mid p0 = Ok q /\ find_rule rules (r_id p0) = Some q).
    { intros p0 Hp0. destruct (Forall2_in_l _ _ _ _ Er Hp0) as (q & Hq & Hres). exists q. split; auto. split; auto.
      destruct (resolve_fields mid p0 q Hres) as (Eid & _). rewrite <- Eid. now apply find_rule_nodup. }
    (* the common analysis of a referencing rule of the table before parent resolution *)
    assert (RA : forall r r', In r mid -> r_ok r = KParent -> resolve_parent mid r = Ok r' ->
              exists k r0 t rs p p0,
                r = with_id k r0 /\ In t d0 /\ base_rules_of d (prepare_tm t) = Ok rs /\ In r0 rs /\ r_src r0 = t_src t /\ r_asserted r0 = asserted t /\
                find_tm d0 (r_ov r0) = Some p /\ plain_map (t_subj p) = true /\ r_ott r0 = spec_tt_subject (t_subj p) /\ r_ld r0 = LDNone /\ r_ldv r0 = [] /\
                first_rule_of_tm mid (r_ov r0) = Some p0 /\ In p0 mid /\
                r_src p0 = t_src p /\ r_sk p0 = m_kind (t_subj p) /\ r_sv p0 = m_value (t_subj p) /\ r_stt p0 = spec_tt_subject (t_subj p) /\
                (match r_ojoin r0 with
                 | [] => r_ok r' = r_sk p0 /\ r_ov r' = r_sv p0 /\ r_ott r' = r_stt p0 /\ r_ojoin r' = [] /\ t_src p = t_src t
                 | _ => r_ok r' = KParent /\ r_ov r' = r_id p0 /\ r_ott r' = r_ott r0 /\ r_ojoin r' = r_ojoin r0
                 end)).
    { intros r r' Hr Hk Hres. destruct (MidBase r Hr) as (k & r0 & t & rs & -> & Ht & Hb & Hr0).
      destruct (jplain_base_rules d t rs (Pl t Ht) Hb r0 Hr0) as (_ & Hsrc & Hass & _ & _ & _ & _ & Hjoin).
      cbn [with_id r_ok] in Hk. destruct (Hjoin Hk) as (pm & o & Hpm & Ho & Jo & Eov & Eoj & Eott & Eld & Eldv).
      destruct (ParentInfo t pm o Ht Hpm Ho Jo) as (p & Hp & Hf & Hpp & Eottp & Ettp & Hsrcs).
      destruct (resolve_join mid (with_id k r0) r' Hk Hres) as (p0 & Hfirst & Hno & Hyes). cbn [with_id r_ov r_src r_ojoin r_ott] in Hfirst, Hno, Hyes.
      rewrite <- Eov in Hf.
      destruct (ParentRule (r_ov r0) p p0 Hf Hfirst) as (Esrc0 & Esk0 & Esv0 & Estt0 & Hp0mid).
      rewrite Hsrc, Esrc0, Eoj in Hno, Hyes. rewrite <- Eott in Eottp.
      exists k, r0, t, rs, p, p0. rewrite Estt0, Ettp. repeat (split; [assumption || reflexivity|]).
      rewrite Eoj. unfold ref_objmap in Jo.
      destruct (o_joins o) as [|c cs] eqn:Ej.
      - assert (Es : self_objmap o = true).
        { apply orb_true_iff in Jo as [Jo|Jo]; [|exact Jo]. destruct (join_obj_fields o Jo) as (_ & _ & X & _). now contradiction X. }
        rewrite Es in Hsrcs. cbn [forallb] in Hyes. rewrite Hsrcs in Hyes. destruct (Hyes eq_refl) as (A & B & C & D).
        rewrite Estt0, Ettp in C. apply ueqb_eq in Hsrcs. repeat split; auto.
      - assert (Es : self_objmap o = false) by (unfold self_objmap; rewrite Ej; now rewrite andb_false_r).
        rewrite Es in Hsrcs. destruct (Hno Hsrcs) as (A & B & C & D). auto. }
    intro x. unfold spec_lines. rewrite mem_dedup, in_flat_map. split.
    - intros (t & Ht & Hx). destruct (asserted t) eqn:Ea; [|contradiction]. apply in_flat_map in Hx as (sr & Hsr & Hx).
      destruct (Tm t Ht) as (rs & Hrs & Hb).
      assert (Hpar : forall pm o, In pm (t_poms t) -> In o (p_objs pm) -> ref_objmap o = true ->
                exists p, find_tm d0 (m_value (o_tm o)) = Some p /\ plain_map (t_subj p) = true /\ ott_of d o = spec_tt_subject (t_subj p)).
      { intros pm o Hpm Ho Jo. destruct (ParentInfo t pm o Ht Hpm Ho Jo) as (p & _ & A & B & C & _). eauto. }
      destruct (proj1 (tm_lines_equiv2 scfg fe d0 tables d t sr rs (Pl t Ht) Hpar Hb x) Hx) as (rl0 & Hrl0 & Hcase).
      destruct (jplain_base_rules d t rs (Pl t Ht) Hb rl0 Hrl0) as (_ & Hsrc & Hass & _).
      destruct (InMid t rs rl0 Ht Hrs Hb Hrl0) as (k & Hmid).
      destruct (Forall2_in_l _ _ _ _ Er Hmid) as (r' & Hr' & Hres).
      destruct (resolve_fields mid (with_id k rl0) r' Hres) as (_ & _ & F3 & F4 & F5 & F6 & F7 & F8 & F9 & F10 & F11 & F12 & F13).
      cbn [with_id r_src r_asserted r_sk r_sv r_stt r_pk r_pv r_gk r_gv r_ld r_ldv] in F3, F4, F5, F6, F7, F8, F9, F10, F11, F12, F13.
      destruct Hcase as [[Hnk Hline]|[Hk (p & psr & Hf & Hpp & Eott & Hpsr & Hline)]].
      + left. assert (E : r' = with_id k rl0) by (apply (resolve_plain mid (with_id k rl0) r' Hnk Hres)). subst r'.
        exists (with_id k rl0), sr. split; [exact Hr'|]. split; [cbn [with_id r_asserted]; now rewrite Hass|]. split; [exact Hnk|].
        split; [cbn [with_id r_src]; now rewrite Hsrc|]. exact Hline.
      + assert (Hk' : r_ok (with_id k rl0) = KParent) by exact Hk.
        destruct (RA (with_id k rl0) r' Hmid Hk' Hres) as (k' & r0' & t' & rs' & p' & p0 & Heq & _ & _ & _ & _ & _ & Hf' & _ & _ & Eld & Eldv & _ & Hp0mid & P1 & P2 & P3 & P4 & Hkind).
        assert (Eov : r_ov r0' = r_ov rl0) by (apply (f_equal r_ov) in Heq; exact (eq_sym Heq)).
        assert (Eot : r_ott r0' = r_ott rl0) by (apply (f_equal r_ott) in Heq; exact (eq_sym Heq)).
        assert (Eoj : r_ojoin r0' = r_ojoin rl0) by (apply (f_equal r_ojoin) in Heq; exact (eq_sym Heq)).
        assert (Eld0 : r_ld r0' = r_ld rl0) by (apply (f_equal r_ld) in Heq; exact (eq_sym Heq)).
        assert (Eldv0 : r_ldv r0' = r_ldv rl0) by (apply (f_equal r_ldv) in Heq; exact (eq_sym Heq)).
        rewrite Eov, Hf in Hf'. injection Hf' as <-. rewrite Eoj in Hkind.
        destruct (r_ojoin rl0) as [|c cs] eqn:Ej.
        * (* no join condition: the rule has become a plain rule that reads the parent's subject map on the same row *)
          destruct Hkind as (K1 & K2 & K3 & K4 & Ksrc). cbn [joined_rows] in Hpsr. destruct Hpsr as [<-|[]].
          left. exists r', sr. split; [exact Hr'|]. split; [now rewrite F4, Hass|].
          split; [rewrite K1, P2; intro X; unfold plain_map in Hpp; apply andb_true_iff in Hpp as [Y _]; rewrite X in Y; discriminate|].
          split; [now rewrite F3, Hsrc|].
          rewrite (doc_rule_line_as_join scfg r' sr) by (rewrite ?F12, ?F13, <- ?Eld0, <- ?Eldv0; assumption).
          rewrite K1, K2, P2, P3. rewrite <- Hline. apply doc_join_line_fields; auto. now rewrite K3, P4, Eott.
        * destruct Hkind as (K1 & K2 & K3 & K4). cbn [joined_rows] in Hpsr. apply filter_In in Hpsr as [Hpsr Hc].
          destruct (Resolved p0 Hp0mid) as (q & Hq & Hresq & Hfq).
          destruct (resolve_fields mid p0 q Hresq) as (_ & _ & Q3 & _ & Q5 & Q6 & _).
          right. exists r', q, sr, psr. split; [exact Hr'|]. split; [now rewrite F4, Hass|]. split; [exact K1|]. split; [now rewrite K2|].
          split; [now rewrite F3, Hsrc|]. split; [now rewrite Q3, P1|]. split; [now rewrite K4|].
          rewrite Q5, Q6, P2, P3. rewrite <- Hline. apply doc_join_line_fields; auto. now rewrite K3, Eot.
    - intros [(rl & sr & Hrl & Has & Hnk & Hsr & Hline)|(rl & q & csr & psr & Hrl & Has & Hk & Hfq & Hcsr & Hpsr & Hc & Hline)].
      + destruct (Forall2_in_r _ _ _ _ Er Hrl) as (r & Hr & Hres).
        destruct (mkind_eqb (r_ok r) KParent) eqn:Ekr.
        * (* a referencing rule without join condition, rewritten by the parser *)
          apply mkind_eqb_eq in Ekr.
          destruct (RA r rl Hr Ekr Hres) as (k & r0 & t & rs & p & p0 & -> & Ht & Hb & Hr0 & Hsrc & Hass & Hf & Hpp & Eott & Eld & Eldv & _ & _ & P1 & P2 & P3 & P4 & Hkind).
          destruct (resolve_fields mid (with_id k r0) rl Hres) as (_ & _ & F3 & F4 & F5 & F6 & F7 & F8 & F9 & F10 & F11 & F12 & F13).
          cbn [with_id r_src r_asserted r_sk r_sv r_stt r_pk r_pv r_gk r_gv r_ld r_ldv] in F3, F4, F5, F6, F7, F8, F9, F10, F11, F12, F13.
          destruct (r_ojoin r0) as [|c cs] eqn:Ej; [|exfalso; apply Hnk; apply Hkind].
          destruct Hkind as (K1 & K2 & K3 & K4 & Ksrc).
          exists t. split; auto. rewrite <- Hass, <- F4, Has. apply in_flat_map. exists sr. split; [now rewrite <- Hsrc, <- F3|].
          assert (Hpar : forall pm o, In pm (t_poms t) -> In o (p_objs pm) -> ref_objmap o = true ->
                    exists p, find_tm d0 (m_value (o_tm o)) = Some p /\ plain_map (t_subj p) = true /\ ott_of d o = spec_tt_subject (t_subj p)).
          { intros pm o Hpm Ho Jo. destruct (ParentInfo t pm o Ht Hpm Ho Jo) as (p1 & _ & A & B & C & _). eauto. }
          apply (tm_lines_equiv2 scfg fe d0 tables d t sr rs (Pl t Ht) Hpar Hb). exists r0. split; auto. right.
          split; [exact Ekr|]. exists p, sr. split; [exact Hf|]. split; [exact Hpp|]. split; [exact Eott|]. split; [rewrite Ej; now left|].
          rewrite (doc_rule_line_as_join scfg rl sr) in Hline by (rewrite ?F12, ?F13; assumption).
          rewrite K1, K2, P2, P3 in Hline. rewrite <- Hline. symmetry. apply doc_join_line_fields; auto. now rewrite K3, P4, Eott.
        * apply mkind_eqb_neq in Ekr.
          assert (E : rl = r) by (apply (resolve_plain mid _ _ Ekr Hres)). subst rl.
          destruct (MidBase r Hr) as (k & r0 & t & rs & -> & Ht & Hb & Hr0).
          destruct (jplain_base_rules d t rs (Pl t Ht) Hb r0 Hr0) as (_ & Hsrc & Hass & _).
          cbn [with_id r_asserted r_src r_ok] in Has, Hsr, Ekr. rewrite doc_rule_line_with_id in Hline.
          exists t. split; auto. rewrite <- Hass, Has. apply in_flat_map. exists sr. split; [now rewrite <- Hsrc|].
          assert (Hpar : forall pm o, In pm (t_poms t) -> In o (p_objs pm) -> ref_objmap o = true ->
                    exists p, find_tm d0 (m_value (o_tm o)) = Some p /\ plain_map (t_subj p) = true /\ ott_of d o = spec_tt_subject (t_subj p)).
          { intros pm o Hpm Ho Jo. destruct (ParentInfo t pm o Ht Hpm Ho Jo) as (p & _ & A & B & C & _). eauto. }
          apply (tm_lines_equiv2 scfg fe d0 tables d t sr rs (Pl t Ht) Hpar Hb). exists r0. split; auto.
      + destruct (Forall2_in_r _ _ _ _ Er Hrl) as (r & Hr & Hres).
        assert (Hk0 : r_ok r = KParent).
        { destruct (mkind_eqb (r_ok r) KParent) eqn:E; [now apply mkind_eqb_eq|]. apply mkind_eqb_neq in E.
          assert (X : rl = r) by (apply (resolve_plain mid _ _ E Hres)). subst rl. now contradiction E. }
        destruct (RA r rl Hr Hk0 Hres) as (k & r0 & t & rs & p & p0 & -> & Ht & Hb & Hr0 & Hsrc & Hass & Hf & Hpp & Eott & Eld & Eldv & _ & Hp0mid & P1 & P2 & P3 & P4 & Hkind).
        destruct (r_ojoin r0) as [|c cs] eqn:Ej.
        { exfalso. destruct Hkind as (K1 & _). rewrite Hk, P2 in K1. unfold plain_map in Hpp. apply andb_true_iff in Hpp as [Y _]. rewrite <- K1 in Y. discriminate. }
        destruct Hkind as (K1 & K2 & K3 & K4).
        destruct (Resolved p0 Hp0mid) as (q' & Hq' & Hresq & Hfq').
        rewrite K2, Hfq' in Hfq. injection Hfq as <-.
        destruct (resolve_fields mid p0 q' Hresq) as (_ & _ & Q3 & _ & Q5 & Q6 & _).
        destruct (resolve_fields mid (with_id k r0) rl Hres) as (_ & _ & F3 & F4 & F5 & F6 & F7 & F8 & F9 & F10 & F11 & _).
        cbn [with_id r_src r_asserted r_sk r_sv r_stt r_pk r_pv r_gk r_gv] in F3, F4, F5, F6, F7, F8, F9, F10, F11.
        exists t. split; auto. rewrite <- Hass, <- F4, Has. apply in_flat_map. exists csr. split; [now rewrite <- Hsrc, <- F3|].
        assert (Hpar : forall pm o, In pm (t_poms t) -> In o (p_objs pm) -> ref_objmap o = true ->
                  exists p, find_tm d0 (m_value (o_tm o)) = Some p /\ plain_map (t_subj p) = true /\ ott_of d o = spec_tt_subject (t_subj p)).
        { intros pm o Hpm Ho Jo. destruct (ParentInfo t pm o Ht Hpm Ho Jo) as (p1 & _ & A & B & C & _). eauto. }
        apply (tm_lines_equiv2 scfg fe d0 tables d t csr rs (Pl t Ht) Hpar Hb). exists r0. split; auto. right.
        split; [exact Hk0|]. exists p, psr. split; [exact Hf|]. split; [exact Hpp|]. split; [exact Eott|].
        split; [rewrite Ej; cbn [joined_rows]; apply filter_In; split; [now rewrite <- P1, <- Q3|now rewrite <- K4]|].
        rewrite <- Hline, Q5, Q6, P2, P3. symmetry. apply doc_join_line_fields; auto.
  Qed.
End DocJoinEquiv.

(* ================================================================ Part B: the engine on the preprocessed frames *)
Lemma kept_sval_rget scfg na refs raw n : s_na scfg = na -> raw_has_null refs raw = false -> row_has_null na refs (str_row raw) = false -> In n refs ->
  sval scfg (srow_of_raw raw) n = rget n (null_to_text na (str_row raw)) /\
  sval scfg (srow_of (null_to_text na (str_row raw))) n = sval scfg (srow_of_raw raw) n.
Proof.
  intros Hna H1 H2 Hn. rewrite sval_raw. unfold sval. rewrite assoc_srow_of, rget_null_to_text. unfold rget. fold (rget n (str_row raw)).
  rewrite ReadersP.assoc_str_row. destruct (assoc n raw) as [c|] eqn:E; [|split; reflexivity]. cbn [option_map].
  assert (N1 : c <> CNone /\ c <> CNaN).
  { split; intro X; subst c; assert (Y : raw_has_null refs raw = true) by (apply raw_has_null_iff; exists n; auto); congruence. }
  assert (N2 : is_na na (py_str c) = false).
  { destruct (is_na na (py_str c)) eqn:X; auto. exfalso.
    assert (Y : row_has_null na refs (str_row raw) = true)
      by (apply row_has_null_iff; exists n, (py_str c); repeat split; auto; [rewrite ReadersP.assoc_str_row, E; reflexivity|now apply mem_In]). congruence. }
  rewrite N2. unfold is_na in N2. rewrite Hna, N2. destruct c; try (split; reflexivity); now destruct N1.
Qed.
Lemma survive_of_some scfg na refs raw : s_na scfg = na -> (forall n, In n refs -> sval scfg (srow_of_raw raw) n <> None) ->
  raw_has_null refs raw = false /\ row_has_null na refs (str_row raw) = false.
Proof.
  intros Hna Hall. split.
  - destruct (raw_has_null refs raw) eqn:E; auto. apply raw_has_null_iff in E as (n & Hn & Hc). exfalso. apply (Hall n Hn).
    rewrite sval_raw. destruct Hc as [Hc|Hc]; now rewrite Hc.
  - destruct (row_has_null na refs (str_row raw)) eqn:E; auto. apply row_has_null_iff in E as (n & v & Hn & Ev & Hv). exfalso. apply (Hall n Hn).
    rewrite sval_raw. rewrite ReadersP.assoc_str_row in Ev. destruct (assoc n raw) as [c|]; [|discriminate]. cbn [option_map] in Ev. injection Ev as <-.
    apply mem_In in Hv. rewrite <- Hna in Hv. destruct c; try reflexivity; now rewrite Hv.
Qed.
Lemma spec_lex_some_names scfg k v tt dt sr l : is_plain k = true -> spec_lex scfg k v tt dt sr = Some l -> forall n, In n (names (segs_of k v)) -> sval scfg sr n <> None.
Proof. intros Hk E n Hn X. rewrite (spec_lex_null scfg k v tt dt sr n Hk Hn X) in E. discriminate. Qed.

Section JoinRows.
  Variables (scfg : scfg) (rl q : rule) (na crefs prefs : list ustr) (rawsC rawsP : list rawrow).
  Hypothesis Hna : s_na scfg = na.
  Hypothesis HS : is_plain (r_sk rl) = true.
  Hypothesis HP : is_plain (r_pk rl) = true.
  Hypothesis HQ : is_plain (r_sk q) = true.
  Hypothesis Hld : r_ld rl = LDNone /\ r_ldk rl = KNone /\ r_ldv rl = [].
  Hypothesis HG : is_plain (r_gk rl) = true \/ (r_gk rl = KNone /\ r_gv rl = []).
  Hypothesis Htg : tidy_graph rl.
  Hypothesis Hcrefs : forall n, In n crefs <-> In n (child_names rl) \/ In n (joins_child (r_ojoin rl)).
  Hypothesis Hprefs : forall n, In n prefs <-> In n (parent_names q) \/ In n (joins_parent (r_ojoin rl)).

  Lemma graph_names_some sr g : rule_graph_opt scfg rl sr = Some g -> forall n, In n (names (segs_of (r_gk rl) (r_gv rl))) -> sval scfg sr n <> None.
  Proof.
    unfold rule_graph_opt. intros E n Hn. destruct (is_plain (r_gk rl)) eqn:Eg.
    - destruct (ueqb (r_gv rl) Tables.c_rml_default_graph) eqn:Ed; cbn [andb negb] in E.
      + rewrite (Htg Eg Ed) in Hn. exfalso. clear - Hn. cbn [segs_of] in Hn. induction (r_gv rl); simpl in Hn; auto.
      + unfold opt_term in E. destruct (spec_lex scfg (r_gk rl) (r_gv rl) TIri [] sr) as [l|] eqn:El; [|discriminate]. exact (spec_lex_some_names scfg _ _ _ _ sr l Eg El n Hn).
    - destruct HG as [X|[A B]]; [congruence|]. rewrite A, B in Hn. contradiction.
  Qed.

  (* on a pair of kept rows the engine-level statement and the document-level statement coincide *)
  Lemma join_pair_lines rc rp x : (forall n, In n crefs -> assoc n rc <> None) ->
    raw_has_null crefs rc = false -> row_has_null na crefs (str_row rc) = false -> raw_has_null prefs rp = false -> row_has_null na prefs (str_row rp) = false ->
    (spec_join_line scfg rl q (srow_of (null_to_text na (str_row rc))) (srow_of (null_to_text na (str_row rp))) = Some x <->
     doc_join_line scfg rl (r_sk q) (r_sv q) (srow_of_raw rc) (srow_of_raw rp) = Some x).
  Proof.
    intros Hc0 C1 C2 P1 P2. destruct Hld as (El & _ & Elv).
    set (c := srow_of (null_to_text na (str_row rc))). set (p := srow_of (null_to_text na (str_row rp))).
    assert (AgC : forall n, In n (child_names rl) -> sval scfg c n = sval scfg (srow_of_raw rc) n).
    { intros n Hn. apply (kept_sval_rget scfg na crefs rc n Hna C1 C2). apply Hcrefs. now left. }
    assert (AgP : forall n, In n (parent_names q) -> sval scfg p n = sval scfg (srow_of_raw rp) n).
    { intros n Hn. apply (kept_sval_rget scfg na prefs rp n Hna P1 P2). apply Hprefs. now left. }
    unfold spec_join_line, doc_join_line, spec_po_gen, spec_suffix_of, spec_graph_line. cbn [join_rule r_pk r_pv r_ok r_ov r_ott r_ldv r_ld r_ldk]. rewrite El, Elv.
    rewrite (spec_lex_ext scfg (r_sk rl) (r_sv rl) (r_stt rl) [] c (srow_of_raw rc) HS) by (intros n Hn; apply AgC; unfold child_names; rewrite !in_app_iff; tauto).
    rewrite (spec_lex_ext scfg (r_pk rl) (r_pv rl) TIri [] c (srow_of_raw rc) HP) by (intros n Hn; apply AgC; unfold child_names; rewrite !in_app_iff; tauto).
    rewrite (spec_lex_ext scfg (r_sk q) (r_sv q) (r_ott rl) [] p (srow_of_raw rp) HQ) by (intros n Hn; apply AgP; exact Hn).
    destruct (spec_lex scfg (r_sk rl) (r_sv rl) (r_stt rl) [] (srow_of_raw rc)) as [s|]; [|tauto].
    destruct (spec_lex scfg (r_pk rl) (r_pv rl) TIri [] (srow_of_raw rc)) as [pl|]; [|tauto].
    destruct (spec_lex scfg (r_sk q) (r_sv q) (r_ott rl) [] (srow_of_raw rp)) as [ol|]; [|tauto].
    rewrite app_nil_r.
    assert (EG : (if is_plain (r_gk rl) && negb (ueqb (r_gv rl) Tables.c_rml_default_graph) then opt_term TIri (spec_lex scfg (r_gk rl) (r_gv rl) TIri [] c) else Some [])
                 = rule_graph_opt scfg rl (srow_of_raw rc)).
    { unfold rule_graph_opt. destruct (is_plain (r_gk rl)) eqn:Eg; cbn [andb]; [|reflexivity].
      rewrite (spec_lex_ext scfg (r_gk rl) (r_gv rl) TIri [] c (srow_of_raw rc) Eg); [reflexivity|]. intros n Hn. apply AgC. unfold child_names. rewrite !in_app_iff. tauto. }
    destruct (s_nquads scfg) eqn:Hnq.
    - rewrite EG. destruct (rule_graph_opt scfg rl (srow_of_raw rc)); tauto.
    - assert (T : rule_graph_opt scfg rl (srow_of_raw rc) <> None).
      { apply (graph_opt_total scfg rl). intros n Hn.
        assert (Hn' : In n crefs) by (apply Hcrefs; left; unfold child_names; rewrite !in_app_iff; tauto).
        destruct (kept_sval_rget scfg na crefs rc n Hna C1 C2 Hn') as [E _]. rewrite sval_raw.
        destruct (assoc n rc) as [cl|] eqn:Ec.
        - assert (N1 : cl <> CNone /\ cl <> CNaN).
          { split; intro X; subst cl; assert (Y : raw_has_null crefs rc = true) by (apply raw_has_null_iff; exists n; auto); congruence. }
          assert (N2 : mem (py_str cl) (s_na scfg) = false).
          { destruct (mem (py_str cl) (s_na scfg)) eqn:X; auto. exfalso.
            assert (Y : row_has_null na crefs (str_row rc) = true)
              by (apply row_has_null_iff; exists n, (py_str cl); repeat split; auto; [rewrite ReadersP.assoc_str_row, Ec; reflexivity|rewrite <- Hna; now apply mem_In]). congruence. }
          rewrite N2. destruct cl; try discriminate; now destruct N1.
        - exfalso. exact (Hc0 n Hn' Ec). }
      destruct (rule_graph_opt scfg rl (srow_of_raw rc)); [tauto|now contradiction T].
  Qed.

  Hypothesis HcolsC : forall raw n, In raw rawsC -> In n crefs -> assoc n raw <> None.

  Theorem join_frames_are_delivered_rows x :
    (exists c p, In c (preprocess na crefs rawsC) /\ In p (preprocess na prefs rawsP) /\ joins c p (r_ojoin rl) /\
                 spec_join_line scfg rl q (srow_of c) (srow_of p) = Some x) <->
    (exists rc rp, In rc rawsC /\ In rp rawsP /\ conds_hold scfg (srow_of_raw rc) (srow_of_raw rp) (r_ojoin rl) = true /\
                   doc_join_line scfg rl (r_sk q) (r_sv q) (srow_of_raw rc) (srow_of_raw rp) = Some x).
  Proof.
    assert (Conds : forall rc rp, raw_has_null crefs rc = false -> row_has_null na crefs (str_row rc) = false ->
                      raw_has_null prefs rp = false -> row_has_null na prefs (str_row rp) = false ->
                      (joins (null_to_text na (str_row rc)) (null_to_text na (str_row rp)) (r_ojoin rl) <->
                       conds_hold scfg (srow_of_raw rc) (srow_of_raw rp) (r_ojoin rl) = true)).
    { intros rc rp C1 C2 P1 P2. apply joins_iff_conds_hold. intros cd Hcd. split.
      - apply (kept_sval_rget scfg na crefs rc (fst cd) Hna C1 C2). apply Hcrefs. right. unfold joins_child. now apply in_map.
      - apply (kept_sval_rget scfg na prefs rp (snd cd) Hna P1 P2). apply Hprefs. right. unfold joins_parent. now apply in_map. }
    split.
    - intros (c & p & Hc & Hp & Hj & Hx). apply preprocess_in in Hc as (rc & Hrc & C1 & C2 & ->). apply preprocess_in in Hp as (rp & Hrp & P1 & P2 & ->).
      exists rc, rp. split; [exact Hrc|]. split; [exact Hrp|]. split; [now apply (Conds rc rp C1 C2 P1 P2)|].
      apply (join_pair_lines rc rp x (fun n => HcolsC rc n Hrc) C1 C2 P1 P2). exact Hx.
    - intros (rc & rp & Hrc & Hrp & Hc & Hx).
      assert (Parts : exists s pl ol g, spec_lex scfg (r_sk rl) (r_sv rl) (r_stt rl) [] (srow_of_raw rc) = Some s /\
                        spec_lex scfg (r_pk rl) (r_pv rl) TIri [] (srow_of_raw rc) = Some pl /\
                        spec_lex scfg (r_sk q) (r_sv q) (r_ott rl) [] (srow_of_raw rp) = Some ol /\ rule_graph_opt scfg rl (srow_of_raw rc) = Some g).
      { unfold doc_join_line in Hx. destruct (spec_lex scfg (r_sk rl) _ _ _ _) as [s|]; [|discriminate]. destruct (spec_lex scfg (r_pk rl) _ _ _ _) as [pl|]; [|discriminate].
        destruct (spec_lex scfg (r_sk q) _ _ _ _) as [ol|]; [|discriminate]. destruct (rule_graph_opt scfg rl _) as [g|]; [|discriminate]. eauto 10. }
      destruct Parts as (s & pl & ol & g & Es & Ep & Eo & Eg).
      assert (CondVals : forall cd, In cd (r_ojoin rl) -> sval scfg (srow_of_raw rc) (fst cd) <> None /\ sval scfg (srow_of_raw rp) (snd cd) <> None).
      { intros cd Hcd. unfold conds_hold in Hc. rewrite forallb_forall in Hc. specialize (Hc cd Hcd).
        destruct (sval scfg (srow_of_raw rc) (fst cd)); [|discriminate]. destruct (sval scfg (srow_of_raw rp) (snd cd)); [|discriminate]. split; discriminate. }
      assert (AllC : forall n, In n crefs -> sval scfg (srow_of_raw rc) n <> None).
      { intros n Hn. apply Hcrefs in Hn as [Hn|Hn].
        - unfold child_names in Hn. rewrite !in_app_iff in Hn. destruct Hn as [Hn|[Hn|[Hn|Hn]]].
          + exact (spec_lex_some_names scfg _ _ _ _ _ s HS Es n Hn).
          + exact (spec_lex_some_names scfg _ _ _ _ _ pl HP Ep n Hn).
          + exfalso. destruct Hld as (_ & Elk & Elv). rewrite Elk, Elv in Hn. exact Hn.
          + exact (graph_names_some (srow_of_raw rc) g Eg n Hn).
        - unfold joins_child in Hn. apply in_map_iff in Hn as (cd & <- & Hcd). apply (CondVals cd Hcd). }
      assert (AllP : forall n, In n prefs -> sval scfg (srow_of_raw rp) n <> None).
      { intros n Hn. apply Hprefs in Hn as [Hn|Hn].
        - exact (spec_lex_some_names scfg _ _ _ _ _ ol HQ Eo n Hn).
        - unfold joins_parent in Hn. apply in_map_iff in Hn as (cd & <- & Hcd). apply (CondVals cd Hcd). }
      destruct (survive_of_some scfg na crefs rc Hna AllC) as [C1 C2]. destruct (survive_of_some scfg na prefs rp Hna AllP) as [P1 P2].
      exists (null_to_text na (str_row rc)), (null_to_text na (str_row rp)).
      split; [apply preprocess_in; exists rc; auto|]. split; [apply preprocess_in; exists rp; auto|].
      split; [now apply (Conds rc rp C1 C2 P1 P2)|]. apply (join_pair_lines rc rp x (fun n => HcolsC rc n Hrc) C1 C2 P1 P2). exact Hx.
  Qed.
End JoinRows.

(* ---------------------------------------------------------------- engine(document) = generation rules(document), referencing object maps included *)
Definition join_rule_ok (rules : list rule) (rl : rule) : Prop :=
  r_ok rl = KParent /\ pos_ok (r_sk rl) (r_sv rl) (r_stt rl) /\ pos_ok (r_pk rl) (r_pv rl) TIri /\
  (r_ld rl = LDNone /\ r_ldk rl = KNone /\ r_ldv rl = []) /\
  (pos_ok (r_gk rl) (r_gv rl) TIri \/ (r_gk rl = KNone /\ r_gv rl = [])) /\ tidy_graph rl /\
  r_sjoin rl = [] /\
  (forall n k, In n (child_names rl ++ joins_child (r_ojoin rl)) -> n <> parent_prefix ++ k) /\
  exists q, find_rule rules (r_ov rl) = Some q /\ is_plain (r_sk q) = true /\ term_wf (r_sk q) (r_sv q) = true /\
            (r_ott rl = TLit -> lits_neutral (segs_of (r_sk q) (r_sv q)) = true) /\ r_sjoin q = [].

Lemma join_crefs_in fe rules rl : join_rule_ok rules rl ->
  forall n, In n (join_crefs fe rules rl) <-> In n (child_names rl) \/ In n (joins_child (r_ojoin rl)).
Proof.
  intros (Hk & HS & HP & (El & Elk & Elv) & HG & _ & Hsj & _) n. unfold join_crefs. rewrite mem_dedup, app_nil_r. unfold refs_fuel.
  rewrite (rule_refs_plain _ _ _ rl) by (try (destruct HS as [X _]; now destruct (r_sk rl)); now rewrite Hk).
  rewrite Hsj, Hk. cbn [pos_refs joins_child map app].
  rewrite (pos_refs_names _ (r_sk rl) (r_sv rl)) by (left; split; apply HS).
  rewrite (pos_refs_names _ (r_pk rl) (r_pv rl)) by (left; split; apply HP).
  rewrite (pos_refs_names _ (r_gk rl) (r_gv rl)) by (destruct HG as [G|G]; [left; split; apply G|now right]).
  rewrite (pos_refs_names _ (r_ldk rl) (r_ldv rl)) by (right; auto).
  unfold child_names. rewrite !in_app_iff. tauto.
Qed.
Lemma join_prefs_in fe rules rl q : is_plain (r_sk q) = true -> term_wf (r_sk q) (r_sv q) = true -> r_sjoin q = [] ->
  forall n, In n (join_prefs fe rules rl q) <-> In n (parent_names q) \/ In n (joins_parent (r_ojoin rl)).
Proof.
  intros Hk Hwf Hsj n. unfold join_prefs. rewrite mem_dedup. unfold refs_fuel. cbn [rule_refs]. rewrite Hsj. cbn [joins_child map app].
  rewrite (pos_refs_names _ (r_sk q) (r_sv q)) by (left; auto). unfold parent_names.
  destruct (r_sk q) eqn:Ek; try discriminate Hk; rewrite !app_nil_r, in_app_iff; tauto.
Qed.

Section FinalJoin.
  Variables (cfg : ecfg) (fe : fenv) (scfg : scfg) (raw : ustr -> list rawrow).
  Hypothesis Hcfg : cfg_agree cfg scfg.
  Hypothesis Hnq : c_nquads cfg = s_nquads scfg.
  Hypothesis Hna : s_na scfg = c_na cfg.

  Theorem engine_document_is_spec_document_joins d0 rules l :
    forallb jplain_tm d0 = true -> nodupb (map t_id d0) = true -> parents_ok d0 = true -> normalise d0 = Ok rules -> nodupb (map r_id rules) = true ->
    (forall rl, In rl rules -> simple_rule rl \/ join_rule_ok rules rl) ->
    (* the readers deliver every referenced column; no data column is named like a parent_ column of a join *)
    (forall rl rw n, In rl rules -> In rw (raw (r_src rl)) -> In n (rule_names rl ++ child_names rl ++ joins_child (r_ojoin rl)) -> assoc n rw <> None) ->
    (forall src rw k, In rw (raw src) -> assoc (parent_prefix ++ k) rw = None) ->
    materialize_rules cfg fe rules (delivered cfg raw) = Ok l ->
    forall x, In x l <-> In x (spec_lines scfg fe d0 (spec_tables raw)).
  Proof.
    intros Hpl Hnd Hpo Hn Hnr Hrules Hcols Hnopar Hm x.
    rewrite (asserted_exactly cfg fe rules (delivered cfg raw) l Hm x).
    rewrite (doc_spec_is_rule_spec2 scfg fe (spec_tables raw) d0 rules Hpl Hnd Hpo Hn Hnr x).
    assert (Plain : forall rl ls, In rl rules -> simple_rule rl -> rule_triples cfg fe rules (delivered cfg raw) rl = Ok ls ->
              forall y, In y ls <-> exists rw, In rw (raw (r_src rl)) /\ doc_rule_line scfg rl (srow_of_raw rw) = Some y).
    { intros rl ls Hrl Hs Hls y. pose proof Hs as Hs0. destruct Hs as (Hok & Ht & Htg & Hplain & Hsj & Hoj).
      assert (Hok' : rule_ok (c_nquads cfg) rl) by now apply rule_ok_any.
      set (refs := rule_ref_set fe rules rl).
      assert (Hrefs : forall n, In n refs <-> In n (rule_names rl)) by (apply rule_ref_set_names; exact Hs0).
      destruct (plain_rule_is_spec cfg fe rules (delivered cfg raw) scfg Hcfg Hnq rl (c_na cfg) refs (raw (r_src rl)) Hna Hplain Hok'
                  (fun n Hn0 => proj2 (Hrefs n) Hn0) eq_refl) as [H1 _].
      rewrite (H1 ls Hls y). apply (frame_rows_are_delivered_rows scfg rl (c_na cfg) refs (raw (r_src rl)) Hna Hs0 Hrefs).
      intros rw n Hrw Hn0. apply (Hcols rl rw n Hrl Hrw). apply in_app_iff. left. now apply Hrefs. }
    assert (Join : forall rl ls, In rl rules -> join_rule_ok rules rl -> rule_triples cfg fe rules (delivered cfg raw) rl = Ok ls ->
              exists q, find_rule rules (r_ov rl) = Some q /\
              forall y, In y ls <-> exists rc rp, In rc (raw (r_src rl)) /\ In rp (raw (r_src q)) /\
                          conds_hold scfg (srow_of_raw rc) (srow_of_raw rp) (r_ojoin rl) = true /\
                          doc_join_line scfg rl (r_sk q) (r_sv q) (srow_of_raw rc) (srow_of_raw rp) = Some y).
    { intros rl ls Hrl Hj Hls. pose proof Hj as Hj0.
      destruct Hj as (Hk & HS & HP & Hld & HG & Htg & Hsj & Hnames & (q & Hq & Qk & Qwf & Qlit & Qsj)). exists q. split; [exact Hq|]. intro y.
      set (crefs := join_crefs fe rules rl). set (prefs := join_prefs fe rules rl q).
      assert (Hcr : forall n, In n crefs <-> In n (child_names rl) \/ In n (joins_child (r_ojoin rl))) by (apply join_crefs_in; exact Hj0).
      assert (Hpr : forall n, In n prefs <-> In n (parent_names q) \/ In n (joins_parent (r_ojoin rl))) by (apply join_prefs_in; auto).
      assert (HL : r_ld rl <> LDNone -> pos_ok (r_ldk rl) (r_ldv rl) TNone) by (intro X; destruct Hld as [Y _]; contradiction).
      assert (HGk : graph_ok (c_nquads cfg) rl).
      { intros _. destruct HG as [G|[G _]]; [now left|now right]. }
      rewrite (join_rule_is_spec cfg fe rules (delivered cfg raw) scfg Hcfg Hnq rl q Hk Hq HS HP (conj Qk (conj Qwf Qlit)) HL HGk
                 (c_na cfg) crefs prefs (raw (r_src rl)) (raw (r_src q)) Hna
                 (fun n Hn0 => proj2 (Hcr n) (or_introl Hn0)) (fun n Hn0 => proj2 (Hpr n) (or_introl Hn0)) eq_refl eq_refl).
      - apply (join_frames_are_delivered_rows scfg rl q (c_na cfg) crefs prefs (raw (r_src rl)) (raw (r_src q)) Hna (proj1 HS) (proj1 HP) Qk Hld).
        + destruct HG as [G|G]; [left; apply G|right; exact G].
        + exact Htg.
        + exact Hcr.
        + exact Hpr.
        + intros rw n Hrw Hn0. apply (Hcols rl rw n Hrl Hrw). rewrite !in_app_iff. apply Hcr in Hn0. tauto.
      - intros c k Hc. apply preprocess_in in Hc as (rc & Hrc & _ & _ & ->). rewrite rget_null_to_text. unfold rget. fold (rget (parent_prefix ++ k) (str_row rc)).
        rewrite ReadersP.assoc_str_row, (Hnopar (r_src rl) rc k Hrc). reflexivity.
      - intros n k Hn0. apply Hnames. apply in_app_iff. now left.
      - exact Hls. }
    assert (All : forall rl, In rl rules -> r_asserted rl = true -> exists ls, rule_triples cfg fe rules (delivered cfg raw) rl = Ok ls).
    { intros rl Hrl Ha. unfold materialize_rules in Hm. destruct (rmap_all _ (filter r_asserted rules)) as [lss|e] eqn:E; [|discriminate].
      apply rmap_all_ok in E. assert (X : In rl (filter r_asserted rules)) by (apply filter_In; auto).
      destruct (Forall2_in_l _ _ _ _ E X) as (ls & _ & Hls). eauto. }
    assert (Kind : forall rl, simple_rule rl -> r_ok rl <> KParent).
    { intros rl (_ & _ & _ & Hp & _) E. unfold plain_rule in Hp. rewrite E in Hp. cbn [mkind_eqb negb] in Hp. now rewrite !andb_false_r in Hp. }
    split.
    - intros (rl & ls & Hrl & Ha & Hls & Hx). destruct (Hrules rl Hrl) as [Hs|Hj].
      + left. apply (Plain rl ls Hrl Hs Hls) in Hx as (rw & Hrw & Hline). exists rl, (srow_of_raw rw). split; [exact Hrl|]. split; [exact Ha|]. split; [now apply Kind|].
        split; [unfold spec_tables; now apply in_map|exact Hline].
      + right. destruct (Join rl ls Hrl Hj Hls) as (q & Hq & Hiff). apply Hiff in Hx as (rc & rp & Hrc & Hrp & Hc & Hline).
        exists rl, q, (srow_of_raw rc), (srow_of_raw rp). split; [exact Hrl|]. split; [exact Ha|]. split; [apply Hj|]. split; [exact Hq|].
        split; [unfold spec_tables; now apply in_map|]. split; [unfold spec_tables; now apply in_map|]. auto.
    - intros [(rl & sr & Hrl & Ha & Hnk & Hsr & Hline)|(rl & q & csr & psr & Hrl & Ha & Hk & Hfq & Hcsr & Hpsr & Hc & Hline)].
      + destruct (Hrules rl Hrl) as [Hs|Hj]; [|exfalso; apply Hnk; apply Hj].
        unfold spec_tables in Hsr. apply in_map_iff in Hsr as (rw & <- & Hrw).
        destruct (All rl Hrl Ha) as (ls & Hls). exists rl, ls. repeat split; auto. apply (Plain rl ls Hrl Hs Hls). eauto.
      + destruct (Hrules rl Hrl) as [Hs|Hj]; [exfalso; now apply (Kind rl Hs)|].
        unfold spec_tables in Hcsr, Hpsr. apply in_map_iff in Hcsr as (rc & <- & Hrc). apply in_map_iff in Hpsr as (rp & <- & Hrp).
        destruct (All rl Hrl Ha) as (ls & Hls). exists rl, ls. repeat split; auto.
        destruct (Join rl ls Hrl Hj Hls) as (q' & Hq' & Hiff). rewrite Hfq in Hq'. injection Hq' as <-. apply Hiff. exists rc, rp. auto.
  Qed.
End FinalJoin.

(* ---------------------------------------------------------------- the hypotheses are decidable: the computable predicate of Model/Fragment.v *)
Lemma is_prefix_app p k : is_prefix p (p ++ k) = true.
Proof. induction p as [|a p IH]; simpl; auto. now rewrite N.eqb_refl. Qed.
Lemma join_ruleb_ok rules rl : join_ruleb rules rl = true -> join_rule_ok rules rl.
Proof.
  unfold join_ruleb, join_rule_ok. rewrite !andb_true_iff. intros [[[[[[[[A B] C] D] E] F] G] H] I].
  split; [now apply mkind_eqb_eq|]. split; [now apply pos_okb_ok|]. split; [now apply pos_okb_ok|].
  split. { destruct (r_ld rl); try discriminate. apply andb_true_iff in D as [D1 D2]. split; [reflexivity|]. split; [now apply mkind_eqb_eq|now apply ueqb_eq]. }
  split. { destruct (is_plain (r_gk rl)); apply andb_true_iff in E as [E1 E2]; [left; now apply pos_okb_ok|right; split; [now apply mkind_eqb_eq|now apply ueqb_eq]]. }
  split. { unfold tidy_graph. intros Hg Hd. rewrite Hg in E. apply andb_true_iff in E as [_ E2]. rewrite Hd in E2. cbn [negb orb] in E2. now apply mkind_eqb_eq. }
  split. { destruct (r_sjoin rl); [reflexivity|discriminate]. }
  split. { intros n k Hn ->. rewrite forallb_forall in H. specialize (H _ Hn). rewrite is_prefix_app in H. discriminate. }
  destruct (find_rule rules (r_ov rl)) as [q|]; [|discriminate]. exists q. rewrite !andb_true_iff in I. destruct I as [[[I1 I2] I3] I4].
  split; [reflexivity|]. split; [exact I1|]. split; [exact I2|]. split; [intro Et; now rewrite Et in I3|]. destruct (r_sjoin q); [reflexivity|discriminate].
Qed.

Theorem theorem_applies_joins_ok d0 : theorem_applies_joins d0 = true ->
  forallb jplain_tm d0 = true /\ nodupb (map t_id d0) = true /\ parents_ok d0 = true /\
  exists rules, normalise d0 = Ok rules /\ nodupb (map r_id rules) = true /\ forall rl, In rl rules -> simple_rule rl \/ join_rule_ok rules rl.
Proof.
  unfold theorem_applies_joins. rewrite !andb_true_iff. intros [[[A B] C] D]. split; [exact A|]. split; [exact B|]. split; [exact C|].
  destruct (normalise d0) as [rules|e]; [|discriminate]. exists rules. apply andb_true_iff in D as [D1 D2]. split; [reflexivity|]. split; [exact D1|].
  intros rl Hrl. rewrite forallb_forall in D2. specialize (D2 rl Hrl). apply orb_true_iff in D2 as [D2|D2]; [left; now apply simple_ruleb_ok|right; now apply join_ruleb_ok].
Qed.
