(* C07 / C01: a rule whose object is a referencing object map with join conditions: its statements are exactly, for every
   pair (child row, parent row) that agrees on all conditions, subject and predicate from the child row and the parent's
   subject term from the parent row -- the relational inner equi-join of the generation rules. *)
From Coq Require Import String Lia.
From Morph Require Import Base.UStr Gen.Tables Model.Terms Model.Data Model.Engine Model.Mapping Model.Spec
     Proofs.DataP Proofs.UStrP Proofs.GroupingP Proofs.TemplateP Proofs.TermP Proofs.RowwiseP Proofs.RowSpecP Proofs.RuleSpecP Proofs.QuotedP Proofs.JoinP.
Local Open Scope N_scope.

(* the rule mat_rule evaluates on the joined frame: the object position is the parent's subject map *)
Definition join_rule (rl q : rule) : rule :=
  {| r_id := r_id rl; r_tm := r_tm rl; r_src := r_src rl; r_asserted := r_asserted rl;
     r_sk := r_sk rl; r_sv := r_sv rl; r_stt := r_stt rl; r_pk := r_pk rl; r_pv := r_pv rl;
     r_ok := r_sk q; r_ov := r_sv q; r_ott := r_ott rl;
     r_ld := r_ld rl; r_ldk := r_ldk rl; r_ldv := r_ldv rl; r_gk := r_gk rl; r_gv := r_gv rl;
     r_sjoin := r_sjoin rl; r_ojoin := r_ojoin rl |}.
Definition spec_join_line (scfg : scfg) (rl q : rule) (csr psr : srow) : option ustr :=
  match spec_lex scfg (r_sk rl) (r_sv rl) (r_stt rl) [] csr with
  | None => None
  | Some s =>
      match spec_po_gen scfg (join_rule rl q) csr psr with
      | None => None
      | Some (p, o) => spec_graph_line scfg rl csr (render (r_stt rl) s ++ [32] ++ p ++ [32] ++ o)
      end
  end.
Definition child_names (rl : rule) : list ustr :=
  names (segs_of (r_sk rl) (r_sv rl)) ++ names (segs_of (r_pk rl) (r_pv rl)) ++ names (segs_of (r_ldk rl) (r_ldv rl)) ++ names (segs_of (r_gk rl) (r_gv rl)).
Definition parent_names (q : rule) : list ustr := names (segs_of (r_sk q) (r_sv q)).

Section JoinRow.
  Variables (cfg : ecfg) (fe : fenv) (scfg : scfg).
  Hypothesis Hcfg : cfg_agree cfg scfg.
  Hypothesis Hnq : c_nquads cfg = s_nquads scfg.
  Variables (rl q : rule).
  Hypothesis HS : pos_ok (r_sk rl) (r_sv rl) (r_stt rl).
  Hypothesis HP : pos_ok (r_pk rl) (r_pv rl) TIri.
  Hypothesis HO : is_plain (r_sk q) = true /\ term_wf (r_sk q) (r_sv q) = true /\ (r_ott rl = TLit -> lits_neutral (segs_of (r_sk q) (r_sv q)) = true).
  Hypothesis HL : r_ld rl <> LDNone -> pos_ok (r_ldk rl) (r_ldv rl) TNone.
  Hypothesis HG : graph_ok (c_nquads cfg) rl.

  Theorem join_row_is_spec x csr psr :
    row_agree scfg csr [] x (child_names rl) -> row_agree scfg psr parent_prefix x (parent_names q) ->
    match (rdo ts <- mat_terms cfg fe (join_rule rl q) parent_prefix x;
           rdo fs <- rflat_rows (finish_row cfg fe 0 rl) ts; extract_triples fs) with
    | Ok ls => exists line, spec_join_line scfg rl q csr psr = Some line /\ ls = [line]
    | Err _ => spec_join_line scfg rl q csr psr = None
    end.
  Proof.
    intros Hc Hp. unfold spec_join_line.
    assert (Sub : forall ns, (forall n, In n ns -> In n (child_names rl)) -> row_agree scfg csr [] x ns)
      by (intros ns H; eapply row_agree_sub; [exact H|exact Hc]).
    (* subject, from the child part of the row *)
    pose proof (term_step cfg scfg Hcfg (r_sk rl) (r_sv rl) (r_stt rl) [] col_subject x csr eq_refl HS) as T1.
    assert (A0 : row_agree scfg csr [] x (names (segs_of (r_sk rl) (r_sv rl)))) by (apply Sub; intros n Hn; unfold child_names; rewrite !in_app_iff; tauto).
    specialize (T1 A0).
    destruct (mat_template cfg (r_sv rl) (r_sk rl) col_subject [] (r_stt rl) [] x) as [r1|e1] eqn:E1.
    2:{ rewrite T1. unfold mat_terms. cbn [join_rule r_sk r_sv r_stt]. rewrite mat_pos_plain by apply HS. rewrite E1. cbn [rbind]. now rewrite !bindl_err. }
    destruct T1 as (s & Es & Gs & Us). rewrite Es.
    assert (D1 : same_data x r1) by (eapply unchanged_same_data; [|exact Us]; reflexivity).
    assert (M : mat_pos cfg fe (r_sk (join_rule rl q)) (r_sv (join_rule rl q)) col_subject [] (r_stt (join_rule rl q)) [] x = Ok [r1])
      by (cbn [join_rule r_sk r_sv r_stt]; rewrite mat_pos_plain by apply HS; now rewrite E1).
    assert (HO' : opos_ok parent_prefix (r_ok (join_rule rl q)) (r_ov (join_rule rl q)) (r_ott (join_rule rl q))).
    { cbn [join_rule r_ok r_ov r_ott]. destruct HO as (A & B & C). repeat split; auto using parent_alias_free. }
    assert (Hpl : row_agree scfg csr [] x (pl_names (join_rule rl q)))
      by (apply Sub; intros n Hn; unfold pl_names, child_names in *; cbn [join_rule r_pk r_pv r_ldk r_ldv] in Hn; rewrite !in_app_iff in *; tauto).
    pose proof (po_phase_gen cfg fe scfg Hcfg parent_prefix psr (join_rule rl q) x r1 csr _ M D1 Gs HP HO' HL Hpl Hp) as T2.
    destruct (mat_terms cfg fe (join_rule rl q) parent_prefix x) as [l|e]; cbn [rbind]; [|now rewrite T2].
    destruct T2 as (r' & p & o & -> & Epo & G1 & G2 & G3 & D). rewrite Epo. rewrite rflat_single.
    apply (finish_phase cfg fe scfg Hcfg Hnq rl x r' csr _ _ _ G1 G2 G3 D HG).
    apply Sub. intros n Hn. unfold child_names. rewrite !in_app_iff. tauto.
  Qed.
End JoinRow.

(* ---------------------------------------------------------------- rows of the joined frame *)
Lemma rget_app n a b : rget n (a ++ b) = match rget n a with Some v => Some v | None => rget n b end.
Proof. unfold rget. induction a as [|[k v] a IH]; simpl; auto. destruct (ueqb n k); auto. Qed.
Lemma ueqb_app_prefix p a b : ueqb (p ++ a) (p ++ b) = ueqb a b.
Proof. induction p as [|c p IH]; simpl; auto. now rewrite N.eqb_refl. Qed.
Lemma rget_add_prefix p n r : rget (p ++ n) (add_prefix p r) = rget n r.
Proof. unfold rget, add_prefix. induction r as [|[k v] r IH]; simpl; auto. rewrite ueqb_app_prefix. destruct (ueqb n k); auto. Qed.
Lemma rget_add_prefix_other p n r : (forall k, n <> p ++ k) -> rget n (add_prefix p r) = None.
Proof.
  intro H. unfold rget, add_prefix. induction r as [|[k v] r IH]; simpl; auto.
  destruct (ueqb n (p ++ k)) eqn:E; auto. apply ueqb_eq in E. exfalso. now apply (H k).
Qed.

Section JoinRule.
  Variables (cfg : ecfg) (fe : fenv) (rules : list rule) (get_data : ustr -> list ustr -> result frame) (scfg : scfg).
  Hypothesis Hcfg : cfg_agree cfg scfg.
  Hypothesis Hnq : c_nquads cfg = s_nquads scfg.
  Variables (rl q : rule).
  Hypothesis Hok : r_ok rl = KParent.
  Hypothesis Hq : find_rule rules (r_ov rl) = Some q.
  Hypothesis HS : pos_ok (r_sk rl) (r_sv rl) (r_stt rl).
  Hypothesis HP : pos_ok (r_pk rl) (r_pv rl) TIri.
  Hypothesis HO : is_plain (r_sk q) = true /\ term_wf (r_sk q) (r_sv q) = true /\ (r_ott rl = TLit -> lits_neutral (segs_of (r_sk q) (r_sv q)) = true).
  Hypothesis HL : r_ld rl <> LDNone -> pos_ok (r_ldk rl) (r_ldv rl) TNone.
  Hypothesis HG : graph_ok (c_nquads cfg) rl.

  Definition join_crefs : list ustr := dedup ((rule_refs (fn_table fe) (refs_fuel rules) rules false rl ++ []) ++ joins_child (r_ojoin rl)).
  Definition join_prefs : list ustr := dedup (rule_refs (fn_table fe) (refs_fuel rules) rules true q ++ joins_parent (r_ojoin rl)).
  Definition join_stages : list (row -> result (list row)) := [mat_terms cfg fe (join_rule rl q) parent_prefix; finish_row cfg fe 0 rl].

  Lemma join_rule_unfold :
    mat_rule cfg fe rules get_data (rule_fuel rules) rl None [] 0 =
    rdo d <- get_data (r_src rl) join_crefs; rdo pd <- get_data (r_src q) join_prefs;
    rdo m <- merge_data d pd (r_ojoin rl); pipe join_stages m.
  Proof.
    unfold rule_fuel. cbn [mat_rule]. fold (refs_fuel rules).
    assert (Hac : all_constant rl = false) by (unfold all_constant; rewrite Hok; cbn [mkind_eqb]; now rewrite !andb_false_r).
    assert (Hsq : mkind_eqb (r_sk rl) KQuoted = false) by (destruct HS as [Hpl _]; now destruct (r_sk rl)).
    rewrite Hac, Hsq, Hok. cbn [mkind_eqb orb]. rewrite Hq. fold join_crefs. fold join_prefs.
    destruct (get_data (r_src rl) join_crefs) as [d|e]; cbn [rbind]; auto.
    destruct (get_data (r_src q) join_prefs) as [pd|e]; cbn [rbind]; auto.
    destruct (merge_data d pd (r_ojoin rl)) as [m|e]; cbn [rbind]; auto.
  Qed.

  Definition JROW (x : row) : result (list ustr) := rdo fs <- pipe join_stages [x]; extract_triples fs.
  Lemma jrow_spec x csr psr :
    row_agree scfg csr [] x (child_names rl) -> row_agree scfg psr parent_prefix x (parent_names q) ->
    match JROW x with
    | Ok ls => exists line, spec_join_line scfg rl q csr psr = Some line /\ ls = [line]
    | Err _ => spec_join_line scfg rl q csr psr = None
    end.
  Proof.
    intros Hc Hp. pose proof (join_row_is_spec cfg fe scfg Hcfg Hnq rl q HS HP HO HL HG x csr psr Hc Hp) as T.
    unfold JROW, join_stages. rewrite pipe_cons, rflat_single.
    destruct (mat_terms cfg fe (join_rule rl q) parent_prefix x) as [ts|e]; cbn [rbind] in *; auto.
  Qed.

  Theorem join_rule_is_spec na crefs prefs fc fp :
    s_na scfg = na -> incl (child_names rl) crefs -> incl (parent_names q) prefs ->
    get_data (r_src rl) join_crefs = Ok (preprocess na crefs fc) -> get_data (r_src q) join_prefs = Ok (preprocess na prefs fp) ->
    (* no column of the child frame, and no reference of the child, is named like a parent_ column of the join *)
    (forall c k, In c (preprocess na crefs fc) -> rget (parent_prefix ++ k) c = None) ->
    (forall n k, In n (child_names rl) -> n <> parent_prefix ++ k) ->
    forall ls, rule_triples cfg fe rules get_data rl = Ok ls ->
      forall x, In x ls <-> exists c p, In c (preprocess na crefs fc) /\ In p (preprocess na prefs fp) /\ joins c p (r_ojoin rl) /\
                                      spec_join_line scfg rl q (srow_of c) (srow_of p) = Some x.
  Proof.
    intros Hna Hic Hip Hd Hpd Hnopar Hnames ls Hls.
    set (d := preprocess na crefs fc) in *. set (pd := preprocess na prefs fp) in *.
    unfold rule_triples in Hls. rewrite join_rule_unfold, Hd, Hpd in Hls. cbn [rbind] in Hls.
    destruct (merge_data d pd (r_ojoin rl)) as [m|e] eqn:Em; cbn [rbind] in Hls; [|discriminate].
    assert (EQ : okeq (rdo dd <- pipe join_stages m; rmap_all (fun r => match rget col_triple r with Some t => Ok t | None => Err EKey end) dd)
                      (rdo l <- rmap_all JROW m; Ok (concat l))).
    { eapply okeq_trans; [apply okeq_bind; apply pipe_fuse|]. apply (rflat_fuse_map (fun r => pipe join_stages [r])). }
    apply EQ in Hls. intro x. rewrite (concat_rows_in JROW m ls Hls x).
    assert (Row : forall c p, In c d -> In p pd ->
              match JROW (c ++ add_prefix parent_prefix p) with
              | Ok l => exists line, spec_join_line scfg rl q (srow_of c) (srow_of p) = Some line /\ l = [line]
              | Err _ => spec_join_line scfg rl q (srow_of c) (srow_of p) = None
              end).
    { intros c p Hc Hp. apply jrow_spec.
      - intros n Hn. cbn [app]. rewrite rget_app. rewrite (preprocessed_agree na crefs fc c scfg Hna Hc n (Hic n Hn)). cbn [app].
        destruct (rget n c); auto. symmetry. apply rget_add_prefix_other. intro k. now apply Hnames.
      - intros n Hn. rewrite rget_app, (Hnopar c n Hc), rget_add_prefix.
        pose proof (preprocessed_agree na prefs fp p scfg Hna Hp n (Hip n Hn)) as A. cbn [app] in A. exact A. }
    split.
    - intros (y & l & Hy & E & Hx). apply (merge_is_equijoin d pd (r_ojoin rl) m Em) in Hy as (c & p & Hc & Hp & Hj & ->).
      specialize (Row c p Hc Hp). rewrite E in Row. destruct Row as (line & Es & ->). destruct Hx as [<-|[]]. exists c, p. auto.
    - intros (c & p & Hc & Hp & Hj & Es). specialize (Row c p Hc Hp).
      destruct (JROW (c ++ add_prefix parent_prefix p)) as [l|e] eqn:E; [|congruence].
      destruct Row as (line & Es' & ->). exists (c ++ add_prefix parent_prefix p), [line]. split; [|split; [exact E|left; congruence]].
      apply (merge_is_equijoin d pd (r_ojoin rl) m Em). exists c, p. auto.
  Qed.
End JoinRule.

(* the engine's join relation on frame rows is the Spec's join condition on the corresponding Spec rows *)
Lemma joins_iff_conds_hold scfg c p csr psr conds :
  (forall cd, In cd conds -> sval scfg csr (fst cd) = rget (fst cd) c /\ sval scfg psr (snd cd) = rget (snd cd) p) ->
  (joins c p conds <-> conds_hold scfg csr psr conds = true).
Proof.
  intro H. unfold joins, conds_hold. rewrite forallb_forall. split; intros J cd Hcd; destruct (H cd Hcd) as [A B].
  - destruct (J cd Hcd) as (a & Ga & Gb). rewrite A, B, Ga, Gb. apply ueqb_refl.
  - specialize (J cd Hcd). rewrite A, B in J. destruct (rget (fst cd) c) as [a|]; [|discriminate]. destruct (rget (snd cd) p) as [b|]; [|discriminate].
    apply ueqb_eq in J. subst. eauto.
Qed.

(* C08 at a joined row: the fourth component of the statement is generated from the CHILD row alone -- whatever the parent
   row holds under the same column names *)
Lemma spec_join_line_graph_of_child scfg rl q csr psr x :
  spec_join_line scfg rl q csr psr = Some x -> exists t, spec_graph_line scfg rl csr t = Some x.
Proof.
  unfold spec_join_line. destruct (spec_lex scfg (r_sk rl) (r_sv rl) (r_stt rl) [] csr) as [s|]; [|discriminate].
  destruct (spec_po_gen scfg (join_rule rl q) csr psr) as [[p o]|]; [|discriminate]. intro H. eauto.
Qed.
Lemma join_row_graph_from_child_row : forall cfg fe scfg, cfg_agree cfg scfg -> c_nquads cfg = s_nquads scfg ->
  forall rl q, pos_ok (r_sk rl) (r_sv rl) (r_stt rl) -> pos_ok (r_pk rl) (r_pv rl) TIri ->
    (is_plain (r_sk q) = true /\ term_wf (r_sk q) (r_sv q) = true /\ (r_ott rl = TLit -> lits_neutral (segs_of (r_sk q) (r_sv q)) = true)) ->
    (r_ld rl <> LDNone -> pos_ok (r_ldk rl) (r_ldv rl) TNone) -> graph_ok (c_nquads cfg) rl ->
  forall x csr psr, row_agree scfg csr [] x (child_names rl) -> row_agree scfg psr parent_prefix x (parent_names q) ->
  forall ls, (rdo ts <- mat_terms cfg fe (join_rule rl q) parent_prefix x;
              rdo fs <- rflat_rows (finish_row cfg fe 0 rl) ts; extract_triples fs) = Ok ls ->
    exists line t, ls = [line] /\ spec_graph_line scfg rl csr t = Some line.
Proof.
  intros cfg fe scfg Hcfg Hnq rl q HS HP HO HL HG x csr psr Hc Hp ls E.
  pose proof (join_row_is_spec cfg fe scfg Hcfg Hnq rl q HS HP HO HL HG x csr psr Hc Hp) as T. rewrite E in T.
  destruct T as (line & Hl & ->). destruct (spec_join_line_graph_of_child _ _ _ _ _ _ Hl) as (t & Ht). eauto.
Qed.
