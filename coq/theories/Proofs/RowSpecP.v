(* C01: one row through a rule whose term maps are constants, references and templates: the engine (subject, predicate,
   object, language / datatype, triple string, graph; one working row mutated in place) yields exactly the statement the
   generation rules give for that row, and fails exactly where they give none. *)
From Coq Require Import Lia String.
From Morph Require Import Base.UStr Gen.Tables Model.Terms Model.Data Model.Engine Model.Mapping Model.Spec
     Proofs.DataP Proofs.UStrP Proofs.SplitP Proofs.EscP Proofs.TemplateP Proofs.TermP Proofs.RowwiseP.
Local Open Scope N_scope.

(* no reference of the rule names a working column of the materializer *)
Definition names_free (ns : list ustr) : Prop := forall n, In n ns -> mem n reserved = false.

Lemma names_free_no_shadow pos ns : is_pos pos = true -> names_free ns -> no_shadow [] pos ns.
Proof.
  intros Hp Hn n Hin. specialize (Hn n Hin). cbn [app]. unfold is_pos in Hp. cbn [mem reserved] in *.
  rewrite !orb_false_iff in Hn. destruct Hn as (A & B & C & D & E & F & G & _). split; auto.
  rewrite !orb_true_iff in Hp. destruct Hp as [Hp|[Hp|[Hp|[Hp|[Hp|Hp]]]]]; try discriminate; apply ueqb_eq in Hp; subst; auto.
Qed.
Lemma is_pos_not_refres pos : is_pos pos = true -> ueqb pos col_refres = false.
Proof.
  unfold is_pos. cbn [mem]. rewrite !orb_true_iff. intros [Hp|[Hp|[Hp|[Hp|[Hp|Hp]]]]]; try discriminate; apply ueqb_eq in Hp; subst; reflexivity.
Qed.

(* the same for a position whose references are read through an alias (the parent_ columns of a join) *)
Definition free_alias (alias : ustr) (ns : list ustr) : Prop := forall n, In n ns -> mem (alias ++ n) reserved = false.
Lemma names_free_alias ns : names_free ns -> free_alias [] ns. Proof. exact (fun H => H). Qed.
Lemma free_alias_no_shadow alias pos ns : is_pos pos = true -> free_alias alias ns -> no_shadow alias pos ns.
Proof.
  intros Hp Hn n Hin. specialize (Hn n Hin). unfold is_pos in Hp. cbn [mem reserved] in *.
  rewrite !orb_false_iff in Hn. destruct Hn as (A & B & C & D & E & F & G & _). split; auto.
  rewrite !orb_true_iff in Hp. destruct Hp as [Hp|[Hp|[Hp|[Hp|[Hp|Hp]]]]]; try discriminate; apply ueqb_eq in Hp; subst; auto.
Qed.
Lemma parent_alias_free ns : free_alias parent_prefix ns.
Proof. intros n _. reflexivity. Qed.

Definition opt_term (tt : ttype) (x : option ustr) : option ustr := option_map (render tt) x.
(* what the generation rules give for one row of a rule (None: no statement) *)
Definition spec_rule_line (scfg : scfg) (rl : rule) (sr : srow) : option ustr :=
  match spec_lex scfg (r_sk rl) (r_sv rl) (r_stt rl) [] sr with None => None | Some s =>
  match spec_lex scfg (r_pk rl) (r_pv rl) TIri [] sr with None => None | Some p =>
  match spec_lex scfg (r_ok rl) (r_ov rl) (r_ott rl) (r_ldv rl) sr with None => None | Some o =>
  match (match r_ld rl with
         | LDNone => Some []
         | LDLang => option_map (fun l => 64 :: l) (spec_lex scfg (r_ldk rl) (r_ldv rl) TNone [] sr)
         | LDDt => option_map (fun d => 94 :: 94 :: render TIri d) (spec_lex scfg (r_ldk rl) (r_ldv rl) TIri [] sr)
         end) with None => None | Some suffix =>
  let triple := render (r_stt rl) s ++ [32] ++ render TIri p ++ [32] ++ render (r_ott rl) o ++ suffix in
  if s_nquads scfg then
    match (if is_plain (r_gk rl) && negb (ueqb (r_gv rl) Tables.c_rml_default_graph)
           then opt_term TIri (spec_lex scfg (r_gk rl) (r_gv rl) TIri [] sr) else Some []) with
    | None => None
    | Some g => Some (triple ++ [32] ++ g)
    end
  else Some triple
  end end end end.

Definition pos_ok (k : mkind) (v : ustr) (tt : ttype) : Prop :=
  is_plain k = true /\ term_wf k v = true /\ (tt = TLit -> lits_neutral (segs_of k v) = true) /\ names_free (names (segs_of k v)).
Definition opos_ok (alias : ustr) (k : mkind) (v : ustr) (tt : ttype) : Prop :=
  is_plain k = true /\ term_wf k v = true /\ (tt = TLit -> lits_neutral (segs_of k v) = true) /\ free_alias alias (names (segs_of k v)).
Lemma pos_ok_opos k v tt : pos_ok k v tt -> opos_ok [] k v tt. Proof. exact (fun H => H). Qed.
Definition rule_ok (nquads : bool) (rl : rule) : Prop :=
  pos_ok (r_sk rl) (r_sv rl) (r_stt rl) /\ pos_ok (r_pk rl) (r_pv rl) TIri /\ pos_ok (r_ok rl) (r_ov rl) (r_ott rl) /\
  (r_ld rl <> LDNone -> pos_ok (r_ldk rl) (r_ldv rl) TNone) /\
  (nquads = true -> (pos_ok (r_gk rl) (r_gv rl) TIri \/ r_gk rl = KNone)).
Definition pl_names (rl : rule) : list ustr :=
  names (segs_of (r_pk rl) (r_pv rl)) ++ names (segs_of (r_ldk rl) (r_ldv rl)).
Definition po_names (rl : rule) : list ustr :=
  names (segs_of (r_pk rl) (r_pv rl)) ++ names (segs_of (r_ok rl) (r_ov rl)) ++ names (segs_of (r_ldk rl) (r_ldv rl)).
Definition rule_names (rl : rule) : list ustr :=
  names (segs_of (r_sk rl) (r_sv rl)) ++ names (segs_of (r_pk rl) (r_pv rl)) ++ names (segs_of (r_ok rl) (r_ov rl))
  ++ names (segs_of (r_ldk rl) (r_ldv rl)) ++ names (segs_of (r_gk rl) (r_gv rl)).

Section Step.
  Variables (cfg : ecfg) (scfg : scfg).
  Hypothesis Hcfg : cfg_agree cfg scfg.
  Lemma term_step k v tt dt pos r sr :
    is_pos pos = true -> pos_ok k v tt -> row_agree scfg sr [] r (names (segs_of k v)) ->
    match mat_template cfg v k pos [] tt dt r with
    | Ok r' => exists lex, spec_lex scfg k v tt dt sr = Some lex /\ rget pos r' = Some (render tt lex) /\
                           (forall c, ueqb c pos = false -> ueqb c col_refres = false -> rget c r' = rget c r)
    | Err _ => spec_lex scfg k v tt dt sr = None
    end.
  Proof.
    intros Hp (Hk & Hwf & Hl & Hn) Hr. apply engine_term_is_spec_term; auto using is_pos_not_refres, names_free_no_shadow.
  Qed.
  Lemma term_step_alias alias k v tt dt pos r sr :
    is_pos pos = true -> opos_ok alias k v tt -> row_agree scfg sr alias r (names (segs_of k v)) ->
    match mat_template cfg v k pos alias tt dt r with
    | Ok r' => exists lex, spec_lex scfg k v tt dt sr = Some lex /\ rget pos r' = Some (render tt lex) /\
                           (forall c, ueqb c pos = false -> ueqb c col_refres = false -> rget c r' = rget c r)
    | Err _ => spec_lex scfg k v tt dt sr = None
    end.
  Proof.
    intros Hp (Hk & Hwf & Hl & Hn) Hr. apply engine_term_is_spec_term; auto using is_pos_not_refres, free_alias_no_shadow.
  Qed.
End Step.

Lemma bindl_single x f : bindl (Ok [x]) f = f x.
Proof. unfold bindl. simpl. destruct (f x); simpl; auto. now rewrite app_nil_r. Qed.
Lemma bindl_err e f : bindl (Err e) f = Err e. Proof. reflexivity. Qed.
Lemma mat_pos_plain cfg fe k v pos alias tt dt r : is_plain k = true ->
  mat_pos cfg fe k v pos alias tt dt r = rdo r' <- mat_template cfg v k pos alias tt dt r; Ok [r'].
Proof. intro H. unfold mat_pos. now rewrite H. Qed.
Lemma ld_plain k a cfg v tt r3 : is_plain k = true ->
  match k with
  | KExec => a
  | k' => if is_plain k' then (rdo r' <- mat_template cfg v k' col_ld [] tt [] r3; Ok [r']) else Err EUnmodelled
  end = (rdo r' <- mat_template cfg v k col_ld [] tt [] r3; Ok [r']).
Proof. destruct k; try discriminate; reflexivity. Qed.

Definition same_data (r r' : row) : Prop := forall c, mem c reserved = false -> rget c r' = rget c r.
Lemma same_data_refl r : same_data r r. Proof. intros c _. reflexivity. Qed.
Lemma same_data_trans a b c : same_data a b -> same_data b c -> same_data a c.
Proof. intros H1 H2 x Hx. now rewrite H2, H1. Qed.
Lemma unchanged_same_data pos r r' : is_pos pos = true ->
  (forall c, ueqb c pos = false -> ueqb c col_refres = false -> rget c r' = rget c r) -> same_data r r'.
Proof.
  intros Hp H c Hc. apply H.
  - cbn [mem reserved] in Hc. rewrite !orb_false_iff in Hc. destruct Hc as (A & B & C & D & E & F & G & _).
    unfold is_pos in Hp. cbn [mem] in Hp. rewrite !orb_true_iff in Hp.
    destruct Hp as [Hp|[Hp|[Hp|[Hp|[Hp|Hp]]]]]; try discriminate; apply ueqb_eq in Hp; subst; auto.
  - cbn [mem reserved] in Hc. rewrite !orb_false_iff in Hc. tauto.
Qed.
Lemma rset_same_data k v r : mem k reserved = true -> same_data r (rset k v r).
Proof. intros Hk c Hc. apply rget_rset_other. destruct (ueqb c k) eqn:E; auto. apply ueqb_eq in E; subst. congruence. Qed.
Lemma row_agree_carry scfg sr r r' ns : same_data r r' -> names_free ns -> row_agree scfg sr [] r ns -> row_agree scfg sr [] r' ns.
Proof. intros Hs Hn Hr n Hin. cbn [app]. rewrite Hs by now apply Hn. now apply Hr. Qed.
Lemma row_agree_carry_alias scfg sr alias r r' ns : same_data r r' -> free_alias alias ns -> row_agree scfg sr alias r ns -> row_agree scfg sr alias r' ns.
Proof. intros Hs Hn Hr n Hin. rewrite Hs by now apply Hn. now apply Hr. Qed.
Lemma row_agree_sub scfg sr r ns ms : (forall n, In n ms -> In n ns) -> row_agree scfg sr [] r ns -> row_agree scfg sr [] r ms.
Proof. intros H Hr n Hn. apply Hr. now apply H. Qed.

Definition spec_suffix_of (scfg : scfg) (rl : rule) (sr : srow) : option ustr :=
  match r_ld rl with
  | LDNone => Some []
  | LDLang => option_map (fun l => 64 :: l) (spec_lex scfg (r_ldk rl) (r_ldv rl) TNone [] sr)
  | LDDt => option_map (fun d => 94 :: 94 :: render TIri d) (spec_lex scfg (r_ldk rl) (r_ldv rl) TIri [] sr)
  end.
(* predicate and object; the object may be read from another row (the parent row of a join) *)
Definition spec_po_gen (scfg : scfg) (rl : rule) (sr osr : srow) : option (ustr * ustr) :=
  match spec_lex scfg (r_pk rl) (r_pv rl) TIri [] sr with None => None | Some p =>
  match spec_lex scfg (r_ok rl) (r_ov rl) (r_ott rl) (r_ldv rl) osr with None => None | Some o =>
  match spec_suffix_of scfg rl sr with None => None | Some suffix =>
  Some (render TIri p, render (r_ott rl) o ++ suffix) end end end.
Definition spec_po (scfg : scfg) (rl : rule) (sr : srow) : option (ustr * ustr) := spec_po_gen scfg rl sr sr.
Definition spec_parts (scfg : scfg) (rl : rule) (sr : srow) : option (ustr * ustr * ustr) :=
  match spec_lex scfg (r_sk rl) (r_sv rl) (r_stt rl) [] sr with None => None | Some s =>
  match spec_po scfg rl sr with None => None | Some (p, o) => Some (render (r_stt rl) s, p, o) end end.
Definition spec_graph_line (scfg : scfg) (rl : rule) (sr : srow) (triple : ustr) : option ustr :=
  if s_nquads scfg then
    match (if is_plain (r_gk rl) && negb (ueqb (r_gv rl) Tables.c_rml_default_graph)
           then opt_term TIri (spec_lex scfg (r_gk rl) (r_gv rl) TIri [] sr) else Some []) with
    | None => None
    | Some g => Some (triple ++ [32] ++ g)
    end
  else Some triple.
Definition graph_ok (nquads : bool) (rl : rule) : Prop := nquads = true -> (pos_ok (r_gk rl) (r_gv rl) TIri \/ r_gk rl = KNone).
Lemma spec_rule_line_parts scfg rl sr :
  spec_rule_line scfg rl sr =
  match spec_parts scfg rl sr with
  | None => None
  | Some (s, p, o) => spec_graph_line scfg rl sr (s ++ [32] ++ p ++ [32] ++ o)
  end.
Proof.
  unfold spec_rule_line, spec_parts, spec_po, spec_po_gen, spec_suffix_of, spec_graph_line.
  destruct (spec_lex scfg (r_sk rl) (r_sv rl) (r_stt rl) [] sr); auto.
  destruct (spec_lex scfg (r_pk rl) (r_pv rl) TIri [] sr); auto.
  destruct (spec_lex scfg (r_ok rl) (r_ov rl) (r_ott rl) (r_ldv rl) sr); auto.
  destruct (match r_ld rl with LDNone => _ | LDLang => _ | LDDt => _ end); auto.
Qed.

Lemma pos_ok_weaken k v tt tt' : tt' <> TLit -> pos_ok k v tt -> pos_ok k v tt'.
Proof. intros H (A & B & _ & D). unfold pos_ok. repeat split; auto; intro E; contradiction. Qed.

Section Row.
  Variables (cfg : ecfg) (fe : fenv) (scfg : scfg).
  Hypothesis Hcfg : cfg_agree cfg scfg.

  Ltac sub_names := let n := fresh in let H := fresh in intros n H; unfold rule_names, po_names, pl_names in *; rewrite ?in_app_iff in H; rewrite ?in_app_iff; tauto.

  Lemma po_phase_gen alias osr rl r r1 sr s :
    mat_pos cfg fe (r_sk rl) (r_sv rl) col_subject [] (r_stt rl) [] r = Ok [r1] ->
    same_data r r1 -> rget col_subject r1 = Some s ->
    pos_ok (r_pk rl) (r_pv rl) TIri -> opos_ok alias (r_ok rl) (r_ov rl) (r_ott rl) -> (r_ld rl <> LDNone -> pos_ok (r_ldk rl) (r_ldv rl) TNone) ->
    row_agree scfg sr [] r (pl_names rl) -> row_agree scfg osr alias r (names (segs_of (r_ok rl) (r_ov rl))) ->
    match mat_terms cfg fe rl alias r with
    | Ok l => exists r' p o, l = [r'] /\ spec_po_gen scfg rl sr osr = Some (p, o) /\
              rget col_subject r' = Some s /\ rget col_predicate r' = Some p /\ rget col_object r' = Some o /\ same_data r r'
    | Err _ => spec_po_gen scfg rl sr osr = None
    end.
  Proof.
    intros HS1 D1 Gs HP HO HL Hr Hro. unfold mat_terms, spec_po_gen. rewrite HS1.
    assert (NP : names_free (names (segs_of (r_pk rl) (r_pv rl)))) by apply HP.
    assert (NO : free_alias alias (names (segs_of (r_ok rl) (r_ov rl)))) by apply HO.
    (* predicate *)
    rewrite bindl_single.
    rewrite mat_pos_plain by apply HP.
    pose proof (term_step cfg scfg Hcfg (r_pk rl) (r_pv rl) TIri [] col_predicate r1 sr eq_refl HP) as T2.
    assert (A1 : row_agree scfg sr [] r1 (names (segs_of (r_pk rl) (r_pv rl)))).
    { eapply row_agree_carry; [exact D1|exact NP|]. eapply row_agree_sub; [|exact Hr]. sub_names. }
    destruct (mat_template cfg (r_pv rl) (r_pk rl) col_predicate [] TIri [] r1) as [r2|e2]; cbn [rbind]; [|rewrite !bindl_err; now rewrite T2].
    destruct (T2 A1) as (p & Ep & Gp & Up). rewrite Ep.
    assert (D2 : same_data r1 r2) by (eapply unchanged_same_data; [|exact Up]; reflexivity).
    (* object *)
    rewrite bindl_single.
    rewrite mat_pos_plain by apply HO.
    pose proof (term_step_alias cfg scfg Hcfg alias (r_ok rl) (r_ov rl) (r_ott rl) (r_ldv rl) col_object r2 osr eq_refl HO) as T3.
    assert (A2 : row_agree scfg osr alias r2 (names (segs_of (r_ok rl) (r_ov rl)))).
    { eapply row_agree_carry_alias; [eapply same_data_trans; [exact D1|exact D2]|exact NO|exact Hro]. }
    destruct (mat_template cfg (r_ov rl) (r_ok rl) col_object alias (r_ott rl) (r_ldv rl) r2) as [r3|e3]; cbn [rbind]; [|rewrite !bindl_err; now rewrite T3].
    rewrite bindl_single.
    destruct (T3 A2) as (o & Eo & Go & Uo). rewrite Eo.
    assert (D3 : same_data r2 r3) by (eapply unchanged_same_data; [|exact Uo]; reflexivity).
    assert (D03 : same_data r r3) by (eapply same_data_trans; [eapply same_data_trans; [exact D1|exact D2]|exact D3]).
    assert (Gs3 : rget col_subject r3 = Some s) by (rewrite Uo, Up by reflexivity; exact Gs).
    assert (Gp3 : rget col_predicate r3 = Some (render TIri p)) by (rewrite Uo by reflexivity; exact Gp).
    (* language / datatype *)
    unfold spec_suffix_of.
    destruct (r_ld rl) eqn:Eld.
    - exists r3, (render TIri p), (render (r_ott rl) o ++ []).
      rewrite app_nil_r. auto 10.
    - assert (HLd : pos_ok (r_ldk rl) (r_ldv rl) TNone) by (apply HL; discriminate).
      assert (NL : names_free (names (segs_of (r_ldk rl) (r_ldv rl)))) by apply HLd.
      match goal with |- context [bindl ?m _] =>
        assert (Eq : m = (rdo r' <- mat_template cfg (r_ldv rl) (r_ldk rl) col_ld [] TNone [] r3; Ok [r']))
          by (destruct HLd as [Hpl _]; destruct (r_ldk rl); try discriminate; reflexivity); rewrite Eq; clear Eq end.
      pose proof (term_step cfg scfg Hcfg (r_ldk rl) (r_ldv rl) TNone [] col_ld r3 sr eq_refl HLd) as T4.
      assert (A3 : row_agree scfg sr [] r3 (names (segs_of (r_ldk rl) (r_ldv rl)))).
      { eapply row_agree_carry; [exact D03|exact NL|]. eapply row_agree_sub; [|exact Hr]. sub_names. }
      destruct (mat_template cfg (r_ldv rl) (r_ldk rl) col_ld [] TNone [] r3) as [r4|e4]; cbn [rbind]; [|rewrite !bindl_err; now rewrite T4].
      rewrite bindl_single.
      destruct (T4 A3) as (l & El & Gl & Ul). rewrite El. cbn [option_map].
      rewrite Ul, Go, Gl by reflexivity.
      eexists _, _, _. split; [reflexivity|]. split; [reflexivity|].
      rewrite rget_rset_same, !rget_rset_other by reflexivity. rewrite !Ul by reflexivity.
      repeat split; auto.
      eapply same_data_trans; [exact D03|]. eapply same_data_trans; [eapply unchanged_same_data; [|exact Ul]; reflexivity|]. now apply rset_same_data.
    - assert (HLd : pos_ok (r_ldk rl) (r_ldv rl) TIri) by (eapply pos_ok_weaken; [discriminate|apply HL; discriminate]).
      assert (NL : names_free (names (segs_of (r_ldk rl) (r_ldv rl)))) by apply HLd.
      match goal with |- context [bindl ?m _] =>
        assert (Eq : m = (rdo r' <- mat_template cfg (r_ldv rl) (r_ldk rl) col_ld [] TIri [] r3; Ok [r']))
          by (destruct HLd as [Hpl _]; destruct (r_ldk rl); try discriminate; reflexivity); rewrite Eq; clear Eq end.
      pose proof (term_step cfg scfg Hcfg (r_ldk rl) (r_ldv rl) TIri [] col_ld r3 sr eq_refl HLd) as T4.
      assert (A3 : row_agree scfg sr [] r3 (names (segs_of (r_ldk rl) (r_ldv rl)))).
      { eapply row_agree_carry; [exact D03|exact NL|]. eapply row_agree_sub; [|exact Hr]. sub_names. }
      destruct (mat_template cfg (r_ldv rl) (r_ldk rl) col_ld [] TIri [] r3) as [r4|e4]; cbn [rbind]; [|rewrite !bindl_err; now rewrite T4].
      rewrite bindl_single.
      destruct (T4 A3) as (l & El & Gl & Ul). rewrite El. cbn [option_map].
      rewrite Ul, Go, Gl by reflexivity.
      eexists _, _, _. split; [reflexivity|]. split; [reflexivity|].
      rewrite rget_rset_same, !rget_rset_other by reflexivity. rewrite !Ul by reflexivity.
      repeat split; auto.
      eapply same_data_trans; [exact D03|]. eapply same_data_trans; [eapply unchanged_same_data; [|exact Ul]; reflexivity|]. now apply rset_same_data.
  Qed.


  Lemma po_phase rl r r1 sr s :
    mat_pos cfg fe (r_sk rl) (r_sv rl) col_subject [] (r_stt rl) [] r = Ok [r1] ->
    same_data r r1 -> rget col_subject r1 = Some s ->
    pos_ok (r_pk rl) (r_pv rl) TIri -> pos_ok (r_ok rl) (r_ov rl) (r_ott rl) -> (r_ld rl <> LDNone -> pos_ok (r_ldk rl) (r_ldv rl) TNone) ->
    row_agree scfg sr [] r (po_names rl) ->
    match mat_terms cfg fe rl [] r with
    | Ok l => exists r' p o, l = [r'] /\ spec_po scfg rl sr = Some (p, o) /\
              rget col_subject r' = Some s /\ rget col_predicate r' = Some p /\ rget col_object r' = Some o /\ same_data r r'
    | Err _ => spec_po scfg rl sr = None
    end.
  Proof.
    intros HS1 D1 Gs HP HO HL Hr. apply (po_phase_gen [] sr rl r r1 sr s HS1 D1 Gs HP (pos_ok_opos _ _ _ HO) HL).
    - eapply row_agree_sub; [|exact Hr]. sub_names.
    - eapply row_agree_sub; [|exact Hr]. sub_names.
  Qed.

  Lemma terms_phase nq rl r sr :
    rule_ok nq rl -> row_agree scfg sr [] r (rule_names rl) ->
    match mat_terms cfg fe rl [] r with
    | Ok l => exists r' s p o, l = [r'] /\ spec_parts scfg rl sr = Some (s, p, o) /\
              rget col_subject r' = Some s /\ rget col_predicate r' = Some p /\ rget col_object r' = Some o /\ same_data r r'
    | Err _ => spec_parts scfg rl sr = None
    end.
  Proof.
    intros (HS & HP & HO & HL & HG) Hr. unfold spec_parts.
    pose proof (term_step cfg scfg Hcfg (r_sk rl) (r_sv rl) (r_stt rl) [] col_subject r sr eq_refl HS) as T1.
    assert (A0 : row_agree scfg sr [] r (names (segs_of (r_sk rl) (r_sv rl)))) by (eapply row_agree_sub; [|exact Hr]; sub_names).
    specialize (T1 A0).
    destruct (mat_template cfg (r_sv rl) (r_sk rl) col_subject [] (r_stt rl) [] r) as [r1|e1] eqn:E1.
    - destruct T1 as (s & Es & Gs & Us). rewrite Es.
      assert (D1 : same_data r r1) by (eapply unchanged_same_data; [|exact Us]; reflexivity).
      assert (M : mat_pos cfg fe (r_sk rl) (r_sv rl) col_subject [] (r_stt rl) [] r = Ok [r1]) by (rewrite mat_pos_plain by apply HS; now rewrite E1).
      assert (Hr' : row_agree scfg sr [] r (po_names rl)) by (eapply row_agree_sub; [|exact Hr]; sub_names).
      pose proof (po_phase rl r r1 sr _ M D1 Gs HP HO HL Hr') as T.
      destruct (mat_terms cfg fe rl [] r) as [l|e].
      + destruct T as (r' & p & o & -> & Ep & G1 & G2 & G3 & D). rewrite Ep. exists r', (render (r_stt rl) s), p, o. auto 10.
      + now rewrite T.
    - rewrite T1. unfold mat_terms. rewrite mat_pos_plain by apply HS. rewrite E1. cbn [rbind]. now rewrite !bindl_err.
  Qed.

  Lemma rflat_single f (x : row) : rflat_rows f [x] = f x.
  Proof. unfold rflat_rows. simpl. destruct (f x); simpl; auto. now rewrite app_nil_r. Qed.
  Hypothesis Hnq : c_nquads cfg = s_nquads scfg.

  Definition extract_triples (fs : list row) : result (list ustr) :=
    rmap_all (fun r1 => match rget col_triple r1 with Some t => Ok t | None => Err EKey end) fs.
  Lemma finish_phase rl r r' sr s p o :
    rget col_subject r' = Some s -> rget col_predicate r' = Some p -> rget col_object r' = Some o -> same_data r r' ->
    graph_ok (c_nquads cfg) rl -> row_agree scfg sr [] r (names (segs_of (r_gk rl) (r_gv rl))) ->
    match (rdo fs <- finish_row cfg fe 0 rl r'; extract_triples fs) with
    | Ok ls => exists line, spec_graph_line scfg rl sr (s ++ [32] ++ p ++ [32] ++ o) = Some line /\ ls = [line]
    | Err _ => spec_graph_line scfg rl sr (s ++ [32] ++ p ++ [32] ++ o) = None
    end.
  Proof.
    intros Gs Gp Go D HG Hr. unfold finish_row, spec_graph_line, extract_triples. rewrite Gs, Gp, Go. cbn [Nat.eqb andb]. rewrite <- Hnq.
    set (triple := s ++ [32] ++ p ++ [32] ++ o).
    set (r1 := rset col_triple triple r').
    assert (D1 : same_data r r1) by (eapply same_data_trans; [exact D|]; now apply rset_same_data).
    destruct (c_nquads cfg) eqn:Enq.
    - specialize (HG eq_refl).
      destruct (is_plain (r_gk rl) && negb (ueqb (r_gv rl) Tables.c_rml_default_graph)) eqn:Eg.
      + destruct HG as [HG|HG]; [|rewrite HG in Eg; discriminate].
        pose proof (term_step cfg scfg Hcfg (r_gk rl) (r_gv rl) TIri [] col_graph r1 sr eq_refl HG) as T5.
        assert (A : row_agree scfg sr [] r1 (names (segs_of (r_gk rl) (r_gv rl)))).
        { eapply row_agree_carry; [exact D1|apply HG|exact Hr]. }
        destruct (mat_template cfg (r_gv rl) (r_gk rl) col_graph [] TIri [] r1) as [r2|e2]; cbn [rbind]; [|now rewrite T5].
        destruct (T5 A) as (g & Eg2 & Gg & Ug). rewrite Eg2. cbn [opt_term option_map rmap_all].
        rewrite Gg, Ug by reflexivity. unfold r1 at 1. rewrite rget_rset_same. cbn [rbind map rmap_all].
        rewrite !rget_rdrop_other by reflexivity. rewrite rget_rset_same. eexists. split; reflexivity.
      + assert (E : match r_gk rl with KExec => mat_exec cfg fe (r_gv rl) col_graph TIri [] r1 | _ => Ok [rset col_graph [] r1] end = Ok [rset col_graph [] r1]).
        { destruct HG as [HG|HG]; [destruct HG as [Hpl _]; destruct (r_gk rl); try discriminate; reflexivity|now rewrite HG]. }
        rewrite E. cbn [rbind rmap_all]. rewrite rget_rset_same, rget_rset_other by reflexivity. unfold r1 at 1. rewrite rget_rset_same.
        cbn [rbind map rmap_all]. rewrite !rget_rdrop_other by reflexivity. rewrite rget_rset_same. eexists. split; reflexivity.
    - cbn [rbind map rmap_all]. rewrite !rget_rdrop_other by reflexivity. unfold r1. rewrite rget_rset_same. eexists. split; reflexivity.
  Qed.

  Theorem row_is_spec_row rl r sr :
    rule_ok (c_nquads cfg) rl -> row_agree scfg sr [] r (rule_names rl) ->
    match row_lines cfg fe rl r with
    | Ok ls => exists line, spec_rule_line scfg rl sr = Some line /\ ls = [line]
    | Err _ => spec_rule_line scfg rl sr = None
    end.
  Proof.
    intros Hok Hr. pose proof (terms_phase _ rl r sr Hok Hr) as T. rewrite spec_rule_line_parts. unfold row_lines.
    destruct (mat_terms cfg fe rl [] r) as [l|e]; cbn [rbind]; [|now rewrite T].
    destruct T as (r' & s & p & o & -> & Ep & Gs & Gp & Go & D). rewrite Ep. rewrite rflat_single.
    destruct Hok as (_ & _ & _ & _ & HG).
    apply (finish_phase rl r r' sr s p o Gs Gp Go D HG). eapply row_agree_sub; [|exact Hr]. intros ? ?; unfold rule_names; rewrite !in_app_iff; tauto.
  Qed.
End Row.
