(* C13 for EVERY document: what a triples map quotes does not depend on whether the quoted triples map is asserted -- declaring triples maps
   rml:NonAssertedTriplesMap (or asserting them) changes which triples maps contribute statements of their own, never the quoted triples that
   the others embed, at any nesting depth. *)
From Coq Require Import String Lia.
From Morph Require Import Base.UStr Gen.Tables Model.Terms Model.Data Model.Engine Model.Mapping Model.Spec Proofs.DataP Proofs.GroupingP Proofs.DocRowSetsP.
Local Open Scope N_scope.

Definition with_na (t : tmapdef) (b : bool) : tmapdef :=
  {| t_id := t_id t; t_src := t_src t; t_nonasserted := b; t_subj := t_subj t; t_sjoins := t_sjoins t;
     t_classes := t_classes t; t_sgraphs := t_sgraphs t; t_poms := t_poms t |}.

Section Assert.
  Variables (cfg : scfg) (fe : fenv) (d : document) (tables : ustr -> stable) (na : tmapdef -> bool).
  Definition reflag (t : tmapdef) : tmapdef := with_na t (na t).
  Definition d' : document := map reflag d.

  Lemma find_tm_reflag id : find_tm d' id = option_map reflag (find_tm d id).
  Proof.
    unfold find_tm, d'. induction d as [|t l IH]; cbn [map find option_map]; [reflexivity|].
    change (t_id (reflag t)) with (t_id t). destruct (ueqb (t_id t) id); [reflexivity|exact IH].
  Qed.

  Lemma graph_terms_reflag t pm r : graph_terms cfg fe (reflag t) pm r = graph_terms cfg fe t pm r.
  Proof. reflexivity. Qed.

  Lemma terms_reflag : forall f t r,
    subj_terms cfg fe d' tables f (reflag t) r = subj_terms cfg fe d tables f t r /\
    tm_triples cfg fe d' tables f (reflag t) r = tm_triples cfg fe d tables f t r /\
    (forall o, obj_terms cfg fe d' tables f (reflag t) o r = obj_terms cfg fe d tables f t o r).
  Proof.
    induction f as [|f IH]; intros t r; [cbn; auto|].
    split; [|split].
    - rewrite !subj_S. change (t_subj (reflag t)) with (t_subj t). change (t_sjoins (reflag t)) with (t_sjoins t).
      destruct (m_kind (t_subj t)); try reflexivity. rewrite find_tm_reflag.
      destruct (find_tm d (m_value (t_subj t))) as [q|]; [|reflexivity]. cbn [option_map]. change (t_src (reflag q)) with (t_src q).
      apply flat_map_ext. intro r'. now rewrite (proj1 (proj2 (IH q r'))).
    - rewrite !triples_S. rewrite (proj1 (IH t r)). change (t_poms (reflag t)) with (t_poms t). change (t_classes (reflag t)) with (t_classes t).
      apply flat_map_ext. intro s. apply flat_map_ext. intro pm. rewrite graph_terms_reflag.
      destruct (graph_terms cfg fe t pm r); [reflexivity|]. apply flat_map_ext. intro p. apply flat_map_ext. intro pt. apply flat_map_ext. intro o.
      now rewrite (proj2 (proj2 (IH t r)) o).
    - intro o. rewrite !obj_S. destruct (m_kind (o_tm o)); try reflexivity; rewrite find_tm_reflag.
      + destruct (find_tm d (m_value (o_tm o))) as [q|]; [|reflexivity]. cbn [option_map]. change (t_src (reflag q)) with (t_src q).
        apply flat_map_ext. intro r'. now rewrite (proj1 (proj2 (IH q r'))).
      + destruct (find_tm d (m_value (o_tm o))) as [p|]; [|reflexivity]. cbn [option_map]. change (t_src (reflag p)) with (t_src p).
        apply flat_map_ext. intro r'. now rewrite (proj1 (IH p r')).
  Qed.

  Lemma tm_row_lines_reflag t r : tm_row_lines cfg fe d' tables (reflag t) r = tm_row_lines cfg fe d tables t r.
  Proof.
    unfold tm_row_lines, spec_fuel, d'. rewrite map_length. fold d'. rewrite (proj1 (terms_reflag _ t r)).
    change (t_poms (reflag t)) with (t_poms t). change (t_classes (reflag t)) with (t_classes t).
    apply flat_map_ext. intro s. apply flat_map_ext. intro pm. apply flat_map_ext. intro p. apply flat_map_ext. intro pt. apply flat_map_ext. intro o.
    rewrite (proj2 (proj2 (terms_reflag _ t r)) o). now rewrite graph_terms_reflag.
  Qed.

  (* the document after re-flagging: exactly the statements of the triples maps that are asserted under the new flags, each unchanged *)
  Theorem reflagged_document_lines : forall x,
    In x (spec_lines cfg fe d' tables) <->
    exists t r, In t d /\ asserted (reflag t) = true /\ In r (tables (t_src t)) /\ In x (tm_row_lines cfg fe d tables t r).
  Proof.
    intro x. unfold spec_lines. rewrite mem_dedup, in_flat_map. split.
    - intros (t' & Ht' & Hx). unfold d' in Ht'. apply in_map_iff in Ht' as (t & <- & Ht).
      destruct (asserted (reflag t)) eqn:Ea; [|contradiction]. apply in_flat_map in Hx as (r & Hr & Hx).
      rewrite tm_row_lines_reflag in Hx. exists t, r. repeat split; auto.
    - intros (t & r & Ht & Ea & Hr & Hx). exists (reflag t). split; [unfold d'; now apply in_map|]. rewrite Ea.
      apply in_flat_map. exists r. split; [exact Hr|]. now rewrite tm_row_lines_reflag.
  Qed.
End Assert.
