(* C01: a whole rule over the frame _preprocess_data delivers: the engine's statements are exactly the statements the
   generation rules give for the rows of that frame. *)
From Coq Require Import Lia String.
From Morph Require Import Base.UStr Gen.Tables Model.Terms Model.Data Model.Engine Model.Mapping Model.Spec
     Proofs.DataP Proofs.TemplateP Proofs.TermP Proofs.RowwiseP Proofs.RowSpecP.
Local Open Scope N_scope.

(* a frame row as the Spec sees it *)
Definition srow_of (r : row) : srow := map (fun kv => (fst kv, Some (snd kv))) r.
Lemma assoc_srow_of n r : assoc n (srow_of r) = option_map Some (rget n r).
Proof. unfold rget. induction r as [|[k v] r IH]; simpl; auto. destruct (ueqb n k); auto. Qed.
Lemma rget_null_to_text na k r : rget k (null_to_text na r) = option_map (fun v => if is_na na v then u "<NA>" else v) (rget k r).
Proof. unfold rget. induction r as [|[k' v] r IH]; simpl; auto. destruct (ueqb k k'); auto. Qed.

(* in a preprocessed frame no referenced column holds a null token, so both layers read the same value *)
Lemma preprocessed_agree na refs f r scfg : s_na scfg = na -> In r (preprocess na refs f) -> row_agree scfg (srow_of r) [] r refs.
Proof.
  intros Hna Hr n Hn. cbn [app]. apply preprocess_in in Hr as (raw & _ & _ & Hnull & ->).
  unfold sval. rewrite assoc_srow_of, rget_null_to_text.
  destruct (rget n (str_row raw)) as [v|] eqn:E; simpl; auto.
  assert (Hv : is_na na v = false).
  { destruct (is_na na v) eqn:Ev; auto. exfalso.
    assert (X : row_has_null na refs (str_row raw) = true) by (apply row_has_null_iff; exists n, v; repeat split; auto; now apply mem_In).
    congruence. }
  rewrite Hv, Hna. unfold is_na in Hv. now rewrite Hv.
Qed.

Section Rule.
  Variables (cfg : ecfg) (fe : fenv) (rules : list rule) (get_data : ustr -> list ustr -> result frame) (scfg : scfg).
  Hypothesis Hcfg : cfg_agree cfg scfg.
  Hypothesis Hnq : c_nquads cfg = s_nquads scfg.

  Theorem plain_rule_is_spec rl na refs f :
    s_na scfg = na -> plain_rule rl = true -> rule_ok (c_nquads cfg) rl -> incl (rule_names rl) refs ->
    get_data (r_src rl) (rule_ref_set fe rules rl) = Ok (preprocess na refs f) ->
    (forall ls, rule_triples cfg fe rules get_data rl = Ok ls ->
       forall x, In x ls <-> exists r, In r (preprocess na refs f) /\ spec_rule_line scfg rl (srow_of r) = Some x) /\
    ((forall r, In r (preprocess na refs f) -> spec_rule_line scfg rl (srow_of r) <> None) ->
       exists ls, rule_triples cfg fe rules get_data rl = Ok ls).
  Proof.
    intros Hna Hp Hok Hincl Hd.
    pose proof (plain_rule_triples cfg fe rules get_data rl _ Hp Hd) as EQ.
    assert (Row : forall r, In r (preprocess na refs f) ->
              match row_lines cfg fe rl r with
              | Ok ls => exists line, spec_rule_line scfg rl (srow_of r) = Some line /\ ls = [line]
              | Err _ => spec_rule_line scfg rl (srow_of r) = None
              end).
    { intros r Hr. apply row_is_spec_row; auto. eapply row_agree_sub; [exact Hincl|]. now apply (preprocessed_agree na refs f). }
    split.
    - intros ls Hls. apply EQ in Hls. intro x. rewrite (frame_lines_in cfg fe rl _ ls Hls x). split.
      + intros (r & l & Hr & E & Hx). specialize (Row r Hr). rewrite E in Row. destruct Row as (line & Es & ->).
        destruct Hx as [<-|[]]. eauto.
      + intros (r & Hr & Es). specialize (Row r Hr). destruct (row_lines cfg fe rl r) as [l|e] eqn:E; [|congruence].
        destruct Row as (line & Es' & ->). exists r, [line]. repeat split; auto. left. congruence.
    - intro Hall. assert (X : exists l, frame_lines cfg fe rl (preprocess na refs f) = Ok l).
      { apply frame_lines_ok_iff. intros r Hr. specialize (Row r Hr). destruct (row_lines cfg fe rl r) as [l|e]; eauto. exfalso. now apply (Hall r Hr). }
      destruct X as (l & Hl). exists l. now apply EQ.
  Qed.
End Rule.
