(* C10: for tables of strings and NULLs the frame that reaches term construction reads the same in every referenced
   column whatever reader delivered it (CSV, XML, tabular view, columnar files, SQL query): exactly the rows without a
   NULL / null token in a referenced column, with exactly their strings. *)
From Coq Require Import String Lia.
From Morph Require Import Base.UStr Gen.Tables Model.Terms Model.Data Proofs.DataP.
Local Open Scope N_scope.

Lemma assoc_combine_map {A B} (f : A -> B) n cols : forall r, assoc n (combine cols (map f r)) = option_map f (assoc n (combine cols r)).
Proof. induction cols as [|c cols IH]; intros [|v r]; simpl; auto. destruct (ueqb n c); auto. Qed.
Lemma assoc_str_row n raw : rget n (str_row raw) = option_map py_str (assoc n raw).
Proof. unfold rget, str_row. induction raw as [|[k c] raw IH]; simpl; auto. destruct (ueqb n k); auto. Qed.
Lemma rget_null_to_text' na k r : rget k (null_to_text na r) = option_map (fun v => if is_na na v then u "<NA>" else v) (rget k r).
Proof. unfold rget. induction r as [|[k' v] r IH]; simpl; auto. destruct (ueqb k k'); auto. Qed.
Lemma assoc_project {A} refs n (l : list (ustr * A)) : mem n refs = true -> assoc n (project refs l) = assoc n l.
Proof.
  intro H. unfold project. induction l as [|[k v] l IH]; simpl; auto. destruct (mem k refs) eqn:Ek; simpl.
  - destruct (ueqb n k); auto.
  - destruct (ueqb n k) eqn:E; auto. apply ueqb_eq in E. subst. congruence.
Qed.

Definition str_cell (v : value) : bool := match v with VStr _ | VNull => true | _ => false end.
Definition reading (refs : list ustr) (r' : row) : list (option ustr) := map (fun n => rget n r') refs.

Section Cellwise.
  Variables (conv : value -> cell) (proj : rawrow -> rawrow) (cols refs na : list ustr).
  Hypothesis Hproj : forall n l, In n refs -> assoc n (proj l) = assoc n l.
  Hypothesis Hconv_str : forall s, conv (VStr s) = CStr s \/ (s = [] /\ conv (VStr s) = CNone).
  Hypothesis Hconv_null : conv VNull = CNone \/ conv VNull = CStr [].
  Hypothesis Hna : In [] na.     (* the empty string is a null token (the default na_values) *)
  Definition reader (rows : list (list value)) : list rawrow := map (fun r => proj (zip_row cols (map conv r))) rows.
  Definition cell_of (r : list value) (n : ustr) : option value := assoc n (combine cols r).
  (* a row is delivered iff every referenced cell is a string that is not a null token *)
  Definition good (r : list value) : Prop := forall n, In n refs -> exists s, cell_of r n = Some (VStr s) /\ ~ In s na.
  Definition canon_reading (r : list value) : list (option ustr) :=
    map (fun n => match cell_of r n with Some (VStr s) => Some s | _ => None end) refs.

  Lemma raw_cell r n : In n refs -> assoc n (proj (zip_row cols (map conv r))) = option_map conv (cell_of r n).
  Proof. intro H. rewrite Hproj by auto. apply assoc_combine_map. Qed.

  Theorem cellwise_delivers rows :
    (forall r, In r rows -> forallb str_cell r = true) ->
    (forall r n, In r rows -> In n refs -> cell_of r n <> None) ->
    forall x, In x (map (reading refs) (preprocess na refs (reader rows))) <-> exists r, In r rows /\ good r /\ x = canon_reading r.
  Proof.
    intros Hstr Hpres x. rewrite in_map_iff. split.
    - intros (r' & <- & Hr'). apply preprocess_in in Hr' as (raw & Hraw & Hn1 & Hn2 & ->).
      unfold reader in Hraw. apply in_map_iff in Hraw as (r & <- & Hr). exists r. split; auto.
      assert (G : forall n, In n refs -> exists s, cell_of r n = Some (VStr s) /\ ~ In s na /\
                    rget n (null_to_text na (str_row (proj (zip_row cols (map conv r))))) = Some s).
      { intros n Hn. destruct (cell_of r n) as [v|] eqn:Ec; [|exfalso; now apply (Hpres r n Hr Hn)].
        assert (Sv : str_cell v = true).
        { specialize (Hstr r Hr). rewrite forallb_forall in Hstr. apply Hstr. unfold cell_of in Ec.
          clear - Ec. revert r Ec. induction cols as [|c l IH]; intros [|v0 r] Ec; simpl in *; try discriminate.
          destruct (ueqb n c); [injection Ec as ->; now left|right; eauto]. }
        pose proof (raw_cell r n Hn) as Rc. rewrite Ec in Rc. simpl in Rc.
        assert (NotNull : conv v <> CNone /\ conv v <> CNaN).
        { split; intro E; assert (X : raw_has_null refs (proj (zip_row cols (map conv r))) = true)
            by (apply raw_has_null_iff; exists n; split; auto; rewrite Rc, E; auto); congruence. }
        assert (NotNa : ~ In (py_str (conv v)) na).
        { intro E. assert (X : row_has_null na refs (str_row (proj (zip_row cols (map conv r)))) = true)
            by (apply row_has_null_iff; exists n, (py_str (conv v)); repeat split; auto; rewrite assoc_str_row, Rc; reflexivity). congruence. }
        destruct v as [|s| | |]; try discriminate.
        - exfalso. destruct Hconv_null as [E|E]; [now apply (proj1 NotNull)|]. rewrite E in NotNa. now apply NotNa.
        - destruct (Hconv_str s) as [E|[-> E]]; [|exfalso; now apply (proj1 NotNull)]. rewrite E in NotNa. simpl in NotNa.
          exists s. repeat split; auto. rewrite rget_null_to_text', assoc_str_row, Rc, E. simpl.
          destruct (is_na na s) eqn:Ena; auto. exfalso. apply NotNa. now apply mem_In. }
      split.
      + intros n Hn. destruct (G n Hn) as (s & E & Hs & _). eauto.
      + unfold reading, canon_reading. apply map_ext_in. intros n Hn. destruct (G n Hn) as (s & E & _ & R). now rewrite E, R.
    - intros (r & Hr & Hg & ->). set (raw := proj (zip_row cols (map conv r))).
      assert (C : forall n, In n refs -> exists s, cell_of r n = Some (VStr s) /\ ~ In s na /\ assoc n raw = Some (CStr s)).
      { intros n Hn. destruct (Hg n Hn) as (s & E & Hs). exists s. repeat split; auto. unfold raw. rewrite raw_cell, E by auto. simpl.
        destruct (Hconv_str s) as [Ec|[-> _]]; [now rewrite Ec|]. contradiction. }
      exists (null_to_text na (str_row raw)). split.
      + unfold reading, canon_reading. apply map_ext_in. intros n Hn. destruct (C n Hn) as (s & E & Hs & Ra).
        rewrite rget_null_to_text', assoc_str_row, Ra, E. simpl. destruct (is_na na s) eqn:Ena; auto. exfalso. apply Hs. now apply mem_In.
      + apply preprocess_in. exists raw. repeat split; auto.
        * unfold reader. apply in_map_iff. exists r. split; [reflexivity|assumption].
        * destruct (raw_has_null refs raw) eqn:E; auto. apply raw_has_null_iff in E as (n & Hn & [E|E]); destruct (C n Hn) as (s & _ & _ & Ra); congruence.
        * destruct (row_has_null na refs (str_row raw)) eqn:E; auto. apply row_has_null_iff in E as (n & v & Hn & Ev & Hv).
          destruct (C n Hn) as (s & _ & Hs & Ra). rewrite assoc_str_row, Ra in Ev. simpl in Ev. injection Ev as <-. contradiction.
  Qed.
End Cellwise.

(* ---------------------------------------------------------------- the readers of Model/Data.v on tables of strings *)
Definition conv_text (v : value) : cell :=
  match v with VNull => CStr [] | VStr s => CStr s | VInt z => CStr (dec_of_Z z) | VFloatI z => CStr (dec_of_Z z ++ u ".0")
             | VBool true => CStr (u "True") | VBool false => CStr (u "False") end.
Definition conv_node (v : value) : cell :=
  match v with VNull => CNone | VStr [] => CNone | VStr s => CStr s | VInt z => CStr (dec_of_Z z) | VFloatI z => CStr (dec_of_Z z ++ u ".0")
             | VBool true => CStr (u "True") | VBool false => CStr (u "False") end.

Lemma existsb_none {A} (p : A -> bool) l : (forall x, In x l -> p x = false) -> existsb p l = false.
Proof. induction l as [|x l IH]; simpl; auto. intro H. rewrite (H x) by now left. apply IH. intros y Hy. apply H. now right. Qed.
Lemma column_in i rows v : In v (column i rows) -> exists r, In r rows /\ In v r.
Proof.
  unfold column. intro H. apply in_flat_map in H as (r & Hr & Hv). exists r. split; auto.
  destruct (nth_error r i) as [w|] eqn:E; [|contradiction]. destruct Hv as [<-|[]]. eapply nth_error_In; eauto.
Qed.
Lemma string_flags rows i : (forall r, In r rows -> forallb str_cell r = true) -> col_numeric_float (column i rows) = false.
Proof.
  intro H. unfold col_numeric_float, col_has.
  assert (S : forall v, In v (column i rows) -> str_cell v = true).
  { intros v Hv. apply column_in in Hv as (r & Hr & Hin). specialize (H r Hr). rewrite forallb_forall in H. auto. }
  assert (E1 : existsb is_int (column i rows) = false) by (apply existsb_none; intros v Hv; specialize (S v Hv); now destruct v).
  assert (E2 : existsb is_flt (column i rows) = false) by (apply existsb_none; intros v Hv; specialize (S v Hv); now destruct v).
  rewrite E1, E2. simpl. now rewrite !andb_false_r.
Qed.
Lemma combine_false n : forall r : list value, (length r <= n)%nat ->
  map (fun fv => coerce_cell (fst fv) (snd fv)) (combine (repeat false n) r) = map (coerce_cell false) r.
Proof. induction n as [|n IH]; intros [|v r] H; simpl in *; auto; try lia. f_equal. apply IH. lia. Qed.
Lemma coerce_string_rows cols rows :
  (forall r, In r rows -> forallb str_cell r = true) -> (forall r, In r rows -> length r = length cols) ->
  coerce_rows cols rows = map (fun r => zip_row cols (map (coerce_cell false) r)) rows.
Proof.
  intros Hs Hl. unfold coerce_rows.
  assert (F : map (fun i => col_numeric_float (column i rows)) (seq 0 (length cols)) = repeat false (length cols)).
  { clear Hl. generalize 0%nat. induction (length cols) as [|n IH]; intro k; [reflexivity|]. cbn [seq map repeat]. rewrite string_flags by auto. now rewrite IH. }
  rewrite F. apply map_ext_in. intros r Hr. f_equal. apply combine_false. rewrite (Hl r Hr). lia.
Qed.
Lemma cell_present cols n : forall r : list value, mem n cols = true -> length r = length cols -> assoc n (combine cols r) <> None.
Proof.
  induction cols as [|c cols IH]; intros [|v r] Hm Hl; simpl in *; try discriminate.
  destruct (ueqb n c) eqn:E; [discriminate|]. simpl in Hm. apply IH; auto.
Qed.

Definition string_kind (k : skind) : bool := match k with SCsv | SXml | SView | SColumnar | SSqlQuery => true | _ => false end.
Definition string_table (t : table) : Prop :=
  (forall r, In r (t_rows t) -> forallb str_cell r = true) /\ (forall r, In r (t_rows t) -> length r = length (t_cols t)).

(* whatever the format, the frame reads: the rows whose referenced cells are all non-null strings, with those strings *)
Theorem format_independent_reading k t refs na f :
  string_kind k = true -> string_table t -> refs <> [] -> In [] na -> arrive k refs t = Ok f ->
  forall x, In x (map (reading refs) (preprocess na refs f)) <->
            exists r, In r (t_rows t) /\ good (t_cols t) refs na r /\ x = canon_reading (t_cols t) refs r.
Proof.
  intros Hk [Hs Hl] Hne Hna Ha. unfold arrive in Ha. destruct (has_cols (t_cols t) refs) eqn:Hc; [|discriminate]. cbn [negb] in Ha.
  assert (Hpres : forall r n, In r (t_rows t) -> In n refs -> cell_of (t_cols t) r n <> None).
  { intros r n Hr Hn. apply cell_present; auto. unfold has_cols in Hc. rewrite forallb_forall in Hc. auto. }
  assert (Hproj : forall n l, In n refs -> assoc n (project (A := cell) refs l) = assoc n l) by (intros n l Hn; apply assoc_project; now apply mem_In).
  assert (Text : forall s, conv_text (VStr s) = CStr s \/ (s = [] /\ conv_text (VStr s) = CNone)) by (intro s; now left).
  assert (Node : forall s, conv_node (VStr s) = CStr s \/ (s = [] /\ conv_node (VStr s) = CNone)) by (intros [|c s]; [right|left]; auto).
  assert (Coe : forall s, coerce_cell false (VStr s) = CStr s \/ (s = [] /\ coerce_cell false (VStr s) = CNone)) by (intro s; now left).
  destruct k; try discriminate.
  - (* CSV *) destruct refs as [|n0 refs0]; [contradiction|]. injection Ha as <-.
    apply (cellwise_delivers conv_text (project (n0 :: refs0)) (t_cols t) (n0 :: refs0) na Hproj Text (or_intror eq_refl) Hna (t_rows t) Hs Hpres).
  - (* SQL query *) injection Ha as <-. rewrite coerce_string_rows by auto.
    apply (cellwise_delivers (coerce_cell false) (fun x => x) (t_cols t) refs na (fun _ _ _ => eq_refl) Coe (or_introl eq_refl) Hna (t_rows t) Hs Hpres).
  - (* columnar *) injection Ha as <-. rewrite coerce_string_rows, map_map by auto.
    apply (cellwise_delivers (coerce_cell false) (project refs) (t_cols t) refs na Hproj Coe (or_introl eq_refl) Hna (t_rows t) Hs Hpres).
  - (* XML *) injection Ha as <-.
    apply (cellwise_delivers conv_node (project refs) (t_cols t) refs na Hproj Node (or_introl eq_refl) Hna (t_rows t) Hs Hpres).
  - (* tabular view *) injection Ha as <-.
    apply (cellwise_delivers conv_node (fun x => x) (t_cols t) refs na (fun _ _ _ => eq_refl) Node (or_introl eq_refl) Hna (t_rows t) Hs Hpres).
Qed.
Corollary two_formats_same_reading k1 k2 t refs na f1 f2 :
  string_kind k1 = true -> string_kind k2 = true -> string_table t -> refs <> [] -> In [] na ->
  arrive k1 refs t = Ok f1 -> arrive k2 refs t = Ok f2 ->
  forall x, In x (map (reading refs) (preprocess na refs f1)) <-> In x (map (reading refs) (preprocess na refs f2)).
Proof.
  intros H1 H2 Ht Hr Hna A1 A2 x.
  rewrite (format_independent_reading k1 t refs na f1 H1 Ht Hr Hna A1 x), (format_independent_reading k2 t refs na f2 H2 Ht Hr Hna A2 x). tauto.
Qed.
