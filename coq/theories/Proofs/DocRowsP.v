(* C11 at document level: for documents of plain triples maps (no joins) the generation rules -- and, through the end-to-end
   theorem of C01, the engine -- give over the union of two row sets the union of what they give over each; the order of the
   rows and repeated rows do not matter. *)
From Coq Require Import String Lia.
From Morph Require Import Base.UStr Gen.Tables Model.Terms Model.Data Model.Engine Model.Mapping Model.Spec Model.Fragment
     Proofs.DataP Proofs.GroupingP Proofs.TermP Proofs.RowSpecP Proofs.DocSpecP Proofs.DocEngineP Proofs.DocQuotedP Proofs.DocUnionP.
Local Open Scope N_scope.

Section Rows.
  Variables (scfg : scfg) (fe : fenv).

  (* the statements of a plain triples map for a row do not depend on the tables *)
  Lemma plain_tm_lines_tables_indep doc tables tables' t sr : plain_tm t = true ->
    tm_row_lines scfg fe doc tables t sr = tm_row_lines scfg fe doc tables' t sr.
  Proof.
    intro Hpl. unfold plain_tm in Hpl. rewrite !andb_true_iff in Hpl. destruct Hpl as [[[Hsub Hsg] Hpoms] _].
    assert (Hobj : forall pm o, In pm (t_poms t ++ map class_pom (t_classes t)) -> In o (p_objs pm) -> plain_objmap o = true).
    { intros pm o Hpm Ho. apply in_app_iff in Hpm as [H|H].
      - rewrite forallb_forall in Hpoms. specialize (Hpoms pm H). unfold plain_pom in Hpoms. rewrite !andb_true_iff in Hpoms. destruct Hpoms as [[_ P] _]. rewrite forallb_forall in P. auto.
      - apply in_map_iff in H as (c & <- & _). pose proof (class_pom_plain c) as P. unfold plain_pom in P. rewrite !andb_true_iff in P. destruct P as [[_ P] _]. rewrite forallb_forall in P. auto. }
    destruct (spec_fuel_S doc) as (f & Ef). unfold tm_row_lines. rewrite Ef.
    assert (Es : subj_terms scfg fe doc tables (S f) t sr = subj_terms scfg fe doc tables' (S f) t sr).
    { unfold plain_map in Hsub. apply andb_true_iff in Hsub as [Hk _]. cbn [subj_terms]. destruct (m_kind (t_subj t)); try discriminate; reflexivity. }
    rewrite Es. apply flat_map_ext. intro s. apply flat_map_ext_in. intros pm Hpm. apply flat_map_ext. intro p. apply flat_map_ext. intro pt.
    apply flat_map_ext_in. intros o Ho.
    assert (Eo : obj_terms scfg fe doc tables (S f) t o sr = obj_terms scfg fe doc tables' (S f) t o sr).
    { pose proof (Hobj pm o Hpm Ho) as P. unfold plain_objmap, plain_map in P. rewrite !andb_true_iff in P. destruct P as [[Hk _] _].
      cbn [obj_terms]. destruct (m_kind (o_tm o)); try discriminate; reflexivity. }
    now rewrite Eo.
  Qed.

  (* a statement of the document comes from ONE row of the table of its triples map *)
  Theorem plain_document_statement_has_one_row d tables : forallb plain_tm d = true ->
    forall x, In x (spec_lines scfg fe d tables) <->
              exists t sr, In t d /\ asserted t = true /\ In sr (tables (t_src t)) /\ In x (tm_row_lines scfg fe d (fun _ => []) t sr).
  Proof.
    intros Hpl x. unfold spec_lines. rewrite mem_dedup, in_flat_map. split.
    - intros (t & Ht & Hx). destruct (asserted t) eqn:Ea; [|contradiction]. apply in_flat_map in Hx as (sr & Hsr & Hx).
      exists t, sr. repeat split; auto. rewrite forallb_forall in Hpl. now rewrite <- (plain_tm_lines_tables_indep d tables (fun _ => []) t sr (Hpl t Ht)).
    - intros (t & sr & Ht & Ea & Hsr & Hx). exists t. split; auto. rewrite Ea. apply in_flat_map. exists sr. split; auto.
      rewrite forallb_forall in Hpl. now rewrite (plain_tm_lines_tables_indep d tables (fun _ => []) t sr (Hpl t Ht)).
  Qed.

  (* hence: additive over the union of two row sets; and only the SET of rows of every table matters (order, repetitions) *)
  Theorem plain_document_additive_in_rows d t1 t2 : forallb plain_tm d = true ->
    forall x, In x (spec_lines scfg fe d (fun src => t1 src ++ t2 src)) <-> In x (spec_lines scfg fe d t1) \/ In x (spec_lines scfg fe d t2).
  Proof.
    intros Hpl x. rewrite !(plain_document_statement_has_one_row d _ Hpl). split.
    - intros (t & sr & Ht & Ea & Hsr & Hx). apply in_app_iff in Hsr as [Hsr|Hsr]; [left|right]; exists t, sr; auto.
    - intros [(t & sr & Ht & Ea & Hsr & Hx)|(t & sr & Ht & Ea & Hsr & Hx)]; exists t, sr; repeat split; auto; apply in_app_iff; auto.
  Qed.
  Theorem plain_document_depends_on_row_sets d t1 t2 : forallb plain_tm d = true -> (forall src sr, In sr (t1 src) <-> In sr (t2 src)) ->
    forall x, In x (spec_lines scfg fe d t1) <-> In x (spec_lines scfg fe d t2).
  Proof.
    intros Hpl Hs x. rewrite !(plain_document_statement_has_one_row d _ Hpl). split; intros (t & sr & Ht & Ea & Hsr & Hx); exists t, sr; repeat split; auto; now apply Hs.
  Qed.
End Rows.

(* the engine, end to end: over the union of two deliveries the result is the union of the results *)
Theorem engine_plain_document_additive_in_rows cfg fe scfg raw1 raw2 d rules l1 l2 l12 :
  cfg_agree cfg scfg -> c_nquads cfg = s_nquads scfg -> s_na scfg = c_na cfg ->
  forallb plain_tm d = true -> normalise d = Ok rules -> (forall rl, In rl rules -> simple_rule rl) ->
  (forall raw rl rw n, In raw [raw1; raw2] -> In rl rules -> In rw (raw (r_src rl)) -> In n (rule_names rl) -> assoc n rw <> None) ->
  materialize_rules cfg fe rules (delivered cfg raw1) = Ok l1 -> materialize_rules cfg fe rules (delivered cfg raw2) = Ok l2 ->
  materialize_rules cfg fe rules (delivered cfg (fun src => raw1 src ++ raw2 src)) = Ok l12 ->
  forall x, In x l12 <-> In x l1 \/ In x l2.
Proof.
  intros Hcfg Hnq Hna Hpl Hn Hs Hcols M1 M2 M12 x.
  assert (Hc12 : forall rl rw n, In rl rules -> In rw (raw1 (r_src rl) ++ raw2 (r_src rl)) -> In n (rule_names rl) -> assoc n rw <> None).
  { intros rl rw n Hrl Hrw Hn0. apply in_app_iff in Hrw as [Hrw|Hrw]; [apply (Hcols raw1 rl rw n)|apply (Hcols raw2 rl rw n)]; simpl; auto. }
  rewrite (engine_document_is_spec_document cfg fe scfg _ Hcfg Hnq Hna d rules l12 Hpl Hn Hs Hc12 M12 x).
  rewrite (engine_document_is_spec_document cfg fe scfg raw1 Hcfg Hnq Hna d rules l1 Hpl Hn Hs (fun rl rw n => Hcols raw1 rl rw n (or_introl eq_refl)) M1 x).
  rewrite (engine_document_is_spec_document cfg fe scfg raw2 Hcfg Hnq Hna d rules l2 Hpl Hn Hs (fun rl rw n => Hcols raw2 rl rw n (or_intror (or_introl eq_refl))) M2 x).
  unfold spec_tables. rewrite (plain_document_depends_on_row_sets scfg fe d (fun src => map srow_of_raw (raw1 src ++ raw2 src)) (fun src => map srow_of_raw (raw1 src) ++ map srow_of_raw (raw2 src)) Hpl).
  - apply plain_document_additive_in_rows. exact Hpl.
  - intros src sr. now rewrite map_app.
Qed.

(* C10 / C11: the engine's result for a plain document depends only on the SETS of rows delivered for its sources: two deliveries
   (two source formats, two orders, with or without repeated rows) that hand over the same rows give the same statements *)
Theorem engine_plain_document_depends_on_delivered_row_sets cfg fe scfg raw1 raw2 d rules l1 l2 :
  cfg_agree cfg scfg -> c_nquads cfg = s_nquads scfg -> s_na scfg = c_na cfg ->
  forallb plain_tm d = true -> normalise d = Ok rules -> (forall rl, In rl rules -> simple_rule rl) ->
  (forall raw rl rw n, In raw [raw1; raw2] -> In rl rules -> In rw (raw (r_src rl)) -> In n (rule_names rl) -> assoc n rw <> None) ->
  (forall src rw, In rw (raw1 src) <-> In rw (raw2 src)) ->
  materialize_rules cfg fe rules (delivered cfg raw1) = Ok l1 -> materialize_rules cfg fe rules (delivered cfg raw2) = Ok l2 ->
  forall x, In x l1 <-> In x l2.
Proof.
  intros Hcfg Hnq Hna Hpl Hn Hs Hcols Hsame M1 M2 x.
  rewrite (engine_document_is_spec_document cfg fe scfg raw1 Hcfg Hnq Hna d rules l1 Hpl Hn Hs (fun rl rw n => Hcols raw1 rl rw n (or_introl eq_refl)) M1 x).
  rewrite (engine_document_is_spec_document cfg fe scfg raw2 Hcfg Hnq Hna d rules l2 Hpl Hn Hs (fun rl rw n => Hcols raw2 rl rw n (or_intror (or_introl eq_refl))) M2 x).
  apply plain_document_depends_on_row_sets; [exact Hpl|]. intros src sr. unfold spec_tables. rewrite !in_map_iff.
  split; intros (rw & E & Hrw); exists rw; split; auto; now apply Hsame.
Qed.
