(* Order and prefix lemmas on code-point strings (Python str order, str.startswith). *)
From Coq Require Import String Lia Sorted.
From Morph Require Import Base.UStr.
Local Open Scope N_scope.

Lemma leb_refl a : le a a.
Proof. induction a; unfold le in *; simpl; auto. now rewrite N.ltb_irrefl, N.eqb_refl. Qed.
Lemma leb_trans a : forall b c, le a b -> le b c -> le a c.
Proof.
  unfold le. induction a as [|x a IH]; intros b c H1 H2; simpl in *; auto.
  destruct b as [|y b]; [discriminate|]. destruct c as [|z c]; [simpl in H2; discriminate|].
  simpl in *. destruct (N.ltb x y) eqn:Hxy.
  - apply N.ltb_lt in Hxy. destruct (N.ltb y z) eqn:Hyz.
    + apply N.ltb_lt in Hyz. assert (x < z) by lia. apply N.ltb_lt in H. now rewrite H.
    + destruct (N.eqb y z) eqn:E; [|discriminate]. apply N.eqb_eq in E; subst.
      apply N.ltb_lt in Hxy. now rewrite Hxy.
  - destruct (N.eqb x y) eqn:E; [|discriminate]. apply N.eqb_eq in E; subst y.
    destruct (N.ltb x z); auto. destruct (N.eqb x z); [|discriminate]. eauto.
Qed.
Lemma leb_antisym a : forall b, le a b -> le b a -> a = b.
Proof.
  unfold le. induction a as [|x a IH]; intros [|y b] H1 H2; simpl in *; try discriminate; auto.
  destruct (N.ltb x y) eqn:Hxy.
  - apply N.ltb_lt in Hxy. destruct (N.ltb y x) eqn:Hyx; [apply N.ltb_lt in Hyx; lia|].
    destruct (N.eqb y x) eqn:E; [apply N.eqb_eq in E; lia|discriminate].
  - destruct (N.eqb x y) eqn:E; [|discriminate]. apply N.eqb_eq in E; subst y.
    rewrite N.ltb_irrefl, N.eqb_refl in H2. f_equal; auto.
Qed.
Lemma leb_total a : forall b, le a b \/ le b a.
Proof.
  unfold le. induction a as [|x a IH]; intros [|y b]; simpl; auto.
  destruct (N.ltb x y) eqn:E1; auto. destruct (N.ltb y x) eqn:E2; auto.
  apply N.ltb_ge in E1, E2. assert (x = y) by lia. subst. rewrite N.eqb_refl. apply IH.
Qed.
Lemma prefixb_refl a : prefixb a a = true.
Proof. induction a; simpl; auto. now rewrite N.eqb_refl. Qed.
Lemma prefix_le p : forall s, prefixb p s = true -> le p s.
Proof.
  unfold le. induction p as [|a p IH]; intros s H; simpl in *; auto.
  destruct s as [|b s]; [discriminate|]. apply andb_true_iff in H as [H1 H2]. apply N.eqb_eq in H1; subst.
  rewrite N.ltb_irrefl, N.eqb_refl. auto.
Qed.
Lemma prefix_trans p : forall q s, prefixb p q = true -> prefixb q s = true -> prefixb p s = true.
Proof.
  induction p as [|a p IH]; intros q s H1 H2; simpl in *; auto.
  destruct q as [|b q]; [discriminate|]. destruct s as [|c s]; [simpl in H2; discriminate|]. simpl in *.
  apply andb_true_iff in H1 as [E1 H1]. apply andb_true_iff in H2 as [E2 H2].
  apply N.eqb_eq in E1, E2; subst. rewrite N.eqb_refl. simpl. eauto.
Qed.
Lemma prefixb_app p : forall w, prefixb p (p ++ w) = true.
Proof. induction p as [|a p IH]; intro w; simpl; auto. now rewrite N.eqb_refl, IH. Qed.
Lemma prefixb_iff p : forall s, prefixb p s = true <-> exists w, s = p ++ w.
Proof.
  induction p as [|a p IH]; intro s; simpl.
  - split; eauto.
  - destruct s as [|b s]; [split; [discriminate|intros (w & H); discriminate]|].
    rewrite andb_true_iff, N.eqb_eq, IH. split.
    + intros (-> & w & ->). eauto.
    + intros (w & H). injection H as -> ->. eauto.
Qed.
(* whatever lies (in string order) between a string and one of its extensions extends it too *)
Lemma lex_interval p : forall s t, le p s -> le s t -> prefixb p t = true -> prefixb p s = true.
Proof.
  unfold le. induction p as [|a p IH]; intros s t H1 H2 H3; simpl in *; [reflexivity|].
  destruct t as [|c t]; [discriminate|]. apply andb_true_iff in H3 as [E H3]. apply N.eqb_eq in E; subst c.
  destruct s as [|b s]; [discriminate|]. simpl in H2.
  destruct (N.ltb a b) eqn:Hab.
  - apply N.ltb_lt in Hab. destruct (N.ltb b a) eqn:Hba; [apply N.ltb_lt in Hba; lia|].
    destruct (N.eqb b a) eqn:He; [apply N.eqb_eq in He; lia| discriminate].
  - destruct (N.eqb a b) eqn:He; [|discriminate]. apply N.eqb_eq in He; subst b.
    rewrite N.ltb_irrefl, N.eqb_refl in H2. simpl. eapply IH; eauto.
Qed.
(* two strings neither of which is a prefix of the other stay different whatever is appended to them *)
Lemma incomparable_ext h1 : forall h2 u v, prefixb h1 h2 = false -> prefixb h2 h1 = false -> h1 ++ u <> h2 ++ v.
Proof.
  induction h1 as [|a h1 IH]; intros h2 u v H1 H2; [discriminate|].
  destruct h2 as [|b h2]; [discriminate|]. simpl in *. intro E. injection E as -> E.
  rewrite N.eqb_refl in *. simpl in *. eapply IH; eauto.
Qed.
