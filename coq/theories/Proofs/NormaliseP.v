(* C09: equivalent spellings of a triples map normalise to the same rule table.
   (1) classes written as rdf:type predicate-object maps, subject graph maps repeated on every predicate-object map,
       the default graph written out: [prepare] is idempotent, so the explicit document gives the same rules;
   (2) a multi-valued predicate-object map and its split into one map per (predicate, object) pair give the same rules. *)
From Coq Require Import Lia String.
From Morph Require Import Base.UStr Gen.Tables Model.Terms Model.Data Model.Engine Model.Mapping Proofs.DataP Proofs.GroupingP Proofs.RowwiseP.
Local Open Scope N_scope.

Definition prepare_tm (t : tmapdef) : tmapdef := complete_default_graph (sgraphs_to_pom (class_to_pom t)).
Lemma prepare_map d : prepare d = map prepare_tm d. Proof. reflexivity. Qed.

Lemma default_graph_idem p : default_graph (default_graph p) = default_graph p.
Proof. unfold default_graph. destruct (p_graphs p) eqn:E; simpl; [reflexivity|now rewrite E]. Qed.
Lemma pom_eta p : {| p_preds := p_preds p; p_objs := p_objs p; p_graphs := p_graphs p ++ [] |} = p.
Proof. destruct p; simpl. now rewrite app_nil_r. Qed.

Lemma poms_idem (L : list pom) :
  map default_graph (map (fun p => {| p_preds := p_preds p; p_objs := p_objs p; p_graphs := p_graphs p ++ [] |}) (map default_graph L ++ []))
  = map default_graph L.
Proof. rewrite app_nil_r. rewrite !map_map. apply map_ext. intro p. rewrite pom_eta. apply default_graph_idem. Qed.
Theorem prepare_tm_idem t : prepare_tm (prepare_tm t) = prepare_tm t.
Proof. unfold prepare_tm, complete_default_graph, sgraphs_to_pom, class_to_pom. simpl. f_equal. apply poms_idem. Qed.
Theorem prepare_idem d : prepare (prepare d) = prepare d.
Proof. unfold prepare. fold prepare_tm. rewrite map_map. apply map_ext. apply prepare_tm_idem. Qed.

(* the fully explicit spelling of a document normalises to the same rule table, whatever the document *)
Theorem normalise_explicit d : normalise (prepare d) = normalise d.
Proof. unfold normalise. now rewrite prepare_idem. Qed.

(* each of the three rewrites alone is absorbed as well *)
Lemma class_to_pom_absorbed t : prepare_tm (class_to_pom t) = prepare_tm t.
Proof. unfold prepare_tm, complete_default_graph, sgraphs_to_pom, class_to_pom. simpl. now rewrite app_nil_r. Qed.
Theorem normalise_classes_as_poms d : normalise (map class_to_pom d) = normalise d.
Proof.
  unfold normalise. replace (prepare (map class_to_pom d)) with (prepare d); auto.
  rewrite (prepare_map d), (prepare_map (map class_to_pom d)), map_map. apply map_ext. intro t. symmetry. apply class_to_pom_absorbed.
Qed.
(* subject graph maps repeated on every predicate-object map (class maps made explicit first: they receive them too) *)
Definition graphs_on_poms (t : tmapdef) : tmapdef := sgraphs_to_pom (class_to_pom t).
Lemma graphs_on_poms_absorbed t : prepare_tm (graphs_on_poms t) = prepare_tm t.
Proof.
  unfold prepare_tm, graphs_on_poms, complete_default_graph, sgraphs_to_pom, class_to_pom. simpl. f_equal.
  rewrite app_nil_r. rewrite !map_map. apply map_ext. intro p. now rewrite pom_eta.
Qed.
Theorem normalise_graphs_on_poms d : normalise (map graphs_on_poms d) = normalise d.
Proof.
  unfold normalise. replace (prepare (map graphs_on_poms d)) with (prepare d); auto.
  rewrite (prepare_map d), (prepare_map (map graphs_on_poms d)), map_map. apply map_ext. intro t. symmetry. apply graphs_on_poms_absorbed.
Qed.

(* ---------------------------------------------------------------- (2) multi-valued vs split predicate-object maps *)
Definition split_pom (p : pom) : list pom :=
  flat_map (fun pm => map (fun o => {| p_preds := [pm]; p_objs := [o]; p_graphs := p_graphs p |}) (p_objs p)) (p_preds p).
Definition split_tm (t : tmapdef) : tmapdef :=
  {| t_id := t_id t; t_src := t_src t; t_nonasserted := t_nonasserted t; t_subj := t_subj t; t_sjoins := t_sjoins t;
     t_classes := t_classes t; t_sgraphs := t_sgraphs t; t_poms := flat_map split_pom (t_poms t) |}.
(* a predicate-object map does not mix referencing and ordinary object maps (the parsing query drops the referencing ones
   of a mixed map: recorded finding mixed-pom) and has at least one predicate and one object map *)
Definition unmixed (p : pom) : bool :=
  (forallb is_parent (p_objs p) || forallb (fun o => negb (is_parent o)) (p_objs p))
  && negb (match p_preds p with [] => true | _ => false end) && negb (match p_objs p with [] => true | _ => false end).

Lemma rmap_all_guard {A B} (ok : A -> bool) (g : A -> B) e l :
  rmap_all (fun x => if ok x then Ok (g x) else Err e) l = if forallb ok l then Ok (map g l) else Err e.
Proof. induction l as [|x l IH]; simpl; auto. destruct (ok x); simpl; auto. rewrite IH. now destruct (forallb ok l). Qed.

Lemma effective_unmixed p : unmixed p = true -> effective_objs p = p_objs p.
Proof.
  unfold unmixed, effective_objs. intro H. apply andb_true_iff in H as [H _]. apply andb_true_iff in H as [H _].
  apply orb_true_iff in H as [H|H].
  - replace (filter (fun o => negb (is_parent o)) (p_objs p)) with (@nil objmap); auto.
    induction (p_objs p) as [|o l IH]; simpl in *; auto. apply andb_true_iff in H as [H1 H2]. rewrite H1. simpl. auto.
  - replace (filter (fun o => negb (is_parent o)) (p_objs p)) with (p_objs p); [now destruct (p_objs p)|].
    induction (p_objs p) as [|o l IH]; simpl in *; auto. apply andb_true_iff in H as [H1 H2]. rewrite H1. simpl. f_equal. auto.
Qed.

Section Split.
  Variables (d : document) (t : tmapdef).
  (* the per-map computation of base_rules_of, as a guard and a pure generator *)
  Definition ott_of (o : objmap) : ttype :=
    if is_parent o then tt_final (match m_tt (o_tm o) with Some x => Some x | None => parent_subject_tt d (m_value (o_tm o)) end)
    else tt_final (tt_object o).
  Definition obj_ok (o : objmap) : bool := valid_object_tt (ott_of o).
  Definition obj_rows (o : objmap) := map (fun ldr => (o, ott_of o, ldr)) (if is_parent o then [(LDNone, KNone, [])] else ld_rows o).
  Definition iri_ok (m : tmap) : bool := match tt_final (tt_early m) with TIri => true | _ => false end.
  Definition pom_ok (p : pom) : bool := forallb obj_ok (effective_objs p) && forallb iri_ok (p_preds p) && forallb iri_ok (p_graphs p).
  Variable mk : mkind -> ustr -> mkind -> ustr -> ttype -> ldkind -> mkind -> ustr -> mkind -> ustr -> list (ustr * ustr) -> rule.
  Definition gen (preds : list tmap) (rows : list (objmap * ttype * (ldkind * mkind * ustr))) (graphs : list tmap) : list rule :=
    flat_map (fun pm => flat_map (fun oo => flat_map (fun gm =>
      let '(o, ott, (ld, ldk, ldv)) := oo in
      [mk (m_kind pm) (m_value pm) (m_kind (o_tm o)) (m_value (o_tm o)) ott ld ldk ldv (m_kind gm) (m_value gm) (o_joins o)])
      graphs) rows) preds.
  Definition pom_rules (p : pom) : list rule := gen (p_preds p) (flat_map obj_rows (effective_objs p)) (p_graphs p).
  Definition per_pom (p : pom) : result (list rule) :=
    rdo objs <- rmap_all (fun o =>
          let ott := if is_parent o
                     then tt_final (match m_tt (o_tm o) with Some x => Some x | None => parent_subject_tt d (m_value (o_tm o)) end)
                     else tt_final (tt_object o) in
          if negb (valid_object_tt ott) then Err EValue else
          Ok (map (fun ldr => (o, ott, ldr)) (if is_parent o then [(LDNone, KNone, [])] else ld_rows o))) (effective_objs p);
    rdo preds <- rmap_all (fun pm => match tt_final (tt_early pm) with TIri => Ok pm | _ => Err EValue end) (p_preds p);
    rdo graphs <- rmap_all (fun gm => match tt_final (tt_early gm) with TIri => Ok gm | _ => Err EValue end) (p_graphs p);
    Ok (gen preds (concat objs) graphs).

  Lemma per_pom_guard p : per_pom p = if pom_ok p then Ok (pom_rules p) else Err EValue.
  Proof.
    unfold per_pom, pom_ok, pom_rules.
    rewrite (rmap_all_ext _ (fun o => if obj_ok o then Ok (obj_rows o) else Err EValue)).
    2:{ intro o. unfold obj_ok, obj_rows, ott_of. now destruct (valid_object_tt _). }
    rewrite (rmap_all_ext (fun pm => match tt_final (tt_early pm) with TIri => Ok pm | _ => Err EValue end)
                          (fun pm => if iri_ok pm then Ok ((fun x => x) pm) else Err EValue)).
    2:{ intro m. unfold iri_ok. now destruct (tt_final (tt_early m)). }
    rewrite (rmap_all_ext (fun gm => match tt_final (tt_early gm) with TIri => Ok gm | _ => Err EValue end)
                          (fun pm => if iri_ok pm then Ok ((fun x => x) pm) else Err EValue)).
    2:{ intro m. unfold iri_ok. now destruct (tt_final (tt_early m)). }
    rewrite !rmap_all_guard. destruct (forallb obj_ok (effective_objs p)); simpl; auto.
    destruct (forallb iri_ok (p_preds p)); simpl; auto. destruct (forallb iri_ok (p_graphs p)); simpl; auto.
    rewrite !map_id. now rewrite flat_map_concat_map.
  Qed.

  Lemma gen_app_preds a b rows graphs : gen (a ++ b) rows graphs = gen a rows graphs ++ gen b rows graphs.
  Proof. unfold gen. now rewrite flat_map_app. Qed.
  Lemma gen_single_pred pm rows1 rows2 graphs : gen [pm] (rows1 ++ rows2) graphs = gen [pm] rows1 graphs ++ gen [pm] rows2 graphs.
  Proof. unfold gen. simpl. rewrite !app_nil_r. now rewrite flat_map_app. Qed.

  (* validity and rules of a split map *)
  Lemma split_ok p : unmixed p = true -> forallb pom_ok (split_pom p) = pom_ok p.
  Proof.
    intro H. pose proof (effective_unmixed p H) as Ee. unfold pom_ok. rewrite Ee.
    unfold unmixed in H. apply andb_true_iff in H as [H Ho]. apply andb_true_iff in H as [_ Hp].
    unfold split_pom. destruct (p_preds p) as [|pm ps]; [discriminate|]. destruct (p_objs p) as [|o os]; [discriminate|]. clear Hp Ho Ee.
    assert (One : forall pm o, pom_ok {| p_preds := [pm]; p_objs := [o]; p_graphs := p_graphs p |} = obj_ok o && iri_ok pm && forallb iri_ok (p_graphs p)).
    { intros pm' o'. unfold pom_ok, effective_objs. simpl. destruct (is_parent o'); simpl; now rewrite !andb_true_r. }
    assert (Row : forall pm l, forallb pom_ok (map (fun o => {| p_preds := [pm]; p_objs := [o]; p_graphs := p_graphs p |}) l)
                               = forallb obj_ok l && (match l with [] => true | _ => iri_ok pm && forallb iri_ok (p_graphs p) end)).
    { intros pm' l. induction l as [|o' l IH]; auto. cbn [map forallb]. unfold pom_ok at 1. fold (pom_ok {| p_preds := [pm']; p_objs := [o']; p_graphs := p_graphs p |}).
      rewrite One, IH. destruct (obj_ok o'), (forallb obj_ok l), (iri_ok pm'), (forallb iri_ok (p_graphs p)), l; reflexivity. }
    assert (All : forall l, forallb pom_ok (flat_map (fun pm => map (fun o => {| p_preds := [pm]; p_objs := [o]; p_graphs := p_graphs p |}) (o :: os)) l)
                            = match l with [] => true | _ => forallb obj_ok (o :: os) && forallb iri_ok l && forallb iri_ok (p_graphs p) end).
    { induction l as [|pm' l IH]; auto. cbn [flat_map]. rewrite forallb_app, Row, IH.
      cbn [forallb]. destruct (obj_ok o), (forallb obj_ok os), (iri_ok pm'), (forallb iri_ok (p_graphs p)), l; simpl; auto; now rewrite ?andb_true_r, ?andb_false_r. }
    now rewrite All.
  Qed.
End Split.

Lemma flat_map_flat_map {A B C} (f : B -> list C) (g : A -> list B) l : flat_map f (flat_map g l) = flat_map (fun x => flat_map f (g x)) l.
Proof. induction l as [|x l IH]; simpl; auto. now rewrite flat_map_app, IH. Qed.
Lemma concat_map_flat_map {A B C} (f : B -> list C) (g : A -> list B) l : concat (map f (flat_map g l)) = flat_map (fun x => concat (map f (g x))) l.
Proof. induction l as [|x l IH]; simpl; auto. now rewrite map_app, concat_app, IH. Qed.

Section Split2.
  Variables (d : document).
  Variable mk : mkind -> ustr -> mkind -> ustr -> ttype -> ldkind -> mkind -> ustr -> mkind -> ustr -> list (ustr * ustr) -> rule.
  Lemma split_rules p : unmixed p = true -> concat (map (pom_rules d mk) (split_pom p)) = pom_rules d mk p.
  Proof.
    intro H. pose proof (effective_unmixed p H) as Ee. unfold pom_rules. rewrite Ee. unfold split_pom.
    rewrite concat_map_flat_map. unfold gen at 2.
    apply flat_map_ext. intro pm. rewrite map_map. cbn [p_preds p_graphs].
    rewrite flat_map_flat_map. rewrite <- flat_map_concat_map. apply flat_map_ext. intro o.
    assert (E1 : effective_objs {| p_preds := [pm]; p_objs := [o]; p_graphs := p_graphs p |} = [o]).
    { unfold effective_objs. simpl. now destruct (is_parent o). }
    rewrite E1. unfold gen. simpl. now rewrite !app_nil_r.
  Qed.
End Split2.

Definition mk_rule (t : tmapdef) (asserted : bool) (stt : ttype) pk pv ok ov ott ld ldk ldv gk gv oj : rule :=
  {| r_id := []; r_tm := t_id t; r_src := t_src t; r_asserted := asserted;
     r_sk := m_kind (t_subj t); r_sv := undelimit (m_kind (t_subj t)) (m_value (t_subj t)); r_stt := stt;
     r_pk := pk; r_pv := undelimit pk pv; r_ok := ok; r_ov := undelimit ok ov; r_ott := ott;
     r_ld := ld; r_ldk := ldk; r_ldv := ldv; r_gk := gk; r_gv := undelimit gk gv;
     r_sjoin := undelimit_joins (t_sjoins t); r_ojoin := undelimit_joins oj |}.
Lemma base_rules_unfold d t :
  base_rules_of d t =
  let stt := tt_final (tt_early (t_subj t)) in
  if negb (valid_subject_tt stt) then Err EValue else
  let asserted := negb (t_nonasserted t) && negb (match t_poms t with [] => true | _ => false end) in
  match t_poms t with
  | [] => Ok [mk_rule t asserted stt KNone [] KNone [] TNone LDNone KNone [] KNone [] []]
  | _ => rdo l <- rmap_all (per_pom d (mk_rule t asserted stt)) (t_poms t); Ok (concat l)
  end.
Proof. unfold base_rules_of. cbv zeta. destruct (negb _); auto. destruct (t_poms t); reflexivity. Qed.

(* a triples map with multi-valued predicate-object maps and the same map with one predicate-object map per
   (predicate map, object map) pair give the same rules, in the same order, and are rejected alike *)
Theorem base_rules_split d t : forallb unmixed (t_poms t) = true -> base_rules_of d (split_tm t) = base_rules_of d t.
Proof.
  intro H. rewrite !base_rules_unfold. cbv zeta. cbn [split_tm t_subj t_poms t_nonasserted].
  destruct (negb (valid_subject_tt _)); auto.
  destruct (t_poms t) as [|p ps] eqn:Ep; [reflexivity|].
  assert (Hne : exists q qs, flat_map split_pom (p :: ps) = q :: qs).
  { cbn [flat_map]. cbn [forallb] in H. apply andb_true_iff in H as [H _]. unfold unmixed in H.
    apply andb_true_iff in H as [H Ho]. apply andb_true_iff in H as [_ Hp]. unfold split_pom.
    destruct (p_preds p) as [|pm pms]; [discriminate|]. destruct (p_objs p) as [|o os]; [discriminate|]. simpl. eauto. }
  destruct Hne as (q & qs & Eq). rewrite Eq. rewrite <- Eq. clear Eq q qs.
  set (mk := mk_rule _ _ _).
  assert (G : forall l, rmap_all (per_pom d mk) l = if forallb (pom_ok d) l then Ok (map (pom_rules d mk) l) else Err EValue).
  { intro l. rewrite (rmap_all_ext _ (fun p => if pom_ok d p then Ok (pom_rules d mk p) else Err EValue)) by apply per_pom_guard.
    apply rmap_all_guard. }
  rewrite !G.
  assert (V : forall l, forallb unmixed l = true -> forallb (pom_ok d) (flat_map split_pom l) = forallb (pom_ok d) l).
  { induction l as [|x l IH]; auto. cbn [forallb flat_map]. intro Hl. apply andb_true_iff in Hl as [H1 H2]. now rewrite forallb_app, split_ok, IH. }
  assert (R : forall l, forallb unmixed l = true -> concat (map (pom_rules d mk) (flat_map split_pom l)) = concat (map (pom_rules d mk) l)).
  { induction l as [|x l IH]; auto. cbn [forallb flat_map map concat]. intro Hl. apply andb_true_iff in Hl as [H1 H2]. now rewrite map_app, concat_app, split_rules, IH. }
  rewrite V by auto. destruct (forallb (pom_ok d) (p :: ps)); cbn [rbind]; auto. now rewrite R.
Qed.

(* ---- lifted to the whole normalisation chain *)
Lemma split_pom_graphs (f : list tmap -> list tmap) p :
  split_pom {| p_preds := p_preds p; p_objs := p_objs p; p_graphs := f (p_graphs p) |}
  = map (fun q => {| p_preds := p_preds q; p_objs := p_objs q; p_graphs := f (p_graphs q) |}) (split_pom p).
Proof.
  unfold split_pom. cbn [p_preds p_objs p_graphs]. induction (p_preds p) as [|pm l IH]; auto. cbn [flat_map].
  rewrite map_app, IH, map_map. reflexivity.
Qed.
Lemma split_default_graph p : split_pom (default_graph p) = map default_graph (split_pom p).
Proof.
  unfold default_graph. destruct (p_graphs p) eqn:E.
  - rewrite (split_pom_graphs (fun _ => [const_iri Tables.c_rml_default_graph]) p). apply map_ext_in. intros q Hq.
    assert (Gq : p_graphs q = []).
    { unfold split_pom in Hq. apply in_flat_map in Hq as (pm & _ & Hq). apply in_map_iff in Hq as (o & <- & _). exact E. }
    now rewrite Gq.
  - rewrite <- (map_id (split_pom p)) at 1. apply map_ext_in. intros q Hq.
    assert (Gq : p_graphs q = p_graphs p).
    { unfold split_pom in Hq. apply in_flat_map in Hq as (pm & _ & Hq). apply in_map_iff in Hq as (o & <- & _). reflexivity. }
    now rewrite Gq, E.
Qed.
Lemma split_class_pom c : split_pom (class_pom c) = [class_pom c]. Proof. reflexivity. Qed.
Lemma flat_map_map {A B C} (f : B -> list C) (g : A -> B) l : flat_map f (map g l) = flat_map (fun x => f (g x)) l.
Proof. induction l as [|x l IH]; simpl; auto. now rewrite IH. Qed.
Lemma split_prepared (sg : list tmap) L :
  flat_map split_pom (map default_graph (map (fun p => {| p_preds := p_preds p; p_objs := p_objs p; p_graphs := p_graphs p ++ sg |}) L))
  = map default_graph (map (fun p => {| p_preds := p_preds p; p_objs := p_objs p; p_graphs := p_graphs p ++ sg |}) (flat_map split_pom L)).
Proof.
  induction L as [|x L IH]; auto. cbn [map flat_map]. rewrite IH, !map_app. f_equal.
  rewrite split_default_graph. now rewrite (split_pom_graphs (fun g => g ++ sg) x).
Qed.
Lemma split_class_poms cs : flat_map split_pom (map class_pom cs) = map class_pom cs.
Proof. induction cs as [|c l IH]; auto. simpl. now rewrite IH. Qed.
Lemma prepare_split t : prepare_tm (split_tm t) = split_tm (prepare_tm t).
Proof.
  unfold prepare_tm, split_tm, complete_default_graph, sgraphs_to_pom, class_to_pom. cbn. f_equal.
  rewrite split_prepared. now rewrite flat_map_app, split_class_poms.
Qed.
Lemma find_split_subj d id :
  option_map t_subj (find (fun t => ueqb (t_id t) id) (map split_tm d)) = option_map t_subj (find (fun t => ueqb (t_id t) id) d).
Proof. induction d as [|t d IH]; simpl; auto. destruct (ueqb (t_id t) id); auto. Qed.
Lemma parent_tt_split d id : parent_subject_tt (map split_tm d) id = parent_subject_tt d id.
Proof.
  unfold parent_subject_tt. pose proof (find_split_subj d id) as H.
  destruct (find _ (map split_tm d)), (find _ d); simpl in H; try discriminate; auto. now injection H as ->.
Qed.
Lemma base_rules_doc_split d t : base_rules_of (map split_tm d) t = base_rules_of d t.
Proof.
  rewrite !base_rules_unfold. cbv zeta. destruct (negb _); auto. destruct (t_poms t) as [|p0 ps0]; auto.
  f_equal. apply rmap_all_ext. intro q. unfold per_pom. f_equal. apply rmap_all_ext. intro o. now rewrite parent_tt_split.
Qed.
Definition all_unmixed (d : document) : bool := forallb (fun t => forallb unmixed (t_poms t)) (prepare d).
Lemma split_nonempty t : forallb unmixed (t_poms t) = true -> (match t_poms (split_tm t) with [] => true | _ => false end) = (match t_poms t with [] => true | _ => false end).
Proof.
  cbn [split_tm t_poms]. destruct (t_poms t) as [|p ps]; auto. cbn [forallb flat_map]. intro H. apply andb_true_iff in H as [H _].
  unfold unmixed in H. apply andb_true_iff in H as [H Ho]. apply andb_true_iff in H as [_ Hp]. unfold split_pom.
  destruct (p_preds p); [discriminate|]. destruct (p_objs p); [discriminate|]. reflexivity.
Qed.
Lemma rmap_base_split d0 l : forallb (fun t => forallb unmixed (t_poms t)) l = true ->
  rmap_all (base_rules_of d0) (map split_tm l) = rmap_all (base_rules_of d0) l.
Proof. induction l as [|t l IH]; auto. cbn [map forallb rmap_all]. intro H. apply andb_true_iff in H as [H1 H2]. now rewrite base_rules_split, IH. Qed.
Lemma nopom_split l : forallb (fun t => forallb unmixed (t_poms t)) l = true ->
  forallb (fun t => match t_poms t with [] => true | _ => false end) (map split_tm l) = forallb (fun t => match t_poms t with [] => true | _ => false end) l.
Proof. induction l as [|t l IH]; auto. cbn [map forallb]. intro H. apply andb_true_iff in H as [H1 H2]. now rewrite split_nonempty, IH. Qed.
(* the whole chain: every document whose maps do not mix referencing and ordinary object maps *)
Theorem normalise_split d : all_unmixed d = true -> normalise (map split_tm d) = normalise d.
Proof.
  intro H. unfold normalise, all_unmixed in *.
  assert (P : prepare (map split_tm d) = map split_tm (prepare d)).
  { rewrite (prepare_map (map split_tm d)), (prepare_map d), !map_map. apply map_ext. apply prepare_split. }
  rewrite P. set (pd := prepare d) in *.
  rewrite (nopom_split pd H).
  destruct (forallb (fun t => match t_poms t with [] => true | _ => false end) pd); auto.
  assert (E2 : rmap_all (base_rules_of (map split_tm pd)) (map split_tm pd) = rmap_all (base_rules_of pd) pd).
  { rewrite (rmap_all_ext _ (base_rules_of pd)) by apply base_rules_doc_split. now apply rmap_base_split. }
  rewrite E2.
  assert (E3 : tm_ids (map split_tm pd) = tm_ids pd) by (unfold tm_ids; rewrite map_map; apply map_ext; reflexivity).
  now rewrite E3, map_length.
Qed.

(* ---------------------------------------------------------------- assertedness (C13) *)
Lemma Forall2_in_r {A B} (R : A -> B -> Prop) l ys y : Forall2 R l ys -> In y ys -> exists x, In x l /\ R x y.
Proof. induction 1 as [|a b l ys Hab F IH]; intros Hin; [contradiction|]. destruct Hin as [<-|Hin]; [exists a; split; auto; now left|]. destruct (IH Hin) as (x & Hx & Rx). exists x. split; auto. now right. Qed.
Lemma gen_asserted t a stt preds rows graphs r :
  In r (gen (mk_rule t a stt) preds rows graphs) -> r_asserted r = a /\ r_tm r = t_id t.
Proof.
  unfold gen. intro H. apply in_flat_map in H as (pm & _ & H). apply in_flat_map in H as ([[o ott] [[ld ldk] ldv]] & _ & H).
  apply in_flat_map in H as (gm & _ & H). destruct H as [<-|[]]. split; reflexivity.
Qed.
(* every rule normalised from a triples map carries that map's assertedness: a map declared rml:NonAssertedTriplesMap (or
   a map without predicate-object map) yields only non-asserted rules *)
Theorem base_rules_asserted d t rs r : base_rules_of d t = Ok rs -> In r rs ->
  r_asserted r = negb (t_nonasserted t) && negb (match t_poms t with [] => true | _ => false end) /\ r_tm r = t_id t.
Proof.
  rewrite base_rules_unfold. cbv zeta. destruct (negb (valid_subject_tt _)); [discriminate|].
  destruct (t_poms t) as [|p ps] eqn:Ep.
  - intro H. injection H as <-. intros [<-|[]]. split; reflexivity.
  - set (a := negb (t_nonasserted t) && negb false). set (stt := tt_final _).
    destruct (rmap_all (per_pom d (mk_rule t a stt)) (p :: ps)) as [l|e] eqn:E; simpl; [|discriminate].
    intro H. injection H as <-. intro Hin. apply in_concat in Hin as (x & Hx & Hr).
    apply rmap_all_ok in E. destruct (Forall2_in_r _ _ _ _ E Hx) as (p0 & _ & Hp0).
    rewrite per_pom_guard in Hp0. destruct (pom_ok d p0); [|discriminate]. injection Hp0 as <-.
    unfold pom_rules in Hr. now apply gen_asserted in Hr.
Qed.
