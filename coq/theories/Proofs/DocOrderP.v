(* C12 / C09 for EVERY document: the order in which the triples maps are written is irrelevant -- a document with distinct triples map
   identifiers means the same statements however its triples maps are permuted (joins, quoted maps of any depth, functions included). *)
From Coq Require Import String Lia Permutation.
From Morph Require Import Base.UStr Gen.Tables Model.Terms Model.Data Model.Engine Model.Mapping Model.Spec Proofs.DataP Proofs.GroupingP Proofs.DocRowSetsP.
Local Open Scope N_scope.

Lemma find_tm_perm d d' : Permutation d d' -> NoDup (map t_id d) -> forall id, find_tm d id = find_tm d' id.
Proof.
  unfold find_tm. induction 1 as [|x l l' HP IH|x y l|l l' l'' HP1 IH1 HP2 IH2]; intros Hnd id; cbn [find].
  - reflexivity.
  - destruct (ueqb (t_id x) id); [reflexivity|]. apply IH. now inversion Hnd.
  - destruct (ueqb (t_id y) id) eqn:Ey, (ueqb (t_id x) id) eqn:Ex; try reflexivity.
    apply ueqb_eq in Ey, Ex. exfalso. cbn in Hnd. inversion Hnd as [|a b Hnot _]. subst. apply Hnot. left. congruence.
  - rewrite IH1 by assumption. apply IH2. apply (Permutation_NoDup (Permutation_map t_id HP1) Hnd).
Qed.

Section DocExt.
  Variables (cfg : scfg) (fe : fenv) (d d' : document) (tables : ustr -> stable).
  Hypothesis Hfind : forall id, find_tm d id = find_tm d' id.

  Lemma terms_doc_ext : forall f t r,
    subj_terms cfg fe d tables f t r = subj_terms cfg fe d' tables f t r /\
    tm_triples cfg fe d tables f t r = tm_triples cfg fe d' tables f t r /\
    (forall o, obj_terms cfg fe d tables f t o r = obj_terms cfg fe d' tables f t o r).
  Proof.
    induction f as [|f IH]; intros t r; [cbn; auto|].
    split; [|split].
    - rewrite !subj_S. destruct (m_kind (t_subj t)); try reflexivity. rewrite <- Hfind.
      destruct (find_tm d (m_value (t_subj t))) as [q|]; [|reflexivity].
      apply flat_map_ext. intro r'. now rewrite (proj1 (proj2 (IH q r'))).
    - rewrite !triples_S. rewrite (proj1 (IH t r)). apply flat_map_ext. intro s. apply flat_map_ext. intro pm.
      destruct (graph_terms cfg fe t pm r); [reflexivity|]. apply flat_map_ext. intro p. apply flat_map_ext. intro pt. apply flat_map_ext. intro o.
      now rewrite (proj2 (proj2 (IH t r)) o).
    - intro o. rewrite !obj_S. destruct (m_kind (o_tm o)); try reflexivity; rewrite <- Hfind.
      + destruct (find_tm d (m_value (o_tm o))) as [q|]; [|reflexivity]. apply flat_map_ext. intro r'. now rewrite (proj1 (proj2 (IH q r'))).
      + destruct (find_tm d (m_value (o_tm o))) as [p|]; [|reflexivity]. apply flat_map_ext. intro r'. now rewrite (proj1 (IH p r')).
  Qed.

  Lemma tm_row_lines_doc_ext t r : length d = length d' -> tm_row_lines cfg fe d tables t r = tm_row_lines cfg fe d' tables t r.
  Proof.
    intro Hlen. unfold tm_row_lines, spec_fuel. rewrite <- Hlen. rewrite (proj1 (terms_doc_ext _ t r)).
    apply flat_map_ext. intro s. apply flat_map_ext. intro pm. apply flat_map_ext. intro p. apply flat_map_ext. intro pt. apply flat_map_ext. intro o.
    now rewrite (proj2 (proj2 (terms_doc_ext _ t r)) o).
  Qed.
End DocExt.

Theorem document_order_irrelevant cfg fe tables d d' : Permutation d d' -> NoDup (map t_id d) ->
  forall x, In x (spec_lines cfg fe d tables) <-> In x (spec_lines cfg fe d' tables).
Proof.
  intros HP Hnd x. unfold spec_lines. rewrite !mem_dedup. apply fm_equiv.
  - intro t. split; intro H; [apply (Permutation_in _ HP H)|apply (Permutation_in _ (Permutation_sym HP) H)].
  - intros t _ y. destruct (asserted t); [|tauto].
    rewrite (flat_map_ext _ _ (fun r => tm_row_lines_doc_ext cfg fe d d' tables (find_tm_perm d d' HP Hnd) t r (Permutation_length HP))). tauto.
Qed.

(* monotonicity: with more triples maps in the document (and the nesting fuel that comes with them) no statement is lost *)
Lemma fm_incl {A B} (f g : A -> list B) l1 l2 :
  (forall a, In a l1 -> In a l2) -> (forall a, In a l1 -> forall x, In x (f a) -> In x (g a)) ->
  forall x, In x (flat_map f l1) -> In x (flat_map g l2).
Proof. intros Hl Hf x. rewrite !in_flat_map. intros (a & Ha & Hx). exists a. split; [now apply Hl|]. now apply (Hf a Ha). Qed.
Lemma map_incl {A B} (f : A -> B) l1 l2 : (forall a, In a l1 -> In a l2) -> forall x, In x (map f l1) -> In x (map f l2).
Proof. intros Hl x. rewrite !in_map_iff. intros (a & E & Ha). exists a. split; auto. Qed.

Section DocMono.
  Variables (cfg : scfg) (fe : fenv) (d d' : document) (tables : ustr -> stable).
  Hypothesis Hfind : forall id q, find_tm d id = Some q -> find_tm d' id = Some q.

  Lemma terms_mono : forall f f' t r, (f <= f')%nat ->
    (forall x, In x (subj_terms cfg fe d tables f t r) -> In x (subj_terms cfg fe d' tables f' t r)) /\
    (forall x, In x (tm_triples cfg fe d tables f t r) -> In x (tm_triples cfg fe d' tables f' t r)) /\
    (forall o x, In x (obj_terms cfg fe d tables f t o r) -> In x (obj_terms cfg fe d' tables f' t o r)).
  Proof.
    induction f as [|f IH]; intros f' t r Hle; [cbn; tauto|].
    destruct f' as [|f']; [lia|]. assert (Hle' : (f <= f')%nat) by lia.
    split; [|split].
    - intro x. rewrite !subj_S. destruct (m_kind (t_subj t)); try tauto.
      destruct (find_tm d (m_value (t_subj t))) as [q|] eqn:E; [|intros []]. rewrite (Hfind _ _ E).
      apply fm_incl; [tauto|]. intros r' _. apply map_incl. intro y. apply (proj1 (proj2 (IH f' q r' Hle'))).
    - intro x. rewrite !triples_S. apply fm_incl; [intro s; apply (proj1 (IH f' t r Hle'))|]. intros s _.
      apply fm_incl; [tauto|]. intros pm _. destruct (graph_terms cfg fe t pm r); [tauto|].
      apply fm_incl; [tauto|]. intros p _. apply fm_incl; [tauto|]. intros pt _. apply fm_incl; [tauto|]. intros o _.
      apply map_incl. intro y. apply (proj2 (proj2 (IH f' t r Hle')) o).
    - intros o x. rewrite !obj_S. destruct (m_kind (o_tm o)); try tauto.
      + destruct (find_tm d (m_value (o_tm o))) as [q|] eqn:E; [|intros []]. rewrite (Hfind _ _ E).
        apply fm_incl; [tauto|]. intros r' _. apply map_incl. intro y. apply (proj1 (proj2 (IH f' q r' Hle'))).
      + destruct (find_tm d (m_value (o_tm o))) as [p|] eqn:E; [|intros []]. rewrite (Hfind _ _ E).
        apply fm_incl; [tauto|]. intros r' _. apply (proj1 (IH f' p r' Hle')).
  Qed.

  Lemma tm_row_lines_mono t r : (length d <= length d')%nat -> forall x, In x (tm_row_lines cfg fe d tables t r) -> In x (tm_row_lines cfg fe d' tables t r).
  Proof.
    intro Hlen. assert (Hf : (spec_fuel d <= spec_fuel d')%nat) by (unfold spec_fuel; lia).
    unfold tm_row_lines. apply fm_incl; [intro s; apply (proj1 (terms_mono _ _ t r Hf))|]. intros s _.
    apply fm_incl; [tauto|]. intros pm _. apply fm_incl; [tauto|]. intros p _. apply fm_incl; [tauto|]. intros pt _.
    apply fm_incl; [tauto|]. intros o _. apply fm_incl; [intro ot; apply (proj2 (proj2 (terms_mono _ _ t r Hf)) o)|]. intros ot _. tauto.
  Qed.
End DocMono.

Lemma find_tm_app_l d d2 id q : find_tm d id = Some q -> find_tm (d ++ d2) id = Some q.
Proof.
  unfold find_tm. induction d as [|t d IH]; cbn [find app]; [discriminate|]. destruct (ueqb (t_id t) id); auto.
Qed.

Theorem adding_triples_maps_keeps_statements cfg fe tables d d2 :
  forall x, In x (spec_lines cfg fe d tables) -> In x (spec_lines cfg fe (d ++ d2) tables).
Proof.
  intro x. unfold spec_lines. rewrite !mem_dedup. apply fm_incl.
  - intros t Ht. apply in_app_iff. now left.
  - intros t _ y. destruct (asserted t); [|tauto]. apply fm_incl; [tauto|]. intros r _.
    apply tm_row_lines_mono; [intros id q; apply find_tm_app_l|rewrite app_length; lia].
Qed.

(* hence one half of C12 for every document: the statements of each part are statements of the whole *)
Theorem parts_are_included_in_the_whole cfg fe tables d1 d2 : NoDup (map t_id (d1 ++ d2)) ->
  forall x, In x (spec_lines cfg fe d1 tables) \/ In x (spec_lines cfg fe d2 tables) -> In x (spec_lines cfg fe (d1 ++ d2) tables).
Proof.
  intros Hnd x [H|H].
  - now apply adding_triples_maps_keeps_statements.
  - apply (document_order_irrelevant cfg fe tables (d2 ++ d1) (d1 ++ d2)).
    + apply Permutation_app_comm.
    + apply (Permutation_NoDup (Permutation_map t_id (Permutation_app_comm d1 d2)) Hnd).
    + now apply adding_triples_maps_keeps_statements.
Qed.
