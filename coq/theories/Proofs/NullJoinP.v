(* C06 for referencing object maps: a NULL (or a token of na_values) in a join key joins with nothing -- not even with another NULL *)
From Coq Require Import List Bool.
Import ListNotations.
From Morph Require Import Base.UStr Model.Terms Model.Data Model.Engine Model.Mapping Model.Spec Proofs.JoinP.

Lemma null_key_fails_condition cfg c p conds cd :
  In cd conds -> sval cfg c (fst cd) = None \/ sval cfg p (snd cd) = None -> conds_hold cfg c p conds = false.
Proof.
  intros Hin Hn. unfold conds_hold. apply not_true_is_false. intro H. rewrite forallb_forall in H. specialize (H cd Hin).
  destruct Hn as [E|E]; rewrite E in H; [discriminate|]. destruct (sval cfg c (fst cd)); discriminate.
Qed.
Lemma null_key_joins_nothing_spec cfg tables child src conds cd p :
  In cd conds -> sval cfg child (fst cd) = None \/ sval cfg p (snd cd) = None -> ~ In p (joined_rows cfg tables child src conds).
Proof.
  intros Hin Hn Hp. assert (conds <> []) as Hne by (intro E; subst; inversion Hin).
  apply (joined_rows_spec cfg tables child src conds p Hne) in Hp. destruct Hp as [_ Hc].
  rewrite (null_key_fails_condition cfg child p conds cd Hin Hn) in Hc. discriminate.
Qed.
Lemma null_key_not_joined c p conds cd : In cd conds -> rget (fst cd) c = None \/ rget (snd cd) p = None -> ~ joins c p conds.
Proof. intros Hin Hn J. destruct (J cd Hin) as (a & Ha & Hb). destruct Hn as [E|E]; congruence. Qed.
Lemma merged_rows_have_all_keys child parent conds m : merge_data child parent conds = Ok m ->
  forall x, In x m -> exists c p, In c child /\ In p parent /\ x = c ++ add_prefix parent_prefix p /\
    forall cd, In cd conds -> exists a, rget (fst cd) c = Some a /\ rget (snd cd) p = Some a.
Proof.
  intros Hm x Hx. apply (merge_is_equijoin child parent conds m Hm x) in Hx. destruct Hx as (c & p & Hc & Hp & J & ->).
  exists c, p. repeat split; auto.
Qed.
