From Coq Require Import String Lia.
From Morph Require Import Base.UStr Model.Data Model.Purity.
Local Open Scope N_scope.

Lemma strip_quotes_idem s : strip_quotes (strip_quotes s) = strip_quotes s.
Proof. unfold strip_quotes. induction s as [|c s IH]; simpl; auto. destruct (c =? 34) eqn:E; simpl; auto. rewrite E. simpl. now rewrite IH. Qed.
Lemma strip_value_idem v : strip_value (strip_value v) = strip_value v.
Proof. destruct v; simpl; auto. now rewrite strip_quotes_idem. Qed.
Lemma ram_read_idem f : ram_read (fst (ram_read f)) = ram_read f.
Proof.
  unfold ram_read. simpl. f_equal; f_equal; rewrite map_map; apply map_ext; intro r; rewrite map_map; apply map_ext; apply strip_value_idem.
Qed.
(* repeated calls on the same object return the same result, although the object itself was rewritten by the first *)
Lemma call_proj R (engine : table -> R) w : call R engine w = (fst (ram_read w), engine (snd (ram_read w))).
Proof. unfold call. destruct (ram_read w); reflexivity. Qed.
Lemma call_again R (engine : table -> R) w : snd (call R engine (fst (call R engine w))) = snd (call R engine w).
Proof. rewrite (call_proj R engine w). cbn [fst]. rewrite (call_proj R engine (fst (ram_read w))). cbn [snd]. now rewrite ram_read_idem. Qed.
Lemma calls_repeat R (engine : table -> R) n : forall w r, In r (calls R engine n w) -> r = snd (call R engine w).
Proof.
  induction n as [|n IH]; intros w r H; [simpl in H; tauto|].
  change (calls R engine (S n) w) with (let '(w', r0) := call R engine w in r0 :: calls R engine n w') in H.
  destruct (call R engine w) as [w' r0] eqn:E. simpl in H. destruct H as [<-|H]; [reflexivity|].
  apply IH in H. rewrite H. replace w' with (fst (call R engine w)) by now rewrite E.
  rewrite call_again. now rewrite E.
Qed.
(* a frame without double quotes is left exactly as it was *)
Definition no_quotes (f : pyframe) : Prop := Forall (Forall (fun v => match v with VStr s => forallb (fun c => negb (c =? 34)) s = true | _ => True end)) (t_rows f).
Lemma strip_quotes_id s : forallb (fun c => negb (c =? 34)) s = true -> strip_quotes s = s.
Proof. unfold strip_quotes. induction s as [|c s IH]; simpl; auto. intro H. apply andb_true_iff in H as [H1 H2]. rewrite H1. f_equal. auto. Qed.
Lemma world_unchanged f : no_quotes f -> fst (ram_read f) = f.
Proof.
  intro H. unfold ram_read. simpl. destruct f as [cols rows]. unfold no_quotes in H. simpl in *. f_equal.
  induction H as [|r rows Hr _ IH]; simpl; auto. f_equal; auto.
  induction Hr as [|v r Hv _ IHr]; simpl; auto. f_equal; auto. destruct v; simpl; auto. f_equal. now apply strip_quotes_id.
Qed.
