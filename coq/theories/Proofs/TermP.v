(* C01: the term the engine builds in a position column is the term of the R2RML / RML generation rules
   (Spec.spec_lex, Spec.render) -- constants, references and templates, every term type, every row. *)
From Coq Require Import Lia String.
From Morph Require Import Base.UStr Gen.Tables Model.Terms Model.Data Model.Engine Model.Mapping Model.Spec
     Proofs.DataP Proofs.UStrP Proofs.SplitP Proofs.EscP Proofs.TemplateP.
Local Open Scope N_scope.


Section Term.
  Variables (cfg : ecfg) (k : mkind) (tt : ttype) (dt alias pos : ustr) (v : ustr).
  Hypothesis pos_not_refres : ueqb pos col_refres = false.

  Theorem mat_template_spec r :
    term_wf k v = true -> no_shadow alias pos (names (segs_of k v)) ->
    match mat_template cfg v k pos alias tt dt r with
    | Ok r' => exists w, esubst (val_of cfg k tt dt alias r) (segs_of k v) = Ok w /\ rget pos r' = Some (delimit tt w) /\
                         (forall c, ueqb c pos = false -> ueqb c col_refres = false -> rget c r' = rget c r)
    | Err e => esubst (val_of cfg k tt dt alias r) (segs_of k v) = Err e
    end.
  Proof.
    intros Hwf Hns. unfold term_wf in Hwf. apply andb_true_iff in Hwf as [Hwf Hfl]. apply ueqb_eq in Hfl.
    unfold mat_template. fold (tpl0 k v). rewrite <- Hfl. rewrite refs_in_template_flat, unescape_flat by auto.
    pose proof (template_loop_spec cfg k tt dt alias pos pos_not_refres (segs_of k v) [] (rset pos [] r) [] r Hwf eq_refl
                  (rget_rset_same _ _ _) Hns) as H. cbn [app] in H.
    assert (Hag : forall n, In n (names (segs_of k v)) -> rget (alias ++ n) (rset pos [] r) = rget (alias ++ n) r).
    { intros n Hn. destruct (Hns n Hn). now rewrite rget_rset_other. }
    specialize (H Hag).
    destruct (template_loop cfg k tt dt alias pos (names (segs_of k v)) (flat (segs_of k v)) (rset pos [] r)) as [[rest r']|e]; cbn [rbind]; auto.
    destruct H as (w & cur & E & Hc1 & Hc2 & Hc3). exists w. rewrite Hc1, Hc2. split; auto. split; [apply rget_rset_same|].
    intros c C1 C2. rewrite rget_rset_other, Hc3 by auto. now apply rget_rset_other.
  Qed.
End Term.

(* ---------------------------------------------------------------- engine substitution vs Spec substitution *)
Definition rel (g : ustr -> ustr) (a : result ustr) (b : option ustr) : Prop :=
  match a, b with Ok x, Some y => x = g y | Err _, None => True | _, _ => False end.
Lemma esubst_rel g fe fs segs :
  g [] = [] -> (forall a b, g (a ++ b) = g a ++ g b) -> (forall c, In (SLit c) segs -> g [c] = [c]) ->
  (forall n, In n (names segs) -> rel g (fe n) (fs n)) -> rel g (esubst fe segs) (subst fs segs).
Proof.
  intros G0 Gapp. induction segs as [|[c|n] r IH]; intros Gl Hn; cbn [esubst subst names] in *.
  - simpl. now rewrite G0.
  - assert (H : rel g (esubst fe r) (subst fs r)) by (apply IH; [intros c' Hc'; apply Gl; now right|auto]).
    unfold rel in *. destruct (esubst fe r) as [x|e], (subst fs r) as [y|]; simpl; try contradiction; auto.
    subst. change (c :: y) with ([c] ++ y). rewrite Gapp, Gl by now left. reflexivity.
  - assert (H : rel g (esubst fe r) (subst fs r)) by (apply IH; [intros c' Hc'; apply Gl; now right|intros m Hm; apply Hn; now right]).
    assert (H1 : rel g (fe n) (fs n)) by (apply Hn; now left).
    unfold rel in *. destruct (fe n) as [x1|e1], (fs n) as [y1|]; simpl; try contradiction; auto.
    destruct (esubst fe r) as [x|e], (subst fs r) as [y|]; simpl; try contradiction; auto. subst. now rewrite Gapp.
Qed.

Definition glit (tt : ttype) : ustr -> ustr := match tt with TLit => escape_lit | _ => fun x => x end.
Lemma glit_nil tt : glit tt [] = []. Proof. destruct tt; auto. Qed.
Lemma glit_app tt a b : glit tt (a ++ b) = glit tt a ++ glit tt b. Proof. destruct tt; auto. apply escape_lit_app. Qed.
Lemma render_glit tt lex : render tt lex = delimit tt (glit tt lex). Proof. destruct tt; reflexivity. Qed.
Lemma lits_neutral_in segs c : lits_neutral segs = true -> In (SLit c) segs -> escape_lit [c] = [c].
Proof.
  induction segs as [|[c'|n] r IH]; simpl; intros H Hin; [contradiction| |]; [apply andb_true_iff in H as [H1 H2]|].
  - destruct Hin as [E|Hin]; auto. injection E as ->. rewrite escape_one. now apply ueqb_eq.
  - destruct Hin as [E|Hin]; [discriminate|auto].
Qed.

(* configurations and rows as the two layers see them *)
Definition cfg_agree (cfg : ecfg) (scfg : scfg) : Prop := c_printable cfg = s_printable scfg /\ c_safe cfg = s_safe scfg.
Definition row_agree (scfg : scfg) (sr : srow) (alias : ustr) (r : row) (ns : list ustr) : Prop :=
  forall n, In n ns -> sval scfg sr n = rget (alias ++ n) r.

(* the per-reference value, Spec side *)
Definition sfun (scfg : scfg) (k : mkind) (tt : ttype) (dt : ustr) (sr : srow) (n : ustr) : option ustr :=
  match sval scfg sr n with
  | Some x => match tt with
              | TIri => match k with KTempl => Some (pct_encode (s_safe scfg) (clean scfg x)) | _ => Some (clean scfg x) end
              | TLit => canon_ok dt (clean scfg x)
              | _ => Some (clean scfg x)
              end
  | None => None
  end.
Lemma val_rel cfg scfg k tt dt alias r sr n :
  cfg_agree cfg scfg -> sval scfg sr n = rget (alias ++ n) r ->
  rel (glit tt) (val_of cfg k tt dt alias r n) (sfun scfg k tt dt sr n).
Proof.
  intros [Hp Hs] Hv. unfold val_of, sfun. rewrite Hv. destruct (rget (alias ++ n) r) as [x|]; simpl; auto.
  unfold transform_value, clean. rewrite Hp, Hs. destruct tt; simpl; auto.
  - destruct k; simpl; auto.
  - unfold canon_ok. destruct (canon dt _); simpl; auto.
Qed.
Lemma subst_ext f g segs : (forall n, f n = g n) -> subst f segs = subst g segs.
Proof. intro H. induction segs as [|[c|n] r IH]; simpl; auto; [now rewrite IH|now rewrite H, IH]. Qed.
Lemma spec_lex_as_subst scfg k v tt dt sr : is_plain k = true ->
  spec_lex scfg k v tt dt sr = subst (sfun scfg k tt dt sr) (segs_of k v).
Proof.
  intros Hk. destruct k; try discriminate; cbn [spec_lex segs_of].
  - induction v as [|c v IH]; simpl; auto. now rewrite <- IH.
  - apply subst_ext. intro n. unfold sfun. destruct (sval scfg sr n); auto.
  - simpl. unfold sfun. destruct (sval scfg sr v) as [x|]; auto. destruct tt; try (now rewrite app_nil_r). destruct (canon_ok dt (clean scfg x)); auto; now rewrite app_nil_r.
Qed.

Theorem engine_term_is_spec_term cfg scfg k v tt dt alias pos r sr :
  ueqb pos col_refres = false -> is_plain k = true -> term_wf k v = true ->
  (tt = TLit -> lits_neutral (segs_of k v) = true) ->
  cfg_agree cfg scfg -> no_shadow alias pos (names (segs_of k v)) -> row_agree scfg sr alias r (names (segs_of k v)) ->
  match mat_template cfg v k pos alias tt dt r with
  | Ok r' => exists lex, spec_lex scfg k v tt dt sr = Some lex /\ rget pos r' = Some (render tt lex) /\
                         (forall c, ueqb c pos = false -> ueqb c col_refres = false -> rget c r' = rget c r)
  | Err _ => spec_lex scfg k v tt dt sr = None
  end.
Proof.
  intros Hpos Hk Hwf Hlit Hcfg Hns Hrow.
  pose proof (mat_template_spec cfg k tt dt alias pos v Hpos r Hwf Hns) as H.
  rewrite spec_lex_as_subst by auto.
  assert (R : rel (glit tt) (esubst (val_of cfg k tt dt alias r) (segs_of k v)) (subst (sfun scfg k tt dt sr) (segs_of k v))).
  { apply esubst_rel; [apply glit_nil|apply glit_app| |].
    - intros c Hc. destruct tt; auto. simpl. apply (lits_neutral_in (segs_of k v)); auto.
    - intros n Hn. apply val_rel; auto. }
  destruct (mat_template cfg v k pos alias tt dt r) as [r'|e].
  - destruct H as (w & E & Hp & Ho). rewrite E in R. unfold rel in R.
    destruct (subst (sfun scfg k tt dt sr) (segs_of k v)) as [lex|]; [|contradiction]. exists lex. subst w. rewrite render_glit. auto.
  - rewrite H in R. unfold rel in R. now destruct (subst (sfun scfg k tt dt sr) (segs_of k v)).
Qed.

(* the hypotheses are met by ordinary term maps, and every well-formed segment list is a template *)
Theorem wf_templates_exist segs : wf segs = true -> term_wf KTempl (flat segs) = true.
Proof. intro H. unfold term_wf. cbn [segs_of tpl0]. rewrite parse_flat by auto. rewrite H. simpl. apply ueqb_refl. Qed.
Example term_wf_example :
  term_wf KTempl (u "http://ex.org/r/{id}/{name}") = true /\ term_wf KRef (u "name") = true /\ term_wf KConst (u "http://ex.org/p") = true /\
  lits_neutral (segs_of KTempl (u "{a} and {b}")) = true.
Proof. vm_compute. auto. Qed.
