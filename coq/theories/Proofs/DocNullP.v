(* C06 at document level: for documents of plain triples maps, every statement the engine materialises comes from a rule and a
   delivered row in which every column the rule references holds a value that is neither NULL nor a token of na_values; and a
   row with a NULL (or such a token) in a referenced column contributes nothing through that rule. *)
From Coq Require Import String Lia.
From Morph Require Import Base.UStr Gen.Tables Model.Terms Model.Data Model.Engine Model.Mapping Model.Spec Model.Fragment
     Proofs.DataP Proofs.GroupingP Proofs.TermP Proofs.RowSpecP Proofs.DocSpecP Proofs.DocEngineP.
Local Open Scope N_scope.

Definition cell_present (scfg : scfg) (rw : rawrow) (n : ustr) : Prop :=
  exists c, assoc n rw = Some c /\ c <> CNone /\ c <> CNaN /\ mem (py_str c) (s_na scfg) = false.
Lemma sval_present scfg rw n : sval scfg (srow_of_raw rw) n <> None <-> cell_present scfg rw n.
Proof.
  rewrite sval_raw. unfold cell_present. destruct (assoc n rw) as [c|]; [|split; [intro H; now contradiction H|intros (c & E & _); discriminate]].
  destruct (mem (py_str c) (s_na scfg)) eqn:Em.
  - split; [intro H; destruct c; now contradiction H|]. intros (c' & E & _ & _ & X). injection E as <-. congruence.
  - split.
    + intro H. exists c. split; [reflexivity|]. split; [intros ->; now contradiction H|]. split; [intros ->; now contradiction H|exact Em].
    + intros (c' & E & N1 & N2 & _). injection E as <-. destruct c; try discriminate; congruence.
Qed.

Theorem engine_statements_come_from_null_free_rows cfg fe scfg raw d0 rules l :
  cfg_agree cfg scfg -> c_nquads cfg = s_nquads scfg -> s_na scfg = c_na cfg ->
  forallb plain_tm d0 = true -> normalise d0 = Ok rules -> (forall rl, In rl rules -> simple_rule rl) ->
  (forall rl rw n, In rl rules -> In rw (raw (r_src rl)) -> In n (rule_names rl) -> assoc n rw <> None) ->
  materialize_rules cfg fe rules (delivered cfg raw) = Ok l ->
  forall x, In x l <->
    exists rl rw, In rl rules /\ r_asserted rl = true /\ In rw (raw (r_src rl)) /\ doc_rule_line scfg rl (srow_of_raw rw) = Some x /\
                  forall n, In n (rule_names rl) -> cell_present scfg rw n.
Proof.
  intros Hcfg Hnq Hna Hpl Hn Hs Hcols Hm x.
  rewrite (engine_document_is_spec_document cfg fe scfg raw Hcfg Hnq Hna d0 rules l Hpl Hn Hs Hcols Hm x).
  rewrite (doc_spec_is_rule_spec scfg fe (spec_tables raw) d0 rules Hpl Hn x). split.
  - intros (rl & sr & Hrl & Ha & Hsr & Hline). unfold spec_tables in Hsr. apply in_map_iff in Hsr as (rw & <- & Hrw).
    exists rl, rw. repeat split; auto. intros n Hn0. apply sval_present. intro E.
    destruct (Hs rl Hrl) as (Hok & Ht & Htg & _). rewrite (doc_rule_line_null scfg rl Hok Ht Htg (srow_of_raw rw) n Hn0 E) in Hline. discriminate.
  - intros (rl & rw & Hrl & Ha & Hrw & Hline & _). exists rl, (srow_of_raw rw). repeat split; auto. unfold spec_tables. now apply in_map.
Qed.

(* a row with a NULL or an na_values token in a column the rule references gives no statement through that rule *)
Theorem null_in_a_referenced_column_suppresses scfg rl rw n : simple_rule rl -> In n (rule_names rl) -> ~ cell_present scfg rw n ->
  doc_rule_line scfg rl (srow_of_raw rw) = None.
Proof.
  intros (Hok & Ht & Htg & _) Hn Hc. apply (doc_rule_line_null scfg rl Hok Ht Htg (srow_of_raw rw) n Hn).
  destruct (sval scfg (srow_of_raw rw) n) eqn:E; [|reflexivity]. exfalso. apply Hc. apply sval_present. rewrite E. discriminate.
Qed.

(* FOR EVERY DOCUMENT (whatever the predicate-object maps hold: joins, quoted maps, functions): a row with a NULL (or a token of na_values)
   in a column the subject map references gives no statement at all through that triples map *)
From Morph Require Import Proofs.DocRowSetsP.
Lemma flat_map_nil_l {A B} (f : A -> list B) : flat_map f [] = [].
Proof. reflexivity. Qed.
Theorem null_in_subject_reference_gives_nothing scfg fe doc tables t r n :
  is_plain (m_kind (t_subj t)) = true -> In n (names (segs_of (m_kind (t_subj t)) (m_value (t_subj t)))) -> sval scfg r n = None ->
  tm_row_lines scfg fe doc tables t r = [].
Proof.
  intros Hk Hn Hs. unfold tm_row_lines. destruct (spec_fuel_S doc) as (f & ->). rewrite subj_S.
  assert (E : spec_terms scfg fe (m_kind (t_subj t)) (m_value (t_subj t)) (spec_tt_subject (t_subj t)) [] r = []).
  { unfold spec_terms. rewrite (spec_lex_null scfg _ _ (spec_tt_subject (t_subj t)) [] r n Hk Hn Hs). destruct (m_kind (t_subj t)); try reflexivity; discriminate. }
  destruct (m_kind (t_subj t)); try discriminate; rewrite E; reflexivity.
Qed.
