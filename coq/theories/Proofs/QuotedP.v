(* C13: a rule whose subject is a quoted triples map over the same rows: every statement embeds exactly the triple the
   quoted map generates for the same row. *)
From Coq Require Import String Lia.
From Morph Require Import Base.UStr Gen.Tables Model.Terms Model.Data Model.Engine Model.Mapping Model.Spec
     Proofs.DataP Proofs.GroupingP Proofs.TemplateP Proofs.TermP Proofs.RowwiseP Proofs.RowSpecP Proofs.RuleSpecP.
Local Open Scope N_scope.

(* ---------------------------------------------------------------- frame pipelines fuse into one function of the row *)
Definition pipe (fs : list (row -> result (list row))) (d : frame) : result frame :=
  fold_left (fun acc f => rdo x <- acc; rflat_rows f x) fs (Ok d).
Lemma pipe_snoc fs f d : pipe (fs ++ [f]) d = rdo x <- pipe fs d; rflat_rows f x.
Proof. unfold pipe. now rewrite fold_left_app. Qed.
Lemma okeq_sym {A} (a b : result A) : okeq a b -> okeq b a. Proof. intros H x. symmetry. apply H. Qed.
Lemma rflat_id d : rflat_rows (fun r => Ok [r]) d = Ok d.
Proof. unfold rflat_rows. induction d as [|r d IH]; simpl; auto. destruct (rmap_all _ d); simpl in *; [|discriminate]. injection IH as ->. reflexivity. Qed.
Lemma rflat_ext f g d : (forall r, f r = g r) -> rflat_rows f d = rflat_rows g d.
Proof. intro H. unfold rflat_rows. now rewrite (rmap_all_ext f g d H). Qed.
Theorem pipe_fuse fs : forall d, okeq (pipe fs d) (rflat_rows (fun r => pipe fs [r]) d).
Proof.
  induction fs as [|f fs IH] using rev_ind; intro d.
  - unfold pipe. simpl. rewrite rflat_id. apply okeq_refl.
  - rewrite pipe_snoc. eapply okeq_trans; [apply okeq_bind; apply IH|].
    eapply okeq_trans; [apply rflat_fuse|]. rewrite (rflat_ext _ (fun r => pipe (fs ++ [f]) [r])); [apply okeq_refl|].
    intro r. now rewrite pipe_snoc.
Qed.
Lemma rmap_rows_as_rflat f d : rmap_rows f d = rflat_rows (fun r => rdo x <- f r; Ok [x]) d.
Proof.
  unfold rmap_rows, rflat_rows. induction d as [|r d IH]; simpl; auto. destruct (f r) as [x|e]; simpl; auto.
  rewrite IH. destruct (rmap_all (fun r0 => rdo x0 <- f r0; Ok [x0]) d); reflexivity.
Qed.
Lemma rbind_assoc {A B C} (x : result A) (f : A -> result B) (g : B -> result C) :
  (rdo b <- (rdo a <- x; f a); g b) = (rdo a <- x; rdo b <- f a; g b).
Proof. destruct x; reflexivity. Qed.

Lemma rbind_ext2 {A B} (a a' : result A) (f g : A -> result B) : a = a' -> (forall x, f x = g x) -> rbind a f = rbind a' g.
Proof. intros -> H. destruct a'; simpl; auto. Qed.

Section Quoted.
  Variables (cfg : ecfg) (fe : fenv) (rules : list rule) (get_data : ustr -> list ustr -> result frame).
  Variables (rl q : rule).
  Hypothesis Hsk : r_sk rl = KQuoted.
  Hypothesis Hsj : r_sjoin rl = [].
  Hypothesis Hok : mkind_eqb (r_ok rl) KQuoted = false.
  Hypothesis Hq : find_rule rules (r_sv rl) = Some q.
  Hypothesis Hqp : plain_rule q = true.

  Definition st_set_subject (r : row) : result (list row) := rdo x <- set_from col_subject col_triple quote_triple r; Ok [x].
  Definition st_keep_subject (r : row) : result (list row) := rdo x <- set_from (keep_subject_col 0) col_subject (fun x => x) r; Ok [x].
  Definition quoted_stages : list (row -> result (list row)) :=
    [mat_terms cfg fe q []; finish_row cfg fe 1 q; st_set_subject; st_keep_subject; mat_terms cfg fe rl []; finish_row cfg fe 0 rl].
  Definition quoted_refs : list ustr := dedup ((rule_refs (fn_table fe) (refs_fuel rules) rules false rl ++ []) ++ []).

  Lemma quoted_rule_unfold :
    mat_rule cfg fe rules get_data (rule_fuel rules) rl None [] 0 =
    rdo d0 <- get_data (r_src rl) quoted_refs; pipe quoted_stages d0.
  Proof.
    unfold rule_fuel. cbn [mat_rule]. fold (refs_fuel rules). fold quoted_refs.
    assert (Hac : all_constant rl = false) by (unfold all_constant; now rewrite Hsk).
    rewrite Hac, Hsk. cbn [mkind_eqb orb]. rewrite Hq, Hsj, Hok.
    unfold plain_rule in Hqp. rewrite !andb_true_iff, !negb_true_iff in Hqp. destruct Hqp as [[[Q1 Q2] Q3] Q4].
    rewrite Q1, Q2, Q3, Q4. cbn [orb].
    destruct (get_data (r_src rl) quoted_refs) as [d0|e]; cbn [rbind]; auto.
    unfold pipe, quoted_stages. cbn [fold_left rbind].
    repeat (apply rbind_ext2; [|intro; try reflexivity; apply rmap_rows_as_rflat]). reflexivity.
  Qed.
End Quoted.

Lemma pipe_err fs e : fold_left (fun acc f => rdo x <- acc; rflat_rows f x) fs (Err e) = Err e.
Proof. induction fs as [|f fs IH]; simpl; auto. Qed.
Lemma pipe_cons f fs d : pipe (f :: fs) d = rdo x <- rflat_rows f d; pipe fs x.
Proof. unfold pipe. simpl. destruct (rflat_rows f d); simpl; auto. apply pipe_err. Qed.
Lemma pipe_nil d : pipe [] d = Ok d. Proof. reflexivity. Qed.

(* what the generation rules give for one row of a rule whose subject quotes the triples map q over the same rows *)
Definition spec_quoted_line (scfg : scfg) (rl q : rule) (sr : srow) : option ustr :=
  match spec_parts scfg q sr with
  | None => None
  | Some (s, p, o) =>
      match spec_po scfg rl sr with
      | None => None
      | Some (p', o') => spec_graph_line scfg rl sr (quote_triple (s ++ [32] ++ p ++ [32] ++ o) ++ [32] ++ p' ++ [32] ++ o')
      end
  end.

Section QuotedRow.
  Variables (cfg : ecfg) (fe : fenv) (scfg : scfg).
  Hypothesis Hcfg : cfg_agree cfg scfg.
  Hypothesis Hnq : c_nquads cfg = s_nquads scfg.
  Variables (rl q : rule).
  Hypothesis Hsk : r_sk rl = KQuoted.
  Definition quoted_names : list ustr := rule_names q ++ po_names rl ++ names (segs_of (r_gk rl) (r_gv rl)).
  Hypothesis Hq_ok : rule_ok false q.
  Hypothesis HP : pos_ok (r_pk rl) (r_pv rl) TIri.
  Hypothesis HO : pos_ok (r_ok rl) (r_ov rl) (r_ott rl).
  Hypothesis HL : r_ld rl <> LDNone -> pos_ok (r_ldk rl) (r_ldv rl) TNone.
  Hypothesis HG : graph_ok (c_nquads cfg) rl.
  (* no reference names the column in which the quoted subject is kept *)
  Hypothesis Hkeep : forall n, In n quoted_names -> ueqb n (keep_subject_col 0) = false.
  Hypothesis Hfree : names_free quoted_names.

  Theorem quoted_row_is_spec r sr :
    row_agree scfg sr [] r quoted_names ->
    match (rdo fs <- pipe (quoted_stages cfg fe rl q) [r]; extract_triples fs) with
    | Ok ls => exists line, spec_quoted_line scfg rl q sr = Some line /\ ls = [line]
    | Err _ => spec_quoted_line scfg rl q sr = None
    end.
  Proof.
    intro Hr. unfold quoted_stages, spec_quoted_line.
    (* the quoted map: terms *)
    rewrite pipe_cons, rflat_single.
    assert (Hrq : row_agree scfg sr [] r (rule_names q)) by (eapply row_agree_sub; [|exact Hr]; intros n Hn; unfold quoted_names; rewrite in_app_iff; tauto).
    pose proof (terms_phase cfg fe scfg Hcfg false q r sr Hq_ok Hrq) as T.
    destruct (mat_terms cfg fe q [] r) as [l|e]; cbn [rbind]; [|now rewrite T].
    destruct T as (ra & s & p & o & -> & Ep & Gs & Gp & Go & Da). rewrite Ep.
    (* the quoted map: its triple, one nesting level down: no graph *)
    rewrite pipe_cons, rflat_single. unfold finish_row at 1. rewrite Gs, Gp, Go. cbn [Nat.eqb andb rbind map].
    set (t := s ++ [32] ++ p ++ [32] ++ o).
    set (rb := rdrop col_object (rdrop col_predicate (rdrop col_subject (rset col_triple t ra)))).
    assert (Gt : rget col_triple rb = Some t) by (unfold rb; rewrite !rget_rdrop_other by reflexivity; apply rget_rset_same).
    (* it becomes the subject, and is kept *)
    rewrite pipe_cons, rflat_single. unfold st_set_subject, set_from. rewrite Gt. cbn [rbind].
    rewrite pipe_cons, rflat_single. unfold st_keep_subject, set_from. rewrite rget_rset_same. cbn [rbind].
    set (rd := rset (keep_subject_col 0) (quote_triple t) (rset col_subject (quote_triple t) rb)).
    assert (Gsd : rget col_subject rd = Some (quote_triple t)) by (unfold rd; rewrite rget_rset_other by reflexivity; apply rget_rset_same).
    assert (Ad : forall n, In n quoted_names -> rget n rd = rget n r).
    { intros n Hn. pose proof (Hfree n Hn) as Hres. pose proof (Hkeep n Hn) as Hk.
      cbn [mem reserved] in Hres. rewrite !orb_false_iff in Hres. destruct Hres as (A & B & C & D & E & F & G & _).
      unfold rd, rb. rewrite !rget_rset_other, !rget_rdrop_other, rget_rset_other by auto. apply Da. cbn [mem reserved]. now rewrite A, B, C, D, E, F, G. }
    assert (Hrd : forall ns, (forall n, In n ns -> In n quoted_names) -> row_agree scfg sr [] rd ns).
    { intros ns Hsub n Hn. cbn [app]. rewrite Ad by auto. apply Hr. auto. }
    (* the rule's own predicate and object *)
    rewrite pipe_cons, rflat_single.
    assert (M : mat_pos cfg fe (r_sk rl) (r_sv rl) col_subject [] (r_stt rl) [] rd = Ok [rd]) by (rewrite Hsk; reflexivity).
    pose proof (po_phase cfg fe scfg Hcfg rl rd rd sr _ M (same_data_refl rd) Gsd HP HO HL) as T2.
    assert (Hpo : row_agree scfg sr [] rd (po_names rl)) by (apply Hrd; intros n Hn; unfold quoted_names; rewrite !in_app_iff; tauto).
    specialize (T2 Hpo).
    destruct (mat_terms cfg fe rl [] rd) as [l|e]; cbn [rbind]; [|now rewrite T2].
    destruct T2 as (re & p' & o' & -> & Epo & Gs' & Gp' & Go' & De). rewrite Epo.
    (* triple string and graph *)
    rewrite pipe_cons, rflat_single, rbind_assoc.
    assert (Hg : row_agree scfg sr [] rd (names (segs_of (r_gk rl) (r_gv rl)))) by (apply Hrd; intros n Hn; unfold quoted_names; rewrite !in_app_iff; tauto).
    pose proof (finish_phase cfg fe scfg Hcfg Hnq rl rd re sr _ _ _ Gs' Gp' Go' De HG Hg) as T3.
    destruct (finish_row cfg fe 0 rl re) as [fs|e]; cbn [rbind] in *; [|exact T3].
    rewrite pipe_nil. cbn [rbind]. exact T3.
  Qed.
End QuotedRow.

(* ---------------------------------------------------------------- the whole rule over the preprocessed frame *)
Lemma concat_rows_in {B} (F : row -> result (list B)) d l : (rdo ls <- rmap_all F d; Ok (concat ls)) = Ok l ->
  forall x, In x l <-> exists r ls, In r d /\ F r = Ok ls /\ In x ls.
Proof.
  destruct (rmap_all F d) as [ls|e] eqn:E; simpl; [|discriminate]. intro H. injection H as <-.
  intro x. apply rmap_all_ok in E. apply (Forall2_concat_in _ _ _ x E).
Qed.
Lemma concat_rows_total {B} (F : row -> result (list B)) d : (forall r, In r d -> exists ls, F r = Ok ls) ->
  exists l, (rdo ls <- rmap_all F d; Ok (concat ls)) = Ok l.
Proof. intro H. destruct (rmap_all_total F d H) as (ys & ->). simpl. eauto. Qed.

Section QuotedRule.
  Variables (cfg : ecfg) (fe : fenv) (rules : list rule) (get_data : ustr -> list ustr -> result frame) (scfg : scfg).
  Hypothesis Hcfg : cfg_agree cfg scfg.
  Hypothesis Hnq : c_nquads cfg = s_nquads scfg.
  Variables (rl q : rule).
  Hypothesis Hsk : r_sk rl = KQuoted.
  Hypothesis Hsj : r_sjoin rl = [].
  Hypothesis Hok : mkind_eqb (r_ok rl) KQuoted = false.
  Hypothesis Hq : find_rule rules (r_sv rl) = Some q.
  Hypothesis Hqp : plain_rule q = true.
  Hypothesis Hq_ok : rule_ok false q.
  Hypothesis HP : pos_ok (r_pk rl) (r_pv rl) TIri.
  Hypothesis HO : pos_ok (r_ok rl) (r_ov rl) (r_ott rl).
  Hypothesis HL : r_ld rl <> LDNone -> pos_ok (r_ldk rl) (r_ldv rl) TNone.
  Hypothesis HG : graph_ok (c_nquads cfg) rl.
  Hypothesis Hkeep : forall n, In n (quoted_names rl q) -> ueqb n (keep_subject_col 0) = false.
  Hypothesis Hfree : names_free (quoted_names rl q).

  Theorem quoted_rule_is_spec na refs f :
    s_na scfg = na -> incl (quoted_names rl q) refs ->
    get_data (r_src rl) (quoted_refs fe rules rl) = Ok (preprocess na refs f) ->
    (forall ls, rule_triples cfg fe rules get_data rl = Ok ls ->
       forall x, In x ls <-> exists r, In r (preprocess na refs f) /\ spec_quoted_line scfg rl q (srow_of r) = Some x) /\
    ((forall r, In r (preprocess na refs f) -> spec_quoted_line scfg rl q (srow_of r) <> None) ->
       exists ls, rule_triples cfg fe rules get_data rl = Ok ls).
  Proof.
    intros Hna Hincl Hd.
    set (d := preprocess na refs f) in *.
    set (ROW := fun r : row => rdo fs <- pipe (quoted_stages cfg fe rl q) [r]; extract_triples fs).
    assert (EQ : okeq (rule_triples cfg fe rules get_data rl) (rdo ls <- rmap_all ROW d; Ok (concat ls))).
    { unfold rule_triples. rewrite (quoted_rule_unfold cfg fe rules get_data rl q Hsk Hsj Hok Hq Hqp), Hd. cbn [rbind].
      eapply okeq_trans; [apply okeq_bind; apply pipe_fuse|]. apply (rflat_fuse_map (fun r => pipe (quoted_stages cfg fe rl q) [r])). }
    assert (Row : forall r, In r d ->
              match ROW r with
              | Ok ls => exists line, spec_quoted_line scfg rl q (srow_of r) = Some line /\ ls = [line]
              | Err _ => spec_quoted_line scfg rl q (srow_of r) = None
              end).
    { intros r Hr. apply (quoted_row_is_spec cfg fe scfg Hcfg Hnq rl q Hsk Hq_ok HP HO HL HG Hkeep Hfree).
      eapply row_agree_sub; [exact Hincl|]. now apply (preprocessed_agree na refs f). }
    split.
    - intros ls Hls. apply EQ in Hls. intro x. rewrite (concat_rows_in ROW d ls Hls x). split.
      + intros (r & l & Hr & E & Hx). specialize (Row r Hr). rewrite E in Row. destruct Row as (line & Es & ->).
        destruct Hx as [<-|[]]. eauto.
      + intros (r & Hr & Es). specialize (Row r Hr). destruct (ROW r) as [l|e] eqn:E; [|congruence].
        destruct Row as (line & Es' & ->). exists r, [line]. repeat split; auto. left. congruence.
    - intro Hall. destruct (concat_rows_total ROW d) as (l & Hl).
      { intros r Hr. specialize (Row r Hr). destruct (ROW r) as [l|e]; eauto. exfalso. now apply (Hall r Hr). }
      exists l. now apply EQ.
  Qed.
End QuotedRule.

(* ---------------------------------------------------------------- asserted / non-asserted *)
Theorem asserted_exactly cfg fe rules get_data l : materialize_rules cfg fe rules get_data = Ok l ->
  forall x, In x l <-> exists rl ls, In rl rules /\ r_asserted rl = true /\ rule_triples cfg fe rules get_data rl = Ok ls /\ In x ls.
Proof.
  unfold materialize_rules. destruct (rmap_all _ (filter r_asserted rules)) as [ls|e] eqn:E; simpl; [|discriminate].
  intro H. injection H as <-. intro x. rewrite mem_dedup. apply rmap_all_ok in E. rewrite (Forall2_concat_in _ _ _ x E).
  split.
  - intros (rl & l & Hin & El & Hx). apply filter_In in Hin as [Hin Ha]. exists rl, l. auto.
  - intros (rl & l & Hin & Ha & El & Hx). exists rl, l. repeat split; auto. apply filter_In. auto.
Qed.
