(* C01: the generation rules read on the surface document (Spec.tm_row_lines: triples map, predicate-object maps, classes,
   graph maps of the subject map) and read on the normalised rule table (RowSpecP.spec_rule_line per rule) give the same
   statements, for documents of constants / references / templates (N-QUADS).  Together with RuleSpecP this closes
   engine(document) = generation rules(document) for that fragment. *)
From Coq Require Import String Lia.
From Morph Require Import Base.UStr Gen.Tables Model.Terms Model.Data Model.Engine Model.Mapping Model.Spec
     Proofs.DataP Proofs.GroupingP Proofs.TemplateP Proofs.TermP Proofs.RowwiseP Proofs.RowSpecP Proofs.NormaliseP Proofs.GraphsP Proofs.UnionP.
Local Open Scope N_scope.

Definition olist {A} (x : option A) : list A := match x with Some a => [a] | None => [] end.
Lemma in_olist {A} (x : option A) a : In a (olist x) <-> x = Some a.
Proof. destruct x; simpl; split; try tauto; try discriminate; [intros [->|[]]; auto|intro H; injection H as ->; auto]. Qed.

(* ---------------------------------------------------------------- the fragment *)
Lemma canon_neutral v x : neutral_dt v = true -> canon v x = canon [] x.
Proof. unfold neutral_dt, canon. rewrite !andb_true_iff, !negb_true_iff. intros [[A B] C]. now rewrite A, B, C. Qed.


(* ---------------------------------------------------------------- term types: the normaliser's completion is R2RML 7.4 *)
Lemma tt_object_is_spec o : tt_final (tt_object o) = spec_tt_object o.
Proof.
  unfold tt_object, spec_tt_object, tt_early, tt_final. destruct (m_tt (o_tm o)) as [t|]; auto.
  destruct (m_kind (o_tm o)), (m_ck (o_tm o)), (o_lang o), (o_dt o); reflexivity.
Qed.
Lemma tt_subject_is_spec m : valid_subject_tt (tt_final (tt_early m)) = true -> tt_final (tt_early m) = spec_tt_subject m.
Proof.
  unfold tt_early, spec_tt_subject, tt_final. destruct (m_tt m) as [t|]; auto.
  destruct (m_kind m), (m_ck m); simpl; auto; discriminate.
Qed.

(* ---------------------------------------------------------------- Spec side, for plain term maps *)
Section SpecSide.
  Variables (scfg : scfg) (fe : fenv) (doc : document) (tables : ustr -> stable).

  Lemma spec_terms_plain k v tt dt sr x : is_plain k = true ->
    (In x (spec_terms scfg fe k v tt dt sr) <-> exists lex, spec_lex scfg k v tt dt sr = Some lex /\ x = render tt lex).
  Proof.
    intro H. unfold spec_terms. destruct k; try discriminate;
      (destruct (spec_lex scfg _ v tt dt sr) as [lex|]; simpl; split;
       [intros [<-|[]]; eauto|intros (l & E & ->); injection E as ->; auto|contradiction|intros (l & E & _); discriminate]).
  Qed.
  Lemma spec_lex_neutral k v tt dt sr : neutral_dt dt = true -> spec_lex scfg k v tt dt sr = spec_lex scfg k v tt [] sr.
  Proof.
    intro H. unfold spec_lex. destruct k; auto.
    - apply subst_ext. intro n. destruct (sval scfg sr n); auto. destruct tt; auto. unfold canon_ok. now rewrite (canon_neutral dt _ H).
    - destruct (sval scfg sr v); auto. destruct tt; auto. unfold canon_ok. now rewrite (canon_neutral dt _ H).
  Qed.

  (* graphs: the Spec reads subject-map and predicate-object-map graph maps; the rules carry the placed graph maps *)
  Definition rule_graph_term (g : tmap) (sr : srow) : option ustr :=
    if is_plain (m_kind g) && negb (ueqb (m_value g) Tables.c_rml_default_graph)
    then opt_term TIri (spec_lex scfg (m_kind g) (m_value g) TIri [] sr) else Some [].
  Lemma graph_equiv_lists (F : tmap -> list ustr) (R : tmap -> option ustr) (dflt : tmap) l1 l2 x :
    (forall g, In g l1 <-> In g l2) -> (forall g, In g l1 -> forall y, In y (F g) <-> R g = Some y) -> (forall y, R dflt = Some y <-> y = []) ->
    (In x (match l1 with [] => [[]] | g0 :: gs => flat_map F (g0 :: gs) end) <-> exists g, In g (match l2 with [] => [dflt] | h0 :: hs => h0 :: hs end) /\ R g = Some x).
  Proof.
    intros Perm One Hd. destruct l1 as [|g0 gs].
    - destruct l2 as [|h0 hs]; [|exfalso; apply (Perm h0); now left]. split.
      + intros [<-|[]]. exists dflt. split; [now left|]. now apply Hd.
      + intros (g & [<-|[]] & Hg). apply Hd in Hg. subst. now left.
    - destruct l2 as [|h0 hs]; [exfalso; apply (Perm g0); now left|]. rewrite in_flat_map. split.
      + intros (g & Hg & Hy). exists g. split; [now apply Perm|]. now apply (One g Hg x).
      + intros (g & Hg & Hy). apply Perm in Hg. exists g. split; auto. now apply (One g Hg x).
  Qed.
  Lemma graph_equiv t pm sr x : forallb plain_graph (t_sgraphs t) = true -> forallb plain_graph (p_graphs pm) = true ->
    (In x (graph_terms scfg fe t pm sr) <-> exists g, In g (placed_graphs t pm) /\ rule_graph_term g sr = Some x).
  Proof.
    intros Hs Hp. unfold graph_terms, placed_graphs.
    apply (graph_equiv_lists (fun g => if mkind_eqb (m_kind g) KConst && ueqb (m_value g) Tables.c_rml_default_graph then [[]]
                                       else spec_terms scfg fe (m_kind g) (m_value g) TIri [] sr)
                             (fun g => rule_graph_term g sr) (const_iri Tables.c_rml_default_graph)).
    - intro g. rewrite !in_app_iff. tauto.
    - intros g Hg y. assert (Pg : plain_graph g = true).
      { apply in_app_iff in Hg as [Hg|Hg]; [rewrite forallb_forall in Hs|rewrite forallb_forall in Hp]; auto. }
      unfold plain_graph, plain_map in Pg. rewrite !andb_true_iff in Pg. destruct Pg as [[Pk _] Pd]. unfold rule_graph_term. rewrite Pk. cbn [andb].
      destruct (ueqb (m_value g) Tables.c_rml_default_graph) eqn:Ed; cbn [negb].
      + rewrite orb_false_r in Pd. rewrite Pd. cbn [andb]. simpl. split; [intros [<-|[]]; auto|intro E; injection E as <-; auto].
      + rewrite andb_false_r. rewrite spec_terms_plain by auto. unfold opt_term.
        destruct (spec_lex scfg (m_kind g) (m_value g) TIri [] sr) as [lex|]; simpl; split.
        * intros (l & E & ->). now injection E as ->.
        * intro E. injection E as <-. eauto.
        * intros (l & E & _). discriminate.
        * discriminate.
    - intro y. unfold rule_graph_term. cbn [const_iri mk_tmap m_kind m_value is_plain andb]. rewrite ueqb_refl. cbn [negb]. split; [intro E; now injection E as <-|intros ->; reflexivity].
  Qed.
End SpecSide.

Section ObjSide.
  Variables (scfg : scfg) (fe : fenv) (doc : document) (tables : ustr -> stable).
  Definition suffix_of_row (ld : ldkind) (ldk : mkind) (ldv : ustr) (sr : srow) : option ustr :=
    match ld with
    | LDNone => Some []
    | LDLang => option_map (fun l => 64 :: l) (spec_lex scfg ldk ldv TNone [] sr)
    | LDDt => option_map (fun d => 94 :: 94 :: render TIri d) (spec_lex scfg ldk ldv TIri [] sr)
    end.
  Lemma obj_equiv f t o sr ot : plain_objmap o = true ->
    (In ot (obj_terms scfg fe doc tables (S f) t o sr) <->
     exists ld ldk ldv ol suffix, In (ld, ldk, ldv) (ld_rows o) /\
       spec_lex scfg (m_kind (o_tm o)) (m_value (o_tm o)) (spec_tt_object o) ldv sr = Some ol /\
       suffix_of_row ld ldk ldv sr = Some suffix /\ ot = render (spec_tt_object o) ol ++ suffix).
  Proof.
    intro Hp. unfold plain_objmap, plain_map in Hp. rewrite !andb_true_iff in Hp. destruct Hp as [[Hk _] Hld].
    assert (Eo : obj_terms scfg fe doc tables (S f) t o sr =
                 match spec_suffix scfg o sr with
                 | None => []
                 | Some (suffix, dt) => map (fun x => x ++ suffix) (spec_terms scfg fe (m_kind (o_tm o)) (m_value (o_tm o)) (spec_tt_object o) dt sr)
                 end) by (cbn [obj_terms]; destruct (m_kind (o_tm o)); try discriminate; reflexivity).
    rewrite Eo. clear Eo. unfold spec_suffix, ld_rows.
    destruct (o_lang o) as [l|] eqn:El; destruct (o_dt o) as [d|] eqn:Ed; try discriminate.
    - (* language *)
      apply andb_true_iff in Hld as [Hlk Hln]. destruct (m_kind l) eqn:Ekl; try discriminate. cbn [spec_lex app].
      rewrite in_map_iff. split.
      + intros (y & <- & Hy). apply spec_terms_plain in Hy as (ol & E & ->); auto.
        exists LDLang, KConst, (m_value l), ol, (64 :: m_value l). split; [now left|]. split; [now rewrite spec_lex_neutral|]. split; reflexivity.
      + intros (ld & ldk & ldv & ol & suffix & [E|[]] & Hol & Hs & ->). injection E as <- <- <-.
        cbn [suffix_of_row spec_lex option_map] in Hs. injection Hs as <-. rewrite spec_lex_neutral in Hol by auto.
        eexists. split; [reflexivity|]. apply spec_terms_plain; eauto.
    - (* datatype *)
      destruct (m_kind d) eqn:Ekd; try discriminate. cbn [mkind_eqb andb].
      destruct (ueqb (m_value d) Tables.c_xsd_string) eqn:Es; cbn [app].
      + rewrite in_map_iff. split.
        * intros (y & <- & Hy). apply spec_terms_plain in Hy as (ol & E & ->); auto.
          exists LDNone, KNone, [], ol, []. split; [now left|]. split; [exact E|]. split; reflexivity.
        * intros (ld & ldk & ldv & ol & suffix & [E|[]] & Hol & Hs & ->). injection E as <- <- <-. cbn [suffix_of_row] in Hs. injection Hs as <-.
          eexists. split; [reflexivity|]. apply spec_terms_plain; eauto.
      + cbn [spec_lex]. rewrite in_map_iff. split.
        * intros (y & <- & Hy). apply spec_terms_plain in Hy as (ol & E & ->); auto.
          exists LDDt, KConst, (m_value d), ol, (94 :: 94 :: render TIri (m_value d)). split; [now left|]. split; [exact E|]. split; reflexivity.
        * intros (ld & ldk & ldv & ol & suffix & [E|[]] & Hol & Hs & ->). injection E as <- <- <-. cbn [suffix_of_row spec_lex option_map] in Hs. injection Hs as <-.
          eexists. split; [reflexivity|]. apply spec_terms_plain; eauto.
    - (* neither *)
      cbn [app]. rewrite in_map_iff. split.
      + intros (y & <- & Hy). apply spec_terms_plain in Hy as (ol & E & ->); auto.
        exists LDNone, KNone, [], ol, []. split; [now left|]. split; [exact E|]. split; reflexivity.
      + intros (ld & ldk & ldv & ol & suffix & [E|[]] & Hol & Hs & ->). injection E as <- <- <-. cbn [suffix_of_row] in Hs. injection Hs as <-.
        eexists. split; [reflexivity|]. apply spec_terms_plain; eauto.
  Qed.
End ObjSide.

(* ---------------------------------------------------------------- rule side *)
Lemma gen_in mk preds rows graphs rl :
  In rl (gen mk preds rows graphs) <->
  exists pm o ott ld ldk ldv gm, In pm preds /\ In (o, ott, (ld, ldk, ldv)) rows /\ In gm graphs /\
    rl = mk (m_kind pm) (m_value pm) (m_kind (o_tm o)) (m_value (o_tm o)) ott ld ldk ldv (m_kind gm) (m_value gm) (o_joins o).
Proof.
  unfold gen. rewrite in_flat_map. split.
  - intros (pm & Hpm & H). apply in_flat_map in H as ([[o ott] [[ld ldk] ldv]] & Ho & H). apply in_flat_map in H as (gm & Hg & [<-|[]]).
    exists pm, o, ott, ld, ldk, ldv, gm. auto.
  - intros (pm & o & ott & ld & ldk & ldv & gm & Hpm & Ho & Hg & ->). exists pm. split; auto.
    apply in_flat_map. exists (o, ott, (ld, ldk, ldv)). split; auto. apply in_flat_map. exists gm. split; auto. now left.
Qed.
Lemma plain_obj_not_parent o : plain_objmap o = true -> is_parent o = false.
Proof. unfold plain_objmap, plain_map, is_parent. rewrite !andb_true_iff. intros [[H _] _]. now destruct (m_kind (o_tm o)). Qed.
Lemma effective_plain p : forallb plain_objmap (p_objs p) = true -> effective_objs p = p_objs p.
Proof.
  intro H. unfold effective_objs.
  replace (filter (fun o => negb (is_parent o)) (p_objs p)) with (p_objs p); [now destruct (p_objs p)|].
  induction (p_objs p) as [|o l IH]; auto. simpl in *. apply andb_true_iff in H as [H1 H2]. rewrite (plain_obj_not_parent o H1). simpl. f_equal. auto.
Qed.
Lemma plain_map_undelimit m : plain_map m = true -> undelimit (m_kind m) (m_value m) = m_value m.
Proof. unfold plain_map. rewrite andb_true_iff. intros [_ H]. now apply ueqb_eq. Qed.
Lemma class_pom_plain c : plain_pom (class_pom c) = true.
Proof.
  unfold plain_pom, class_pom, plain_objmap, plain_obj, plain_map, const_iri, mk_tmap. cbn [p_preds p_objs p_graphs forallb m_kind m_value o_tm o_lang o_dt is_plain undelimit andb].
  now rewrite !ueqb_refl.
Qed.

Lemma base_rules_in d t rs : base_rules_of d t = Ok rs -> t_poms t <> [] ->
  let a := negb (t_nonasserted t) && negb (match t_poms t with [] => true | _ => false end) in
  let stt := tt_final (tt_early (t_subj t)) in
  valid_subject_tt stt = true /\
  forall rl, In rl rs <-> exists pm, In pm (t_poms t) /\ In rl (pom_rules d (mk_rule t a stt) pm).
Proof.
  rewrite base_rules_unfold. cbv zeta. destruct (valid_subject_tt (tt_final (tt_early (t_subj t)))) eqn:Ev; cbn [negb]; [|discriminate].
  destruct (t_poms t) as [|p ps] eqn:Ep; [intros _ H; now contradiction H|]. intros H _. split; auto.
  set (mk := mk_rule t _ _) in *.
  rewrite (rmap_all_ext _ (fun p => if pom_ok d p then Ok (pom_rules d mk p) else Err EValue)) in H by apply per_pom_guard.
  rewrite rmap_all_guard in H. destruct (forallb (pom_ok d) (p :: ps)); cbn [rbind] in H; [|discriminate]. injection H as <-.
  intro rl. change (pom_rules d mk p ++ concat (map (pom_rules d mk) ps)) with (concat (map (pom_rules d mk) (p :: ps))). rewrite in_concat. split.
  - intros (l & Hl & Hr). apply in_map_iff in Hl as (pm & <- & Hpm). eauto.
  - intros (pm & Hpm & Hr). exists (pom_rules d mk pm). split; auto. now apply in_map.
Qed.

(* the statement of a rule for a row as the document-level rules have it, in both output formats: with N-TRIPLES the
   statement is the graph-less projection and exists iff the statement is placed in a graph at all *)
Definition rule_graph_opt (scfg : scfg) (rl : rule) (sr : srow) : option ustr :=
  if is_plain (r_gk rl) && negb (ueqb (r_gv rl) Tables.c_rml_default_graph)
  then opt_term TIri (spec_lex scfg (r_gk rl) (r_gv rl) TIri [] sr) else Some [].
Definition doc_rule_line (scfg : scfg) (rl : rule) (sr : srow) : option ustr :=
  match spec_parts scfg rl sr with
  | None => None
  | Some (s, p, o) =>
      match rule_graph_opt scfg rl sr with
      | None => None
      | Some g => Some (if s_nquads scfg then (s ++ [32] ++ p ++ [32] ++ o) ++ [32] ++ g else s ++ [32] ++ p ++ [32] ++ o)
      end
  end.
Lemma doc_rule_line_nquads scfg rl sr : s_nquads scfg = true -> doc_rule_line scfg rl sr = spec_rule_line scfg rl sr.
Proof.
  intro H. rewrite spec_rule_line_parts. unfold doc_rule_line, spec_graph_line, rule_graph_opt. rewrite H.
  destruct (spec_parts scfg rl sr) as [[[s p] o]|]; reflexivity.
Qed.
Lemma doc_rule_line_ntriples scfg rl sr x : s_nquads scfg = false ->
  (doc_rule_line scfg rl sr = Some x <-> spec_rule_line scfg rl sr = Some x /\ rule_graph_opt scfg rl sr <> None).
Proof.
  intro H. rewrite spec_rule_line_parts. unfold doc_rule_line, spec_graph_line. rewrite H.
  destruct (spec_parts scfg rl sr) as [[[s p] o]|]; [|split; [discriminate|intros [X _]; discriminate]].
  destruct (rule_graph_opt scfg rl sr); split; try discriminate; auto.
  - intro E. split; auto. discriminate.
  - intros [E _]. exact E.
  - intros [_ X]. now contradiction X.
Qed.

Section TmEquiv.
  Variables (scfg : scfg) (fe : fenv) (doc : document) (tables : ustr -> stable) (d : document).

  (* the statement of one (predicate map, object map with its language / datatype row, graph map) of a triples map *)
  Definition tuple_line (t : tmapdef) (stt : ttype) (p : tmap) (o : objmap) (ld : ldkind) (ldk : mkind) (ldv : ustr) (g : tmap) (sr : srow) : option ustr :=
    match spec_lex scfg (m_kind (t_subj t)) (m_value (t_subj t)) stt [] sr with None => None | Some s =>
    match spec_lex scfg (m_kind p) (m_value p) TIri [] sr with None => None | Some pl =>
    match spec_lex scfg (m_kind (o_tm o)) (m_value (o_tm o)) (spec_tt_object o) ldv sr with None => None | Some ol =>
    match suffix_of_row scfg ld ldk ldv sr with None => None | Some suffix =>
    match rule_graph_term scfg g sr with None => None | Some gt =>
    Some (if s_nquads scfg then (render stt s ++ [32] ++ render TIri pl ++ [32] ++ render (spec_tt_object o) ol ++ suffix) ++ [32] ++ gt
          else render stt s ++ [32] ++ render TIri pl ++ [32] ++ render (spec_tt_object o) ol ++ suffix)
    end end end end end.

  Lemma rule_line_is_tuple t a stt p o ld ldk ldv g sr :
    plain_map (t_subj t) = true -> plain_map p = true -> plain_objmap o = true -> plain_graph g = true ->
    doc_rule_line scfg (mk_rule t a stt (m_kind p) (m_value p) (m_kind (o_tm o)) (m_value (o_tm o)) (spec_tt_object o) ld ldk ldv (m_kind g) (m_value g) (o_joins o)) sr
    = tuple_line t stt p o ld ldk ldv g sr.
  Proof.
    intros Hs Hp Ho Hg. unfold doc_rule_line, spec_parts, spec_po, spec_po_gen, spec_suffix_of, rule_graph_opt, tuple_line, rule_graph_term, suffix_of_row.
    cbn [mk_rule r_sk r_sv r_stt r_pk r_pv r_ok r_ov r_ott r_ld r_ldk r_ldv r_gk r_gv].
    assert (Hom : plain_map (o_tm o) = true) by (unfold plain_objmap in Ho; now apply andb_true_iff in Ho as [Ho _]).
    assert (Hgm : plain_map g = true) by (unfold plain_graph in Hg; now apply andb_true_iff in Hg as [Hg _]).
    rewrite (plain_map_undelimit _ Hs), (plain_map_undelimit _ Hp), (plain_map_undelimit _ Hom), (plain_map_undelimit _ Hgm).
    destruct (spec_lex scfg (m_kind (t_subj t)) (m_value (t_subj t)) stt [] sr); auto.
    destruct (spec_lex scfg (m_kind p) (m_value p) TIri [] sr); auto.
    destruct (spec_lex scfg (m_kind (o_tm o)) (m_value (o_tm o)) (spec_tt_object o) ldv sr); auto.
    destruct (match ld with LDNone => _ | LDLang => _ | LDDt => _ end); auto.
  Qed.
End TmEquiv.

Section TmEquiv2.
  Variables (scfg : scfg) (fe : fenv) (doc : document) (tables : ustr -> stable) (d : document).

  Lemma spec_fuel_S : exists f, spec_fuel doc = S f.
  Proof. unfold spec_fuel. simpl. eauto. Qed.

  Lemma tm_row_lines_in t sr x :
    In x (tm_row_lines scfg fe doc tables t sr) <->
    exists s pm p pt o ot g,
      In s (subj_terms scfg fe doc tables (spec_fuel doc) t sr) /\ In pm (t_poms t ++ map class_pom (t_classes t)) /\ In p (p_preds pm) /\
      In pt (spec_terms scfg fe (m_kind p) (m_value p) TIri [] sr) /\ In o (p_objs pm) /\ In ot (obj_terms scfg fe doc tables (spec_fuel doc) t o sr) /\
      In g (graph_terms scfg fe t pm sr) /\ x = (if s_nquads scfg then (s ++ [32] ++ pt ++ [32] ++ ot) ++ [32] ++ g else s ++ [32] ++ pt ++ [32] ++ ot).
  Proof.
    unfold tm_row_lines. destruct (s_nquads scfg) eqn:Hnq; cbv beta iota; split.
    - intro H. apply in_flat_map in H as (s & Hs & H). apply in_flat_map in H as (pm & Hpm & H). apply in_flat_map in H as (p & Hp & H).
      apply in_flat_map in H as (pt & Hpt & H). apply in_flat_map in H as (o & Ho & H). apply in_flat_map in H as (ot & Hot & H).
      apply in_map_iff in H as (g & <- & Hg). exists s, pm, p, pt, o, ot, g. auto 10.
    - intros (s & pm & p & pt & o & ot & g & Hs & Hpm & Hp & Hpt & Ho & Hot & Hg & ->).
      apply in_flat_map. exists s. split; auto. apply in_flat_map. exists pm. split; auto. apply in_flat_map. exists p. split; auto.
      apply in_flat_map. exists pt. split; auto. apply in_flat_map. exists o. split; auto. apply in_flat_map. exists ot. split; auto.
      apply in_map_iff. exists g. auto.
    - intro H. apply in_flat_map in H as (s & Hs & H). apply in_flat_map in H as (pm & Hpm & H). apply in_flat_map in H as (p & Hp & H).
      apply in_flat_map in H as (pt & Hpt & H). apply in_flat_map in H as (o & Ho & H). apply in_flat_map in H as (ot & Hot & H).
      destruct (graph_terms scfg fe t pm sr) as [|g gs] eqn:Eg; [contradiction|]. destruct H as [<-|[]].
      exists s, pm, p, pt, o, ot, g. rewrite Eg. repeat split; auto. now left.
    - intros (s & pm & p & pt & o & ot & g & Hs & Hpm & Hp & Hpt & Ho & Hot & Hg & ->).
      apply in_flat_map. exists s. split; auto. apply in_flat_map. exists pm. split; auto. apply in_flat_map. exists p. split; auto.
      apply in_flat_map. exists pt. split; auto. apply in_flat_map. exists o. split; auto. apply in_flat_map. exists ot. split; auto.
      destruct (graph_terms scfg fe t pm sr) as [|g0 gs]; [contradiction|]. now left.
  Qed.

  Lemma placed_graphs_plain t pm g : forallb plain_graph (t_sgraphs t) = true -> forallb plain_graph (p_graphs pm) = true ->
    In g (placed_graphs t pm) -> plain_graph g = true.
  Proof.
    intros Hs Hp. unfold placed_graphs. destruct (p_graphs pm ++ t_sgraphs t) as [|g0 gs] eqn:E.
    - intros [<-|[]]. unfold plain_graph, plain_map, const_iri, mk_tmap. cbn [m_kind m_value is_plain undelimit mkind_eqb andb orb]. now rewrite ueqb_refl.
    - rewrite <- E. intro H. apply in_app_iff in H as [H|H]; [rewrite forallb_forall in Hp|rewrite forallb_forall in Hs]; auto.
  Qed.

  Theorem tm_lines_equiv t sr rs :
    plain_tm t = true -> base_rules_of d (prepare_tm t) = Ok rs ->
    forall x, In x (tm_row_lines scfg fe doc tables t sr) <-> exists rl, In rl rs /\ doc_rule_line scfg rl sr = Some x.
  Proof.
    intros Hpl Hb x. unfold plain_tm in Hpl. rewrite !andb_true_iff in Hpl. destruct Hpl as [[[Hsub Hsg] Hpoms] _].
    set (poms := t_poms t ++ map class_pom (t_classes t)).
    assert (Hpp : forall pm, In pm poms -> plain_pom pm = true).
    { intros pm H. apply in_app_iff in H as [H|H]; [rewrite forallb_forall in Hpoms; auto|]. apply in_map_iff in H as (c & <- & _). apply class_pom_plain. }
    assert (Eprep : t_poms (prepare_tm t) = map (fun p => {| p_preds := p_preds p; p_objs := p_objs p; p_graphs := placed_graphs t p |}) poms) by apply prepare_poms.
    destruct (spec_fuel_S) as (f & Ef).
    rewrite tm_row_lines_in. rewrite Ef. fold poms. clearbody poms.
    destruct poms as [|pm0 pms] eqn:Epoms.
    { (* no predicate-object map at all *)
      split; [intros (s & pm & p & pt & o & ot & g & _ & [] & _)|].
      intros (rl & Hrl & Hx). exfalso. rewrite base_rules_unfold in Hb. cbv zeta in Hb. rewrite Eprep in Hb. cbn [map] in Hb.
      destruct (negb _) in Hb; [discriminate|]. injection Hb as <-. destruct Hrl as [<-|[]].
      unfold doc_rule_line, spec_parts, spec_po, spec_po_gen in Hx. cbn [mk_rule r_pk r_pv spec_lex] in Hx. destruct (spec_lex scfg _ _ _ [] sr) in Hx; discriminate. }
    assert (Hne : t_poms (prepare_tm t) <> []) by (rewrite Eprep; discriminate).
    destruct (base_rules_in d (prepare_tm t) rs Hb Hne) as [Hv Hin]. cbv zeta in Hin.
    set (a := negb (t_nonasserted (prepare_tm t)) && _) in Hin. set (stt := tt_final (tt_early (t_subj (prepare_tm t)))) in *.
    assert (Estt : stt = spec_tt_subject (t_subj t)) by (apply tt_subject_is_spec; exact Hv).
    assert (Esubj : forall s, In s (subj_terms scfg fe doc tables (S f) t sr) <->
                     exists sl, spec_lex scfg (m_kind (t_subj t)) (m_value (t_subj t)) stt [] sr = Some sl /\ s = render stt sl).
    { intro s. rewrite Estt. unfold plain_map in Hsub. apply andb_true_iff in Hsub as [Hk _].
      assert (E : subj_terms scfg fe doc tables (S f) t sr = spec_terms scfg fe (m_kind (t_subj t)) (m_value (t_subj t)) (spec_tt_subject (t_subj t)) [] sr)
        by (cbn [subj_terms]; destruct (m_kind (t_subj t)); try discriminate; reflexivity).
      rewrite E. now apply spec_terms_plain. }
    split.
    - intros (s & pm & p & pt & o & ot & g & Hs & Hpm & Hp & Hpt & Ho & Hot & Hg & ->).
      pose proof (Hpp pm Hpm) as Ppm. unfold plain_pom in Ppm. rewrite !andb_true_iff in Ppm. destruct Ppm as [[Pp Po] Pg].
      assert (Plp : plain_map p = true) by (rewrite forallb_forall in Pp; auto).
      assert (Plo : plain_objmap o = true) by (rewrite forallb_forall in Po; auto).
      apply Esubj in Hs as (sl & Esl & ->).
      apply spec_terms_plain in Hpt as (pl & Epl & ->); [|unfold plain_map in Plp; now apply andb_true_iff in Plp as [X _]].
      apply (obj_equiv scfg fe doc tables f t o sr ot Plo) in Hot as (ld & ldk & ldv & ol & suffix & Hld & Eol & Esuf & ->).
      apply (graph_equiv scfg fe tables t pm sr g Hsg Pg) in Hg as (gm & Hgm & Egt).
      pose proof (placed_graphs_plain t pm gm Hsg Pg Hgm) as Plg.
      exists (mk_rule (prepare_tm t) a stt (m_kind p) (m_value p) (m_kind (o_tm o)) (m_value (o_tm o)) (spec_tt_object o) ld ldk ldv (m_kind gm) (m_value gm) (o_joins o)).
      split.
      + apply Hin. exists {| p_preds := p_preds pm; p_objs := p_objs pm; p_graphs := placed_graphs t pm |}. split.
        * rewrite Eprep. apply in_map_iff. exists pm. auto.
        * unfold pom_rules. apply gen_in. exists p, o, (spec_tt_object o), ld, ldk, ldv, gm. cbn [p_preds p_objs p_graphs]. repeat split; auto.
          rewrite effective_plain by exact Po. cbn [p_objs]. apply in_flat_map. exists o. split; auto.
          unfold obj_rows. rewrite (plain_obj_not_parent o Plo). apply in_map_iff. exists (ld, ldk, ldv). split; auto.
          unfold ott_of. rewrite (plain_obj_not_parent o Plo). now rewrite tt_object_is_spec.
      + rewrite (rule_line_is_tuple scfg (prepare_tm t) a stt p o ld ldk ldv gm sr Hsub Plp Plo Plg).
        unfold tuple_line. cbn [prepare_tm complete_default_graph sgraphs_to_pom class_to_pom t_subj]. rewrite Esl, Epl, Eol, Esuf, Egt. reflexivity.
    - intros (rl & Hrl & Hx). apply Hin in Hrl as (pm' & Hpm' & Hr). rewrite Eprep in Hpm'. apply in_map_iff in Hpm' as (pm & <- & Hpm).
      pose proof (Hpp pm Hpm) as Ppm. unfold plain_pom in Ppm. rewrite !andb_true_iff in Ppm. destruct Ppm as [[Pp Po] Pg].
      unfold pom_rules in Hr. apply gen_in in Hr as (p & o & ott & ld & ldk & ldv & gm & Hp & Hrow & Hgm & ->). cbn [p_preds p_objs p_graphs] in *.
      rewrite effective_plain in Hrow by exact Po. cbn [p_objs] in Hrow. apply in_flat_map in Hrow as (o' & Ho & Hrow).
      assert (Plo : plain_objmap o' = true) by (rewrite forallb_forall in Po; auto).
      unfold obj_rows in Hrow. rewrite (plain_obj_not_parent o' Plo) in Hrow. apply in_map_iff in Hrow as ([[ld' ldk'] ldv'] & E & Hld).
      unfold ott_of in E. rewrite (plain_obj_not_parent o' Plo), tt_object_is_spec in E. injection E as <- <- <- <- <-.
      assert (Plp : plain_map p = true) by (rewrite forallb_forall in Pp; auto).
      pose proof (placed_graphs_plain t pm gm Hsg Pg Hgm) as Plg.
      rewrite (rule_line_is_tuple scfg (prepare_tm t) a stt p o' ld' ldk' ldv' gm sr Hsub Plp Plo Plg) in Hx.
      unfold tuple_line in Hx. cbn [prepare_tm complete_default_graph sgraphs_to_pom class_to_pom t_subj] in Hx.
      destruct (spec_lex scfg (m_kind (t_subj t)) (m_value (t_subj t)) stt [] sr) as [sl|] eqn:Esl; [|discriminate].
      destruct (spec_lex scfg (m_kind p) (m_value p) TIri [] sr) as [pl|] eqn:Epl; [|discriminate].
      destruct (spec_lex scfg (m_kind (o_tm o')) (m_value (o_tm o')) (spec_tt_object o') ldv' sr) as [ol|] eqn:Eol; [|discriminate].
      destruct (suffix_of_row scfg ld' ldk' ldv' sr) as [suffix|] eqn:Esuf; [|discriminate].
      destruct (rule_graph_term scfg gm sr) as [gt|] eqn:Egt; [|discriminate]. injection Hx as <-.
      exists (render stt sl), pm, p, (render TIri pl), o', (render (spec_tt_object o') ol ++ suffix), gt.
      split; [apply Esubj; eauto|]. split; [exact Hpm|]. split; [exact Hp|].
      split; [apply spec_terms_plain; [unfold plain_map in Plp; now apply andb_true_iff in Plp as [X _]|]; eauto|].
      split; [exact Ho|].
      split; [apply (obj_equiv scfg fe doc tables f t o' sr _ Plo); exists ld', ldk', ldv', ol, suffix; auto|].
      split; [apply (graph_equiv scfg fe tables t pm sr gt Hsg Pg); eauto|].
      reflexivity.
  Qed.
End TmEquiv2.

(* ---------------------------------------------------------------- the rest of the normalisation chain on plain documents *)
Definition with_id (k : nat) (r : rule) : rule :=
  {| r_id := dec_of_nat k ++ sep_open ++ [] ++ sep_comma ++ [] ++ sep_close; r_tm := r_tm r; r_src := r_src r; r_asserted := r_asserted r;
     r_sk := r_sk r; r_sv := r_sv r; r_stt := r_stt r; r_pk := r_pk r; r_pv := r_pv r;
     r_ok := r_ok r; r_ov := r_ov r; r_ott := r_ott r;
     r_ld := r_ld r; r_ldk := r_ldk r; r_ldv := r_ldv r; r_gk := r_gk r; r_gv := r_gv r;
     r_sjoin := r_sjoin r; r_ojoin := r_ojoin r |}.
Definition unquoted (r : rule) : bool :=
  negb (mkind_eqb (r_sk r) KQuoted) && negb (mkind_eqb (r_ok r) KQuoted) && negb (mkind_eqb (r_ok r) KParent).

Lemma rmap_all_pure {A B} (g : A -> B) l : rmap_all (fun x => Ok (g x)) l = Ok (map g l).
Proof. induction l as [|x l IH]; simpl; auto. now rewrite IH. Qed.
Lemma expand_plain f nb tm : (forall kr, In kr nb -> unquoted (snd kr) = true) ->
  expand_tm (S f) nb tm = Ok (map (fun kr => with_id (fst kr) (snd kr)) (filter (fun kr => ueqb (r_tm (snd kr)) tm) nb)).
Proof.
  intro H. cbn [expand_tm].
  rewrite (rmap_all_ext_in _ (fun kr => Ok [with_id (fst kr) (snd kr)])).
  - rewrite rmap_all_pure. cbn [rbind]. f_equal. induction (filter _ nb) as [|x l IH]; simpl; auto. now rewrite IH.
  - intros [k r] Hin. apply filter_In in Hin as [Hin _]. specialize (H (k, r) Hin). unfold unquoted in H. cbn [snd] in H.
    rewrite !andb_true_iff, !negb_true_iff in H. destruct H as [[H1 H2] _]. rewrite H1, H2. reflexivity.
Qed.

Lemma prepared_nopoms t : (match t_poms (prepare_tm t) with [] => true | _ => false end) = (match t_poms t, t_classes t with [], [] => true | _, _ => false end).
Proof. unfold prepare_tm. rewrite prepare_poms. destruct (t_poms t), (t_classes t); reflexivity. Qed.

Lemma plain_base_rules d t rs : plain_tm t = true -> base_rules_of d (prepare_tm t) = Ok rs ->
  forall r, In r rs -> unquoted r = true /\ r_src r = t_src t /\ r_asserted r = asserted t.
Proof.
  intros Hpl Hb r Hr. pose proof Hpl as Hpl0. unfold plain_tm in Hpl. rewrite !andb_true_iff in Hpl. destruct Hpl as [[[Hsub Hsg] Hpoms] _].
  assert (Hsk : mkind_eqb (m_kind (t_subj t)) KQuoted = false).
  { unfold plain_map in Hsub. apply andb_true_iff in Hsub as [H _]. now destruct (m_kind (t_subj t)). }
  assert (Ea : negb (t_nonasserted (prepare_tm t)) && negb (match t_poms (prepare_tm t) with [] => true | _ => false end) = asserted t).
  { rewrite prepared_nopoms. unfold asserted. reflexivity. }
  destruct (t_poms (prepare_tm t)) as [|p0 ps0] eqn:Ep.
  - rewrite base_rules_unfold in Hb. cbv zeta in Hb. rewrite Ep in Hb. destruct (negb _) in Hb; [discriminate|]. injection Hb as <-.
    destruct Hr as [<-|[]]. unfold unquoted. cbn [mk_rule r_sk r_ok r_src r_asserted]. cbn [prepare_tm complete_default_graph sgraphs_to_pom class_to_pom t_subj t_src].
    rewrite Hsk. repeat split; auto.
  - assert (Hne : t_poms (prepare_tm t) <> []) by (rewrite Ep; discriminate).
    destruct (base_rules_in d (prepare_tm t) rs Hb Hne) as [_ Hin]. cbv zeta in Hin. apply Hin in Hr as (pm' & Hpm' & Hr).
    unfold prepare_tm in Hpm'. rewrite prepare_poms in Hpm'. apply in_map_iff in Hpm' as (pm & <- & Hpm).
    assert (Ppm : plain_pom pm = true).
    { apply in_app_iff in Hpm as [H|H]; [rewrite forallb_forall in Hpoms; auto|]. apply in_map_iff in H as (c & <- & _). apply class_pom_plain. }
    unfold plain_pom in Ppm. rewrite !andb_true_iff in Ppm. destruct Ppm as [[Pp Po] Pg].
    unfold pom_rules in Hr. apply gen_in in Hr as (p & o & ott & ld & ldk & ldv & gm & Hp & Hrow & Hgm & ->). cbn [p_preds p_objs p_graphs] in *.
    rewrite effective_plain in Hrow by exact Po. cbn [p_objs] in Hrow. apply in_flat_map in Hrow as (o' & Ho & Hrow).
    assert (Plo : plain_objmap o' = true) by (rewrite forallb_forall in Po; auto).
    unfold obj_rows in Hrow. apply in_map_iff in Hrow as (ldr & E & _). injection E as <- _ _.
    unfold unquoted. cbn [mk_rule r_sk r_ok r_src r_asserted]. cbn [prepare_tm complete_default_graph sgraphs_to_pom class_to_pom t_subj t_src].
    rewrite Hsk. unfold plain_objmap, plain_map in Plo. rewrite !andb_true_iff in Plo. destruct Plo as [[Hk _] _].
    repeat split; auto.
    + destruct (m_kind (o_tm o')); try discriminate; reflexivity.
    + rewrite <- Ea. rewrite Ep. reflexivity.
Qed.

Lemma dedup_first_aux_in l : forall seen x, In x (dedup_first_aux seen l) <-> In x l /\ mem x seen = false.
Proof.
  induction l as [|y l IH]; intros seen x; simpl; [tauto|]. destruct (mem y seen) eqn:E.
  - rewrite IH. split; [intros [H1 H2]; auto|]. intros [[->|H1] H2]; [congruence|auto].
  - simpl. rewrite IH. simpl. split.
    + intros [->|[H1 H2]]; [auto|]. apply orb_false_iff in H2 as [_ H2]. auto.
    + intros [[->|H1] H2]; [auto|]. destruct (ueqb x y) eqn:E2; [apply ueqb_eq in E2; subst; auto|]. right. split; auto; simpl; now rewrite ?E2.
Qed.
Lemma dedup_first_in l x : In x (dedup_first l) <-> In x l.
Proof. unfold dedup_first. rewrite dedup_first_aux_in. simpl. tauto. Qed.
Lemma number_from_in {A} (l : list A) : forall k0 k x, In (k, x) (number_from k0 l) -> In x l.
Proof.
  induction l as [|y l IH]; intros k0 k x; simpl; [tauto|]. intros [E|H].
  - injection E as _ E2. now left.
  - right. eapply IH. exact H.
Qed.
Lemma number_from_all {A} (l : list A) : forall k0 x, In x l -> exists k, In (k, x) (number_from k0 l).
Proof. induction l as [|y l IH]; intros k0 x; simpl; [tauto|]. intros [->|H]; [exists k0; auto|]. destruct (IH (S k0) x H) as (k & Hk). eauto. Qed.
Lemma doc_rule_line_with_id scfg k r sr : doc_rule_line scfg (with_id k r) sr = doc_rule_line scfg r sr.
Proof. reflexivity. Qed.

Section DocEquiv.
  Variables (scfg : scfg) (fe : fenv) (tables : ustr -> stable).

  (* the generation rules read on the document and read rule by rule on its normalised table give the same statements *)
  Theorem doc_spec_is_rule_spec d0 rules : forallb plain_tm d0 = true -> normalise d0 = Ok rules ->
    forall x, In x (spec_lines scfg fe d0 tables) <->
              exists rl sr, In rl rules /\ r_asserted rl = true /\ In sr (tables (r_src rl)) /\ doc_rule_line scfg rl sr = Some x.
  Proof.
    intros Hpl Hn. unfold normalise in Hn. set (d := prepare d0) in *.
    destruct (forallb _ d) in Hn; [discriminate|].
    destruct (rmap_all (base_rules_of d) d) as [base|e] eqn:Eb; cbn [rbind] in Hn; [|discriminate].
    apply rmap_all_ok in Eb.
    assert (Ed : d = map prepare_tm d0) by reflexivity.
    assert (Tm : forall t, In t d0 -> exists rs, In rs base /\ base_rules_of d (prepare_tm t) = Ok rs).
    { intros t Ht. assert (X : In (prepare_tm t) d) by (rewrite Ed; now apply in_map). destruct (Forall2_in_l _ _ _ _ Eb X) as (rs & H1 & H2). eauto. }
    assert (Rs : forall rs, In rs base -> exists t, In t d0 /\ base_rules_of d (prepare_tm t) = Ok rs).
    { intros rs Hrs. destruct (Forall2_in_r _ _ _ _ Eb Hrs) as (t' & H1 & H2). rewrite Ed in H1. apply in_map_iff in H1 as (t & <- & Ht). eauto. }
    assert (Pl : forall t, In t d0 -> plain_tm t = true) by (rewrite forallb_forall in Hpl; auto).
    set (nb := number_from 0 (concat base)) in *.
    assert (Unq : forall kr, In kr nb -> unquoted (snd kr) = true).
    { intros [k r] H. apply number_from_in in H. apply in_concat in H as (rs & Hrs & Hr). destruct (Rs rs Hrs) as (t & Ht & Hb).
      now destruct (plain_base_rules d t rs (Pl t Ht) Hb r Hr). }
    rewrite (rmap_all_ext _ (fun tm => Ok (map (fun kr => with_id (fst kr) (snd kr)) (filter (fun kr => ueqb (r_tm (snd kr)) tm) nb)))) in Hn
      by (intro tm; now apply expand_plain).
    rewrite rmap_all_pure in Hn. cbn [rbind] in Hn.
    set (mid := concat (map _ (dedup_first (tm_ids d)))) in Hn.
    assert (Mid : forall rl, In rl mid <-> exists k r, In (k, r) nb /\ In (r_tm r) (tm_ids d) /\ rl = with_id k r).
    { intro rl. unfold mid. rewrite in_concat. split.
      - intros (l & Hl & Hr). apply in_map_iff in Hl as (tm & <- & Htm). apply in_map_iff in Hr as ([k r] & <- & Hf).
        apply filter_In in Hf as [Hf E]. apply ueqb_eq in E. cbn [snd fst] in *. exists k, r. repeat split; auto. rewrite E. now apply dedup_first_in.
      - intros (k & r & Hkr & Hid & ->). eexists. split; [apply in_map_iff; exists (r_tm r); split; [reflexivity|now apply dedup_first_in]|].
        apply in_map_iff. exists (k, r). split; auto. apply filter_In. split; auto. apply ueqb_refl. }
    assert (Res : rmap_all (resolve_parent mid) mid = Ok mid).
    { rewrite (rmap_all_ext_in _ (fun r => Ok ((fun x => x) r))); [rewrite rmap_all_pure; now rewrite map_id|].
      intros rl Hrl. apply Mid in Hrl as (k & r & Hkr & _ & ->). specialize (Unq (k, r) Hkr). unfold unquoted in Unq. cbn [snd] in Unq.
      rewrite !andb_true_iff, !negb_true_iff in Unq. destruct Unq as [_ U]. unfold resolve_parent. cbn [with_id r_ok]. now rewrite U. }
    rewrite Res in Hn. cbn [rbind] in Hn. destruct (existsb rule_has_blank mid) in Hn; [discriminate|]. injection Hn as <-.
    intro x. unfold spec_lines. rewrite mem_dedup, in_flat_map. split.
    - intros (t & Ht & Hx). destruct (asserted t) eqn:Ea; [|contradiction]. apply in_flat_map in Hx as (sr & Hsr & Hx).
      destruct (Tm t Ht) as (rs & Hrs & Hb).
      destruct (proj1 (tm_lines_equiv scfg fe d0 tables d t sr rs (Pl t Ht) Hb x) Hx) as (rl0 & Hrl0 & Hline).
      destruct (plain_base_rules d t rs (Pl t Ht) Hb rl0 Hrl0) as (_ & Hsrc & Hass).
      destruct (base_rules_asserted d (prepare_tm t) rs rl0 Hb Hrl0) as [_ Htm].
      assert (Hc : In rl0 (concat base)) by (apply in_concat; eauto).
      destruct (number_from_all (concat base) 0 rl0 Hc) as (k & Hk).
      exists (with_id k rl0), sr. split; [|split; [|split]].
      + apply Mid. exists k, rl0. repeat split; auto. rewrite Htm. unfold tm_ids. rewrite Ed, map_map. apply in_map_iff. exists t. auto.
      + cbn [with_id r_asserted]. now rewrite Hass.
      + cbn [with_id r_src]. now rewrite Hsrc.
      + exact Hline.
    - intros (rl & sr & Hrl & Has & Hsr & Hline). apply Mid in Hrl as (k & r & Hkr & _ & ->).
      apply number_from_in in Hkr. apply in_concat in Hkr as (rs & Hrs & Hr). destruct (Rs rs Hrs) as (t & Ht & Hb).
      destruct (plain_base_rules d t rs (Pl t Ht) Hb r Hr) as (_ & Hsrc & Hass).
      cbn [with_id r_asserted r_src] in Has, Hsr. rewrite doc_rule_line_with_id in Hline.
      exists t. split; auto. rewrite <- Hass, Has. apply in_flat_map. exists sr. split; [now rewrite <- Hsrc|].
      apply (tm_lines_equiv scfg fe d0 tables d t sr rs (Pl t Ht) Hb). eauto.
  Qed.
End DocEquiv.
