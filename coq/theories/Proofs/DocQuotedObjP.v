(* C13 / C01: quoted triples maps in OBJECT position at document level (one level, over the same rows).  Same plan as DocQuotedP
   (quoted subject maps): Spec(document) = rule table with one copy of every quoting rule per rule of the quoted map; the
   engine on the delivered rows gives exactly these statements. *)
From Coq Require Import String Lia.
From Morph Require Import Base.UStr Gen.Tables Model.Terms Model.Data Model.Engine Model.Mapping Model.Spec Model.Fragment
     Proofs.DataP Proofs.GroupingP Proofs.TemplateP Proofs.TermP Proofs.RowwiseP Proofs.RowSpecP Proofs.RuleSpecP Proofs.NormaliseP Proofs.GraphsP
     Proofs.UnionP Proofs.QuotedP Proofs.QuotedObjP Proofs.DocSpecP Proofs.DocEngineP Proofs.DocJoinP Proofs.DocQuotedP.
Local Open Scope N_scope.

(* the statement of a rule rl whose object quotes the triple of rule b (which must be placed in a graph) *)
Definition doc_qobj_line (scfg : scfg) (rl b : rule) (sr : srow) : option ustr :=
  match spec_parts scfg b sr with None => None | Some (s, p, o) =>
  match rule_graph_opt scfg b sr with None => None | Some _ =>
  match spec_lex scfg (r_sk rl) (r_sv rl) (r_stt rl) [] sr with None => None | Some s' =>
  match spec_lex scfg (r_pk rl) (r_pv rl) TIri [] sr with None => None | Some p' =>
  match rule_graph_opt scfg rl sr with None => None | Some g =>
  let triple := render (r_stt rl) s' ++ [32] ++ render TIri p' ++ [32] ++ quote_triple (s ++ [32] ++ p ++ [32] ++ o) in
  Some (if s_nquads scfg then triple ++ [32] ++ g else triple)
  end end end end end.

Lemma qobj_fields o : qobj_objmap o = true ->
  m_kind (o_tm o) = KQuoted /\ m_tt (o_tm o) = None /\ o_lang o = None /\ o_dt o = None /\ o_joins o = [] /\ is_parent o = false.
Proof.
  unfold qobj_objmap. rewrite !andb_true_iff. intros [[Hk Hn] Hj].
  assert (Ek : m_kind (o_tm o) = KQuoted) by (destruct (m_kind (o_tm o)); try discriminate; reflexivity).
  destruct (m_tt (o_tm o)); [discriminate|]. destruct (o_lang o); [discriminate|]. destruct (o_dt o); [discriminate|].
  repeat split; auto; [destruct (o_joins o); [reflexivity|discriminate]|unfold is_parent; now rewrite Ek].
Qed.
Lemma plain_not_qobj o : plain_objmap o = true -> qobj_objmap o = true -> False.
Proof.
  intros H1 H2. destruct (qobj_fields o H2) as (Ek & _). unfold plain_objmap, plain_map in H1. rewrite !andb_true_iff in H1. destruct H1 as [[H _] _]. rewrite Ek in H. discriminate.
Qed.
Lemma eff_qplain p : (forallb plain_objmap (p_objs p) || forallb qobj_objmap (p_objs p)) = true -> effective_objs p = p_objs p.
Proof.
  intro H. apply orb_true_iff in H as [H|H]; [now apply effective_plain|].
  unfold effective_objs. replace (filter (fun o => negb (is_parent o)) (p_objs p)) with (p_objs p); [now destruct (p_objs p)|].
  induction (p_objs p) as [|o l IH]; auto. cbn [forallb] in H. apply andb_true_iff in H as [H1 H2]. cbn [filter].
  destruct (qobj_fields o H1) as (_ & _ & _ & _ & _ & E). rewrite E. cbn [negb]. f_equal. auto.
Qed.
Lemma qobj_kind p o : (forallb plain_objmap (p_objs p) || forallb qobj_objmap (p_objs p)) = true -> In o (p_objs p) -> plain_objmap o = true \/ qobj_objmap o = true.
Proof. intros H Ho. apply orb_true_iff in H as [H|H]; rewrite forallb_forall in H; auto. Qed.
Lemma class_pom_qplain c : qplain_pom (class_pom c) = true.
Proof.
  pose proof (class_pom_plain c) as H. unfold plain_pom in H. rewrite !andb_true_iff in H. destruct H as [[A B] C].
  unfold qplain_pom. rewrite A, B, C. reflexivity.
Qed.

Section QObjSpec.
  Variables (scfg : scfg) (fe : fenv) (doc : document) (tables : ustr -> stable) (d : document).

  (* the object terms of a quoting object map: the quoted triples of the quoted map for the same row *)
  Lemma qobj_obj_equiv f t o q sr rsq ot : qobj_objmap o = true -> find_tm doc (m_value (o_tm o)) = Some q -> plain_tm q = true ->
    base_rules_of d (prepare_tm q) = Ok rsq ->
    (In ot (obj_terms scfg fe doc tables (S (S (S f))) t o sr) <->
     exists b s p o', In b rsq /\ spec_parts scfg b sr = Some (s, p, o') /\ rule_graph_opt scfg b sr <> None /\ ot = quote_triple (s ++ [32] ++ p ++ [32] ++ o')).
  Proof.
    intros Hq Hf Hp Hbq. destruct (qobj_fields o Hq) as (Ek & _ & _ & _ & Ej & _).
    assert (Eo : obj_terms scfg fe doc tables (S (S (S f))) t o sr = map quote_triple (tm_triples scfg fe doc tables (S (S f)) q sr)).
    { cbn [obj_terms]. rewrite Ek, Hf, Ej. cbn [joined_rows flat_map]. now rewrite app_nil_r. }
    rewrite Eo, in_map_iff. split.
    - intros (tr & <- & Htr). apply (quoted_triples_by_rules scfg fe doc tables d q sr f rsq tr Hp Hbq) in Htr as (b & s & p & o' & A & B & C & ->). exists b, s, p, o'. auto.
    - intros (b & s & p & o' & A & B & C & ->). exists (s ++ [32] ++ p ++ [32] ++ o'). split; auto.
      apply (quoted_triples_by_rules scfg fe doc tables d q sr f rsq _ Hp Hbq). exists b, s, p, o'. auto.
  Qed.

  Theorem tm_lines_equiv_qobj t sr rs :
    qobj_tm t = true ->
    (forall pm o, In pm (t_poms t) -> In o (p_objs pm) -> qobj_objmap o = true ->
       exists q rsq, find_tm doc (m_value (o_tm o)) = Some q /\ plain_tm q = true /\ base_rules_of d (prepare_tm q) = Ok rsq) ->
    base_rules_of d (prepare_tm t) = Ok rs ->
    forall x, In x (tm_row_lines scfg fe doc tables t sr) <->
      exists rl, In rl rs /\
        ((r_ok rl <> KQuoted /\ doc_rule_line scfg rl sr = Some x) \/
         (r_ok rl = KQuoted /\ exists q rsq b, find_tm doc (r_ov rl) = Some q /\ plain_tm q = true /\ base_rules_of d (prepare_tm q) = Ok rsq /\ In b rsq /\
            doc_qobj_line scfg rl b sr = Some x)).
  Proof.
    intros Hpl Hpar Hb x. unfold qobj_tm in Hpl. rewrite !andb_true_iff in Hpl. destruct Hpl as [[[Hsub Hsg] Hpoms] _].
    set (poms := t_poms t ++ map class_pom (t_classes t)).
    assert (Hpp : forall pm, In pm poms -> qplain_pom pm = true).
    { intros pm H. apply in_app_iff in H as [H|H]; [rewrite forallb_forall in Hpoms; auto|]. apply in_map_iff in H as (c & <- & _). apply class_pom_qplain. }
    assert (Hpar' : forall pm o, In pm poms -> In o (p_objs pm) -> qobj_objmap o = true ->
       exists q rsq, find_tm doc (m_value (o_tm o)) = Some q /\ plain_tm q = true /\ base_rules_of d (prepare_tm q) = Ok rsq).
    { intros pm o H Ho Hj. apply in_app_iff in H as [H|H]; [eauto|]. apply in_map_iff in H as (c & <- & _). cbn [class_pom p_objs] in Ho. destruct Ho as [<-|[]]. discriminate. }
    assert (Eprep : t_poms (prepare_tm t) = map (fun p => {| p_preds := p_preds p; p_objs := p_objs p; p_graphs := placed_graphs t p |}) poms) by apply prepare_poms.
    destruct (spec_fuel_SSS doc) as (f & Ef).
    rewrite tm_row_lines_in. rewrite Ef. fold poms. clearbody poms.
    destruct poms as [|pm0 pms] eqn:Epoms.
    { split; [intros (s & pm & p & pt & o & ot & g & _ & [] & _)|].
      intros (rl & Hrl & Hx). exfalso. rewrite base_rules_unfold in Hb. cbv zeta in Hb. rewrite Eprep in Hb. cbn [map] in Hb.
      destruct (negb _) in Hb; [discriminate|]. injection Hb as <-. destruct Hrl as [<-|[]]. destruct Hx as [[_ Hx]|[Hk _]]; [|discriminate Hk].
      unfold doc_rule_line, spec_parts, spec_po, spec_po_gen in Hx. cbn [mk_rule r_pk r_pv spec_lex] in Hx. destruct (spec_lex scfg _ _ _ [] sr) in Hx; discriminate. }
    assert (Hne : t_poms (prepare_tm t) <> []) by (rewrite Eprep; discriminate).
    destruct (base_rules_in d (prepare_tm t) rs Hb Hne) as [Hv Hin]. cbv zeta in Hin.
    set (a := negb (t_nonasserted (prepare_tm t)) && _) in Hin. set (stt := tt_final (tt_early (t_subj (prepare_tm t)))) in *.
    assert (Estt : stt = spec_tt_subject (t_subj t)) by (apply tt_subject_is_spec; exact Hv).
    assert (Esubj : forall s, In s (subj_terms scfg fe doc tables (S (S (S f))) t sr) <->
                     exists sl, spec_lex scfg (m_kind (t_subj t)) (m_value (t_subj t)) stt [] sr = Some sl /\ s = render stt sl).
    { intro s. rewrite Estt. unfold plain_map in Hsub. apply andb_true_iff in Hsub as [Hk _].
      assert (E : subj_terms scfg fe doc tables (S (S (S f))) t sr = spec_terms scfg fe (m_kind (t_subj t)) (m_value (t_subj t)) (spec_tt_subject (t_subj t)) [] sr)
        by (cbn [subj_terms]; destruct (m_kind (t_subj t)); try discriminate; reflexivity).
      rewrite E. now apply spec_terms_plain. }
    assert (Ott : forall o, qobj_objmap o = true -> ott_of d o = TStar).
    { intros o Jo. destruct (qobj_fields o Jo) as (Ek & Et & El & Ed & _ & Eip). unfold ott_of. rewrite Eip. unfold tt_object, tt_early. now rewrite Et, Ek. }
    split.
    - intros (s & pm & p & pt & o & ot & g & Hs & Hpm & Hp & Hpt & Ho & Hot & Hg & ->).
      pose proof (Hpp pm Hpm) as Ppm. unfold qplain_pom in Ppm. rewrite !andb_true_iff in Ppm. destruct Ppm as [[Pp Po] Pg].
      assert (Plp : plain_map p = true) by (rewrite forallb_forall in Pp; auto).
      apply Esubj in Hs as (sl & Esl & ->).
      apply spec_terms_plain in Hpt as (pl & Epl & ->); [|unfold plain_map in Plp; now apply andb_true_iff in Plp as [X _]].
      apply (graph_equiv scfg fe tables t pm sr g Hsg Pg) in Hg as (gm & Hgm & Egt).
      pose proof (placed_graphs_plain t pm gm Hsg Pg Hgm) as Plg.
      assert (Hpm' : In {| p_preds := p_preds pm; p_objs := p_objs pm; p_graphs := placed_graphs t pm |} (t_poms (prepare_tm t)))
        by (rewrite Eprep; apply in_map_iff; exists pm; auto).
      destruct (qobj_kind pm o Po Ho) as [Plo|Jo].
      + apply (obj_equiv scfg fe doc tables (S (S f)) t o sr ot Plo) in Hot as (ld & ldk & ldv & ol & suffix & Hld & Eol & Esuf & ->).
        exists (mk_rule (prepare_tm t) a stt (m_kind p) (m_value p) (m_kind (o_tm o)) (m_value (o_tm o)) (spec_tt_object o) ld ldk ldv (m_kind gm) (m_value gm) (o_joins o)).
        split.
        * apply Hin. exists {| p_preds := p_preds pm; p_objs := p_objs pm; p_graphs := placed_graphs t pm |}. split; [exact Hpm'|].
          unfold pom_rules. apply gen_in. exists p, o, (spec_tt_object o), ld, ldk, ldv, gm. cbn [p_preds p_objs p_graphs]. repeat split; auto.
          unfold effective_objs. cbn [p_objs]. fold (effective_objs pm). rewrite (eff_qplain pm Po). apply in_flat_map. exists o. split; auto.
          unfold obj_rows. rewrite (plain_obj_not_parent o Plo). apply in_map_iff. exists (ld, ldk, ldv). split; auto.
          unfold ott_of. rewrite (plain_obj_not_parent o Plo). now rewrite tt_object_is_spec.
        * left. split.
          { cbn [mk_rule r_ok]. intro E. unfold plain_objmap, plain_map in Plo. rewrite !andb_true_iff in Plo. destruct Plo as [[Hk _] _]. rewrite E in Hk. discriminate. }
          rewrite (rule_line_is_tuple scfg (prepare_tm t) a stt p o ld ldk ldv gm sr Hsub Plp Plo Plg).
          unfold tuple_line. cbn [prepare_tm complete_default_graph sgraphs_to_pom class_to_pom t_subj]. rewrite Esl, Epl, Eol, Esuf, Egt. reflexivity.
      + destruct (Hpar' pm o Hpm Ho Jo) as (q & rsq & Hf & Hqp & Hbq).
        destruct (qobj_fields o Jo) as (Ek & _ & El & Ed & Ej & Eip).
        apply (qobj_obj_equiv f t o q sr rsq ot Jo Hf Hqp Hbq) in Hot as (b & s0 & p0 & o0 & Hbin & Ep0 & Hg0 & ->).
        exists (mk_rule (prepare_tm t) a stt (m_kind p) (m_value p) (m_kind (o_tm o)) (m_value (o_tm o)) (ott_of d o) LDNone KNone [] (m_kind gm) (m_value gm) (o_joins o)).
        split.
        * apply Hin. exists {| p_preds := p_preds pm; p_objs := p_objs pm; p_graphs := placed_graphs t pm |}. split; [exact Hpm'|].
          unfold pom_rules. apply gen_in. exists p, o, (ott_of d o), LDNone, KNone, [], gm. cbn [p_preds p_objs p_graphs]. repeat split; auto.
          unfold effective_objs. cbn [p_objs]. fold (effective_objs pm). rewrite (eff_qplain pm Po). apply in_flat_map. exists o. split; auto.
          unfold obj_rows. rewrite Eip. unfold ld_rows. rewrite El, Ed. now left.
        * right. rewrite Ek. cbn [mk_rule r_ok r_ov undelimit]. split; [reflexivity|]. exists q, rsq, b. split; [exact Hf|]. split; [exact Hqp|]. split; [exact Hbq|]. split; [exact Hbin|].
          unfold doc_qobj_line, rule_graph_opt. rewrite Ep0. fold (rule_graph_opt scfg b sr). destruct (rule_graph_opt scfg b sr); [|now contradiction Hg0].
          cbn [mk_rule r_sk r_sv r_stt r_pk r_pv r_gk r_gv].
          assert (Hgm' : plain_map gm = true) by (unfold plain_graph in Plg; now apply andb_true_iff in Plg as [X _]).
          cbn [prepare_tm complete_default_graph sgraphs_to_pom class_to_pom t_subj].
          rewrite (plain_map_undelimit _ Hsub), (plain_map_undelimit _ Plp), (plain_map_undelimit _ Hgm'). rewrite Esl, Epl.
          unfold rule_graph_term in Egt. rewrite Egt. reflexivity.
    - intros (rl & Hrl & Hx). apply Hin in Hrl as (pm' & Hpm' & Hr). rewrite Eprep in Hpm'. apply in_map_iff in Hpm' as (pm & <- & Hpm).
      pose proof (Hpp pm Hpm) as Ppm. unfold qplain_pom in Ppm. rewrite !andb_true_iff in Ppm. destruct Ppm as [[Pp Po] Pg].
      unfold pom_rules in Hr. apply gen_in in Hr as (p & o & ott & ld & ldk & ldv & gm & Hp & Hrow & Hgm & ->). cbn [p_preds p_objs p_graphs] in *.
      unfold effective_objs in Hrow. cbn [p_objs] in Hrow. fold (effective_objs pm) in Hrow. rewrite (eff_qplain pm Po) in Hrow. apply in_flat_map in Hrow as (o' & Ho & Hrow).
      assert (Plp : plain_map p = true) by (rewrite forallb_forall in Pp; auto).
      pose proof (placed_graphs_plain t pm gm Hsg Pg Hgm) as Plg.
      destruct (qobj_kind pm o' Po Ho) as [Plo|Jo].
      + unfold obj_rows in Hrow. rewrite (plain_obj_not_parent o' Plo) in Hrow. apply in_map_iff in Hrow as ([[ld' ldk'] ldv'] & E & Hld).
        unfold ott_of in E. rewrite (plain_obj_not_parent o' Plo), tt_object_is_spec in E. injection E as <- <- <- <- <-.
        destruct Hx as [[_ Hx]|[Hk _]].
        2:{ exfalso. cbn [mk_rule r_ok] in Hk. unfold plain_objmap, plain_map in Plo. rewrite !andb_true_iff in Plo. destruct Plo as [[Hk' _] _]. rewrite Hk in Hk'. discriminate. }
        rewrite (rule_line_is_tuple scfg (prepare_tm t) a stt p o' ld' ldk' ldv' gm sr Hsub Plp Plo Plg) in Hx.
        unfold tuple_line in Hx. cbn [prepare_tm complete_default_graph sgraphs_to_pom class_to_pom t_subj] in Hx.
        destruct (spec_lex scfg (m_kind (t_subj t)) (m_value (t_subj t)) stt [] sr) as [sl|] eqn:Esl; [|discriminate].
        destruct (spec_lex scfg (m_kind p) (m_value p) TIri [] sr) as [pl|] eqn:Epl; [|discriminate].
        destruct (spec_lex scfg (m_kind (o_tm o')) (m_value (o_tm o')) (spec_tt_object o') ldv' sr) as [ol|] eqn:Eol; [|discriminate].
        destruct (suffix_of_row scfg ld' ldk' ldv' sr) as [suffix|] eqn:Esuf; [|discriminate].
        destruct (rule_graph_term scfg gm sr) as [gt|] eqn:Egt; [|discriminate]. injection Hx as <-.
        exists (render stt sl), pm, p, (render TIri pl), o', (render (spec_tt_object o') ol ++ suffix), gt.
        split; [apply Esubj; eauto|]. split; [exact Hpm|]. split; [exact Hp|].
        split; [apply spec_terms_plain; [unfold plain_map in Plp; now apply andb_true_iff in Plp as [X _]|]; eauto|].
        split; [exact Ho|].
        split; [apply (obj_equiv scfg fe doc tables (S (S f)) t o' sr _ Plo); exists ld', ldk', ldv', ol, suffix; auto|].
        split; [apply (graph_equiv scfg fe tables t pm sr gt Hsg Pg); eauto|].
        reflexivity.
      + destruct (qobj_fields o' Jo) as (Ek & _ & El & Ed & Ej & Eip).
        unfold obj_rows in Hrow. rewrite Eip in Hrow. unfold ld_rows in Hrow. rewrite El, Ed in Hrow. destruct Hrow as [E|[]]. injection E as <- <- <- <- <-.
        destruct Hx as [[Hnk _]|[_ (q & rsq & b & Hf & Hqp & Hbq & Hbin & Hx)]]; [exfalso; apply Hnk; cbn [mk_rule r_ok]; exact Ek|].
        rewrite Ek in *. cbn [mk_rule r_ok r_ov undelimit] in Hf.
        unfold doc_qobj_line, rule_graph_opt in Hx. cbn [mk_rule r_sk r_sv r_stt r_pk r_pv r_gk r_gv] in Hx.
        assert (Hgm' : plain_map gm = true) by (unfold plain_graph in Plg; now apply andb_true_iff in Plg as [X _]).
        cbn [prepare_tm complete_default_graph sgraphs_to_pom class_to_pom t_subj] in Hx.
        rewrite (plain_map_undelimit _ Hsub), (plain_map_undelimit _ Plp), (plain_map_undelimit _ Hgm') in Hx.
        destruct (spec_parts scfg b sr) as [[[s0 p0] o0]|] eqn:Ep0; [|discriminate].
        fold (rule_graph_opt scfg b sr) in Hx. destruct (rule_graph_opt scfg b sr) as [gb|] eqn:Egb; [|discriminate].
        destruct (spec_lex scfg (m_kind (t_subj t)) (m_value (t_subj t)) stt [] sr) as [sl|] eqn:Esl; [|discriminate].
        destruct (spec_lex scfg (m_kind p) (m_value p) TIri [] sr) as [pl|] eqn:Epl; [|discriminate].
        fold (rule_graph_term scfg gm sr) in Hx.
        destruct (rule_graph_term scfg gm sr) as [gt|] eqn:Egt; [|discriminate]. injection Hx as <-.
        exists (render stt sl), pm, p, (render TIri pl), o', (quote_triple (s0 ++ [32] ++ p0 ++ [32] ++ o0)), gt.
        split; [apply Esubj; eauto|]. split; [exact Hpm|]. split; [exact Hp|].
        split; [apply spec_terms_plain; [unfold plain_map in Plp; now apply andb_true_iff in Plp as [X _]|]; eauto|].
        split; [exact Ho|].
        split; [apply (qobj_obj_equiv f t o' q sr rsq _ Jo Hf Hqp Hbq); exists b, s0, p0, o0; repeat split; auto; rewrite Egb; discriminate|].
        split; [apply (graph_equiv scfg fe tables t pm sr gt Hsg Pg); eauto|].
        reflexivity.
  Qed.
End QObjSpec.

(* ---------------------------------------------------------------- the normalisation chain *)
Definition ocopy (k : nat) (r x : rule) : rule :=
  {| r_id := dec_of_nat k ++ sep_open ++ [] ++ sep_comma ++ r_id x ++ sep_close; r_tm := r_tm r; r_src := r_src r; r_asserted := r_asserted r;
     r_sk := r_sk r; r_sv := r_sv r; r_stt := r_stt r; r_pk := r_pk r; r_pv := r_pv r;
     r_ok := r_ok r; r_ov := r_id x; r_ott := r_ott r;
     r_ld := r_ld r; r_ldk := r_ldk r; r_ldv := r_ldv r; r_gk := r_gk r; r_gv := r_gv r;
     r_sjoin := r_sjoin r; r_ojoin := r_ojoin r |}.

Lemma expand_qobj f nb tm :
  (forall kr, In kr nb -> ueqb (r_tm (snd kr)) tm = true ->
     mkind_eqb (r_sk (snd kr)) KQuoted = false /\
     (mkind_eqb (r_ok (snd kr)) KQuoted = true -> forall kr', In kr' nb -> ueqb (r_tm (snd kr')) (r_ov (snd kr)) = true -> unstarred (snd kr') = true)) ->
  expand_tm (S (S f)) nb tm =
  Ok (flat_map (fun kr => if mkind_eqb (r_ok (snd kr)) KQuoted
                          then map (fun x => ocopy (fst kr) (snd kr) x)
                                   (map (fun kr' => with_id (fst kr') (snd kr')) (filter (fun kr' => ueqb (r_tm (snd kr')) (r_ov (snd kr))) nb))
                          else [with_id (fst kr) (snd kr)])
               (filter (fun kr => ueqb (r_tm (snd kr)) tm) nb)).
Proof.
  intro H. remember (S f) as f1. cbn [expand_tm]. subst f1.
  rewrite (rmap_all_ext_in _ (fun kr => Ok (if mkind_eqb (r_ok (snd kr)) KQuoted
             then map (fun x => ocopy (fst kr) (snd kr) x) (map (fun kr' => with_id (fst kr') (snd kr')) (filter (fun kr' => ueqb (r_tm (snd kr')) (r_ov (snd kr))) nb))
             else [with_id (fst kr) (snd kr)]))).
  - rewrite rmap_all_pure. cbn [rbind]. f_equal. now rewrite flat_map_concat_map.
  - intros [k r] Hin. apply filter_In in Hin as [Hin E]. destruct (H (k, r) Hin E) as (H1 & H2). cbn [snd fst] in *.
    rewrite H1. destruct (mkind_eqb (r_ok r) KQuoted) eqn:Eq.
    + rewrite (expand_local_unstarred f nb (r_ov r) (H2 eq_refl)). cbn [rbind flat_map]. rewrite app_nil_r, map_map. reflexivity.
    + reflexivity.
Qed.

Lemma qobj_base_rules d t rs : qobj_tm t = true -> base_rules_of d (prepare_tm t) = Ok rs ->
  forall r, In r rs -> mkind_eqb (r_sk r) KQuoted = false /\ r_ok r <> KParent /\ r_src r = t_src t /\ r_asserted r = asserted t /\ r_tm r = t_id t /\
    (r_ok r = KQuoted -> exists pm o, In pm (t_poms t) /\ In o (p_objs pm) /\ qobj_objmap o = true /\ r_ov r = m_value (o_tm o)).
Proof.
  intros Hpl Hb r Hr. unfold qobj_tm in Hpl. rewrite !andb_true_iff in Hpl. destruct Hpl as [[[Hsub Hsg] Hpoms] _].
  assert (Hsk : mkind_eqb (m_kind (t_subj t)) KQuoted = false).
  { unfold plain_map in Hsub. apply andb_true_iff in Hsub as [H _]. now destruct (m_kind (t_subj t)). }
  assert (Ea : negb (t_nonasserted (prepare_tm t)) && negb (match t_poms (prepare_tm t) with [] => true | _ => false end) = asserted t).
  { rewrite prepared_nopoms. unfold asserted. reflexivity. }
  destruct (t_poms (prepare_tm t)) as [|p0 ps0] eqn:Ep.
  - rewrite base_rules_unfold in Hb. cbv zeta in Hb. rewrite Ep in Hb. destruct (negb _) in Hb; [discriminate|]. injection Hb as <-.
    destruct Hr as [<-|[]]. cbn [mk_rule r_sk r_ok r_src r_asserted r_tm]. cbn [prepare_tm complete_default_graph sgraphs_to_pom class_to_pom t_subj t_src t_id].
    rewrite Hsk. repeat split; auto; discriminate.
  - assert (Hne : t_poms (prepare_tm t) <> []) by (rewrite Ep; discriminate).
    destruct (base_rules_in d (prepare_tm t) rs Hb Hne) as [_ Hin]. cbv zeta in Hin. apply Hin in Hr as (pm' & Hpm' & Hr).
    unfold prepare_tm in Hpm'. rewrite prepare_poms in Hpm'. apply in_map_iff in Hpm' as (pm & <- & Hpm).
    assert (Ppm : qplain_pom pm = true).
    { apply in_app_iff in Hpm as [H|H]; [rewrite forallb_forall in Hpoms; auto|]. apply in_map_iff in H as (c & <- & _). apply class_pom_qplain. }
    unfold qplain_pom in Ppm. rewrite !andb_true_iff in Ppm. destruct Ppm as [[Pp Po] Pg].
    unfold pom_rules in Hr. apply gen_in in Hr as (p & o & ott & ld & ldk & ldv & gm & Hp & Hrow & Hgm & ->). cbn [p_preds p_objs p_graphs] in *.
    unfold effective_objs in Hrow. cbn [p_objs] in Hrow. fold (effective_objs pm) in Hrow. rewrite (eff_qplain pm Po) in Hrow. apply in_flat_map in Hrow as (o' & Ho & Hrow).
    unfold obj_rows in Hrow. apply in_map_iff in Hrow as (ldr & E & _). injection E as <- _ _.
    cbn [mk_rule r_sk r_ok r_ov r_src r_asserted r_tm]. cbn [prepare_tm complete_default_graph sgraphs_to_pom class_to_pom t_subj t_src t_id]. rewrite Hsk.
    destruct (qobj_kind pm o' Po Ho) as [Plo|Jo].
    + unfold plain_objmap, plain_map in Plo. rewrite !andb_true_iff in Plo. destruct Plo as [[Hk _] _].
      repeat split; auto.
      * intro E. rewrite E in Hk. discriminate.
      * rewrite <- Ea. rewrite Ep. reflexivity.
      * intro E. rewrite E in Hk. discriminate.
    + destruct (qobj_fields o' Jo) as (Ek & _). rewrite Ek. cbn [undelimit].
      repeat split; auto.
      * discriminate.
      * rewrite <- Ea. rewrite Ep. reflexivity.
      * intros _. apply in_app_iff in Hpm as [Hpm|Hpm].
        -- exists pm, o'. repeat split; auto.
        -- apply in_map_iff in Hpm as (c & <- & _). cbn [class_pom p_objs] in Ho. destruct Ho as [<-|[]]. discriminate.
Qed.

Lemma doc_qobj_line_fields scfg rl rl' b b' sr :
  r_sk rl' = r_sk rl -> r_sv rl' = r_sv rl -> r_stt rl' = r_stt rl -> r_pk rl' = r_pk rl -> r_pv rl' = r_pv rl -> r_gk rl' = r_gk rl -> r_gv rl' = r_gv rl ->
  (forall sr0, spec_parts scfg b' sr0 = spec_parts scfg b sr0) -> (forall sr0, rule_graph_opt scfg b' sr0 = rule_graph_opt scfg b sr0) ->
  doc_qobj_line scfg rl' b' sr = doc_qobj_line scfg rl b sr.
Proof.
  intros A B C D E F G K L. unfold doc_qobj_line. rewrite K, L. unfold rule_graph_opt at 2 4. now rewrite A, B, C, D, E, F, G.
Qed.

Section DocQObjEquiv.
  Variables (scfg : scfg) (fe : fenv) (tables : ustr -> stable).

  Theorem doc_spec_is_rule_spec_qobj d0 rules :
    qobj_doc d0 = true -> normalise d0 = Ok rules -> nodupb (map r_id rules) = true ->
    forall x, In x (spec_lines scfg fe d0 tables) <->
      (exists rl sr, In rl rules /\ r_asserted rl = true /\ r_ok rl <> KQuoted /\ In sr (tables (r_src rl)) /\ doc_rule_line scfg rl sr = Some x) \/
      (exists rl b sr, In rl rules /\ r_asserted rl = true /\ r_ok rl = KQuoted /\ find_rule rules (r_ov rl) = Some b /\
                       In sr (tables (r_src rl)) /\ doc_qobj_line scfg rl b sr = Some x).
  Proof.
    intros Hqd Hn Hnr. unfold qobj_doc in Hqd. apply andb_true_iff in Hqd as [Hok Hnd].
    unfold normalise in Hn. set (d := prepare d0) in *.
    destruct (forallb _ d) in Hn; [discriminate|].
    destruct (rmap_all (base_rules_of d) d) as [base|e] eqn:Eb; cbn [rbind] in Hn; [|discriminate].
    apply rmap_all_ok in Eb.
    assert (Ed : d = map prepare_tm d0) by reflexivity.
    assert (Tm : forall t, In t d0 -> exists rs, In rs base /\ base_rules_of d (prepare_tm t) = Ok rs).
    { intros t Ht. assert (X : In (prepare_tm t) d) by (rewrite Ed; now apply in_map). destruct (Forall2_in_l _ _ _ _ Eb X) as (rs & H1 & H2). eauto. }
    assert (Rs : forall rs, In rs base -> exists t, In t d0 /\ base_rules_of d (prepare_tm t) = Ok rs).
    { intros rs Hrs. destruct (Forall2_in_r _ _ _ _ Eb Hrs) as (t' & H1 & H2). rewrite Ed in H1. apply in_map_iff in H1 as (t & <- & Ht). eauto. }
    assert (Qt : forall t, In t d0 -> qobj_tm t = true).
    { intros t Ht. rewrite forallb_forall in Hok. specialize (Hok t Ht). now apply andb_true_iff in Hok as [X _]. }
    assert (Target : forall t pm o, In t d0 -> In pm (t_poms t) -> In o (p_objs pm) -> qobj_objmap o = true ->
              exists q rsq, find_tm d0 (m_value (o_tm o)) = Some q /\ In q d0 /\ plain_tm q = true /\ base_rules_of d (prepare_tm q) = Ok rsq /\ In rsq base).
    { intros t pm o Ht Hpm Ho Jo. rewrite forallb_forall in Hok. specialize (Hok t Ht). apply andb_true_iff in Hok as [_ X].
      rewrite forallb_forall in X. specialize (X pm Hpm). rewrite forallb_forall in X. specialize (X o Ho). unfold qobj_target_ok in X. rewrite Jo in X.
      destruct (find (fun q => ueqb (t_id q) (m_value (o_tm o))) d0) as [q|] eqn:Ef; [|discriminate].
      pose proof (find_some _ _ Ef) as [Hq _]. destruct (Tm q Hq) as (rsq & Hrsq & Hbq). exists q, rsq. auto. }
    set (nb := number_from 0 (concat base)) in *.
    assert (NbBase : forall k r, In (k, r) nb -> exists t rs, In t d0 /\ base_rules_of d (prepare_tm t) = Ok rs /\ In r rs).
    { intros k r H. apply number_from_in in H. apply in_concat in H as (rs & Hrs & Hr). destruct (Rs rs Hrs) as (t & Ht & Hb). eauto. }
    assert (TmOf : forall t rs r, In t d0 -> base_rules_of d (prepare_tm t) = Ok rs -> In r rs -> r_tm r = t_id t).
    { intros t rs r Ht Hb Hr. now destruct (qobj_base_rules d t rs (Qt t Ht) Hb r Hr) as (_ & _ & _ & _ & X & _). }
    assert (Uniq : forall t t', In t d0 -> In t' d0 -> t_id t = t_id t' -> t = t').
    { intros t t' Ht Ht' E. pose proof (find_tm_nodup d0 t Hnd Ht) as A. pose proof (find_tm_nodup d0 t' Hnd Ht') as B. rewrite E, B in A. now injection A. }
    assert (PlainRules : forall q rsq b, In q d0 -> plain_tm q = true -> base_rules_of d (prepare_tm q) = Ok rsq -> In b rsq -> unquoted b = true)
      by (intros q rsq b Hq Hp Hbq Hbin; now destruct (plain_base_rules d q rsq Hp Hbq b Hbin)).
    set (PEXP := fun tid : ustr => map (fun kr : nat * rule => with_id (fst kr) (snd kr)) (filter (fun kr => ueqb (r_tm (snd kr)) tid) nb)).
    set (EXP := fun tid : ustr => flat_map (fun kr : nat * rule => if mkind_eqb (r_ok (snd kr)) KQuoted then map (fun x => ocopy (fst kr) (snd kr) x) (PEXP (r_ov (snd kr))) else [with_id (fst kr) (snd kr)])
                                           (filter (fun kr => ueqb (r_tm (snd kr)) tid) nb)).
    (* rules of the triples map named by a quoting object map are those of a plain triples map *)
    assert (TargetRules : forall k r, In (k, r) nb -> r_ok r = KQuoted -> forall k' b, In (k', b) nb -> r_tm b = r_ov r -> unquoted b = true).
    { intros k r Hkr Hk k' b Hkb E. destruct (NbBase k r Hkr) as (t & rs & Ht & Hb & Hr).
      destruct (qobj_base_rules d t rs (Qt t Ht) Hb r Hr) as (_ & _ & _ & _ & _ & Hq). destruct (Hq Hk) as (pm & o & Hpm & Ho & Jo & Eov).
      destruct (Target t pm o Ht Hpm Ho Jo) as (q & rsq & Hf & Hqin & Hqp & Hbq & _).
      destruct (NbBase k' b Hkb) as (t' & rs' & Ht' & Hb' & Hr').
      assert (t' = q).
      { apply Uniq; auto. rewrite <- (TmOf t' rs' b Ht' Hb' Hr'), E, Eov. unfold find_tm in Hf. apply find_some in Hf as [_ X]. apply ueqb_eq in X. now rewrite X. }
      subst t'. exact (PlainRules q rs' b Hqin Hqp Hb' Hr'). }
    assert (Exp : forall tid, In tid (tm_ids d) -> expand_tm (S (length d)) nb tid = Ok (EXP tid)).
    { intros tid Hin. unfold tm_ids in Hin. rewrite Ed, map_map in Hin. apply in_map_iff in Hin as (t & Eid & Ht). change (t_id (prepare_tm t)) with (t_id t) in Eid.
      assert (Hlen : exists f, length d = S f).
      { rewrite Ed, map_length. destruct d0 as [|a l]; [contradiction|]. simpl. eauto. }
      destruct Hlen as (f & ->). apply expand_qobj. intros [k r] Hkr E. cbn [snd] in *.
      destruct (NbBase k r Hkr) as (t' & rs & Ht' & Hb & Hr). destruct (qobj_base_rules d t' rs (Qt t' Ht') Hb r Hr) as (A & _).
      split; [exact A|]. intros Hq [k' b] Hkb E'. cbn [snd] in *. apply ueqb_eq in E'. apply unquoted_unstarred.
      apply (TargetRules k r Hkr (mkind_eqb_eq _ _ Hq) k' b Hkb E'). }
    rewrite (rmap_all_ext_in _ (fun tid => Ok (EXP tid))) in Hn by (intros tid Htid; apply Exp; now apply dedup_first_in).
    rewrite rmap_all_pure in Hn. cbn [rbind] in Hn.
    set (mid := concat (map _ (dedup_first (tm_ids d)))) in Hn.
    assert (InExp : forall t rs r k, In t d0 -> base_rules_of d (prepare_tm t) = Ok rs -> In r rs -> In (k, r) nb ->
              forall rl, In rl (if mkind_eqb (r_ok r) KQuoted then map (fun x => ocopy k r x) (PEXP (r_ov r)) else [with_id k r]) -> In rl mid).
    { intros t rs r k Ht Hb Hr Hk rl Hrl. unfold mid. apply in_concat. exists (EXP (t_id t)). split.
      - apply in_map_iff. exists (t_id t). split; auto. apply dedup_first_in. unfold tm_ids. rewrite Ed, map_map. apply in_map_iff. exists t. auto.
      - unfold EXP. apply in_flat_map. exists (k, r). split; [|exact Hrl]. apply filter_In. split; auto. cbn [snd]. rewrite (TmOf t rs r Ht Hb Hr). apply ueqb_refl. }
    assert (InP : forall t rs r, In t d0 -> base_rules_of d (prepare_tm t) = Ok rs -> In rs base -> In r rs -> r_ok r <> KQuoted -> exists k, In (with_id k r) mid /\ In (k, r) nb).
    { intros t rs r Ht Hb Hrs Hr Hnq. assert (Hc : In r (concat base)) by (apply in_concat; eauto).
      destruct (number_from_all (concat base) 0 r Hc) as (k & Hk). exists k. split; auto. apply (InExp t rs r k Ht Hb Hr Hk).
      destruct (mkind_eqb (r_ok r) KQuoted) eqn:E; [exfalso; apply Hnq; now apply mkind_eqb_eq|now left]. }
    assert (UnqNotQ : forall b, unquoted b = true -> r_ok b <> KQuoted).
    { intros b U E. unfold unquoted in U. rewrite !andb_true_iff, !negb_true_iff in U. destruct U as [[_ U] _]. rewrite E in U. discriminate. }
    assert (MidCases : forall rl, In rl mid -> exists k r t rs, In t d0 /\ base_rules_of d (prepare_tm t) = Ok rs /\ In r rs /\
              ((r_ok r <> KQuoted /\ rl = with_id k r) \/
               (r_ok r = KQuoted /\ exists k' b, In (k', b) nb /\ r_tm b = r_ov r /\ unquoted b = true /\ rl = ocopy k r (with_id k' b) /\ In (with_id k' b) mid))).
    { intros rl H. unfold mid in H. apply in_concat in H as (l & Hl & Hrl). apply in_map_iff in Hl as (tid & <- & Htid).
      unfold EXP in Hrl. apply in_flat_map in Hrl as ([k r] & Hkr & Hrl). apply filter_In in Hkr as [Hkr E]. cbn [fst snd] in *.
      destruct (NbBase k r Hkr) as (t & rs & Ht & Hb & Hr). exists k, r, t, rs. split; auto. split; auto. split; auto.
      destruct (mkind_eqb (r_ok r) KQuoted) eqn:Eq.
      - right. apply mkind_eqb_eq in Eq. split; auto. apply in_map_iff in Hrl as (x & <- & Hx). unfold PEXP in Hx. apply in_map_iff in Hx as ([k' b] & <- & Hkb).
        apply filter_In in Hkb as [Hkb E']. cbn [fst snd] in *. apply ueqb_eq in E'. pose proof (TargetRules k r Hkr Eq k' b Hkb E') as U.
        exists k', b. repeat split; auto.
        destruct (NbBase k' b Hkb) as (t' & rs' & Ht' & Hb' & Hr'). apply (InExp t' rs' b k' Ht' Hb' Hr' Hkb).
        destruct (mkind_eqb (r_ok b) KQuoted) eqn:Eb'; [exfalso; apply (UnqNotQ b U); now apply mkind_eqb_eq|now left].
      - left. destruct Hrl as [<-|[]]. split; auto. now apply mkind_eqb_neq. }
    assert (NoParent : forall rl, In rl mid -> r_ok rl <> KParent).
    { intros rl H. destruct (MidCases rl H) as (k & r & t & rs & Ht & Hb & Hr & [[_ ->]|[_ (k' & b & _ & _ & _ & -> & _)]]);
        destruct (qobj_base_rules d t rs (Qt t Ht) Hb r Hr) as (_ & X & _); exact X. }
    assert (Res : rmap_all (resolve_parent mid) mid = Ok mid).
    { rewrite (rmap_all_ext_in _ (fun r => Ok ((fun x => x) r))); [rewrite rmap_all_pure; now rewrite map_id|].
      intros rl Hrl. pose proof (NoParent rl Hrl) as X. unfold resolve_parent. destruct (mkind_eqb (r_ok rl) KParent) eqn:E; [|reflexivity].
      exfalso. apply X. now apply mkind_eqb_eq. }
    rewrite Res in Hn. cbn [rbind] in Hn. destruct (existsb rule_has_blank mid) in Hn; [discriminate|]. injection Hn as <-.
    assert (Hpar : forall t, In t d0 -> forall pm o, In pm (t_poms t) -> In o (p_objs pm) -> qobj_objmap o = true ->
              exists q rsq, find_tm d0 (m_value (o_tm o)) = Some q /\ plain_tm q = true /\ base_rules_of d (prepare_tm q) = Ok rsq).
    { intros t Ht pm o Hpm Ho Jo. destruct (Target t pm o Ht Hpm Ho Jo) as (q & rsq & A & _ & B & C & _). eauto. }
    intro x. unfold spec_lines. rewrite mem_dedup, in_flat_map. split.
    - intros (t & Ht & Hx). destruct (asserted t) eqn:Ea; [|contradiction]. apply in_flat_map in Hx as (sr & Hsr & Hx).
      destruct (Tm t Ht) as (rs & Hrs & Hb).
      destruct (proj1 (tm_lines_equiv_qobj scfg fe d0 tables d t sr rs (Qt t Ht) (Hpar t Ht) Hb x) Hx) as (rl0 & Hrl0 & Hcase).
      destruct (qobj_base_rules d t rs (Qt t Ht) Hb rl0 Hrl0) as (_ & _ & Hsrc & Hass & _).
      destruct Hcase as [[Hnq Hline]|[Hk (q & rsq & b & Hf & Hqp & Hbq & Hbin & Hline)]].
      + left. destruct (InP t rs rl0 Ht Hb Hrs Hrl0 Hnq) as (k & Hmid & _).
        exists (with_id k rl0), sr. split; [exact Hmid|]. split; [cbn [with_id r_asserted]; now rewrite Hass|]. split; [exact Hnq|].
        split; [cbn [with_id r_src]; now rewrite Hsrc|exact Hline].
      + right. assert (Hc : In rl0 (concat base)) by (apply in_concat; eauto). destruct (number_from_all (concat base) 0 rl0 Hc) as (k & Hknb).
        assert (Hqin : In q d0) by (unfold find_tm in Hf; now apply (find_some _ _ Hf)).
        destruct (Tm q Hqin) as (rsq' & Hrsq' & Hbq'). rewrite Hbq in Hbq'. injection Hbq' as <-.
        pose proof (PlainRules q rsq b Hqin Hqp Hbq Hbin) as U.
        destruct (InP q rsq b Hqin Hbq Hrsq' Hbin (UnqNotQ b U)) as (k' & Hmid' & Hnb').
        assert (Hmid : In (ocopy k rl0 (with_id k' b)) mid).
        { apply (InExp t rs rl0 k Ht Hb Hrl0 Hknb). rewrite Hk. cbn [mkind_eqb]. apply in_map_iff. exists (with_id k' b). split; auto.
          unfold PEXP. apply in_map_iff. exists (k', b). split; auto. apply filter_In. split; auto. cbn [snd]. rewrite (TmOf q rsq b Hqin Hbq Hbin).
          unfold find_tm in Hf. apply find_some in Hf as [_ X]. exact X. }
        exists (ocopy k rl0 (with_id k' b)), (with_id k' b), sr. split; [exact Hmid|]. split; [cbn [ocopy r_asserted]; now rewrite Hass|].
        split; [exact Hk|]. split; [cbn [ocopy r_ov]; now apply find_rule_nodup|]. split; [cbn [ocopy r_src]; now rewrite Hsrc|exact Hline].
    - intros [(rl & sr & Hrl & Has & Hnq & Hsr & Hline)|(rl & b & sr & Hrl & Has & Hk & Hfb & Hsr & Hline)].
      + destruct (MidCases rl Hrl) as (k & r & t & rs & Ht & Hb & Hr & [[Hnq0 ->]|[Hk0 (k' & b & _ & _ & _ & -> & _)]]); [|exfalso; apply Hnq; exact Hk0].
        destruct (qobj_base_rules d t rs (Qt t Ht) Hb r Hr) as (_ & _ & Hsrc & Hass & _). cbn [with_id r_asserted r_src] in Has, Hsr. rewrite doc_rule_line_with_id in Hline.
        exists t. split; auto. rewrite <- Hass, Has. apply in_flat_map. exists sr. split; [now rewrite <- Hsrc|].
        apply (tm_lines_equiv_qobj scfg fe d0 tables d t sr rs (Qt t Ht) (Hpar t Ht) Hb). exists r. split; auto.
      + destruct (MidCases rl Hrl) as (k & r & t & rs & Ht & Hb & Hr & [[Hnq0 ->]|[Hk0 (k' & b0 & Hkb & Etm & U & -> & Hmid')]]); [exfalso; apply Hnq0; exact Hk|].
        cbn [ocopy r_ov r_asserted r_src] in Hfb, Has, Hsr. rewrite (find_rule_nodup mid (with_id k' b0) Hnr Hmid') in Hfb. injection Hfb as <-.
        destruct (qobj_base_rules d t rs (Qt t Ht) Hb r Hr) as (_ & _ & Hsrc & Hass & _ & Hq). destruct (Hq Hk0) as (pm & o & Hpm & Ho & Jo & Eov).
        destruct (Target t pm o Ht Hpm Ho Jo) as (q & rsq & Hf & Hqin & Hqp & Hbq & _).
        destruct (NbBase k' b0 Hkb) as (t' & rs' & Ht' & Hb' & Hr').
        assert (t' = q).
        { apply Uniq; auto. rewrite <- (TmOf t' rs' b0 Ht' Hb' Hr'), Etm, Eov. unfold find_tm in Hf. apply find_some in Hf as [_ X]. apply ueqb_eq in X. now rewrite X. }
        subst t'. rewrite Hbq in Hb'. injection Hb' as <-.
        exists t. split; auto. rewrite <- Hass, Has. apply in_flat_map. exists sr. split; [now rewrite <- Hsrc|].
        apply (tm_lines_equiv_qobj scfg fe d0 tables d t sr rs (Qt t Ht) (Hpar t Ht) Hb). exists r. split; auto. right. split; [exact Hk0|].
        exists q, rsq, b0. rewrite Eov. repeat split; auto.
  Qed.
End DocQObjEquiv.

(* ================================================================ the engine on the preprocessed frame of a rule with a quoted object *)
Definition qobj_rule_ok (rules : list rule) (rl : rule) : Prop :=
  r_ok rl = KQuoted /\ r_sjoin rl = [] /\ r_ojoin rl = [] /\ pos_ok (r_sk rl) (r_sv rl) (r_stt rl) /\ pos_ok (r_pk rl) (r_pv rl) TIri /\
  (r_ld rl = LDNone /\ r_ldk rl = KNone /\ r_ldv rl = []) /\
  (pos_ok (r_gk rl) (r_gv rl) TIri \/ (r_gk rl = KNone /\ r_gv rl = [])) /\ tidy_graph rl /\
  exists b, find_rule rules (r_ov rl) = Some b /\ simple_rule b.

Section QObjRows.
  Variables (scfg : scfg) (rl b : rule) (na refs : list ustr) (raws : list rawrow).
  Hypothesis Hna : s_na scfg = na.
  Hypothesis Hb : simple_rule b.
  Hypothesis HS : pos_ok (r_sk rl) (r_sv rl) (r_stt rl).
  Hypothesis HP : pos_ok (r_pk rl) (r_pv rl) TIri.
  Hypothesis HG : pos_ok (r_gk rl) (r_gv rl) TIri \/ (r_gk rl = KNone /\ r_gv rl = []).
  Hypothesis Htg : tidy_graph rl.
  Hypothesis Hrefs : forall n, In n refs <-> In n (quoted_obj_names rl b).
  Hypothesis Hcols : forall raw n, In raw raws -> In n refs -> assoc n raw <> None.

  Let HGp : is_plain (r_gk rl) = true \/ (r_gk rl = KNone /\ r_gv rl = []).
  Proof. destruct HG as [G|G]; [left; apply G|right; exact G]. Qed.

  Lemma qobj_parts_ext sr1 sr2 : (forall n, In n (quoted_obj_names rl b) -> sval scfg sr1 n = sval scfg sr2 n) ->
    spec_parts scfg b sr1 = spec_parts scfg b sr2 /\ rule_graph_opt scfg b sr1 = rule_graph_opt scfg b sr2 /\
    spec_lex scfg (r_sk rl) (r_sv rl) (r_stt rl) [] sr1 = spec_lex scfg (r_sk rl) (r_sv rl) (r_stt rl) [] sr2 /\
    spec_lex scfg (r_pk rl) (r_pv rl) TIri [] sr1 = spec_lex scfg (r_pk rl) (r_pv rl) TIri [] sr2 /\
    rule_graph_opt scfg rl sr1 = rule_graph_opt scfg rl sr2.
  Proof.
    intro H. destruct (b_facts b Hb) as ((HSb & HPb & HOb & HLb & _) & _).
    assert (Hbn : forall n, In n (rule_names b) -> sval scfg sr1 n = sval scfg sr2 n) by (intros n Hn; apply H; unfold quoted_obj_names; rewrite in_app_iff; tauto).
    split; [|split; [|split; [|split]]].
    - unfold spec_parts. rewrite (spec_lex_ext scfg (r_sk b) (r_sv b) (r_stt b) [] sr1 sr2 (proj1 HSb)) by (intros n Hn; apply Hbn; unfold rule_names; rewrite !in_app_iff; tauto).
      rewrite (spec_po_ext scfg b sr1 sr2 HPb HOb HLb) by (intros n Hn; apply Hbn; unfold rule_names, po_names in *; rewrite !in_app_iff in *; tauto). reflexivity.
    - apply rule_graph_opt_ext. intros n Hn. apply Hbn. unfold rule_names. rewrite !in_app_iff. tauto.
    - apply spec_lex_ext; [apply HS|]. intros n Hn. apply H. unfold quoted_obj_names. rewrite !in_app_iff. tauto.
    - apply spec_lex_ext; [apply HP|]. intros n Hn. apply H. unfold quoted_obj_names. rewrite !in_app_iff. tauto.
    - apply rule_graph_opt_ext. intros n Hn. apply H. unfold quoted_obj_names. rewrite !in_app_iff. tauto.
  Qed.

  Lemma qobj_line_names sr x : doc_qobj_line scfg rl b sr = Some x -> forall n, In n (quoted_obj_names rl b) -> sval scfg sr n <> None.
  Proof.
    intros E n Hn. destruct (b_facts b Hb) as ((HSb & HPb & HOb & HLb & _) & (TLb & _) & Htgb & HGb).
    unfold doc_qobj_line in E.
    destruct (spec_parts scfg b sr) as [[[s p] o]|] eqn:Ep; [|discriminate]. destruct (rule_graph_opt scfg b sr) as [gb|] eqn:Egb; [|discriminate].
    destruct (spec_lex scfg (r_sk rl) (r_sv rl) (r_stt rl) [] sr) as [s'|] eqn:Es'; [|discriminate].
    destruct (spec_lex scfg (r_pk rl) (r_pv rl) TIri [] sr) as [p'|] eqn:Ep'; [|discriminate].
    destruct (rule_graph_opt scfg rl sr) as [g|] eqn:Eg; [|discriminate].
    unfold quoted_obj_names in Hn. rewrite !in_app_iff in Hn. destruct Hn as [Hn|[Hn|[Hn|Hn]]].
    - unfold spec_parts in Ep. destruct (spec_lex scfg (r_sk b) (r_sv b) (r_stt b) [] sr) as [sl|] eqn:Es; [|discriminate].
      destruct (spec_po scfg b sr) as [[pb ob]|] eqn:Epb; [|discriminate].
      unfold rule_names in Hn. rewrite !in_app_iff in Hn. destruct Hn as [Hn|[Hn|[Hn|[Hn|Hn]]]].
      + exact (spec_lex_some_names scfg _ _ _ _ sr sl (proj1 HSb) Es n Hn).
      + apply (spec_po_some_names scfg b sr _ HPb HOb HLb TLb Epb). unfold po_names. rewrite !in_app_iff. tauto.
      + apply (spec_po_some_names scfg b sr _ HPb HOb HLb TLb Epb). unfold po_names. rewrite !in_app_iff. tauto.
      + apply (spec_po_some_names scfg b sr _ HPb HOb HLb TLb Epb). unfold po_names. rewrite !in_app_iff. tauto.
      + exact (graph_names_some scfg b HGb Htgb sr gb Egb n Hn).
    - exact (spec_lex_some_names scfg _ _ _ _ sr s' (proj1 HS) Es' n Hn).
    - exact (spec_lex_some_names scfg _ _ _ _ sr p' (proj1 HP) Ep' n Hn).
    - exact (graph_names_some scfg rl HGp Htg sr g Eg n Hn).
  Qed.

  Lemma qobj_kept_lines raw x : In raw raws -> raw_has_null refs raw = false -> row_has_null na refs (str_row raw) = false ->
    (spec_quoted_obj_line scfg rl b (srow_of (null_to_text na (str_row raw))) = Some x <-> doc_qobj_line scfg rl b (srow_of_raw raw) = Some x).
  Proof.
    intros Hin C1 C2. set (c := srow_of (null_to_text na (str_row raw))).
    assert (Ag : forall n, In n (quoted_obj_names rl b) -> sval scfg c n = sval scfg (srow_of_raw raw) n).
    { intros n Hn. apply (kept_sval_rget scfg na refs raw n Hna C1 C2). now apply Hrefs. }
    destruct (qobj_parts_ext c (srow_of_raw raw) Ag) as (E1 & E2 & E3 & E4 & E5).
    assert (Some_all : forall n, In n (quoted_obj_names rl b) -> sval scfg (srow_of_raw raw) n <> None).
    { intros n Hn. assert (Hn' : In n refs) by now apply Hrefs. destruct (kept_sval_rget scfg na refs raw n Hna C1 C2 Hn') as [E _]. rewrite sval_raw.
      destruct (assoc n raw) as [cl|] eqn:Ec; [|exfalso; exact (Hcols raw n Hin Hn' Ec)].
      assert (N1 : cl <> CNone /\ cl <> CNaN).
      { split; intro X; subst cl; assert (Y : raw_has_null refs raw = true) by (apply raw_has_null_iff; exists n; auto); congruence. }
      assert (N2 : mem (py_str cl) (s_na scfg) = false).
      { destruct (mem (py_str cl) (s_na scfg)) eqn:X; auto. exfalso.
        assert (Y : row_has_null na refs (str_row raw) = true)
          by (apply row_has_null_iff; exists n, (py_str cl); repeat split; auto; [rewrite ReadersP.assoc_str_row, Ec; reflexivity|rewrite <- Hna; now apply mem_In]). congruence. }
      rewrite N2. destruct cl; try discriminate; now destruct N1. }
    assert (Tb : rule_graph_opt scfg b (srow_of_raw raw) <> None).
    { apply (graph_opt_total scfg b). intros n Hn. apply Some_all. unfold quoted_obj_names, rule_names. rewrite !in_app_iff. tauto. }
    assert (Tr : rule_graph_opt scfg rl (srow_of_raw raw) <> None).
    { apply (graph_opt_total scfg rl). intros n Hn. apply Some_all. unfold quoted_obj_names. rewrite !in_app_iff. tauto. }
    unfold spec_quoted_obj_line, doc_qobj_line, spec_graph_line. rewrite E1, E3, E4.
    destruct (spec_parts scfg b (srow_of_raw raw)) as [[[s p] o]|]; [|tauto].
    destruct (rule_graph_opt scfg b (srow_of_raw raw)) as [gb|]; [|now contradiction Tb].
    destruct (spec_lex scfg (r_sk rl) (r_sv rl) (r_stt rl) [] (srow_of_raw raw)) as [s'|]; [|tauto].
    destruct (spec_lex scfg (r_pk rl) (r_pv rl) TIri [] (srow_of_raw raw)) as [p'|]; [|tauto].
    fold (rule_graph_opt scfg rl c). rewrite E5.
    destruct (rule_graph_opt scfg rl (srow_of_raw raw)) as [g|]; [|now contradiction Tr].
    destruct (s_nquads scfg); tauto.
  Qed.

  Theorem qobj_frame_rows_are_delivered_rows x :
    (exists r, In r (preprocess na refs raws) /\ spec_quoted_obj_line scfg rl b (srow_of r) = Some x) <->
    (exists raw, In raw raws /\ doc_qobj_line scfg rl b (srow_of_raw raw) = Some x).
  Proof.
    split.
    - intros (r & Hr & Hx). apply preprocess_in in Hr as (raw & Hraw & H1 & H2 & ->). exists raw. split; auto. now apply (qobj_kept_lines raw x Hraw H1 H2).
    - intros (raw & Hraw & Hx).
      assert (All : forall n, In n refs -> sval scfg (srow_of_raw raw) n <> None) by (intros n Hn; apply (qobj_line_names _ x Hx); now apply Hrefs).
      destruct (survive_of_some scfg na refs raw Hna All) as [H1 H2].
      exists (null_to_text na (str_row raw)). split; [apply preprocess_in; exists raw; auto|]. now apply (qobj_kept_lines raw x Hraw H1 H2).
  Qed.
End QObjRows.

Lemma quoted_subject_branch_plain {A} k (F : list (ustr * ustr) -> list A) j : is_plain k = true ->
  (match k with KQuoted => F | _ => fun _ => [] end) j = [].
Proof. destruct k; try discriminate; reflexivity. Qed.

(* the columns a rule with a quoted object reads: those of the quoted rule and its own subject / predicate / graph *)
Lemma qobj_refs_in fe rules rl : In rl rules -> qobj_rule_ok rules rl ->
  forall b, find_rule rules (r_ov rl) = Some b -> forall n, In n (quoted_refs fe rules rl) <-> In n (quoted_obj_names rl b).
Proof.
  intros Hin (Hk & Hsj & Hoj & HS & HP & (El & Elk & Elv) & HG & _ & (b' & Hf' & Hsb)) b Hf n. rewrite Hf in Hf'. injection Hf' as <-.
  unfold quoted_refs. rewrite mem_dedup, !app_nil_r. unfold refs_fuel.
  assert (Hlen : exists f, length rules = S f) by (destruct rules; [contradiction|simpl; eauto]). destruct Hlen as (f & Hlen).
  cbn [rule_refs]. rewrite Hk, Hsj, Hoj, Hf. cbn [pos_refs joins_child map app].
  rewrite (quoted_subject_branch_plain (r_sk rl)) by apply HS. rewrite !app_nil_r, Hlen.
  destruct Hsb as ((HSb & HPb & HOb & HLb & HGb) & (TLb & TGb) & _ & Hpl & Hsjb & Hojb).
  unfold plain_rule in Hpl. rewrite !andb_true_iff, !negb_true_iff in Hpl. destruct Hpl as [[[_ Q2] Q3] _].
  rewrite (rule_refs_plain _ _ _ b Q2 Q3), Hsjb, Hojb. cbn [joins_child map app]. rewrite !app_nil_r.
  rewrite (pos_refs_names _ (r_sk b) (r_sv b)) by (left; split; apply HSb).
  rewrite (pos_refs_names _ (r_pk b) (r_pv b)) by (left; split; apply HPb).
  rewrite (pos_refs_names _ (r_ok b) (r_ov b)) by (left; split; apply HOb).
  rewrite (pos_refs_names _ (r_gk b) (r_gv b)) by (destruct (HGb eq_refl) as [G|G]; [left; split; apply G|]; right; split; auto; apply TGb; now rewrite G).
  rewrite (pos_refs_names _ (r_ldk b) (r_ldv b)) by (destruct (r_ld b) eqn:E; [right; now apply TLb|left; split; apply HLb; discriminate|left; split; apply HLb; discriminate]).
  rewrite (pos_refs_names _ (r_sk rl) (r_sv rl)) by (left; split; apply HS).
  rewrite (pos_refs_names _ (r_pk rl) (r_pv rl)) by (left; split; apply HP).
  rewrite (pos_refs_names _ (r_gk rl) (r_gv rl)) by (destruct HG as [G|G]; [left; split; apply G|now right]).
  rewrite (pos_refs_names _ (r_ldk rl) (r_ldv rl)) by (right; auto).
  unfold quoted_obj_names, rule_names. rewrite Elk, Elv. cbn [segs_of parse_template names]. rewrite !in_app_iff. assert (E0 : names (parse_template []) = @nil ustr) by reflexivity. rewrite E0. cbn [In]. tauto.
Qed.

Section FinalQObj.
  Variables (cfg : ecfg) (fe : fenv) (scfg : scfg) (raw : ustr -> list rawrow).
  Hypothesis Hcfg : cfg_agree cfg scfg.
  Hypothesis Hnq : c_nquads cfg = s_nquads scfg.
  Hypothesis Hna : s_na scfg = c_na cfg.

  Theorem engine_document_is_spec_document_qobj d0 rules l :
    qobj_doc d0 = true -> normalise d0 = Ok rules -> nodupb (map r_id rules) = true ->
    (forall rl, In rl rules -> simple_rule rl \/ qobj_rule_ok rules rl) ->
    (forall rl rw n, In rl rules -> In rw (raw (r_src rl)) -> In n (rule_ref_set fe rules rl) -> assoc n rw <> None) ->
    materialize_rules cfg fe rules (delivered cfg raw) = Ok l ->
    forall x, In x l <-> In x (spec_lines scfg fe d0 (spec_tables raw)).
  Proof.
    intros Hqd Hnorm Hnr Hrules Hcols Hm x.
    rewrite (asserted_exactly cfg fe rules (delivered cfg raw) l Hm x).
    rewrite (doc_spec_is_rule_spec_qobj scfg fe (spec_tables raw) d0 rules Hqd Hnorm Hnr x).
    assert (Plain : forall rl ls, In rl rules -> simple_rule rl -> rule_triples cfg fe rules (delivered cfg raw) rl = Ok ls ->
              forall y, In y ls <-> exists rw, In rw (raw (r_src rl)) /\ doc_rule_line scfg rl (srow_of_raw rw) = Some y).
    { intros rl ls Hrl Hs Hls y. pose proof Hs as Hs0. destruct Hs as (Hok & Ht & Htg & Hplain & Hsj & Hoj).
      assert (Hok' : rule_ok (c_nquads cfg) rl) by now apply rule_ok_any.
      set (refs := rule_ref_set fe rules rl).
      assert (Hrefs : forall n, In n refs <-> In n (rule_names rl)) by (apply rule_ref_set_names; exact Hs0).
      destruct (plain_rule_is_spec cfg fe rules (delivered cfg raw) scfg Hcfg Hnq rl (c_na cfg) refs (raw (r_src rl)) Hna Hplain Hok'
                  (fun n Hn0 => proj2 (Hrefs n) Hn0) eq_refl) as [H1 _].
      rewrite (H1 ls Hls y). apply (frame_rows_are_delivered_rows scfg rl (c_na cfg) refs (raw (r_src rl)) Hna Hs0 Hrefs).
      intros rw n Hrw Hn0. exact (Hcols rl rw n Hrl Hrw Hn0). }
    assert (Quoted : forall rl ls, In rl rules -> qobj_rule_ok rules rl -> rule_triples cfg fe rules (delivered cfg raw) rl = Ok ls ->
              exists b, find_rule rules (r_ov rl) = Some b /\
              forall y, In y ls <-> exists rw, In rw (raw (r_src rl)) /\ doc_qobj_line scfg rl b (srow_of_raw rw) = Some y).
    { intros rl ls Hrl Hq Hls. pose proof Hq as Hq0.
      destruct Hq as (Hk & Hsj & Hoj & HS & HP & (El & Elk & Elv) & HG & Htg & (b & Hf & Hsb)). exists b. split; [exact Hf|]. intro y.
      set (refs := quoted_refs fe rules rl).
      assert (Hrefs : forall n, In n refs <-> In n (quoted_obj_names rl b)) by (apply (qobj_refs_in fe rules rl Hrl Hq0 b Hf)).
      pose proof Hsb as Hsb0. destruct Hsb as (Hokb & Htb & Htgb & Hplb & Hsjb & Hojb).
      assert (Hfree : names_free (quoted_obj_names rl b)).
      { intros n Hn1. unfold quoted_obj_names in Hn1. rewrite !in_app_iff in Hn1. destruct Hokb as (HSb & HPb & HOb & HLb & HGb). destruct Htb as [TLb TGb].
        destruct Hn1 as [Hn1|[Hn1|[Hn1|Hn1]]].
        - unfold rule_names in Hn1. rewrite !in_app_iff in Hn1. destruct Hn1 as [Hn1|[Hn1|[Hn1|[Hn1|Hn1]]]].
          + now apply HSb. + now apply HPb. + now apply HOb.
          + destruct (r_ld b) eqn:E; [destruct (TLb eq_refl) as [A B]; rewrite A, B in Hn1; contradiction|apply (HLb ltac:(discriminate)); exact Hn1|apply (HLb ltac:(discriminate)); exact Hn1].
          + destruct (HGb eq_refl) as [G|G]; [now apply G|]. assert (X : r_gv b = []) by (apply TGb; now rewrite G). rewrite G, X in Hn1. contradiction.
        - now apply HS.
        - now apply HP.
        - destruct HG as [G|[A B]]; [now apply G|rewrite A, B in Hn1; contradiction]. }
      assert (HGk : graph_ok (c_nquads cfg) rl) by (intros _; destruct HG as [G|[G _]]; [now left|now right]).
      destruct (quoted_obj_rule_is_spec cfg fe rules (delivered cfg raw) scfg Hcfg Hnq rl b Hk El Hoj Hf Hplb (rule_ok_any false b Hokb) HS HP HGk Hfree
                  (c_na cfg) refs (raw (r_src rl)) Hna (fun n Hn0 => proj2 (Hrefs n) Hn0) eq_refl) as [H1 _].
      rewrite (H1 ls Hls y).
      apply (qobj_frame_rows_are_delivered_rows scfg rl b (c_na cfg) refs (raw (r_src rl)) Hna Hsb0 HS HP HG Htg Hrefs).
      intros rw n Hrw Hn0. exact (Hcols rl rw n Hrl Hrw Hn0). }
    assert (All : forall rl, In rl rules -> r_asserted rl = true -> exists ls, rule_triples cfg fe rules (delivered cfg raw) rl = Ok ls).
    { intros rl Hrl Ha. unfold materialize_rules in Hm. destruct (rmap_all _ (filter r_asserted rules)) as [lss|e] eqn:E; [|discriminate].
      apply rmap_all_ok in E. assert (X : In rl (filter r_asserted rules)) by (apply filter_In; auto).
      destruct (Forall2_in_l _ _ _ _ E X) as (ls & _ & Hls). eauto. }
    assert (Kind : forall rl, simple_rule rl -> r_ok rl <> KQuoted).
    { intros rl (_ & _ & _ & Hp & _) E. unfold plain_rule in Hp. rewrite E in Hp. cbn [mkind_eqb negb] in Hp. now rewrite !andb_false_r in Hp. }
    split.
    - intros (rl & ls & Hrl & Ha & Hls & Hx). destruct (Hrules rl Hrl) as [Hs|Hq].
      + left. apply (Plain rl ls Hrl Hs Hls) in Hx as (rw & Hrw & Hline). exists rl, (srow_of_raw rw). split; [exact Hrl|]. split; [exact Ha|]. split; [now apply Kind|].
        split; [unfold spec_tables; now apply in_map|exact Hline].
      + right. destruct (Quoted rl ls Hrl Hq Hls) as (b & Hf & Hiff). apply Hiff in Hx as (rw & Hrw & Hline).
        exists rl, b, (srow_of_raw rw). split; [exact Hrl|]. split; [exact Ha|]. split; [apply Hq|]. split; [exact Hf|]. split; [unfold spec_tables; now apply in_map|exact Hline].
    - intros [(rl & sr & Hrl & Ha & Hnk & Hsr & Hline)|(rl & b & sr & Hrl & Ha & Hk & Hfb & Hsr & Hline)].
      + destruct (Hrules rl Hrl) as [Hs|Hq]; [|exfalso; apply Hnk; apply Hq].
        unfold spec_tables in Hsr. apply in_map_iff in Hsr as (rw & <- & Hrw).
        destruct (All rl Hrl Ha) as (ls & Hls). exists rl, ls. repeat split; auto. apply (Plain rl ls Hrl Hs Hls). eauto.
      + destruct (Hrules rl Hrl) as [Hs|Hq]; [exfalso; now apply (Kind rl Hs)|].
        unfold spec_tables in Hsr. apply in_map_iff in Hsr as (rw & <- & Hrw).
        destruct (All rl Hrl Ha) as (ls & Hls). exists rl, ls. repeat split; auto.
        destruct (Quoted rl ls Hrl Hq Hls) as (b' & Hf' & Hiff). rewrite Hfb in Hf'. injection Hf' as <-. apply Hiff. eauto.
  Qed.
End FinalQObj.

(* ---------------------------------------------------------------- decidable hypotheses *)
Lemma qobj_ruleb_ok rules rl : qobj_ruleb rules rl = true -> qobj_rule_ok rules rl.
Proof.
  unfold qobj_ruleb, qobj_rule_ok. rewrite !andb_true_iff. intros [[[[[[[A B] C] D] E] F] G] H].
  split; [now apply mkind_eqb_eq|]. split; [destruct (r_sjoin rl); [reflexivity|discriminate]|]. split; [destruct (r_ojoin rl); [reflexivity|discriminate]|].
  split; [now apply pos_okb_ok|]. split; [now apply pos_okb_ok|].
  split. { destruct (r_ld rl); try discriminate. apply andb_true_iff in F as [F1 F2]. split; [reflexivity|]. split; [now apply mkind_eqb_eq|now apply ueqb_eq]. }
  split. { destruct (is_plain (r_gk rl)); apply andb_true_iff in G as [G1 G2]; [left; now apply pos_okb_ok|right; split; [now apply mkind_eqb_eq|now apply ueqb_eq]]. }
  split. { unfold tidy_graph. intros Hg Hd. rewrite Hg in G. apply andb_true_iff in G as [_ G2]. rewrite Hd in G2. cbn [negb orb] in G2. now apply mkind_eqb_eq. }
  destruct (find_rule rules (r_ov rl)) as [b|]; [|discriminate]. exists b. split; [reflexivity|now apply simple_ruleb_ok].
Qed.
Theorem theorem_applies_qobj_ok d0 : theorem_applies_qobj d0 = true ->
  qobj_doc d0 = true /\ exists rules, normalise d0 = Ok rules /\ nodupb (map r_id rules) = true /\ forall rl, In rl rules -> simple_rule rl \/ qobj_rule_ok rules rl.
Proof.
  unfold theorem_applies_qobj. rewrite andb_true_iff. intros [A D]. split; [exact A|].
  destruct (normalise d0) as [rules|e]; [|discriminate]. exists rules. apply andb_true_iff in D as [D1 D2]. split; [reflexivity|]. split; [exact D1|].
  intros rl Hrl. rewrite forallb_forall in D2. specialize (D2 rl Hrl). apply orb_true_iff in D2 as [D2|D2]; [left; now apply simple_ruleb_ok|right; now apply qobj_ruleb_ok].
Qed.
