(* C13 / C01: quoted triples maps in OBJECT position at document level (one level, over the same rows).  Same plan as DocQuotedP
   (quoted subject maps): Spec(document) = rule table with one copy of every quoting rule per rule of the quoted map; the
   engine on the delivered rows gives exactly these statements. *)
From Coq Require Import String Lia.
From Morph Require Import Base.UStr Gen.Tables Model.Terms Model.Data Model.Engine Model.Mapping Model.Spec Model.Fragment
     Proofs.DataP Proofs.GroupingP Proofs.TemplateP Proofs.TermP Proofs.RowwiseP Proofs.RowSpecP Proofs.RuleSpecP Proofs.NormaliseP Proofs.GraphsP
     Proofs.UnionP Proofs.QuotedP Proofs.QuotedObjP Proofs.DocSpecP Proofs.DocEngineP Proofs.DocJoinP Proofs.DocQuotedP.
Local Open Scope N_scope.

(* the statement of a rule rl whose object quotes the triple of rule b (which must be placed in a graph) *)
Definition doc_qobj_line (scfg : scfg) (rl b : rule) (sr : srow) : option ustr :=
  match spec_parts scfg b sr with None => None | Some (s, p, o) =>
  match rule_graph_opt scfg b sr with None => None | Some _ =>
  match spec_lex scfg (r_sk rl) (r_sv rl) (r_stt rl) [] sr with None => None | Some s' =>
  match spec_lex scfg (r_pk rl) (r_pv rl) TIri [] sr with None => None | Some p' =>
  match rule_graph_opt scfg rl sr with None => None | Some g =>
  let triple := render (r_stt rl) s' ++ [32] ++ render TIri p' ++ [32] ++ quote_triple (s ++ [32] ++ p ++ [32] ++ o) in
  Some (if s_nquads scfg then triple ++ [32] ++ g else triple)
  end end end end end.

Lemma qobj_fields o : qobj_objmap o = true ->
  m_kind (o_tm o) = KQuoted /\ m_tt (o_tm o) = None /\ o_lang o = None /\ o_dt o = None /\ o_joins o = [] /\ is_parent o = false.
Proof.
  unfold qobj_objmap. rewrite !andb_true_iff. intros [[Hk Hn] Hj].
  assert (Ek : m_kind (o_tm o) = KQuoted) by (destruct (m_kind (o_tm o)); try discriminate; reflexivity).
  destruct (m_tt (o_tm o)); [discriminate|]. destruct (o_lang o); [discriminate|]. destruct (o_dt o); [discriminate|].
  repeat split; auto; [destruct (o_joins o); [reflexivity|discriminate]|unfold is_parent; now rewrite Ek].
Qed.
Lemma plain_not_qobj o : plain_objmap o = true -> qobj_objmap o = true -> False.
Proof.
  intros H1 H2. destruct (qobj_fields o H2) as (Ek & _). unfold plain_objmap, plain_map in H1. rewrite !andb_true_iff in H1. destruct H1 as [[H _] _]. rewrite Ek in H. discriminate.
Qed.
Lemma eff_qplain p : (forallb plain_objmap (p_objs p) || forallb qobj_objmap (p_objs p)) = true -> effective_objs p = p_objs p.
Proof.
  intro H. apply orb_true_iff in H as [H|H]; [now apply effective_plain|].
  unfold effective_objs. replace (filter (fun o => negb (is_parent o)) (p_objs p)) with (p_objs p); [now destruct (p_objs p)|].
  induction (p_objs p) as [|o l IH]; auto. cbn [forallb] in H. apply andb_true_iff in H as [H1 H2]. cbn [filter].
  destruct (qobj_fields o H1) as (_ & _ & _ & _ & _ & E). rewrite E. cbn [negb]. f_equal. auto.
Qed.
Lemma qobj_kind p o : (forallb plain_objmap (p_objs p) || forallb qobj_objmap (p_objs p)) = true -> In o (p_objs p) -> plain_objmap o = true \/ qobj_objmap o = true.
Proof. intros H Ho. apply orb_true_iff in H as [H|H]; rewrite forallb_forall in H; auto. Qed.
Lemma class_pom_qplain c : qplain_pom (class_pom c) = true.
Proof.
  pose proof (class_pom_plain c) as H. unfold plain_pom in H. rewrite !andb_true_iff in H. destruct H as [[A B] C].
  unfold qplain_pom. rewrite A, B, C. reflexivity.
Qed.

Section QObjSpec.
  Variables (scfg : scfg) (fe : fenv) (doc : document) (tables : ustr -> stable) (d : document).

  (* the object terms of a quoting object map: the quoted triples of the quoted map for the same row *)
  Lemma qobj_obj_equiv f t o q sr rsq ot : qobj_objmap o = true -> find_tm doc (m_value (o_tm o)) = Some q -> plain_tm q = true ->
    base_rules_of d (prepare_tm q) = Ok rsq ->
    (In ot (obj_terms scfg fe doc tables (S (S (S f))) t o sr) <->
     exists b s p o', In b rsq /\ spec_parts scfg b sr = Some (s, p, o') /\ rule_graph_opt scfg b sr <> None /\ ot = quote_triple (s ++ [32] ++ p ++ [32] ++ o')).
  Proof.
    intros Hq Hf Hp Hbq. destruct (qobj_fields o Hq) as (Ek & _ & _ & _ & Ej & _).
    assert (Eo : obj_terms scfg fe doc tables (S (S (S f))) t o sr = map quote_triple (tm_triples scfg fe doc tables (S (S f)) q sr)).
    { cbn [obj_terms]. rewrite Ek, Hf, Ej. cbn [joined_rows flat_map]. now rewrite app_nil_r. }
    rewrite Eo, in_map_iff. split.
    - intros (tr & <- & Htr). apply (quoted_triples_by_rules scfg fe doc tables d q sr f rsq tr Hp Hbq) in Htr as (b & s & p & o' & A & B & C & ->). exists b, s, p, o'. auto.
    - intros (b & s & p & o' & A & B & C & ->). exists (s ++ [32] ++ p ++ [32] ++ o'). split; auto.
      apply (quoted_triples_by_rules scfg fe doc tables d q sr f rsq _ Hp Hbq). exists b, s, p, o'. auto.
  Qed.

  Theorem tm_lines_equiv_qobj t sr rs :
    qobj_tm t = true ->
    (forall pm o, In pm (t_poms t) -> In o (p_objs pm) -> qobj_objmap o = true ->
       exists q rsq, find_tm doc (m_value (o_tm o)) = Some q /\ plain_tm q = true /\ base_rules_of d (prepare_tm q) = Ok rsq) ->
    base_rules_of d (prepare_tm t) = Ok rs ->
    forall x, In x (tm_row_lines scfg fe doc tables t sr) <->
      exists rl, In rl rs /\
        ((r_ok rl <> KQuoted /\ doc_rule_line scfg rl sr = Some x) \/
         (r_ok rl = KQuoted /\ exists q rsq b, find_tm doc (r_ov rl) = Some q /\ plain_tm q = true /\ base_rules_of d (prepare_tm q) = Ok rsq /\ In b rsq /\
            doc_qobj_line scfg rl b sr = Some x)).
  Proof.
    intros Hpl Hpar Hb x. unfold qobj_tm in Hpl. rewrite !andb_true_iff in Hpl. destruct Hpl as [[[Hsub Hsg] Hpoms] _].
    set (poms := t_poms t ++ map class_pom (t_classes t)).
    assert (Hpp : forall pm, In pm poms -> qplain_pom pm = true).
    { intros pm H. apply in_app_iff in H as [H|H]; [rewrite forallb_forall in Hpoms; auto|]. apply in_map_iff in H as (c & <- & _). apply class_pom_qplain. }
    assert (Hpar' : forall pm o, In pm poms -> In o (p_objs pm) -> qobj_objmap o = true ->
       exists q rsq, find_tm doc (m_value (o_tm o)) = Some q /\ plain_tm q = true /\ base_rules_of d (prepare_tm q) = Ok rsq).
    { intros pm o H Ho Hj. apply in_app_iff in H as [H|H]; [eauto|]. apply in_map_iff in H as (c & <- & _). cbn [class_pom p_objs] in Ho. destruct Ho as [<-|[]]. discriminate. }
    assert (Eprep : t_poms (prepare_tm t) = map (fun p => {| p_preds := p_preds p; p_objs := p_objs p; p_graphs := placed_graphs t p |}) poms) by apply prepare_poms.
    destruct (spec_fuel_SSS doc) as (f & Ef).
    rewrite tm_row_lines_in. rewrite Ef. fold poms. clearbody poms.
    destruct poms as [|pm0 pms] eqn:Epoms.
    { split; [intros (s & pm & p & pt & o & ot & g & _ & [] & _)|].
      intros (rl & Hrl & Hx). exfalso. rewrite base_rules_unfold in Hb. cbv zeta in Hb. rewrite Eprep in Hb. cbn [map] in Hb.
      destruct (negb _) in Hb; [discriminate|]. injection Hb as <-. destruct Hrl as [<-|[]]. destruct Hx as [[_ Hx]|[Hk _]]; [|discriminate Hk].
      unfold doc_rule_line, spec_parts, spec_po, spec_po_gen in Hx. cbn [mk_rule r_pk r_pv spec_lex] in Hx. destruct (spec_lex scfg _ _ _ [] sr) in Hx; discriminate. }
    assert (Hne : t_poms (prepare_tm t) <> []) by (rewrite Eprep; discriminate).
    destruct (base_rules_in d (prepare_tm t) rs Hb Hne) as [Hv Hin]. cbv zeta in Hin.
    set (a := negb (t_nonasserted (prepare_tm t)) && _) in Hin. set (stt := tt_final (tt_early (t_subj (prepare_tm t)))) in *.
    assert (Estt : stt = spec_tt_subject (t_subj t)) by (apply tt_subject_is_spec; exact Hv).
    assert (Esubj : forall s, In s (subj_terms scfg fe doc tables (S (S (S f))) t sr) <->
                     exists sl, spec_lex scfg (m_kind (t_subj t)) (m_value (t_subj t)) stt [] sr = Some sl /\ s = render stt sl).
    { intro s. rewrite Estt. unfold plain_map in Hsub. apply andb_true_iff in Hsub as [Hk _].
      assert (E : subj_terms scfg fe doc tables (S (S (S f))) t sr = spec_terms scfg fe (m_kind (t_subj t)) (m_value (t_subj t)) (spec_tt_subject (t_subj t)) [] sr)
        by (cbn [subj_terms]; destruct (m_kind (t_subj t)); try discriminate; reflexivity).
      rewrite E. now apply spec_terms_plain. }
    assert (Ott : forall o, qobj_objmap o = true -> ott_of d o = TStar).
    { intros o Jo. destruct (qobj_fields o Jo) as (Ek & Et & El & Ed & _ & Eip). unfold ott_of. rewrite Eip. unfold tt_object, tt_early. now rewrite Et, Ek. }
    split.
    - intros (s & pm & p & pt & o & ot & g & Hs & Hpm & Hp & Hpt & Ho & Hot & Hg & ->).
      pose proof (Hpp pm Hpm) as Ppm. unfold qplain_pom in Ppm. rewrite !andb_true_iff in Ppm. destruct Ppm as [[Pp Po] Pg].
      assert (Plp : plain_map p = true) by (rewrite forallb_forall in Pp; auto).
      apply Esubj in Hs as (sl & Esl & ->).
      apply spec_terms_plain in Hpt as (pl & Epl & ->); [|unfold plain_map in Plp; now apply andb_true_iff in Plp as [X _]].
      apply (graph_equiv scfg fe tables t pm sr g Hsg Pg) in Hg as (gm & Hgm & Egt).
      pose proof (placed_graphs_plain t pm gm Hsg Pg Hgm) as Plg.
      assert (Hpm' : In {| p_preds := p_preds pm; p_objs := p_objs pm; p_graphs := placed_graphs t pm |} (t_poms (prepare_tm t)))
        by (rewrite Eprep; apply in_map_iff; exists pm; auto).
      destruct (qobj_kind pm o Po Ho) as [Plo|Jo].
      + apply (obj_equiv scfg fe doc tables (S (S f)) t o sr ot Plo) in Hot as (ld & ldk & ldv & ol & suffix & Hld & Eol & Esuf & ->).
        exists (mk_rule (prepare_tm t) a stt (m_kind p) (m_value p) (m_kind (o_tm o)) (m_value (o_tm o)) (spec_tt_object o) ld ldk ldv (m_kind gm) (m_value gm) (o_joins o)).
        split.
        * apply Hin. exists {| p_preds := p_preds pm; p_objs := p_objs pm; p_graphs := placed_graphs t pm |}. split; [exact Hpm'|].
          unfold pom_rules. apply gen_in. exists p, o, (spec_tt_object o), ld, ldk, ldv, gm. cbn [p_preds p_objs p_graphs]. repeat split; auto.
          unfold effective_objs. cbn [p_objs]. fold (effective_objs pm). rewrite (eff_qplain pm Po). apply in_flat_map. exists o. split; auto.
          unfold obj_rows. rewrite (plain_obj_not_parent o Plo). apply in_map_iff. exists (ld, ldk, ldv). split; auto.
          unfold ott_of. rewrite (plain_obj_not_parent o Plo). now rewrite tt_object_is_spec.
        * left. split.
          { cbn [mk_rule r_ok]. intro E. unfold plain_objmap, plain_map in Plo. rewrite !andb_true_iff in Plo. destruct Plo as [[Hk _] _]. rewrite E in Hk. discriminate. }
          rewrite (rule_line_is_tuple scfg (prepare_tm t) a stt p o ld ldk ldv gm sr Hsub Plp Plo Plg).
          unfold tuple_line. cbn [prepare_tm complete_default_graph sgraphs_to_pom class_to_pom t_subj]. rewrite Esl, Epl, Eol, Esuf, Egt. reflexivity.
      + destruct (Hpar' pm o Hpm Ho Jo) as (q & rsq & Hf & Hqp & Hbq).
        destruct (qobj_fields o Jo) as (Ek & _ & El & Ed & Ej & Eip).
        apply (qobj_obj_equiv f t o q sr rsq ot Jo Hf Hqp Hbq) in Hot as (b & s0 & p0 & o0 & Hbin & Ep0 & Hg0 & ->).
        exists (mk_rule (prepare_tm t) a stt (m_kind p) (m_value p) (m_kind (o_tm o)) (m_value (o_tm o)) (ott_of d o) LDNone KNone [] (m_kind gm) (m_value gm) (o_joins o)).
        split.
        * apply Hin. exists {| p_preds := p_preds pm; p_objs := p_objs pm; p_graphs := placed_graphs t pm |}. split; [exact Hpm'|].
          unfold pom_rules. apply gen_in. exists p, o, (ott_of d o), LDNone, KNone, [], gm. cbn [p_preds p_objs p_graphs]. repeat split; auto.
          unfold effective_objs. cbn [p_objs]. fold (effective_objs pm). rewrite (eff_qplain pm Po). apply in_flat_map. exists o. split; auto.
          unfold obj_rows. rewrite Eip. unfold ld_rows. rewrite El, Ed. now left.
        * right. rewrite Ek. cbn [mk_rule r_ok r_ov undelimit]. split; [reflexivity|]. exists q, rsq, b. split; [exact Hf|]. split; [exact Hqp|]. split; [exact Hbq|]. split; [exact Hbin|].
          unfold doc_qobj_line, rule_graph_opt. rewrite Ep0. fold (rule_graph_opt scfg b sr). destruct (rule_graph_opt scfg b sr); [|now contradiction Hg0].
          cbn [mk_rule r_sk r_sv r_stt r_pk r_pv r_gk r_gv].
          assert (Hgm' : plain_map gm = true) by (unfold plain_graph in Plg; now apply andb_true_iff in Plg as [X _]).
          cbn [prepare_tm complete_default_graph sgraphs_to_pom class_to_pom t_subj].
          rewrite (plain_map_undelimit _ Hsub), (plain_map_undelimit _ Plp), (plain_map_undelimit _ Hgm'). rewrite Esl, Epl.
          unfold rule_graph_term in Egt. rewrite Egt. reflexivity.
    - intros (rl & Hrl & Hx). apply Hin in Hrl as (pm' & Hpm' & Hr). rewrite Eprep in Hpm'. apply in_map_iff in Hpm' as (pm & <- & Hpm).
      pose proof (Hpp pm Hpm) as Ppm. unfold qplain_pom in Ppm. rewrite !andb_true_iff in Ppm. destruct Ppm as [[Pp Po] Pg].
      unfold pom_rules in Hr. apply gen_in in Hr as (p & o & ott & ld & ldk & ldv & gm & Hp & Hrow & Hgm & ->). cbn [p_preds p_objs p_graphs] in *.
      unfold effective_objs in Hrow. cbn [p_objs] in Hrow. fold (effective_objs pm) in Hrow. rewrite (eff_qplain pm Po) in Hrow. apply in_flat_map in Hrow as (o' & Ho & Hrow).
      assert (Plp : plain_map p = true) by (rewrite forallb_forall in Pp; auto).
      pose proof (placed_graphs_plain t pm gm Hsg Pg Hgm) as Plg.
      destruct (qobj_kind pm o' Po Ho) as [Plo|Jo].
      + unfold obj_rows in Hrow. rewrite (plain_obj_not_parent o' Plo) in Hrow. apply in_map_iff in Hrow as ([[ld' ldk'] ldv'] & E & Hld).
        unfold ott_of in E. rewrite (plain_obj_not_parent o' Plo), tt_object_is_spec in E. injection E as <- <- <- <- <-.
        destruct Hx as [[_ Hx]|[Hk _]].
        2:{ exfalso. cbn [mk_rule r_ok] in Hk. unfold plain_objmap, plain_map in Plo. rewrite !andb_true_iff in Plo. destruct Plo as [[Hk' _] _]. rewrite Hk in Hk'. discriminate. }
        rewrite (rule_line_is_tuple scfg (prepare_tm t) a stt p o' ld' ldk' ldv' gm sr Hsub Plp Plo Plg) in Hx.
        unfold tuple_line in Hx. cbn [prepare_tm complete_default_graph sgraphs_to_pom class_to_pom t_subj] in Hx.
        destruct (spec_lex scfg (m_kind (t_subj t)) (m_value (t_subj t)) stt [] sr) as [sl|] eqn:Esl; [|discriminate].
        destruct (spec_lex scfg (m_kind p) (m_value p) TIri [] sr) as [pl|] eqn:Epl; [|discriminate].
        destruct (spec_lex scfg (m_kind (o_tm o')) (m_value (o_tm o')) (spec_tt_object o') ldv' sr) as [ol|] eqn:Eol; [|discriminate].
        destruct (suffix_of_row scfg ld' ldk' ldv' sr) as [suffix|] eqn:Esuf; [|discriminate].
        destruct (rule_graph_term scfg gm sr) as [gt|] eqn:Egt; [|discriminate]. injection Hx as <-.
        exists (render stt sl), pm, p, (render TIri pl), o', (render (spec_tt_object o') ol ++ suffix), gt.
        split; [apply Esubj; eauto|]. split; [exact Hpm|]. split; [exact Hp|].
        split; [apply spec_terms_plain; [unfold plain_map in Plp; now apply andb_true_iff in Plp as [X _]|]; eauto|].
        split; [exact Ho|].
        split; [apply (obj_equiv scfg fe doc tables (S (S f)) t o' sr _ Plo); exists ld', ldk', ldv', ol, suffix; auto|].
        split; [apply (graph_equiv scfg fe tables t pm sr gt Hsg Pg); eauto|].
        reflexivity.
      + destruct (qobj_fields o' Jo) as (Ek & _ & El & Ed & Ej & Eip).
        unfold obj_rows in Hrow. rewrite Eip in Hrow. unfold ld_rows in Hrow. rewrite El, Ed in Hrow. destruct Hrow as [E|[]]. injection E as <- <- <- <- <-.
        destruct Hx as [[Hnk _]|[_ (q & rsq & b & Hf & Hqp & Hbq & Hbin & Hx)]]; [exfalso; apply Hnk; cbn [mk_rule r_ok]; exact Ek|].
        rewrite Ek in *. cbn [mk_rule r_ok r_ov undelimit] in Hf.
        unfold doc_qobj_line, rule_graph_opt in Hx. cbn [mk_rule r_sk r_sv r_stt r_pk r_pv r_gk r_gv] in Hx.
        assert (Hgm' : plain_map gm = true) by (unfold plain_graph in Plg; now apply andb_true_iff in Plg as [X _]).
        cbn [prepare_tm complete_default_graph sgraphs_to_pom class_to_pom t_subj] in Hx.
        rewrite (plain_map_undelimit _ Hsub), (plain_map_undelimit _ Plp), (plain_map_undelimit _ Hgm') in Hx.
        destruct (spec_parts scfg b sr) as [[[s0 p0] o0]|] eqn:Ep0; [|discriminate].
        fold (rule_graph_opt scfg b sr) in Hx. destruct (rule_graph_opt scfg b sr) as [gb|] eqn:Egb; [|discriminate].
        destruct (spec_lex scfg (m_kind (t_subj t)) (m_value (t_subj t)) stt [] sr) as [sl|] eqn:Esl; [|discriminate].
        destruct (spec_lex scfg (m_kind p) (m_value p) TIri [] sr) as [pl|] eqn:Epl; [|discriminate].
        fold (rule_graph_term scfg gm sr) in Hx.
        destruct (rule_graph_term scfg gm sr) as [gt|] eqn:Egt; [|discriminate]. injection Hx as <-.
        exists (render stt sl), pm, p, (render TIri pl), o', (quote_triple (s0 ++ [32] ++ p0 ++ [32] ++ o0)), gt.
        split; [apply Esubj; eauto|]. split; [exact Hpm|]. split; [exact Hp|].
        split; [apply spec_terms_plain; [unfold plain_map in Plp; now apply andb_true_iff in Plp as [X _]|]; eauto|].
        split; [exact Ho|].
        split; [apply (qobj_obj_equiv f t o' q sr rsq _ Jo Hf Hqp Hbq); exists b, s0, p0, o0; repeat split; auto; rewrite Egb; discriminate|].
        split; [apply (graph_equiv scfg fe tables t pm sr gt Hsg Pg); eauto|].
        reflexivity.
  Qed.
End QObjSpec.
