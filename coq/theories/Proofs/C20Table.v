(* Obligations about the REGENERATED table: re-checked by the kernel on every run. *)
From Coq Require Import String.
From Morph Require Import Base.UStr Gen.Tables Model.SqlTypes Model.Spec20 Proofs.SqlTypesP.

(* type names for which the current code departs from the natural mapping: recorded findings (known_findings.json) *)
Definition c20_known_bad : list ustr := map u
  ([ "bytea"; "BINARY_FLOAT"; "BINARY_DOUBLE";
     "INTERVAL YEAR(2) TO MONTH"; "INTERVAL DAY(2) TO SECOND(6)"; "interval"; "point" ])%string.

Definition opt_ueqb (a b : option ustr) : bool :=
  match a, b with Some x, Some y => ueqb x y | None, None => true | _, _ => false end.
Lemma ueqb_eq a : forall b, ueqb a b = true -> a = b.
Proof.
  induction a as [|x a IH]; intros [|y b] H; simpl in H; try discriminate; [reflexivity|].
  apply andb_true_iff in H as [E H]. apply N.eqb_eq in E. subst. f_equal. apply IH. exact H.
Qed.
Lemma opt_ueqb_eq a b : opt_ueqb a b = true -> a = b.
Proof. destruct a, b; simpl; intros H; try discriminate; [f_equal; apply ueqb_eq; exact H|reflexivity]. Qed.

Definition row_ok (tx : ustr * option ustr) : bool :=
  mem (fst tx) c20_known_bad || opt_ueqb (lookup Tables.sql_rdf_datatype (fst tx)) (snd tx).

Lemma table_rows_ok : forallb row_ok catalog_types = true.
Proof. vm_compute. reflexivity. Qed.

Lemma natural_mapping_table_partial_proof :
  forall t x, In (t, x) catalog_types -> mem t c20_known_bad = false -> lookup Tables.sql_rdf_datatype t = x.
Proof.
  intros t x Hin Hbad. pose proof table_rows_ok as H. rewrite forallb_forall in H. specialize (H _ Hin).
  unfold row_ok in H. cbn [fst snd] in H. rewrite Hbad in H. apply opt_ueqb_eq. exact H.
Qed.

Lemma keys_ok : forallb key_ok (map fst (sort_len_desc Tables.sql_rdf_datatype)) = true.
Proof. vm_compute. reflexivity. Qed.

Lemma params_irrelevant_proof :
  forall t args, forallb arg_char args = true ->
    lookup Tables.sql_rdf_datatype (t ++ 40%N :: args ++ [41%N]) = lookup Tables.sql_rdf_datatype t.
Proof. intros t args Ha. unfold lookup. apply params_irrelevant_gen; [exact keys_ok|exact Ha]. Qed.
