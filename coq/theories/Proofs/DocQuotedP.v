(* C13 / C01: quoted triples maps at DOCUMENT level (one level, quoted subject over the same rows).  The generation rules read on
   the surface document -- a triples map whose subject map quotes another triples map -- and read on the normalised rule table
   (one copy of every quoting rule per rule of the quoted map) give the same statements; the engine materialises exactly these.
   Extends DocSpecP / DocEngineP / QuotedP. *)
From Coq Require Import String Lia.
From Morph Require Import Base.UStr Gen.Tables Model.Terms Model.Data Model.Engine Model.Mapping Model.Spec Model.Fragment
     Proofs.DataP Proofs.GroupingP Proofs.TemplateP Proofs.TermP Proofs.RowwiseP Proofs.RowSpecP Proofs.RuleSpecP Proofs.NormaliseP Proofs.GraphsP
     Proofs.UnionP Proofs.QuotedP Proofs.DocSpecP Proofs.DocEngineP Proofs.DocJoinP.
Local Open Scope N_scope.

(* the same configuration with N-TRIPLES output: the generation rules read terms alike, only the line format differs *)
Definition nt (c : scfg) : scfg := {| s_nquads := false; s_printable := s_printable c; s_safe := s_safe c; s_na := s_na c |}.

(* the statement of a rule whose subject term is given (a quoted triple) *)
Definition doc_line_with_subject (scfg : scfg) (rl : rule) (s : ustr) (sr : srow) : option ustr :=
  match spec_po scfg rl sr with
  | None => None
  | Some (p, o) =>
      match rule_graph_opt scfg rl sr with
      | None => None
      | Some g => Some (if s_nquads scfg then (s ++ [32] ++ p ++ [32] ++ o) ++ [32] ++ g else s ++ [32] ++ p ++ [32] ++ o)
      end
  end.
(* the statement of a quoting rule rl for a row: the quoted triple is that of rule b of the quoted map, which must be placed in a graph *)
Definition doc_quoted_line (scfg : scfg) (rl b : rule) (sr : srow) : option ustr :=
  match spec_parts scfg b sr with
  | None => None
  | Some (s, p, o) =>
      match rule_graph_opt scfg b sr with
      | None => None
      | Some _ => doc_line_with_subject scfg rl (quote_triple (s ++ [32] ++ p ++ [32] ++ o)) sr
      end
  end.

Section QuotedSpec.
  Variables (scfg : scfg) (fe : fenv) (doc : document) (tables : ustr -> stable) (d : document).

  Lemma spec_fuel_SSS : exists f, spec_fuel doc = S (S (S f)).
  Proof. exists (3 * length doc)%nat. unfold spec_fuel. lia. Qed.

  Lemma doc_rule_line_nt rl sr :
    doc_rule_line (nt scfg) rl sr =
    match spec_parts scfg rl sr with
    | None => None
    | Some (s, p, o) => match rule_graph_opt scfg rl sr with None => None | Some _ => Some (s ++ [32] ++ p ++ [32] ++ o) end
    end.
  Proof. reflexivity. Qed.

  Lemma tm_triples_in t sr f x :
    In x (tm_triples scfg fe doc tables (S f) t sr) <->
    exists s pm p pt o ot,
      In s (subj_terms scfg fe doc tables f t sr) /\ In pm (t_poms t ++ map class_pom (t_classes t)) /\ graph_terms scfg fe t pm sr <> [] /\ In p (p_preds pm) /\
      In pt (spec_terms scfg fe (m_kind p) (m_value p) TIri [] sr) /\ In o (p_objs pm) /\ In ot (obj_terms scfg fe doc tables f t o sr) /\
      x = s ++ [32] ++ pt ++ [32] ++ ot.
  Proof.
    cbn [tm_triples]. split.
    - intro H. apply in_flat_map in H as (s & Hs & H). apply in_flat_map in H as (pm & Hpm & H).
      destruct (graph_terms scfg fe t pm sr) as [|g gs] eqn:Eg; [contradiction|].
      apply in_flat_map in H as (p & Hp & H). apply in_flat_map in H as (pt & Hpt & H). apply in_flat_map in H as (o & Ho & H).
      apply in_map_iff in H as (ot & <- & Hot). exists s, pm, p, pt, o, ot. rewrite Eg. repeat split; auto. discriminate.
    - intros (s & pm & p & pt & o & ot & Hs & Hpm & Hg & Hp & Hpt & Ho & Hot & ->).
      apply in_flat_map. exists s. split; auto. apply in_flat_map. exists pm. split; auto.
      destruct (graph_terms scfg fe t pm sr) as [|g gs]; [now contradiction Hg|].
      apply in_flat_map. exists p. split; auto. apply in_flat_map. exists pt. split; auto. apply in_flat_map. exists o. split; auto.
      apply in_map_iff. exists ot. auto.
  Qed.

  Lemma plain_subj_fuel t sr f f' : plain_map (t_subj t) = true ->
    subj_terms scfg fe doc tables (S f) t sr = subj_terms scfg fe doc tables (S f') t sr.
  Proof. intro H. unfold plain_map in H. apply andb_true_iff in H as [Hk _]. cbn [subj_terms]. destruct (m_kind (t_subj t)); try discriminate; reflexivity. Qed.
  Lemma plain_obj_fuel t o sr f f' : plain_objmap o = true ->
    obj_terms scfg fe doc tables (S f) t o sr = obj_terms scfg fe doc tables (S f') t o sr.
  Proof.
    intro H. unfold plain_objmap, plain_map in H. rewrite !andb_true_iff in H. destruct H as [[Hk _] _].
    cbn [obj_terms]. destruct (m_kind (o_tm o)); try discriminate; reflexivity.
  Qed.

  (* the triples of a plain triples map for a row = its N-TRIPLES statements for that row *)
  Lemma tm_triples_are_nt_lines q sr f x : plain_tm q = true ->
    (In x (tm_triples scfg fe doc tables (S (S f)) q sr) <-> In x (tm_row_lines (nt scfg) fe doc tables q sr)).
  Proof.
    intro Hpl. pose proof Hpl as Hpl0. unfold plain_tm in Hpl. rewrite !andb_true_iff in Hpl. destruct Hpl as [[[Hsub Hsg] Hpoms] _].
    assert (Hobj : forall pm o, In pm (t_poms q ++ map class_pom (t_classes q)) -> In o (p_objs pm) -> plain_objmap o = true).
    { intros pm o Hpm Ho. apply in_app_iff in Hpm as [H|H].
      - rewrite forallb_forall in Hpoms. specialize (Hpoms pm H). unfold plain_pom in Hpoms. rewrite !andb_true_iff in Hpoms. destruct Hpoms as [[_ P] _]. rewrite forallb_forall in P. auto.
      - apply in_map_iff in H as (c & <- & _). pose proof (class_pom_plain c) as P. unfold plain_pom in P. rewrite !andb_true_iff in P. destruct P as [[_ P] _]. rewrite forallb_forall in P. auto. }
    destruct spec_fuel_SSS as (f0 & Ef).
    rewrite tm_triples_in, (tm_row_lines_in (nt scfg) fe doc tables q sr x). cbn [nt s_nquads]. rewrite Ef.
    change (subj_terms (nt scfg)) with (subj_terms scfg). change (obj_terms (nt scfg)) with (obj_terms scfg).
    change (spec_terms (nt scfg)) with (spec_terms scfg). change (graph_terms (nt scfg)) with (graph_terms scfg).
    split.
    - intros (s & pm & p & pt & o & ot & Hs & Hpm & Hg & Hp & Hpt & Ho & Hot & ->).
      destruct (graph_terms scfg fe q pm sr) as [|g gs] eqn:Eg; [now contradiction Hg|].
      exists s, pm, p, pt, o, ot, g. rewrite (plain_subj_fuel q sr _ f Hsub). rewrite (plain_obj_fuel q o sr _ f (Hobj pm o Hpm Ho)). rewrite Eg.
      split; [exact Hs|]. split; [exact Hpm|]. split; [exact Hp|]. split; [exact Hpt|]. split; [exact Ho|]. split; [exact Hot|]. split; [now left|reflexivity].
    - intros (s & pm & p & pt & o & ot & g & Hs & Hpm & Hp & Hpt & Ho & Hot & Hg & ->).
      exists s, pm, p, pt, o, ot. rewrite (plain_subj_fuel q sr _ (S (S f0)) Hsub). rewrite (plain_obj_fuel q o sr _ (S (S f0)) (Hobj pm o Hpm Ho)).
      split; [exact Hs|]. split; [exact Hpm|]. split; [intro E; rewrite E in Hg; contradiction|]. split; [exact Hp|]. split; [exact Hpt|]. split; [exact Ho|]. split; [exact Hot|reflexivity].
  Qed.

  (* ... hence, through the rule table: one triple per rule of the quoted map whose terms exist and which is placed in a graph *)
  Theorem quoted_triples_by_rules q sr f rs x : plain_tm q = true -> base_rules_of d (prepare_tm q) = Ok rs ->
    (In x (tm_triples scfg fe doc tables (S (S f)) q sr) <->
     exists b s p o, In b rs /\ spec_parts scfg b sr = Some (s, p, o) /\ rule_graph_opt scfg b sr <> None /\ x = s ++ [32] ++ p ++ [32] ++ o).
  Proof.
    intros Hpl Hb. rewrite (tm_triples_are_nt_lines q sr f x Hpl).
    rewrite (tm_lines_equiv (nt scfg) fe doc tables d q sr rs Hpl Hb x). split.
    - intros (b & Hbin & Hl). rewrite doc_rule_line_nt in Hl. destruct (spec_parts scfg b sr) as [[[s p] o]|] eqn:Ep; [|discriminate].
      destruct (rule_graph_opt scfg b sr) eqn:Eg; [|discriminate]. injection Hl as <-. exists b, s, p, o. repeat split; auto. rewrite Eg. discriminate.
    - intros (b & s & p & o & Hbin & Ep & Hg & ->). exists b. split; auto. rewrite doc_rule_line_nt, Ep.
      destruct (rule_graph_opt scfg b sr); [reflexivity|now contradiction Hg].
  Qed.

  (* ---- a triples map with ordinary predicate-object maps, whatever its subject map: statements by subject term and rule *)
  Lemma po_line_is_tuple t a stt p o ld ldk ldv g s sr :
    plain_map p = true -> plain_objmap o = true -> plain_graph g = true ->
    doc_line_with_subject scfg (mk_rule t a stt (m_kind p) (m_value p) (m_kind (o_tm o)) (m_value (o_tm o)) (spec_tt_object o) ld ldk ldv (m_kind g) (m_value g) (o_joins o)) s sr =
    match spec_lex scfg (m_kind p) (m_value p) TIri [] sr with None => None | Some pl =>
    match spec_lex scfg (m_kind (o_tm o)) (m_value (o_tm o)) (spec_tt_object o) ldv sr with None => None | Some ol =>
    match suffix_of_row scfg ld ldk ldv sr with None => None | Some suffix =>
    match rule_graph_term scfg g sr with None => None | Some gt =>
    Some (if s_nquads scfg then (s ++ [32] ++ render TIri pl ++ [32] ++ render (spec_tt_object o) ol ++ suffix) ++ [32] ++ gt
          else s ++ [32] ++ render TIri pl ++ [32] ++ render (spec_tt_object o) ol ++ suffix)
    end end end end.
  Proof.
    intros Hp Ho Hg. unfold doc_line_with_subject, spec_po, spec_po_gen, spec_suffix_of, rule_graph_opt, rule_graph_term, suffix_of_row.
    cbn [mk_rule r_pk r_pv r_ok r_ov r_ott r_ld r_ldk r_ldv r_gk r_gv].
    assert (Hom : plain_map (o_tm o) = true) by (unfold plain_objmap in Ho; now apply andb_true_iff in Ho as [Ho _]).
    assert (Hgm : plain_map g = true) by (unfold plain_graph in Hg; now apply andb_true_iff in Hg as [Hg _]).
    rewrite (plain_map_undelimit _ Hp), (plain_map_undelimit _ Hom), (plain_map_undelimit _ Hgm).
    destruct (spec_lex scfg (m_kind p) (m_value p) TIri [] sr); auto.
    destruct (spec_lex scfg (m_kind (o_tm o)) (m_value (o_tm o)) (spec_tt_object o) ldv sr); auto.
    destruct (match ld with LDNone => _ | LDLang => _ | LDDt => _ end); auto.
  Qed.

  Theorem tm_lines_by_subject t sr rs :
    forallb plain_graph (t_sgraphs t) = true -> forallb plain_pom (t_poms t) = true -> base_rules_of d (prepare_tm t) = Ok rs ->
    forall x, In x (tm_row_lines scfg fe doc tables t sr) <->
      exists s rl, In s (subj_terms scfg fe doc tables (spec_fuel doc) t sr) /\ In rl rs /\ doc_line_with_subject scfg rl s sr = Some x.
  Proof.
    intros Hsg Hpoms Hb x.
    set (poms := t_poms t ++ map class_pom (t_classes t)).
    assert (Hpp : forall pm, In pm poms -> plain_pom pm = true).
    { intros pm H. apply in_app_iff in H as [H|H]; [rewrite forallb_forall in Hpoms; auto|]. apply in_map_iff in H as (c & <- & _). apply class_pom_plain. }
    assert (Eprep : t_poms (prepare_tm t) = map (fun p => {| p_preds := p_preds p; p_objs := p_objs p; p_graphs := placed_graphs t p |}) poms) by apply prepare_poms.
    destruct (spec_fuel_S doc) as (f & Ef).
    rewrite tm_row_lines_in. fold poms. clearbody poms.
    destruct poms as [|pm0 pms] eqn:Epoms.
    { split; [intros (s & pm & p & pt & o & ot & g & _ & [] & _)|].
      intros (s & rl & _ & Hrl & Hx). exfalso. rewrite base_rules_unfold in Hb. cbv zeta in Hb. rewrite Eprep in Hb. cbn [map] in Hb.
      destruct (negb _) in Hb; [discriminate|]. injection Hb as <-. destruct Hrl as [<-|[]].
      unfold doc_line_with_subject, spec_po, spec_po_gen in Hx. cbn [mk_rule r_pk r_pv spec_lex] in Hx. discriminate. }
    assert (Hne : t_poms (prepare_tm t) <> []) by (rewrite Eprep; discriminate).
    destruct (base_rules_in d (prepare_tm t) rs Hb Hne) as [Hv Hin]. cbv zeta in Hin.
    set (a := negb (t_nonasserted (prepare_tm t)) && _) in Hin. set (stt := tt_final (tt_early (t_subj (prepare_tm t)))) in *.
    split.
    - intros (s & pm & p & pt & o & ot & g & Hs & Hpm & Hp & Hpt & Ho & Hot & Hg & ->).
      pose proof (Hpp pm Hpm) as Ppm. unfold plain_pom in Ppm. rewrite !andb_true_iff in Ppm. destruct Ppm as [[Pp Po] Pg].
      assert (Plp : plain_map p = true) by (rewrite forallb_forall in Pp; auto).
      assert (Plo : plain_objmap o = true) by (rewrite forallb_forall in Po; auto).
      apply spec_terms_plain in Hpt as (pl & Epl & ->); [|unfold plain_map in Plp; now apply andb_true_iff in Plp as [X _]].
      rewrite Ef in Hot. apply (obj_equiv scfg fe doc tables f t o sr ot Plo) in Hot as (ld & ldk & ldv & ol & suffix & Hld & Eol & Esuf & ->).
      apply (graph_equiv scfg fe tables t pm sr g Hsg Pg) in Hg as (gm & Hgm & Egt).
      pose proof (placed_graphs_plain t pm gm Hsg Pg Hgm) as Plg.
      exists s, (mk_rule (prepare_tm t) a stt (m_kind p) (m_value p) (m_kind (o_tm o)) (m_value (o_tm o)) (spec_tt_object o) ld ldk ldv (m_kind gm) (m_value gm) (o_joins o)).
      split; [exact Hs|]. split.
      + apply Hin. exists {| p_preds := p_preds pm; p_objs := p_objs pm; p_graphs := placed_graphs t pm |}. split.
        * rewrite Eprep. apply in_map_iff. exists pm. auto.
        * unfold pom_rules. apply gen_in. exists p, o, (spec_tt_object o), ld, ldk, ldv, gm. cbn [p_preds p_objs p_graphs]. repeat split; auto.
          rewrite effective_plain by exact Po. cbn [p_objs]. apply in_flat_map. exists o. split; auto.
          unfold obj_rows. rewrite (plain_obj_not_parent o Plo). apply in_map_iff. exists (ld, ldk, ldv). split; auto.
          unfold ott_of. rewrite (plain_obj_not_parent o Plo). now rewrite tt_object_is_spec.
      + rewrite (po_line_is_tuple (prepare_tm t) a stt p o ld ldk ldv gm s sr Plp Plo Plg). rewrite Epl, Eol, Esuf, Egt. reflexivity.
    - intros (s & rl & Hs & Hrl & Hx). apply Hin in Hrl as (pm' & Hpm' & Hr). rewrite Eprep in Hpm'. apply in_map_iff in Hpm' as (pm & <- & Hpm).
      pose proof (Hpp pm Hpm) as Ppm. unfold plain_pom in Ppm. rewrite !andb_true_iff in Ppm. destruct Ppm as [[Pp Po] Pg].
      unfold pom_rules in Hr. apply gen_in in Hr as (p & o & ott & ld & ldk & ldv & gm & Hp & Hrow & Hgm & ->). cbn [p_preds p_objs p_graphs] in *.
      rewrite effective_plain in Hrow by exact Po. cbn [p_objs] in Hrow. apply in_flat_map in Hrow as (o' & Ho & Hrow).
      assert (Plo : plain_objmap o' = true) by (rewrite forallb_forall in Po; auto).
      unfold obj_rows in Hrow. rewrite (plain_obj_not_parent o' Plo) in Hrow. apply in_map_iff in Hrow as ([[ld' ldk'] ldv'] & E & Hld).
      unfold ott_of in E. rewrite (plain_obj_not_parent o' Plo), tt_object_is_spec in E. injection E as <- <- <- <- <-.
      assert (Plp : plain_map p = true) by (rewrite forallb_forall in Pp; auto).
      pose proof (placed_graphs_plain t pm gm Hsg Pg Hgm) as Plg.
      rewrite (po_line_is_tuple (prepare_tm t) a stt p o' ld' ldk' ldv' gm s sr Plp Plo Plg) in Hx.
      destruct (spec_lex scfg (m_kind p) (m_value p) TIri [] sr) as [pl|] eqn:Epl; [|discriminate].
      destruct (spec_lex scfg (m_kind (o_tm o')) (m_value (o_tm o')) (spec_tt_object o') ldv' sr) as [ol|] eqn:Eol; [|discriminate].
      destruct (suffix_of_row scfg ld' ldk' ldv' sr) as [suffix|] eqn:Esuf; [|discriminate].
      destruct (rule_graph_term scfg gm sr) as [gt|] eqn:Egt; [|discriminate]. injection Hx as <-.
      exists s, pm, p, (render TIri pl), o', (render (spec_tt_object o') ol ++ suffix), gt.
      split; [exact Hs|]. split; [exact Hpm|]. split; [exact Hp|].
      split; [apply spec_terms_plain; [unfold plain_map in Plp; now apply andb_true_iff in Plp as [X _]|]; eauto|].
      split; [exact Ho|].
      split; [rewrite Ef; apply (obj_equiv scfg fe doc tables f t o' sr _ Plo); exists ld', ldk', ldv', ol, suffix; auto|].
      split; [apply (graph_equiv scfg fe tables t pm sr gt Hsg Pg); eauto|].
      reflexivity.
  Qed.

  (* ---- a triples map whose subject map quotes a plain triples map over the same rows *)
  Theorem quoting_tm_lines t q sr rs rsq :
    quoting_tm t = true -> find_tm doc (m_value (t_subj t)) = Some q -> plain_tm q = true ->
    base_rules_of d (prepare_tm t) = Ok rs -> base_rules_of d (prepare_tm q) = Ok rsq ->
    forall x, In x (tm_row_lines scfg fe doc tables t sr) <-> exists b rl, In b rsq /\ In rl rs /\ doc_quoted_line scfg rl b sr = Some x.
  Proof.
    intros Hqt Hf Hq Hb Hbq x. unfold quoting_tm in Hqt. rewrite !andb_true_iff in Hqt. destruct Hqt as [[[[Hk Htt] Hsg] Hpoms] Hsj].
    assert (Ek : m_kind (t_subj t) = KQuoted) by (destruct (m_kind (t_subj t)); try discriminate; reflexivity).
    assert (Esj : t_sjoins t = []) by (destruct (t_sjoins t); [reflexivity|discriminate]).
    rewrite (tm_lines_by_subject t sr rs Hsg Hpoms Hb x).
    destruct spec_fuel_SSS as (f & Ef).
    assert (Es : forall s, In s (subj_terms scfg fe doc tables (spec_fuel doc) t sr) <->
                           exists tr, In tr (tm_triples scfg fe doc tables (S (S f)) q sr) /\ s = quote_triple tr).
    { intro s. rewrite Ef. cbn [subj_terms]. rewrite Ek, Hf, Esj. cbn [joined_rows flat_map]. rewrite app_nil_r, in_map_iff. split; intros (tr & A & B); exists tr; auto. }
    split.
    - intros (s & rl & Hs & Hrl & Hx). apply Es in Hs as (tr & Htr & ->).
      apply (quoted_triples_by_rules q sr f rsq tr Hq Hbq) in Htr as (b & s0 & p0 & o0 & Hbin & Ep & Hg & ->).
      exists b, rl. split; auto. split; auto. unfold doc_quoted_line. rewrite Ep. destruct (rule_graph_opt scfg b sr); [exact Hx|now contradiction Hg].
    - intros (b & rl & Hbin & Hrl & Hx). unfold doc_quoted_line in Hx. destruct (spec_parts scfg b sr) as [[[s0 p0] o0]|] eqn:Ep; [|discriminate].
      destruct (rule_graph_opt scfg b sr) eqn:Eg; [|discriminate].
      exists (quote_triple (s0 ++ [32] ++ p0 ++ [32] ++ o0)), rl. split; [|auto]. apply Es. exists (s0 ++ [32] ++ p0 ++ [32] ++ o0). split; auto.
      apply (quoted_triples_by_rules q sr f rsq _ Hq Hbq). exists b, s0, p0, o0. repeat split; auto. rewrite Eg. discriminate.
  Qed.
End QuotedSpec.
