(* C13 / C01: quoted triples maps at DOCUMENT level (one level, quoted subject over the same rows).  The generation rules read on
   the surface document -- a triples map whose subject map quotes another triples map -- and read on the normalised rule table
   (one copy of every quoting rule per rule of the quoted map) give the same statements; the engine materialises exactly these.
   Extends DocSpecP / DocEngineP / QuotedP. *)
From Coq Require Import String Lia.
From Morph Require Import Base.UStr Gen.Tables Model.Terms Model.Data Model.Engine Model.Mapping Model.Spec Model.Fragment
     Proofs.DataP Proofs.GroupingP Proofs.TemplateP Proofs.TermP Proofs.RowwiseP Proofs.RowSpecP Proofs.RuleSpecP Proofs.NormaliseP Proofs.GraphsP
     Proofs.UnionP Proofs.QuotedP Proofs.DocSpecP Proofs.DocEngineP Proofs.DocJoinP.
Local Open Scope N_scope.

(* the same configuration with N-TRIPLES output: the generation rules read terms alike, only the line format differs *)
Definition nt (c : scfg) : scfg := {| s_nquads := false; s_printable := s_printable c; s_safe := s_safe c; s_na := s_na c |}.

(* the statement of a rule whose subject term is given (a quoted triple) *)
Definition doc_line_with_subject (scfg : scfg) (rl : rule) (s : ustr) (sr : srow) : option ustr :=
  match spec_po scfg rl sr with
  | None => None
  | Some (p, o) =>
      match rule_graph_opt scfg rl sr with
      | None => None
      | Some g => Some (if s_nquads scfg then (s ++ [32] ++ p ++ [32] ++ o) ++ [32] ++ g else s ++ [32] ++ p ++ [32] ++ o)
      end
  end.
(* the statement of a quoting rule rl for a row: the quoted triple is that of rule b of the quoted map, which must be placed in a graph *)
Definition doc_quoted_line (scfg : scfg) (rl b : rule) (sr : srow) : option ustr :=
  match spec_parts scfg b sr with
  | None => None
  | Some (s, p, o) =>
      match rule_graph_opt scfg b sr with
      | None => None
      | Some _ => doc_line_with_subject scfg rl (quote_triple (s ++ [32] ++ p ++ [32] ++ o)) sr
      end
  end.

Section QuotedSpec.
  Variables (scfg : scfg) (fe : fenv) (doc : document) (tables : ustr -> stable) (d : document).

  Lemma spec_fuel_SSS : exists f, spec_fuel doc = S (S (S f)).
  Proof. exists (3 * length doc)%nat. unfold spec_fuel. lia. Qed.

  Lemma doc_rule_line_nt rl sr :
    doc_rule_line (nt scfg) rl sr =
    match spec_parts scfg rl sr with
    | None => None
    | Some (s, p, o) => match rule_graph_opt scfg rl sr with None => None | Some _ => Some (s ++ [32] ++ p ++ [32] ++ o) end
    end.
  Proof. reflexivity. Qed.

  Lemma tm_triples_in t sr f x :
    In x (tm_triples scfg fe doc tables (S f) t sr) <->
    exists s pm p pt o ot,
      In s (subj_terms scfg fe doc tables f t sr) /\ In pm (t_poms t ++ map class_pom (t_classes t)) /\ graph_terms scfg fe t pm sr <> [] /\ In p (p_preds pm) /\
      In pt (spec_terms scfg fe (m_kind p) (m_value p) TIri [] sr) /\ In o (p_objs pm) /\ In ot (obj_terms scfg fe doc tables f t o sr) /\
      x = s ++ [32] ++ pt ++ [32] ++ ot.
  Proof.
    cbn [tm_triples]. split.
    - intro H. apply in_flat_map in H as (s & Hs & H). apply in_flat_map in H as (pm & Hpm & H).
      destruct (graph_terms scfg fe t pm sr) as [|g gs] eqn:Eg; [contradiction|].
      apply in_flat_map in H as (p & Hp & H). apply in_flat_map in H as (pt & Hpt & H). apply in_flat_map in H as (o & Ho & H).
      apply in_map_iff in H as (ot & <- & Hot). exists s, pm, p, pt, o, ot. rewrite Eg. repeat split; auto. discriminate.
    - intros (s & pm & p & pt & o & ot & Hs & Hpm & Hg & Hp & Hpt & Ho & Hot & ->).
      apply in_flat_map. exists s. split; auto. apply in_flat_map. exists pm. split; auto.
      destruct (graph_terms scfg fe t pm sr) as [|g gs]; [now contradiction Hg|].
      apply in_flat_map. exists p. split; auto. apply in_flat_map. exists pt. split; auto. apply in_flat_map. exists o. split; auto.
      apply in_map_iff. exists ot. auto.
  Qed.

  Lemma plain_subj_fuel t sr f f' : plain_map (t_subj t) = true ->
    subj_terms scfg fe doc tables (S f) t sr = subj_terms scfg fe doc tables (S f') t sr.
  Proof. intro H. unfold plain_map in H. apply andb_true_iff in H as [Hk _]. cbn [subj_terms]. destruct (m_kind (t_subj t)); try discriminate; reflexivity. Qed.
  Lemma plain_obj_fuel t o sr f f' : plain_objmap o = true ->
    obj_terms scfg fe doc tables (S f) t o sr = obj_terms scfg fe doc tables (S f') t o sr.
  Proof.
    intro H. unfold plain_objmap, plain_map in H. rewrite !andb_true_iff in H. destruct H as [[Hk _] _].
    cbn [obj_terms]. destruct (m_kind (o_tm o)); try discriminate; reflexivity.
  Qed.

  (* the triples of a plain triples map for a row = its N-TRIPLES statements for that row *)
  Lemma tm_triples_are_nt_lines q sr f x : plain_tm q = true ->
    (In x (tm_triples scfg fe doc tables (S (S f)) q sr) <-> In x (tm_row_lines (nt scfg) fe doc tables q sr)).
  Proof.
    intro Hpl. pose proof Hpl as Hpl0. unfold plain_tm in Hpl. rewrite !andb_true_iff in Hpl. destruct Hpl as [[[Hsub Hsg] Hpoms] _].
    assert (Hobj : forall pm o, In pm (t_poms q ++ map class_pom (t_classes q)) -> In o (p_objs pm) -> plain_objmap o = true).
    { intros pm o Hpm Ho. apply in_app_iff in Hpm as [H|H].
      - rewrite forallb_forall in Hpoms. specialize (Hpoms pm H). unfold plain_pom in Hpoms. rewrite !andb_true_iff in Hpoms. destruct Hpoms as [[_ P] _]. rewrite forallb_forall in P. auto.
      - apply in_map_iff in H as (c & <- & _). pose proof (class_pom_plain c) as P. unfold plain_pom in P. rewrite !andb_true_iff in P. destruct P as [[_ P] _]. rewrite forallb_forall in P. auto. }
    destruct spec_fuel_SSS as (f0 & Ef).
    rewrite tm_triples_in, (tm_row_lines_in (nt scfg) fe doc tables q sr x). cbn [nt s_nquads]. rewrite Ef.
    change (subj_terms (nt scfg)) with (subj_terms scfg). change (obj_terms (nt scfg)) with (obj_terms scfg).
    change (spec_terms (nt scfg)) with (spec_terms scfg). change (graph_terms (nt scfg)) with (graph_terms scfg).
    split.
    - intros (s & pm & p & pt & o & ot & Hs & Hpm & Hg & Hp & Hpt & Ho & Hot & ->).
      destruct (graph_terms scfg fe q pm sr) as [|g gs] eqn:Eg; [now contradiction Hg|].
      exists s, pm, p, pt, o, ot, g. rewrite (plain_subj_fuel q sr _ f Hsub). rewrite (plain_obj_fuel q o sr _ f (Hobj pm o Hpm Ho)). rewrite Eg.
      split; [exact Hs|]. split; [exact Hpm|]. split; [exact Hp|]. split; [exact Hpt|]. split; [exact Ho|]. split; [exact Hot|]. split; [now left|reflexivity].
    - intros (s & pm & p & pt & o & ot & g & Hs & Hpm & Hp & Hpt & Ho & Hot & Hg & ->).
      exists s, pm, p, pt, o, ot. rewrite (plain_subj_fuel q sr _ (S (S f0)) Hsub). rewrite (plain_obj_fuel q o sr _ (S (S f0)) (Hobj pm o Hpm Ho)).
      split; [exact Hs|]. split; [exact Hpm|]. split; [intro E; rewrite E in Hg; contradiction|]. split; [exact Hp|]. split; [exact Hpt|]. split; [exact Ho|]. split; [exact Hot|reflexivity].
  Qed.

  (* ... hence, through the rule table: one triple per rule of the quoted map whose terms exist and which is placed in a graph *)
  Theorem quoted_triples_by_rules q sr f rs x : plain_tm q = true -> base_rules_of d (prepare_tm q) = Ok rs ->
    (In x (tm_triples scfg fe doc tables (S (S f)) q sr) <->
     exists b s p o, In b rs /\ spec_parts scfg b sr = Some (s, p, o) /\ rule_graph_opt scfg b sr <> None /\ x = s ++ [32] ++ p ++ [32] ++ o).
  Proof.
    intros Hpl Hb. rewrite (tm_triples_are_nt_lines q sr f x Hpl).
    rewrite (tm_lines_equiv (nt scfg) fe doc tables d q sr rs Hpl Hb x). split.
    - intros (b & Hbin & Hl). rewrite doc_rule_line_nt in Hl. destruct (spec_parts scfg b sr) as [[[s p] o]|] eqn:Ep; [|discriminate].
      destruct (rule_graph_opt scfg b sr) eqn:Eg; [|discriminate]. injection Hl as <-. exists b, s, p, o. repeat split; auto. rewrite Eg. discriminate.
    - intros (b & s & p & o & Hbin & Ep & Hg & ->). exists b. split; auto. rewrite doc_rule_line_nt, Ep.
      destruct (rule_graph_opt scfg b sr); [reflexivity|now contradiction Hg].
  Qed.

  (* ---- a triples map with ordinary predicate-object maps, whatever its subject map: statements by subject term and rule *)
  Lemma po_line_is_tuple t a stt p o ld ldk ldv g s sr :
    plain_map p = true -> plain_objmap o = true -> plain_graph g = true ->
    doc_line_with_subject scfg (mk_rule t a stt (m_kind p) (m_value p) (m_kind (o_tm o)) (m_value (o_tm o)) (spec_tt_object o) ld ldk ldv (m_kind g) (m_value g) (o_joins o)) s sr =
    match spec_lex scfg (m_kind p) (m_value p) TIri [] sr with None => None | Some pl =>
    match spec_lex scfg (m_kind (o_tm o)) (m_value (o_tm o)) (spec_tt_object o) ldv sr with None => None | Some ol =>
    match suffix_of_row scfg ld ldk ldv sr with None => None | Some suffix =>
    match rule_graph_term scfg g sr with None => None | Some gt =>
    Some (if s_nquads scfg then (s ++ [32] ++ render TIri pl ++ [32] ++ render (spec_tt_object o) ol ++ suffix) ++ [32] ++ gt
          else s ++ [32] ++ render TIri pl ++ [32] ++ render (spec_tt_object o) ol ++ suffix)
    end end end end.
  Proof.
    intros Hp Ho Hg. unfold doc_line_with_subject, spec_po, spec_po_gen, spec_suffix_of, rule_graph_opt, rule_graph_term, suffix_of_row.
    cbn [mk_rule r_pk r_pv r_ok r_ov r_ott r_ld r_ldk r_ldv r_gk r_gv].
    assert (Hom : plain_map (o_tm o) = true) by (unfold plain_objmap in Ho; now apply andb_true_iff in Ho as [Ho _]).
    assert (Hgm : plain_map g = true) by (unfold plain_graph in Hg; now apply andb_true_iff in Hg as [Hg _]).
    rewrite (plain_map_undelimit _ Hp), (plain_map_undelimit _ Hom), (plain_map_undelimit _ Hgm).
    destruct (spec_lex scfg (m_kind p) (m_value p) TIri [] sr); auto.
    destruct (spec_lex scfg (m_kind (o_tm o)) (m_value (o_tm o)) (spec_tt_object o) ldv sr); auto.
    destruct (match ld with LDNone => _ | LDLang => _ | LDDt => _ end); auto.
  Qed.

  Theorem tm_lines_by_subject t sr rs :
    forallb plain_graph (t_sgraphs t) = true -> forallb plain_pom (t_poms t) = true -> base_rules_of d (prepare_tm t) = Ok rs ->
    forall x, In x (tm_row_lines scfg fe doc tables t sr) <->
      exists s rl, In s (subj_terms scfg fe doc tables (spec_fuel doc) t sr) /\ In rl rs /\ doc_line_with_subject scfg rl s sr = Some x.
  Proof.
    intros Hsg Hpoms Hb x.
    set (poms := t_poms t ++ map class_pom (t_classes t)).
    assert (Hpp : forall pm, In pm poms -> plain_pom pm = true).
    { intros pm H. apply in_app_iff in H as [H|H]; [rewrite forallb_forall in Hpoms; auto|]. apply in_map_iff in H as (c & <- & _). apply class_pom_plain. }
    assert (Eprep : t_poms (prepare_tm t) = map (fun p => {| p_preds := p_preds p; p_objs := p_objs p; p_graphs := placed_graphs t p |}) poms) by apply prepare_poms.
    destruct (spec_fuel_S doc) as (f & Ef).
    rewrite tm_row_lines_in. fold poms. clearbody poms.
    destruct poms as [|pm0 pms] eqn:Epoms.
    { split; [intros (s & pm & p & pt & o & ot & g & _ & [] & _)|].
      intros (s & rl & _ & Hrl & Hx). exfalso. rewrite base_rules_unfold in Hb. cbv zeta in Hb. rewrite Eprep in Hb. cbn [map] in Hb.
      destruct (negb _) in Hb; [discriminate|]. injection Hb as <-. destruct Hrl as [<-|[]].
      unfold doc_line_with_subject, spec_po, spec_po_gen in Hx. cbn [mk_rule r_pk r_pv spec_lex] in Hx. discriminate. }
    assert (Hne : t_poms (prepare_tm t) <> []) by (rewrite Eprep; discriminate).
    destruct (base_rules_in d (prepare_tm t) rs Hb Hne) as [Hv Hin]. cbv zeta in Hin.
    set (a := negb (t_nonasserted (prepare_tm t)) && _) in Hin. set (stt := tt_final (tt_early (t_subj (prepare_tm t)))) in *.
    split.
    - intros (s & pm & p & pt & o & ot & g & Hs & Hpm & Hp & Hpt & Ho & Hot & Hg & ->).
      pose proof (Hpp pm Hpm) as Ppm. unfold plain_pom in Ppm. rewrite !andb_true_iff in Ppm. destruct Ppm as [[Pp Po] Pg].
      assert (Plp : plain_map p = true) by (rewrite forallb_forall in Pp; auto).
      assert (Plo : plain_objmap o = true) by (rewrite forallb_forall in Po; auto).
      apply spec_terms_plain in Hpt as (pl & Epl & ->); [|unfold plain_map in Plp; now apply andb_true_iff in Plp as [X _]].
      rewrite Ef in Hot. apply (obj_equiv scfg fe doc tables f t o sr ot Plo) in Hot as (ld & ldk & ldv & ol & suffix & Hld & Eol & Esuf & ->).
      apply (graph_equiv scfg fe tables t pm sr g Hsg Pg) in Hg as (gm & Hgm & Egt).
      pose proof (placed_graphs_plain t pm gm Hsg Pg Hgm) as Plg.
      exists s, (mk_rule (prepare_tm t) a stt (m_kind p) (m_value p) (m_kind (o_tm o)) (m_value (o_tm o)) (spec_tt_object o) ld ldk ldv (m_kind gm) (m_value gm) (o_joins o)).
      split; [exact Hs|]. split.
      + apply Hin. exists {| p_preds := p_preds pm; p_objs := p_objs pm; p_graphs := placed_graphs t pm |}. split.
        * rewrite Eprep. apply in_map_iff. exists pm. auto.
        * unfold pom_rules. apply gen_in. exists p, o, (spec_tt_object o), ld, ldk, ldv, gm. cbn [p_preds p_objs p_graphs]. repeat split; auto.
          rewrite effective_plain by exact Po. cbn [p_objs]. apply in_flat_map. exists o. split; auto.
          unfold obj_rows. rewrite (plain_obj_not_parent o Plo). apply in_map_iff. exists (ld, ldk, ldv). split; auto.
          unfold ott_of. rewrite (plain_obj_not_parent o Plo). now rewrite tt_object_is_spec.
      + rewrite (po_line_is_tuple (prepare_tm t) a stt p o ld ldk ldv gm s sr Plp Plo Plg). rewrite Epl, Eol, Esuf, Egt. reflexivity.
    - intros (s & rl & Hs & Hrl & Hx). apply Hin in Hrl as (pm' & Hpm' & Hr). rewrite Eprep in Hpm'. apply in_map_iff in Hpm' as (pm & <- & Hpm).
      pose proof (Hpp pm Hpm) as Ppm. unfold plain_pom in Ppm. rewrite !andb_true_iff in Ppm. destruct Ppm as [[Pp Po] Pg].
      unfold pom_rules in Hr. apply gen_in in Hr as (p & o & ott & ld & ldk & ldv & gm & Hp & Hrow & Hgm & ->). cbn [p_preds p_objs p_graphs] in *.
      rewrite effective_plain in Hrow by exact Po. cbn [p_objs] in Hrow. apply in_flat_map in Hrow as (o' & Ho & Hrow).
      assert (Plo : plain_objmap o' = true) by (rewrite forallb_forall in Po; auto).
      unfold obj_rows in Hrow. rewrite (plain_obj_not_parent o' Plo) in Hrow. apply in_map_iff in Hrow as ([[ld' ldk'] ldv'] & E & Hld).
      unfold ott_of in E. rewrite (plain_obj_not_parent o' Plo), tt_object_is_spec in E. injection E as <- <- <- <- <-.
      assert (Plp : plain_map p = true) by (rewrite forallb_forall in Pp; auto).
      pose proof (placed_graphs_plain t pm gm Hsg Pg Hgm) as Plg.
      rewrite (po_line_is_tuple (prepare_tm t) a stt p o' ld' ldk' ldv' gm s sr Plp Plo Plg) in Hx.
      destruct (spec_lex scfg (m_kind p) (m_value p) TIri [] sr) as [pl|] eqn:Epl; [|discriminate].
      destruct (spec_lex scfg (m_kind (o_tm o')) (m_value (o_tm o')) (spec_tt_object o') ldv' sr) as [ol|] eqn:Eol; [|discriminate].
      destruct (suffix_of_row scfg ld' ldk' ldv' sr) as [suffix|] eqn:Esuf; [|discriminate].
      destruct (rule_graph_term scfg gm sr) as [gt|] eqn:Egt; [|discriminate]. injection Hx as <-.
      exists s, pm, p, (render TIri pl), o', (render (spec_tt_object o') ol ++ suffix), gt.
      split; [exact Hs|]. split; [exact Hpm|]. split; [exact Hp|].
      split; [apply spec_terms_plain; [unfold plain_map in Plp; now apply andb_true_iff in Plp as [X _]|]; eauto|].
      split; [exact Ho|].
      split; [rewrite Ef; apply (obj_equiv scfg fe doc tables f t o' sr _ Plo); exists ld', ldk', ldv', ol, suffix; auto|].
      split; [apply (graph_equiv scfg fe tables t pm sr gt Hsg Pg); eauto|].
      reflexivity.
  Qed.

  (* ---- a triples map whose subject map quotes a plain triples map over the same rows *)
  Theorem quoting_tm_lines t q sr rs rsq :
    quoting_tm t = true -> find_tm doc (m_value (t_subj t)) = Some q -> plain_tm q = true ->
    base_rules_of d (prepare_tm t) = Ok rs -> base_rules_of d (prepare_tm q) = Ok rsq ->
    forall x, In x (tm_row_lines scfg fe doc tables t sr) <-> exists b rl, In b rsq /\ In rl rs /\ doc_quoted_line scfg rl b sr = Some x.
  Proof.
    intros Hqt Hf Hq Hb Hbq x. unfold quoting_tm in Hqt. rewrite !andb_true_iff in Hqt. destruct Hqt as [[[[Hk Htt] Hsg] Hpoms] Hsj].
    assert (Ek : m_kind (t_subj t) = KQuoted) by (destruct (m_kind (t_subj t)); try discriminate; reflexivity).
    assert (Esj : t_sjoins t = []) by (destruct (t_sjoins t); [reflexivity|discriminate]).
    rewrite (tm_lines_by_subject t sr rs Hsg Hpoms Hb x).
    destruct spec_fuel_SSS as (f & Ef).
    assert (Es : forall s, In s (subj_terms scfg fe doc tables (spec_fuel doc) t sr) <->
                           exists tr, In tr (tm_triples scfg fe doc tables (S (S f)) q sr) /\ s = quote_triple tr).
    { intro s. rewrite Ef. cbn [subj_terms]. rewrite Ek, Hf, Esj. cbn [joined_rows flat_map]. rewrite app_nil_r, in_map_iff. split; intros (tr & A & B); exists tr; auto. }
    split.
    - intros (s & rl & Hs & Hrl & Hx). apply Es in Hs as (tr & Htr & ->).
      apply (quoted_triples_by_rules q sr f rsq tr Hq Hbq) in Htr as (b & s0 & p0 & o0 & Hbin & Ep & Hg & ->).
      exists b, rl. split; auto. split; auto. unfold doc_quoted_line. rewrite Ep. destruct (rule_graph_opt scfg b sr); [exact Hx|now contradiction Hg].
    - intros (b & rl & Hbin & Hrl & Hx). unfold doc_quoted_line in Hx. destruct (spec_parts scfg b sr) as [[[s0 p0] o0]|] eqn:Ep; [|discriminate].
      destruct (rule_graph_opt scfg b sr) eqn:Eg; [|discriminate].
      exists (quote_triple (s0 ++ [32] ++ p0 ++ [32] ++ o0)), rl. split; [|auto]. apply Es. exists (s0 ++ [32] ++ p0 ++ [32] ++ o0). split; auto.
      apply (quoted_triples_by_rules q sr f rsq _ Hq Hbq). exists b, s0, p0, o0. repeat split; auto. rewrite Eg. discriminate.
  Qed.
End QuotedSpec.

(* ---------------------------------------------------------------- the normalisation chain on documents with quoting triples maps *)
Definition qcopy (k : nat) (r x : rule) : rule :=
  {| r_id := dec_of_nat k ++ sep_open ++ r_id x ++ sep_comma ++ [] ++ sep_close; r_tm := r_tm r; r_src := r_src r; r_asserted := r_asserted r;
     r_sk := r_sk r; r_sv := r_id x; r_stt := r_stt r; r_pk := r_pk r; r_pv := r_pv r;
     r_ok := r_ok r; r_ov := r_ov r; r_ott := r_ott r;
     r_ld := r_ld r; r_ldk := r_ldk r; r_ldv := r_ldv r; r_gk := r_gk r; r_gv := r_gv r;
     r_sjoin := r_sjoin r; r_ojoin := r_ojoin r |}.

Lemma expand_local_unstarred f nb tm : (forall kr, In kr nb -> ueqb (r_tm (snd kr)) tm = true -> unstarred (snd kr) = true) ->
  expand_tm (S f) nb tm = Ok (map (fun kr => with_id (fst kr) (snd kr)) (filter (fun kr => ueqb (r_tm (snd kr)) tm) nb)).
Proof.
  intro H. cbn [expand_tm].
  rewrite (rmap_all_ext_in _ (fun kr => Ok [with_id (fst kr) (snd kr)])).
  - rewrite rmap_all_pure. cbn [rbind]. f_equal. induction (filter _ nb) as [|x l IH]; simpl; auto. now rewrite IH.
  - intros [k r] Hin. apply filter_In in Hin as [Hin E]. specialize (H (k, r) Hin E). unfold unstarred in H. cbn [snd] in H.
    rewrite !andb_true_iff, !negb_true_iff in H. destruct H as [H1 H2]. rewrite H1, H2. reflexivity.
Qed.

Lemma expand_quoting f nb tm :
  (forall kr, In kr nb -> ueqb (r_tm (snd kr)) tm = true ->
     mkind_eqb (r_sk (snd kr)) KQuoted = true /\ mkind_eqb (r_ok (snd kr)) KQuoted = false /\
     (forall kr', In kr' nb -> ueqb (r_tm (snd kr')) (r_sv (snd kr)) = true -> unstarred (snd kr') = true)) ->
  expand_tm (S (S f)) nb tm =
  Ok (flat_map (fun kr => map (fun x => qcopy (fst kr) (snd kr) x)
                              (map (fun kr' => with_id (fst kr') (snd kr')) (filter (fun kr' => ueqb (r_tm (snd kr')) (r_sv (snd kr))) nb)))
               (filter (fun kr => ueqb (r_tm (snd kr)) tm) nb)).
Proof.
  intro H. remember (S f) as f1. cbn [expand_tm]. subst f1.
  rewrite (rmap_all_ext_in _ (fun kr => Ok (map (fun x => qcopy (fst kr) (snd kr) x)
             (map (fun kr' => with_id (fst kr') (snd kr')) (filter (fun kr' => ueqb (r_tm (snd kr')) (r_sv (snd kr))) nb))))).
  - rewrite rmap_all_pure. cbn [rbind]. f_equal. now rewrite flat_map_concat_map.
  - intros [k r] Hin. apply filter_In in Hin as [Hin E]. destruct (H (k, r) Hin E) as (H1 & H2 & H3). cbn [snd fst] in *.
    rewrite H1, H2. rewrite (expand_local_unstarred f nb (r_sv r) H3). cbn [rbind]. f_equal.
    induction (map (fun kr' : nat * rule => with_id (fst kr') (snd kr')) (filter (fun kr' : nat * rule => ueqb (r_tm (snd kr')) (r_sv r)) nb)) as [|x l IH]; [reflexivity|].
    cbn [map flat_map app]. f_equal. exact IH.
Qed.

Lemma quoting_base_rules d t rs : quoting_tm t = true -> base_rules_of d (prepare_tm t) = Ok rs ->
  forall r, In r rs -> r_sk r = KQuoted /\ r_sv r = m_value (t_subj t) /\ mkind_eqb (r_ok r) KQuoted = false /\ r_ok r <> KParent /\
                       r_src r = t_src t /\ r_asserted r = asserted t /\ r_tm r = t_id t.
Proof.
  intros Hqt Hb r Hr. unfold quoting_tm in Hqt. rewrite !andb_true_iff in Hqt. destruct Hqt as [[[[Hk Htt] Hsg] Hpoms] Hsj].
  assert (Ek : m_kind (t_subj t) = KQuoted) by (destruct (m_kind (t_subj t)); try discriminate; reflexivity).
  assert (Ea : negb (t_nonasserted (prepare_tm t)) && negb (match t_poms (prepare_tm t) with [] => true | _ => false end) = asserted t).
  { rewrite prepared_nopoms. unfold asserted. reflexivity. }
  destruct (t_poms (prepare_tm t)) as [|p0 ps0] eqn:Ep.
  - rewrite base_rules_unfold in Hb. cbv zeta in Hb. rewrite Ep in Hb. destruct (negb _) in Hb; [discriminate|]. injection Hb as <-.
    destruct Hr as [<-|[]]. cbn [mk_rule r_sk r_sv r_ok r_src r_asserted r_tm]. cbn [prepare_tm complete_default_graph sgraphs_to_pom class_to_pom t_subj t_src t_id].
    rewrite Ek. cbn [undelimit mkind_eqb]. repeat split; auto. discriminate.
  - assert (Hne : t_poms (prepare_tm t) <> []) by (rewrite Ep; discriminate).
    destruct (base_rules_in d (prepare_tm t) rs Hb Hne) as [_ Hin]. cbv zeta in Hin. apply Hin in Hr as (pm' & Hpm' & Hr).
    unfold prepare_tm in Hpm'. rewrite prepare_poms in Hpm'. apply in_map_iff in Hpm' as (pm & <- & Hpm).
    assert (Ppm : plain_pom pm = true).
    { apply in_app_iff in Hpm as [H|H]; [rewrite forallb_forall in Hpoms; auto|]. apply in_map_iff in H as (c & <- & _). apply class_pom_plain. }
    unfold plain_pom in Ppm. rewrite !andb_true_iff in Ppm. destruct Ppm as [[Pp Po] Pg].
    unfold pom_rules in Hr. apply gen_in in Hr as (p & o & ott & ld & ldk & ldv & gm & Hp & Hrow & Hgm & ->). cbn [p_preds p_objs p_graphs] in *.
    rewrite effective_plain in Hrow by exact Po. cbn [p_objs] in Hrow. apply in_flat_map in Hrow as (o' & Ho & Hrow).
    assert (Plo : plain_objmap o' = true) by (rewrite forallb_forall in Po; auto).
    unfold obj_rows in Hrow. apply in_map_iff in Hrow as (ldr & E & _). injection E as <- _ _.
    cbn [mk_rule r_sk r_sv r_ok r_src r_asserted r_tm]. cbn [prepare_tm complete_default_graph sgraphs_to_pom class_to_pom t_subj t_src t_id].
    rewrite Ek. cbn [undelimit]. unfold plain_objmap, plain_map in Plo. rewrite !andb_true_iff in Plo. destruct Plo as [[Hko _] _].
    repeat split; auto.
    + destruct (m_kind (o_tm o')); try discriminate; reflexivity.
    + intro E. rewrite E in Hko. discriminate.
    + rewrite <- Ea. rewrite Ep. reflexivity.
Qed.

Lemma unquoted_unstarred r : unquoted r = true -> unstarred r = true.
Proof. unfold unquoted, unstarred. rewrite !andb_true_iff. intros [[A B] _]. auto. Qed.
Lemma doc_quoted_line_fields scfg rl rl' b b' sr :
  r_pk rl' = r_pk rl -> r_pv rl' = r_pv rl -> r_ok rl' = r_ok rl -> r_ov rl' = r_ov rl -> r_ott rl' = r_ott rl ->
  r_ld rl' = r_ld rl -> r_ldk rl' = r_ldk rl -> r_ldv rl' = r_ldv rl -> r_gk rl' = r_gk rl -> r_gv rl' = r_gv rl ->
  (forall sr0, spec_parts scfg b' sr0 = spec_parts scfg b sr0) -> (forall sr0, rule_graph_opt scfg b' sr0 = rule_graph_opt scfg b sr0) ->
  doc_quoted_line scfg rl' b' sr = doc_quoted_line scfg rl b sr.
Proof.
  intros A B C D E F G H I J K L. unfold doc_quoted_line, doc_line_with_subject, spec_po, spec_po_gen, spec_suffix_of, rule_graph_opt.
  rewrite K. fold (rule_graph_opt scfg b' sr). rewrite L. unfold rule_graph_opt. now rewrite A, B, C, D, E, F, G, H, I, J.
Qed.

Section DocQuotedEquiv.
  Variables (scfg : scfg) (fe : fenv) (tables : ustr -> stable).

  Theorem doc_spec_is_rule_spec_quoted d0 rules :
    quoted_doc d0 = true -> normalise d0 = Ok rules -> nodupb (map r_id rules) = true ->
    forall x, In x (spec_lines scfg fe d0 tables) <->
      (exists rl sr, In rl rules /\ r_asserted rl = true /\ r_sk rl <> KQuoted /\ In sr (tables (r_src rl)) /\ doc_rule_line scfg rl sr = Some x) \/
      (exists rl b sr, In rl rules /\ r_asserted rl = true /\ r_sk rl = KQuoted /\ find_rule rules (r_sv rl) = Some b /\
                       In sr (tables (r_src rl)) /\ doc_quoted_line scfg rl b sr = Some x).
  Proof.
    intros Hqd Hn Hnr. unfold quoted_doc in Hqd. apply andb_true_iff in Hqd as [Hok Hnd].
    unfold normalise in Hn. set (d := prepare d0) in *.
    destruct (forallb _ d) in Hn; [discriminate|].
    destruct (rmap_all (base_rules_of d) d) as [base|e] eqn:Eb; cbn [rbind] in Hn; [|discriminate].
    apply rmap_all_ok in Eb.
    assert (Ed : d = map prepare_tm d0) by reflexivity.
    assert (Tm : forall t, In t d0 -> exists rs, In rs base /\ base_rules_of d (prepare_tm t) = Ok rs).
    { intros t Ht. assert (X : In (prepare_tm t) d) by (rewrite Ed; now apply in_map). destruct (Forall2_in_l _ _ _ _ Eb X) as (rs & H1 & H2). eauto. }
    assert (Rs : forall rs, In rs base -> exists t, In t d0 /\ base_rules_of d (prepare_tm t) = Ok rs).
    { intros rs Hrs. destruct (Forall2_in_r _ _ _ _ Eb Hrs) as (t' & H1 & H2). rewrite Ed in H1. apply in_map_iff in H1 as (t & <- & Ht). eauto. }
    assert (Kind : forall t, In t d0 ->
              (quoting_tm t = true /\ exists q, find_tm d0 (m_value (t_subj t)) = Some q /\ In q d0 /\ plain_tm q = true) \/ (quoting_tm t = false /\ plain_tm t = true)).
    { intros t Ht. rewrite forallb_forall in Hok. specialize (Hok t Ht). unfold quoted_ok in Hok. destruct (quoting_tm t); [left|right; auto].
      split; auto. destruct (find (fun q => ueqb (t_id q) (m_value (t_subj t))) d0) as [q|] eqn:Ef; [|discriminate]. exists q. split; [exact Ef|].
      split; [now apply (find_some _ _ Ef)|exact Hok]. }
    set (nb := number_from 0 (concat base)) in *.
    assert (NbBase : forall k r, In (k, r) nb -> exists t rs, In t d0 /\ base_rules_of d (prepare_tm t) = Ok rs /\ In r rs).
    { intros k r H. apply number_from_in in H. apply in_concat in H as (rs & Hrs & Hr). destruct (Rs rs Hrs) as (t & Ht & Hb). eauto. }
    assert (TmOf : forall t rs r, In t d0 -> base_rules_of d (prepare_tm t) = Ok rs -> In r rs -> r_tm r = t_id t).
    { intros t rs r Ht Hb Hr. destruct (Kind t Ht) as [[Hq _]|[_ Hp]].
      - now destruct (quoting_base_rules d t rs Hq Hb r Hr) as (_ & _ & _ & _ & _ & _ & X).
      - destruct (base_rules_asserted d (prepare_tm t) rs r Hb Hr) as [_ X]. exact X. }
    assert (Uniq : forall t t', In t d0 -> In t' d0 -> t_id t = t_id t' -> t = t').
    { intros t t' Ht Ht' E. pose proof (find_tm_nodup d0 t Hnd Ht) as A. pose proof (find_tm_nodup d0 t' Hnd Ht') as B. rewrite E, B in A. now injection A. }
    (* the expansion of every triples map identifier *)
    set (PEXP := fun tid : ustr => map (fun kr : nat * rule => with_id (fst kr) (snd kr)) (filter (fun kr => ueqb (r_tm (snd kr)) tid) nb)).
    set (QEXP := fun tid : ustr => flat_map (fun kr : nat * rule => map (fun x => qcopy (fst kr) (snd kr) x) (PEXP (r_sv (snd kr)))) (filter (fun kr => ueqb (r_tm (snd kr)) tid) nb)).
    set (qt := fun tid : ustr => match find_tm d0 tid with Some t => quoting_tm t | None => false end).
    assert (Exp : forall tid, In tid (tm_ids d) -> expand_tm (S (length d)) nb tid = Ok (if qt tid then QEXP tid else PEXP tid)).
    { intros tid Hin. unfold tm_ids in Hin. rewrite Ed, map_map in Hin. apply in_map_iff in Hin as (t & Eid & Ht). change (t_id (prepare_tm t)) with (t_id t) in Eid.
      assert (Eqt : qt tid = quoting_tm t) by (unfold qt; rewrite <- Eid, (find_tm_nodup d0 t Hnd Ht); reflexivity).
      assert (Mine : forall kr, In kr nb -> ueqb (r_tm (snd kr)) tid = true -> exists rs, base_rules_of d (prepare_tm t) = Ok rs /\ In (snd kr) rs).
      { intros [k r] Hkr E. apply ueqb_eq in E. cbn [snd] in *. destruct (NbBase k r Hkr) as (t' & rs & Ht' & Hb & Hr).
        assert (t' = t) by (apply Uniq; auto; rewrite <- (TmOf t' rs r Ht' Hb Hr); congruence). subst t'. eauto. }
      rewrite Eqt. destruct (Kind t Ht) as [[Hq (q & Hf & Hqin & Hqp)]|[Hq Hp]]; rewrite Hq.
      - assert (Hlen : exists f, length d = S f).
        { rewrite Ed, map_length. destruct d0 as [|a l]; [contradiction|]. simpl. eauto. }
        destruct Hlen as (f & ->). apply expand_quoting. intros kr Hkr E. destruct (Mine kr Hkr E) as (rs & Hb & Hr).
        destruct (quoting_base_rules d t rs Hq Hb (snd kr) Hr) as (A & B & C & _). rewrite A. split; [reflexivity|]. split; [exact C|].
        intros [k' r'] Hkr' E'. cbn [snd] in *. apply ueqb_eq in E'. destruct (NbBase k' r' Hkr') as (t' & rs' & Ht' & Hb' & Hr').
        assert (t' = q).
        { apply Uniq; auto. rewrite <- (TmOf t' rs' r' Ht' Hb' Hr'), E', B. unfold find_tm in Hf. apply find_some in Hf as [_ X]. apply ueqb_eq in X. now rewrite X. }
        subst t'. apply unquoted_unstarred. now destruct (plain_base_rules d q rs' Hqp Hb' r' Hr').
      - apply expand_local_unstarred. intros kr Hkr E. destruct (Mine kr Hkr E) as (rs & Hb & Hr). apply unquoted_unstarred.
        now destruct (plain_base_rules d t rs Hp Hb (snd kr) Hr). }
    rewrite (rmap_all_ext_in _ (fun tid => Ok (if qt tid then QEXP tid else PEXP tid))) in Hn by (intros tid Htid; apply Exp; now apply dedup_first_in).
    rewrite rmap_all_pure in Hn. cbn [rbind] in Hn.
    set (mid := concat (map _ (dedup_first (tm_ids d)))) in Hn.
    assert (Res : rmap_all (resolve_parent mid) mid = Ok mid -> True) by auto. clear Res.
    assert (InP : forall t rs r, In t d0 -> quoting_tm t = false -> base_rules_of d (prepare_tm t) = Ok rs -> In rs base -> In r rs -> exists k, In (with_id k r) mid /\ In (k, r) nb).
    { intros t rs r Ht Hq Hb Hrs Hr. assert (Hc : In r (concat base)) by (apply in_concat; eauto).
      destruct (number_from_all (concat base) 0 r Hc) as (k & Hk). exists k. split; auto. unfold mid. apply in_concat.
      exists (if qt (t_id t) then QEXP (t_id t) else PEXP (t_id t)). split.
      - apply in_map_iff. exists (t_id t). split; auto. apply dedup_first_in. unfold tm_ids. rewrite Ed, map_map. apply in_map_iff. exists t. auto.
      - unfold qt. rewrite (find_tm_nodup d0 t Hnd Ht), Hq. unfold PEXP. apply in_map_iff. exists (k, r). split; auto. apply filter_In. split; auto.
        cbn [snd]. rewrite (TmOf t rs r Ht Hb Hr). apply ueqb_refl. }
    assert (InQ : forall t rs r q rsq b, In t d0 -> quoting_tm t = true -> base_rules_of d (prepare_tm t) = Ok rs -> In rs base -> In r rs ->
                    find_tm d0 (m_value (t_subj t)) = Some q -> In q d0 -> plain_tm q = true -> base_rules_of d (prepare_tm q) = Ok rsq -> In rsq base -> In b rsq ->
                    exists k k', In (qcopy k r (with_id k' b)) mid /\ In (with_id k' b) mid).
    { intros t rs r q rsq b Ht Hq Hb Hrs Hr Hf Hqin Hqp Hbq Hrsq Hbin.
      assert (Hc : In r (concat base)) by (apply in_concat; eauto). destruct (number_from_all (concat base) 0 r Hc) as (k & Hk).
      assert (Hqq : quoting_tm q = false).
      { destruct (Kind q Hqin) as [[A (q2 & _ & _ & _)]|[A _]]; [|exact A]. exfalso. unfold quoting_tm in A. rewrite !andb_true_iff in A. destruct A as [[[[A _] _] _] _].
        unfold plain_tm, plain_map in Hqp. rewrite !andb_true_iff in Hqp. destruct Hqp as [[[[B _] _] _] _]. destruct (m_kind (t_subj q)); discriminate. }
      destruct (InP q rsq b Hqin Hqq Hbq Hrsq Hbin) as (k' & Hmid' & Hnb'). exists k, k'. split; [|exact Hmid'].
      unfold mid. apply in_concat. exists (if qt (t_id t) then QEXP (t_id t) else PEXP (t_id t)). split.
      - apply in_map_iff. exists (t_id t). split; auto. apply dedup_first_in. unfold tm_ids. rewrite Ed, map_map. apply in_map_iff. exists t. auto.
      - unfold qt. rewrite (find_tm_nodup d0 t Hnd Ht), Hq. unfold QEXP. apply in_flat_map. exists (k, r). split.
        + apply filter_In. split; auto. cbn [snd]. rewrite (TmOf t rs r Ht Hb Hr). apply ueqb_refl.
        + cbn [fst snd]. apply in_map_iff. exists (with_id k' b). split; auto. unfold PEXP. apply in_map_iff. exists (k', b). split; auto. apply filter_In. split; auto.
          cbn [snd]. destruct (quoting_base_rules d t rs Hq Hb r Hr) as (_ & Esv & _). rewrite Esv, (TmOf q rsq b Hqin Hbq Hbin).
          unfold find_tm in Hf. apply find_some in Hf as [_ X]. exact X. }
    assert (MidCases : forall rl, In rl mid ->
              (exists k r t rs, In t d0 /\ quoting_tm t = false /\ plain_tm t = true /\ base_rules_of d (prepare_tm t) = Ok rs /\ In r rs /\ rl = with_id k r) \/
              (exists k r t rs q rsq k' b, In t d0 /\ quoting_tm t = true /\ base_rules_of d (prepare_tm t) = Ok rs /\ In r rs /\
                 find_tm d0 (m_value (t_subj t)) = Some q /\ In q d0 /\ plain_tm q = true /\ base_rules_of d (prepare_tm q) = Ok rsq /\ In b rsq /\
                 rl = qcopy k r (with_id k' b) /\ In (with_id k' b) mid)).
    { intros rl H. unfold mid in H. apply in_concat in H as (l & Hl & Hrl). apply in_map_iff in Hl as (tid & <- & Htid). apply (proj1 (dedup_first_in _ _)) in Htid.
      unfold tm_ids in Htid. rewrite Ed, map_map in Htid. apply in_map_iff in Htid as (t & Eid & Ht). change (t_id (prepare_tm t)) with (t_id t) in Eid.
      assert (Eqt : qt tid = quoting_tm t) by (unfold qt; rewrite <- Eid, (find_tm_nodup d0 t Hnd Ht); reflexivity). rewrite Eqt in Hrl.
      assert (Mine : forall k r, In (k, r) nb -> ueqb (r_tm r) tid = true -> exists rs, base_rules_of d (prepare_tm t) = Ok rs /\ In r rs).
      { intros k r Hkr E. apply ueqb_eq in E. destruct (NbBase k r Hkr) as (t' & rs & Ht' & Hb & Hr).
        assert (t' = t) by (apply Uniq; auto; rewrite <- (TmOf t' rs r Ht' Hb Hr); congruence). subst t'. eauto. }
      destruct (Kind t Ht) as [[Hq (q & Hf & Hqin & Hqp)]|[Hq Hp]]; rewrite Hq in Hrl.
      - right. unfold QEXP in Hrl. apply in_flat_map in Hrl as ([k r] & Hkr & Hrl). apply filter_In in Hkr as [Hkr E]. cbn [fst snd] in *.
        destruct (Mine k r Hkr E) as (rs & Hb & Hr). apply in_map_iff in Hrl as (x & <- & Hx). unfold PEXP in Hx. apply in_map_iff in Hx as ([k' b] & <- & Hkb).
        apply filter_In in Hkb as [Hkb E']. cbn [fst snd] in *. apply ueqb_eq in E'. destruct (NbBase k' b Hkb) as (t' & rsq & Ht' & Hbq & Hbin).
        destruct (quoting_base_rules d t rs Hq Hb r Hr) as (_ & Esv & _).
        assert (t' = q).
        { apply Uniq; auto. rewrite <- (TmOf t' rsq b Ht' Hbq Hbin), E', Esv. unfold find_tm in Hf. apply find_some in Hf as [_ X]. apply ueqb_eq in X. now rewrite X. }
        subst t'. destruct (Tm q Hqin) as (rsq' & Hrsq' & Hbq'). rewrite Hbq in Hbq'. injection Hbq' as <-.
        assert (Hqq : quoting_tm q = false).
        { destruct (Kind q Hqin) as [[A _]|[A _]]; [|exact A]. exfalso. unfold quoting_tm in A. rewrite !andb_true_iff in A. destruct A as [[[[A _] _] _] _].
          unfold plain_tm, plain_map in Hqp. rewrite !andb_true_iff in Hqp. destruct Hqp as [[[[B _] _] _] _]. destruct (m_kind (t_subj q)); discriminate. }
        exists k, r, t, rs, q, rsq, k', b. repeat split; auto.
        unfold mid. apply in_concat. exists (if qt (t_id q) then QEXP (t_id q) else PEXP (t_id q)). split.
        + apply in_map_iff. exists (t_id q). split; auto. apply dedup_first_in. unfold tm_ids. rewrite Ed, map_map. apply in_map_iff. exists q. auto.
        + unfold qt. rewrite (find_tm_nodup d0 q Hnd Hqin), Hqq. unfold PEXP. apply in_map_iff. exists (k', b). split; auto. apply filter_In. split; auto.
          cbn [snd]. rewrite (TmOf q rsq b Hqin Hbq Hbin). apply ueqb_refl.
      - left. unfold PEXP in Hrl. apply in_map_iff in Hrl as ([k r] & <- & Hkr). apply filter_In in Hkr as [Hkr E]. cbn [fst snd] in *.
        destruct (Mine k r Hkr E) as (rs & Hb & Hr). exists k, r, t, rs. repeat split; auto. }
    assert (NoParent : forall rl, In rl mid -> r_ok rl <> KParent).
    { intros rl H. destruct (MidCases rl H) as [(k & r & t & rs & Ht & _ & Hp & Hb & Hr & ->)|(k & r & t & rs & q & rsq & k' & b & Ht & Hq & Hb & Hr & _ & _ & _ & _ & _ & -> & _)].
      - destruct (plain_base_rules d t rs Hp Hb r Hr) as (U & _). unfold unquoted in U. rewrite !andb_true_iff, !negb_true_iff in U. destruct U as [_ U].
        cbn [with_id r_ok]. intro E. rewrite E in U. discriminate.
      - destruct (quoting_base_rules d t rs Hq Hb r Hr) as (_ & _ & _ & X & _). exact X. }
    assert (Res : rmap_all (resolve_parent mid) mid = Ok mid).
    { rewrite (rmap_all_ext_in _ (fun r => Ok ((fun x => x) r))); [rewrite rmap_all_pure; now rewrite map_id|].
      intros rl Hrl. pose proof (NoParent rl Hrl) as X. unfold resolve_parent. destruct (mkind_eqb (r_ok rl) KParent) eqn:E; [|reflexivity].
      exfalso. apply X. now apply mkind_eqb_eq. }
    rewrite Res in Hn. cbn [rbind] in Hn. destruct (existsb rule_has_blank mid) in Hn; [discriminate|]. injection Hn as <-.
    intro x. unfold spec_lines. rewrite mem_dedup, in_flat_map. split.
    - intros (t & Ht & Hx). destruct (asserted t) eqn:Ea; [|contradiction]. apply in_flat_map in Hx as (sr & Hsr & Hx).
      destruct (Tm t Ht) as (rs & Hrs & Hb).
      destruct (Kind t Ht) as [[Hq (q & Hf & Hqin & Hqp)]|[Hq Hp]].
      + right. destruct (Tm q Hqin) as (rsq & Hrsq & Hbq).
        destruct (proj1 (quoting_tm_lines scfg fe d0 tables d t q sr rs rsq Hq Hf Hqp Hb Hbq x) Hx) as (b & rl0 & Hbin & Hrl0 & Hline).
        destruct (InQ t rs rl0 q rsq b Ht Hq Hb Hrs Hrl0 Hf Hqin Hqp Hbq Hrsq Hbin) as (k & k' & Hmid & Hmid').
        destruct (quoting_base_rules d t rs Hq Hb rl0 Hrl0) as (Esk & _ & _ & _ & Esrc & Eass & _).
        exists (qcopy k rl0 (with_id k' b)), (with_id k' b), sr. split; [exact Hmid|]. split; [cbn [qcopy r_asserted]; now rewrite Eass|].
        split; [exact Esk|]. split; [cbn [qcopy r_sv]; now apply find_rule_nodup|]. split; [cbn [qcopy r_src]; now rewrite Esrc|]. exact Hline.
      + left. destruct (proj1 (tm_lines_equiv scfg fe d0 tables d t sr rs Hp Hb x) Hx) as (rl0 & Hrl0 & Hline).
        destruct (plain_base_rules d t rs Hp Hb rl0 Hrl0) as (U & Hsrc & Hass).
        destruct (InP t rs rl0 Ht Hq Hb Hrs Hrl0) as (k & Hmid & _).
        exists (with_id k rl0), sr. split; [exact Hmid|]. split; [cbn [with_id r_asserted]; now rewrite Hass|].
        split; [cbn [with_id r_sk]; unfold unquoted in U; rewrite !andb_true_iff, !negb_true_iff in U; destruct U as [[U _] _]; intro E; rewrite E in U; discriminate|].
        split; [cbn [with_id r_src]; now rewrite Hsrc|exact Hline].
    - intros [(rl & sr & Hrl & Has & Hnq & Hsr & Hline)|(rl & b & sr & Hrl & Has & Hk & Hfb & Hsr & Hline)].
      + destruct (MidCases rl Hrl) as [(k & r & t & rs & Ht & Hq & Hp & Hb & Hr & ->)|(k & r & t & rs & q & rsq & k' & b & Ht & Hq & Hb & Hr & _ & _ & _ & _ & _ & -> & _)].
        * destruct (plain_base_rules d t rs Hp Hb r Hr) as (_ & Hsrc & Hass). cbn [with_id r_asserted r_src] in Has, Hsr. rewrite doc_rule_line_with_id in Hline.
          exists t. split; auto. rewrite <- Hass, Has. apply in_flat_map. exists sr. split; [now rewrite <- Hsrc|].
          apply (tm_lines_equiv scfg fe d0 tables d t sr rs Hp Hb). eauto.
        * exfalso. apply Hnq. cbn [qcopy r_sk]. now destruct (quoting_base_rules d t rs Hq Hb r Hr) as (X & _).
      + destruct (MidCases rl Hrl) as [(k & r & t & rs & Ht & Hq & Hp & Hb & Hr & ->)|(k & r & t & rs & q & rsq & k' & b0 & Ht & Hq & Hb & Hr & Hf & Hqin & Hqp & Hbq & Hbin & -> & Hmid')].
        * exfalso. destruct (plain_base_rules d t rs Hp Hb r Hr) as (U & _). unfold unquoted in U. rewrite !andb_true_iff, !negb_true_iff in U. destruct U as [[U _] _].
          cbn [with_id r_sk] in Hk. rewrite Hk in U. discriminate.
        * cbn [qcopy r_sv r_asserted r_src] in Hfb, Has, Hsr. rewrite (find_rule_nodup mid (with_id k' b0) Hnr Hmid') in Hfb. injection Hfb as <-.
          destruct (quoting_base_rules d t rs Hq Hb r Hr) as (_ & _ & _ & _ & Esrc & Eass & _).
          exists t. split; auto. rewrite <- Eass, Has. apply in_flat_map. exists sr. split; [now rewrite <- Esrc|].
          apply (quoting_tm_lines scfg fe d0 tables d t q sr rs rsq Hq Hf Hqp Hb Hbq x). exists b0, r. repeat split; auto.
  Qed.
End DocQuotedEquiv.

(* ================================================================ the engine on the preprocessed frame of a quoting rule *)
Lemma spec_po_ext scfg r sr1 sr2 : pos_ok (r_pk r) (r_pv r) TIri -> pos_ok (r_ok r) (r_ov r) (r_ott r) -> (r_ld r <> LDNone -> pos_ok (r_ldk r) (r_ldv r) TNone) ->
  (forall n, In n (po_names r) -> sval scfg sr1 n = sval scfg sr2 n) -> spec_po scfg r sr1 = spec_po scfg r sr2.
Proof.
  intros HP HO HL H. unfold spec_po, spec_po_gen, spec_suffix_of.
  rewrite (spec_lex_ext scfg (r_pk r) (r_pv r) TIri [] sr1 sr2) by (try apply HP; intros n Hn; apply H; unfold po_names; rewrite !in_app_iff; tauto).
  rewrite (spec_lex_ext scfg (r_ok r) (r_ov r) (r_ott r) (r_ldv r) sr1 sr2) by (try apply HO; intros n Hn; apply H; unfold po_names; rewrite !in_app_iff; tauto).
  destruct (spec_lex scfg (r_pk r) (r_pv r) TIri [] sr2); auto. destruct (spec_lex scfg (r_ok r) (r_ov r) (r_ott r) (r_ldv r) sr2); auto.
  destruct (r_ld r) eqn:El; [reflexivity| |];
    (rewrite (spec_lex_ext scfg (r_ldk r) (r_ldv r) _ [] sr1 sr2); [reflexivity|apply HL; discriminate|intros n Hn; apply H; unfold po_names; rewrite !in_app_iff; tauto]).
Qed.
Lemma spec_po_some_names scfg r sr po : pos_ok (r_pk r) (r_pv r) TIri -> pos_ok (r_ok r) (r_ov r) (r_ott r) -> (r_ld r <> LDNone -> pos_ok (r_ldk r) (r_ldv r) TNone) ->
  (r_ld r = LDNone -> r_ldk r = KNone /\ r_ldv r = []) -> spec_po scfg r sr = Some po -> forall n, In n (po_names r) -> sval scfg sr n <> None.
Proof.
  intros HP HO HL TL E n Hn. unfold spec_po, spec_po_gen, spec_suffix_of in E.
  destruct (spec_lex scfg (r_pk r) (r_pv r) TIri [] sr) as [pl|] eqn:Ep; [|discriminate].
  destruct (spec_lex scfg (r_ok r) (r_ov r) (r_ott r) (r_ldv r) sr) as [ol|] eqn:Eo; [|discriminate].
  unfold po_names in Hn. rewrite !in_app_iff in Hn. destruct Hn as [Hn|[Hn|Hn]].
  - exact (spec_lex_some_names scfg _ _ _ _ sr pl (proj1 HP) Ep n Hn).
  - exact (spec_lex_some_names scfg _ _ _ _ sr ol (proj1 HO) Eo n Hn).
  - destruct (r_ld r) eqn:El.
    + destruct (TL eq_refl) as [A B]. rewrite A, B in Hn. contradiction.
    + assert (Hne : LDLang <> LDNone) by discriminate. destruct (spec_lex scfg (r_ldk r) (r_ldv r) TNone [] sr) as [l|] eqn:Ell; [|discriminate].
      exact (spec_lex_some_names scfg _ _ _ _ sr l (proj1 (HL Hne)) Ell n Hn).
    + assert (Hne : LDDt <> LDNone) by discriminate. destruct (spec_lex scfg (r_ldk r) (r_ldv r) TIri [] sr) as [l|] eqn:Ell; [|discriminate].
      exact (spec_lex_some_names scfg _ _ _ _ sr l (proj1 (HL Hne)) Ell n Hn).
Qed.
Lemma rule_graph_opt_ext scfg r sr1 sr2 : (forall n, In n (names (segs_of (r_gk r) (r_gv r))) -> sval scfg sr1 n = sval scfg sr2 n) ->
  rule_graph_opt scfg r sr1 = rule_graph_opt scfg r sr2.
Proof.
  intro H. unfold rule_graph_opt. destruct (is_plain (r_gk r)) eqn:Eg; cbn [andb]; [|reflexivity].
  now rewrite (spec_lex_ext scfg (r_gk r) (r_gv r) TIri [] sr1 sr2 Eg H).
Qed.

Definition quoting_rule_ok (rules : list rule) (rl : rule) : Prop :=
  r_sk rl = KQuoted /\ r_sjoin rl = [] /\ r_ojoin rl = [] /\ pos_ok (r_pk rl) (r_pv rl) TIri /\ pos_ok (r_ok rl) (r_ov rl) (r_ott rl) /\
  (r_ld rl <> LDNone -> pos_ok (r_ldk rl) (r_ldv rl) TNone) /\ (r_ld rl = LDNone -> r_ldk rl = KNone /\ r_ldv rl = []) /\
  (pos_ok (r_gk rl) (r_gv rl) TIri \/ (r_gk rl = KNone /\ r_gv rl = [])) /\ tidy_graph rl /\
  exists b, find_rule rules (r_sv rl) = Some b /\ simple_rule b /\ (forall n, In n (quoted_names rl b) -> ueqb n (keep_subject_col 0) = false).

Section QuotedRows.
  Variables (scfg : scfg) (rl b : rule) (na refs : list ustr) (raws : list rawrow).
  Hypothesis Hna : s_na scfg = na.
  Hypothesis Hb : simple_rule b.
  Hypothesis HP : pos_ok (r_pk rl) (r_pv rl) TIri.
  Hypothesis HO : pos_ok (r_ok rl) (r_ov rl) (r_ott rl).
  Hypothesis HL : r_ld rl <> LDNone -> pos_ok (r_ldk rl) (r_ldv rl) TNone.
  Hypothesis TL : r_ld rl = LDNone -> r_ldk rl = KNone /\ r_ldv rl = [].
  Hypothesis HG : pos_ok (r_gk rl) (r_gv rl) TIri \/ (r_gk rl = KNone /\ r_gv rl = []).
  Hypothesis Htg : tidy_graph rl.
  Hypothesis Hrefs : forall n, In n refs <-> In n (quoted_names rl b).
  Hypothesis Hcols : forall raw n, In raw raws -> In n refs -> assoc n raw <> None.

  Let HGp : is_plain (r_gk rl) = true \/ (r_gk rl = KNone /\ r_gv rl = []).
  Proof. destruct HG as [G|G]; [left; apply G|right; exact G]. Qed.

  Lemma b_facts : rule_ok true b /\ tidy b /\ tidy_graph b /\ (is_plain (r_gk b) = true \/ (r_gk b = KNone /\ r_gv b = [])).
  Proof.
    destruct Hb as (Hok & Ht & Htgb & _). split; [exact Hok|]. split; [exact Ht|]. split; [exact Htgb|].
    destruct Hok as (_ & _ & _ & _ & G). destruct (G eq_refl) as [X|X]; [left; apply X|]. right. split; [exact X|]. apply Ht. now rewrite X.
  Qed.

  (* the parts of the two readings agree when the rows agree on the referenced columns *)
  Lemma quoted_parts_ext sr1 sr2 : (forall n, In n (quoted_names rl b) -> sval scfg sr1 n = sval scfg sr2 n) ->
    spec_parts scfg b sr1 = spec_parts scfg b sr2 /\ rule_graph_opt scfg b sr1 = rule_graph_opt scfg b sr2 /\
    spec_po scfg rl sr1 = spec_po scfg rl sr2 /\ rule_graph_opt scfg rl sr1 = rule_graph_opt scfg rl sr2.
  Proof.
    intro H. destruct b_facts as ((HSb & HPb & HOb & HLb & _) & _).
    assert (Hbn : forall n, In n (rule_names b) -> sval scfg sr1 n = sval scfg sr2 n) by (intros n Hn; apply H; unfold quoted_names; rewrite in_app_iff; tauto).
    split; [|split; [|split]].
    - unfold spec_parts. rewrite (spec_lex_ext scfg (r_sk b) (r_sv b) (r_stt b) [] sr1 sr2 (proj1 HSb)) by (intros n Hn; apply Hbn; unfold rule_names; rewrite !in_app_iff; tauto).
      rewrite (spec_po_ext scfg b sr1 sr2 HPb HOb HLb) by (intros n Hn; apply Hbn; unfold rule_names, po_names in *; rewrite !in_app_iff in *; tauto). reflexivity.
    - apply rule_graph_opt_ext. intros n Hn. apply Hbn. unfold rule_names. rewrite !in_app_iff. tauto.
    - apply (spec_po_ext scfg rl sr1 sr2 HP HO HL). intros n Hn. apply H. unfold quoted_names. rewrite !in_app_iff. tauto.
    - apply rule_graph_opt_ext. intros n Hn. apply H. unfold quoted_names. rewrite !in_app_iff. tauto.
  Qed.

  Lemma quoted_line_names sr x : doc_quoted_line scfg rl b sr = Some x -> forall n, In n (quoted_names rl b) -> sval scfg sr n <> None.
  Proof.
    intros E n Hn. destruct b_facts as ((HSb & HPb & HOb & HLb & _) & (TLb & _) & Htgb & HGb).
    unfold doc_quoted_line, doc_line_with_subject in E.
    destruct (spec_parts scfg b sr) as [[[s p] o]|] eqn:Ep; [|discriminate]. destruct (rule_graph_opt scfg b sr) as [gb|] eqn:Egb; [|discriminate].
    destruct (spec_po scfg rl sr) as [[p' o']|] eqn:Epo; [|discriminate]. destruct (rule_graph_opt scfg rl sr) as [g|] eqn:Eg; [|discriminate].
    unfold quoted_names in Hn. rewrite !in_app_iff in Hn. destruct Hn as [Hn|[Hn|Hn]].
    - unfold spec_parts in Ep. destruct (spec_lex scfg (r_sk b) (r_sv b) (r_stt b) [] sr) as [sl|] eqn:Es; [|discriminate].
      destruct (spec_po scfg b sr) as [[pb ob]|] eqn:Epb; [|discriminate].
      unfold rule_names in Hn. rewrite !in_app_iff in Hn. destruct Hn as [Hn|[Hn|[Hn|[Hn|Hn]]]].
      + exact (spec_lex_some_names scfg _ _ _ _ sr sl (proj1 HSb) Es n Hn).
      + apply (spec_po_some_names scfg b sr _ HPb HOb HLb TLb Epb). unfold po_names. rewrite !in_app_iff. tauto.
      + apply (spec_po_some_names scfg b sr _ HPb HOb HLb TLb Epb). unfold po_names. rewrite !in_app_iff. tauto.
      + apply (spec_po_some_names scfg b sr _ HPb HOb HLb TLb Epb). unfold po_names. rewrite !in_app_iff. tauto.
      + exact (graph_names_some scfg b HGb Htgb sr gb Egb n Hn).
    - exact (spec_po_some_names scfg rl sr _ HP HO HL TL Epo n Hn).
    - exact (graph_names_some scfg rl HGp Htg sr g Eg n Hn).
  Qed.

  Lemma quoted_kept_lines raw x : In raw raws -> raw_has_null refs raw = false -> row_has_null na refs (str_row raw) = false ->
    (spec_quoted_line scfg rl b (srow_of (null_to_text na (str_row raw))) = Some x <-> doc_quoted_line scfg rl b (srow_of_raw raw) = Some x).
  Proof.
    intros Hin C1 C2. set (c := srow_of (null_to_text na (str_row raw))).
    assert (Ag : forall n, In n (quoted_names rl b) -> sval scfg c n = sval scfg (srow_of_raw raw) n).
    { intros n Hn. apply (kept_sval_rget scfg na refs raw n Hna C1 C2). now apply Hrefs. }
    destruct (quoted_parts_ext c (srow_of_raw raw) Ag) as (E1 & E2 & E3 & E4).
    assert (Some_all : forall n, In n (quoted_names rl b) -> sval scfg (srow_of_raw raw) n <> None).
    { intros n Hn. assert (Hn' : In n refs) by now apply Hrefs. destruct (kept_sval_rget scfg na refs raw n Hna C1 C2 Hn') as [E _]. rewrite sval_raw.
      destruct (assoc n raw) as [cl|] eqn:Ec; [|exfalso; exact (Hcols raw n Hin Hn' Ec)].
      assert (N1 : cl <> CNone /\ cl <> CNaN).
      { split; intro X; subst cl; assert (Y : raw_has_null refs raw = true) by (apply raw_has_null_iff; exists n; auto); congruence. }
      assert (N2 : mem (py_str cl) (s_na scfg) = false).
      { destruct (mem (py_str cl) (s_na scfg)) eqn:X; auto. exfalso.
        assert (Y : row_has_null na refs (str_row raw) = true)
          by (apply row_has_null_iff; exists n, (py_str cl); repeat split; auto; [rewrite ReadersP.assoc_str_row, Ec; reflexivity|rewrite <- Hna; now apply mem_In]). congruence. }
      rewrite N2. destruct cl; try discriminate; now destruct N1. }
    destruct b_facts as (_ & _ & _ & _).
    assert (Tb : rule_graph_opt scfg b (srow_of_raw raw) <> None).
    { apply (graph_opt_total scfg b). intros n Hn. apply Some_all. unfold quoted_names, rule_names. rewrite !in_app_iff. tauto. }
    assert (Tr : rule_graph_opt scfg rl (srow_of_raw raw) <> None).
    { apply (graph_opt_total scfg rl). intros n Hn. apply Some_all. unfold quoted_names. rewrite !in_app_iff. tauto. }
    unfold spec_quoted_line, doc_quoted_line, doc_line_with_subject, spec_graph_line. rewrite E1, E3.
    destruct (spec_parts scfg b (srow_of_raw raw)) as [[[s p] o]|]; [|tauto].
    destruct (rule_graph_opt scfg b (srow_of_raw raw)) as [gb|]; [|now contradiction Tb].
    destruct (spec_po scfg rl (srow_of_raw raw)) as [[p' o']|]; [|tauto].
    fold (rule_graph_opt scfg rl c). rewrite E4.
    destruct (rule_graph_opt scfg rl (srow_of_raw raw)) as [g|]; [|now contradiction Tr].
    destruct (s_nquads scfg); tauto.
  Qed.

  Theorem quoted_frame_rows_are_delivered_rows x :
    (exists r, In r (preprocess na refs raws) /\ spec_quoted_line scfg rl b (srow_of r) = Some x) <->
    (exists raw, In raw raws /\ doc_quoted_line scfg rl b (srow_of_raw raw) = Some x).
  Proof.
    split.
    - intros (r & Hr & Hx). apply preprocess_in in Hr as (raw & Hraw & H1 & H2 & ->). exists raw. split; auto. now apply (quoted_kept_lines raw x Hraw H1 H2).
    - intros (raw & Hraw & Hx).
      assert (All : forall n, In n refs -> sval scfg (srow_of_raw raw) n <> None) by (intros n Hn; apply (quoted_line_names _ x Hx); now apply Hrefs).
      destruct (survive_of_some scfg na refs raw Hna All) as [H1 H2].
      exists (null_to_text na (str_row raw)). split; [apply preprocess_in; exists raw; auto|]. now apply (quoted_kept_lines raw x Hraw H1 H2).
  Qed.
End QuotedRows.

Lemma quoted_branch_plain {A} k (F : list (ustr * ustr) -> list A) j : is_plain k = true ->
  (match k with KQuoted => F | _ => fun _ => [] end) j = [].
Proof. destruct k; try discriminate; reflexivity. Qed.

(* the columns a quoting rule reads: those of the quoted rule and its own *)
Lemma quoted_refs_in fe rules rl : In rl rules -> quoting_rule_ok rules rl ->
  forall b, find_rule rules (r_sv rl) = Some b -> forall n, In n (quoted_refs fe rules rl) <-> In n (quoted_names rl b).
Proof.
  intros Hin (Hk & Hsj & Hoj & HP & HO & HL & TL & HG & _ & (b' & Hf' & Hsb & _)) b Hf n. rewrite Hf in Hf'. injection Hf' as <-.
  unfold quoted_refs. rewrite mem_dedup, !app_nil_r. unfold refs_fuel.
  assert (Hlen : exists f, length rules = S f) by (destruct rules; [contradiction|simpl; eauto]). destruct Hlen as (f & Hlen).
  cbn [rule_refs]. rewrite Hk, Hsj, Hoj, Hf. cbn [pos_refs joins_child map app].
  rewrite (quoted_branch_plain (r_ok rl)) by apply HO. rewrite !app_nil_r, Hlen.
  destruct Hsb as ((HSb & HPb & HOb & HLb & HGb) & (TLb & TGb) & _ & Hpl & Hsjb & Hojb).
  unfold plain_rule in Hpl. rewrite !andb_true_iff, !negb_true_iff in Hpl. destruct Hpl as [[[_ Q2] Q3] _].
  rewrite (rule_refs_plain _ _ _ b Q2 Q3), Hsjb, Hojb. cbn [joins_child map app]. rewrite !app_nil_r.
  rewrite (pos_refs_names _ (r_sk b) (r_sv b)) by (left; split; apply HSb).
  rewrite (pos_refs_names _ (r_pk b) (r_pv b)) by (left; split; apply HPb).
  rewrite (pos_refs_names _ (r_ok b) (r_ov b)) by (left; split; apply HOb).
  rewrite (pos_refs_names _ (r_gk b) (r_gv b)) by (destruct (HGb eq_refl) as [G|G]; [left; split; apply G|]; right; split; auto; apply TGb; now rewrite G).
  rewrite (pos_refs_names _ (r_ldk b) (r_ldv b)) by (destruct (r_ld b) eqn:E; [right; now apply TLb|left; split; apply HLb; discriminate|left; split; apply HLb; discriminate]).
  rewrite (pos_refs_names _ (r_pk rl) (r_pv rl)) by (left; split; apply HP).
  rewrite (pos_refs_names _ (r_ok rl) (r_ov rl)) by (left; split; apply HO).
  rewrite (pos_refs_names _ (r_gk rl) (r_gv rl)) by (destruct HG as [G|G]; [left; split; apply G|now right]).
  rewrite (pos_refs_names _ (r_ldk rl) (r_ldv rl)) by (destruct (r_ld rl) eqn:E; [right; now apply TL|left; split; apply HL; discriminate|left; split; apply HL; discriminate]).
  unfold quoted_names, rule_names, po_names. rewrite !in_app_iff. tauto.
Qed.

Section FinalQuoted.
  Variables (cfg : ecfg) (fe : fenv) (scfg : scfg) (raw : ustr -> list rawrow).
  Hypothesis Hcfg : cfg_agree cfg scfg.
  Hypothesis Hnq : c_nquads cfg = s_nquads scfg.
  Hypothesis Hna : s_na scfg = c_na cfg.

  Theorem engine_document_is_spec_document_quoted d0 rules l :
    quoted_doc d0 = true -> normalise d0 = Ok rules -> nodupb (map r_id rules) = true ->
    (forall rl, In rl rules -> simple_rule rl \/ quoting_rule_ok rules rl) ->
    (forall rl rw n, In rl rules -> In rw (raw (r_src rl)) -> In n (rule_ref_set fe rules rl) -> assoc n rw <> None) ->
    materialize_rules cfg fe rules (delivered cfg raw) = Ok l ->
    forall x, In x l <-> In x (spec_lines scfg fe d0 (spec_tables raw)).
  Proof.
    intros Hqd Hn Hnr Hrules Hcols Hm x.
    rewrite (asserted_exactly cfg fe rules (delivered cfg raw) l Hm x).
    rewrite (doc_spec_is_rule_spec_quoted scfg fe (spec_tables raw) d0 rules Hqd Hn Hnr x).
    assert (Plain : forall rl ls, In rl rules -> simple_rule rl -> rule_triples cfg fe rules (delivered cfg raw) rl = Ok ls ->
              forall y, In y ls <-> exists rw, In rw (raw (r_src rl)) /\ doc_rule_line scfg rl (srow_of_raw rw) = Some y).
    { intros rl ls Hrl Hs Hls y. pose proof Hs as Hs0. destruct Hs as (Hok & Ht & Htg & Hplain & Hsj & Hoj).
      assert (Hok' : rule_ok (c_nquads cfg) rl) by now apply rule_ok_any.
      set (refs := rule_ref_set fe rules rl).
      assert (Hrefs : forall n, In n refs <-> In n (rule_names rl)) by (apply rule_ref_set_names; exact Hs0).
      destruct (plain_rule_is_spec cfg fe rules (delivered cfg raw) scfg Hcfg Hnq rl (c_na cfg) refs (raw (r_src rl)) Hna Hplain Hok'
                  (fun n Hn0 => proj2 (Hrefs n) Hn0) eq_refl) as [H1 _].
      rewrite (H1 ls Hls y). apply (frame_rows_are_delivered_rows scfg rl (c_na cfg) refs (raw (r_src rl)) Hna Hs0 Hrefs).
      intros rw n Hrw Hn0. exact (Hcols rl rw n Hrl Hrw Hn0). }
    assert (Quoted : forall rl ls, In rl rules -> quoting_rule_ok rules rl -> rule_triples cfg fe rules (delivered cfg raw) rl = Ok ls ->
              exists b, find_rule rules (r_sv rl) = Some b /\
              forall y, In y ls <-> exists rw, In rw (raw (r_src rl)) /\ doc_quoted_line scfg rl b (srow_of_raw rw) = Some y).
    { intros rl ls Hrl Hq Hls. pose proof Hq as Hq0.
      destruct Hq as (Hk & Hsj & Hoj & HP & HO & HL & TL & HG & Htg & (b & Hf & Hsb & Hkeep)). exists b. split; [exact Hf|]. intro y.
      set (refs := quoted_refs fe rules rl).
      assert (Hrefs : forall n, In n refs <-> In n (quoted_names rl b)) by (apply (quoted_refs_in fe rules rl Hrl Hq0 b Hf)).
      assert (Hoq : mkind_eqb (r_ok rl) KQuoted = false) by (destruct HO as [X _]; now destruct (r_ok rl)).
      destruct Hsb as (Hokb & Htb & Htgb & Hplb & Hsjb & Hojb).
      assert (Hfree : names_free (quoted_names rl b)).
      { intros n Hn1. unfold quoted_names in Hn1. rewrite !in_app_iff in Hn1. destruct Hokb as (HSb & HPb & HOb & HLb & HGb). destruct Htb as [TLb TGb].
        destruct Hn1 as [Hn1|[Hn1|Hn1]].
        - unfold rule_names in Hn1. rewrite !in_app_iff in Hn1. destruct Hn1 as [Hn1|[Hn1|[Hn1|[Hn1|Hn1]]]].
          + now apply HSb. + now apply HPb. + now apply HOb.
          + destruct (r_ld b) eqn:E; [destruct (TLb eq_refl) as [A B]; rewrite A, B in Hn1; contradiction|apply (HLb ltac:(discriminate)); exact Hn1|apply (HLb ltac:(discriminate)); exact Hn1].
          + destruct (HGb eq_refl) as [G|G]; [now apply G|]. assert (X : r_gv b = []) by (apply TGb; now rewrite G). rewrite G, X in Hn1. contradiction.
        - unfold po_names in Hn1. rewrite !in_app_iff in Hn1. destruct Hn1 as [Hn1|[Hn1|Hn1]]; [now apply HP|now apply HO|].
          destruct (r_ld rl) eqn:E; [destruct (TL eq_refl) as [A B]; rewrite A, B in Hn1; contradiction|apply (HL ltac:(discriminate)); exact Hn1|apply (HL ltac:(discriminate)); exact Hn1].
        - destruct HG as [G|[A B]]; [now apply G|rewrite A, B in Hn1; contradiction]. }
      assert (HGk : graph_ok (c_nquads cfg) rl) by (intros _; destruct HG as [G|[G _]]; [now left|now right]).
      destruct (quoted_rule_is_spec cfg fe rules (delivered cfg raw) scfg Hcfg Hnq rl b Hk Hsj Hoq Hf Hplb (rule_ok_any false b Hokb) HP HO HL HGk Hkeep Hfree
                  (c_na cfg) refs (raw (r_src rl)) Hna (fun n Hn0 => proj2 (Hrefs n) Hn0) eq_refl) as [H1 _].
      rewrite (H1 ls Hls y).
      apply (quoted_frame_rows_are_delivered_rows scfg rl b (c_na cfg) refs (raw (r_src rl)) Hna (conj Hokb (conj Htb (conj Htgb (conj Hplb (conj Hsjb Hojb))))) HP HO HL TL HG Htg Hrefs).
      intros rw n Hrw Hn0. exact (Hcols rl rw n Hrl Hrw Hn0). }
    assert (All : forall rl, In rl rules -> r_asserted rl = true -> exists ls, rule_triples cfg fe rules (delivered cfg raw) rl = Ok ls).
    { intros rl Hrl Ha. unfold materialize_rules in Hm. destruct (rmap_all _ (filter r_asserted rules)) as [lss|e] eqn:E; [|discriminate].
      apply rmap_all_ok in E. assert (X : In rl (filter r_asserted rules)) by (apply filter_In; auto).
      destruct (Forall2_in_l _ _ _ _ E X) as (ls & _ & Hls). eauto. }
    assert (Kind : forall rl, simple_rule rl -> r_sk rl <> KQuoted).
    { intros rl (_ & _ & _ & Hp & _) E. unfold plain_rule in Hp. rewrite E in Hp. cbn [mkind_eqb negb] in Hp. now rewrite !andb_false_r in Hp. }
    split.
    - intros (rl & ls & Hrl & Ha & Hls & Hx). destruct (Hrules rl Hrl) as [Hs|Hq].
      + left. apply (Plain rl ls Hrl Hs Hls) in Hx as (rw & Hrw & Hline). exists rl, (srow_of_raw rw). split; [exact Hrl|]. split; [exact Ha|]. split; [now apply Kind|].
        split; [unfold spec_tables; now apply in_map|exact Hline].
      + right. destruct (Quoted rl ls Hrl Hq Hls) as (b & Hf & Hiff). apply Hiff in Hx as (rw & Hrw & Hline).
        exists rl, b, (srow_of_raw rw). split; [exact Hrl|]. split; [exact Ha|]. split; [apply Hq|]. split; [exact Hf|]. split; [unfold spec_tables; now apply in_map|exact Hline].
    - intros [(rl & sr & Hrl & Ha & Hnk & Hsr & Hline)|(rl & b & sr & Hrl & Ha & Hk & Hfb & Hsr & Hline)].
      + destruct (Hrules rl Hrl) as [Hs|Hq]; [|exfalso; apply Hnk; apply Hq].
        unfold spec_tables in Hsr. apply in_map_iff in Hsr as (rw & <- & Hrw).
        destruct (All rl Hrl Ha) as (ls & Hls). exists rl, ls. repeat split; auto. apply (Plain rl ls Hrl Hs Hls). eauto.
      + destruct (Hrules rl Hrl) as [Hs|Hq]; [exfalso; now apply (Kind rl Hs)|].
        unfold spec_tables in Hsr. apply in_map_iff in Hsr as (rw & <- & Hrw).
        destruct (All rl Hrl Ha) as (ls & Hls). exists rl, ls. repeat split; auto.
        destruct (Quoted rl ls Hrl Hq Hls) as (b' & Hf' & Hiff). rewrite Hfb in Hf'. injection Hf' as <-. apply Hiff. eauto.
  Qed.
End FinalQuoted.

(* ---------------------------------------------------------------- the hypotheses are decidable *)
Lemma quoting_ruleb_ok rules rl : quoting_ruleb rules rl = true -> quoting_rule_ok rules rl.
Proof.
  unfold quoting_ruleb, quoting_rule_ok. rewrite !andb_true_iff. intros [[[[[[[A B] C] D] E] F] G] H].
  split; [now apply mkind_eqb_eq|]. split; [destruct (r_sjoin rl); [reflexivity|discriminate]|]. split; [destruct (r_ojoin rl); [reflexivity|discriminate]|].
  split; [now apply pos_okb_ok|]. split; [now apply pos_okb_ok|].
  split. { intro Hne. destruct (r_ld rl); [contradiction| |]; now apply pos_okb_ok. }
  split. { intro El. rewrite El in F. apply andb_true_iff in F as [F1 F2]. split; [now apply mkind_eqb_eq|now apply ueqb_eq]. }
  split. { destruct (is_plain (r_gk rl)); apply andb_true_iff in G as [G1 G2]; [left; now apply pos_okb_ok|right; split; [now apply mkind_eqb_eq|now apply ueqb_eq]]. }
  split. { unfold tidy_graph. intros Hg Hd. rewrite Hg in G. apply andb_true_iff in G as [_ G2]. rewrite Hd in G2. cbn [negb orb] in G2. now apply mkind_eqb_eq. }
  destruct (find_rule rules (r_sv rl)) as [b|]; [|discriminate]. exists b. apply andb_true_iff in H as [H1 H2].
  split; [reflexivity|]. split; [now apply simple_ruleb_ok|].
  intros n Hn. rewrite forallb_forall in H2. assert (X : In n (rule_names_of b ++ rule_names_of rl)).
  { unfold quoted_names, rule_names, po_names in Hn. unfold rule_names_of. rewrite !in_app_iff in *. tauto. }
  specialize (H2 n X). now apply negb_true_iff in H2.
Qed.
Theorem theorem_applies_quoted_ok d0 : theorem_applies_quoted d0 = true ->
  quoted_doc d0 = true /\ exists rules, normalise d0 = Ok rules /\ nodupb (map r_id rules) = true /\ forall rl, In rl rules -> simple_rule rl \/ quoting_rule_ok rules rl.
Proof.
  unfold theorem_applies_quoted. rewrite andb_true_iff. intros [A D]. split; [exact A|].
  destruct (normalise d0) as [rules|e]; [|discriminate]. exists rules. apply andb_true_iff in D as [D1 D2]. split; [reflexivity|]. split; [exact D1|].
  intros rl Hrl. rewrite forallb_forall in D2. specialize (D2 rl Hrl). apply orb_true_iff in D2 as [D2|D2]; [left; now apply simple_ruleb_ok|right; now apply quoting_ruleb_ok].
Qed.
