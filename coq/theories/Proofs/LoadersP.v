(* C18: joining the statements with ".\n" neither merges nor splits them. *)
From Coq Require Import String Lia.
From Morph Require Import Base.UStr Model.Terms Model.NQuads Model.Loaders.
Local Open Scope N_scope.

Lemma split1_absent c a : forall cur, memN c a = false -> split_aux [c] a 0 cur = [rev cur ++ a].
Proof.
  induction a as [|x a IH]; intros cur H; simpl; [now rewrite app_nil_r|].
  unfold memN in H. simpl in H. apply orb_false_iff in H as [H1 H2].
  rewrite H1. simpl. rewrite (IH (x :: cur) H2). simpl. now rewrite <- app_assoc.
Qed.
Lemma split1_first c a b : forall cur, memN c a = false -> split_aux [c] (a ++ c :: b) 0 cur = (rev cur ++ a) :: split_aux [c] b 0 [].
Proof.
  induction a as [|x a IH]; intros cur H; simpl.
  - rewrite N.eqb_refl. simpl. now rewrite app_nil_r.
  - unfold memN in H. simpl in H. apply orb_false_iff in H as [H1 H2].
    rewrite H1. simpl. rewrite (IH (x :: cur) H2). simpl. now rewrite <- app_assoc.
Qed.
Lemma memN_app c a b : memN c (a ++ b) = memN c a || memN c b.
Proof. unfold memN. apply existsb_app. Qed.

Theorem split_serialise S : S <> [] -> Forall (fun l => memN 10 l = false) S ->
  split_doc (serialise S) = map (fun l => l ++ [46]) S.
Proof.
  unfold split_doc, serialise, split_on. induction S as [|l S IH]; intros Hne HF; [congruence|].
  inversion HF as [|? ? Hl HS]; subst. destruct S as [|l2 S'].
  - simpl. rewrite split1_absent; [reflexivity|]. rewrite memN_app, Hl. reflexivity.
  - change (join [46; 10] (l :: l2 :: S')) with (l ++ [46; 10] ++ join [46; 10] (l2 :: S')).
    replace ((l ++ [46; 10] ++ join [46; 10] (l2 :: S')) ++ [46]) with ((l ++ [46]) ++ 10 :: (join [46; 10] (l2 :: S') ++ [46]))
      by (rewrite <- !app_assoc; reflexivity).
    rewrite split1_first by (rewrite memN_app, Hl; reflexivity). simpl rev. simpl app at 1.
    change (map (fun l0 : list N => l0 ++ [46]) (l :: l2 :: S')) with ((l ++ [46]) :: map (fun l0 : list N => l0 ++ [46]) (l2 :: S')). f_equal. apply IH; [discriminate|assumption].
Qed.
(* hence loading parses exactly one statement per element of the set, each from its own text *)
Corollary load_is_per_statement S : S <> [] -> Forall (fun l => memN 10 l = false) S ->
  load S = map (fun l => parse_line (l ++ [46])) S.
Proof. intros Hne HF. unfold load. destruct S; [congruence|]. rewrite split_serialise by auto. now rewrite map_map. Qed.
Lemma load_empty : load [] = [].
Proof. reflexivity. Qed.
