From Coq Require Import Lia.
From Morph Require Import Base.UStr Model.SqlTypes.
Local Open Scope N_scope.

Lemma prefixb_app_notin c : forall k a b, ~ In c k -> prefixb k (a ++ c :: b) = prefixb k a.
Proof.
  induction k as [|y k IH]; intros a b Hn; [destruct a; reflexivity|].
  destruct a as [|x a]; simpl.
  - destruct (N.eqb_spec y c) as [->|]; [exfalso; apply Hn; left; reflexivity|reflexivity].
  - rewrite IH; [reflexivity|]. intro H; apply Hn; right; exact H.
Qed.

Lemma contains_nil_r k : k <> [] -> contains k [] = false.
Proof. destruct k; [congruence|reflexivity]. Qed.

Lemma contains_split c k : k <> [] -> ~ In c k -> forall a b, contains k (a ++ c :: b) = contains k a || contains k b.
Proof.
  intros Hk Hn. induction a as [|x a IH]; intros b.
  - simpl app. rewrite contains_nil_r by exact Hk. simpl.
    destruct k as [|y k]; [congruence|]. simpl.
    destruct (N.eqb_spec y c) as [->|]; [exfalso; apply Hn; left; reflexivity|reflexivity].
  - change ((x :: a) ++ c :: b) with (x :: (a ++ c :: b)).
    cbn [contains]. rewrite IH.
    change (x :: a ++ c :: b) with ((x :: a) ++ c :: b). rewrite prefixb_app_notin by exact Hn.
    rewrite orb_assoc. reflexivity.
Qed.

Lemma prefixb_In : forall k b, prefixb k b = true -> forall x, In x k -> In x b.
Proof.
  induction k as [|y k IH]; intros b H x Hx; [destruct Hx|].
  destruct b as [|z b]; [discriminate|]. simpl in H. apply andb_true_iff in H as [E H]. apply N.eqb_eq in E; subst z.
  destruct Hx as [->|Hx]; [left; reflexivity|right; eapply IH; eauto].
Qed.

Lemma contains_absent x k : In x k -> forall b, ~ In x b -> contains k b = false.
Proof.
  intros Hx. induction b as [|z b IH]; intros Hn.
  - destruct k; [destruct Hx|reflexivity].
  - cbn [contains]. rewrite IH by (intro; apply Hn; right; assumption).
    destruct (prefixb k (z :: b)) eqn:E; [|reflexivity]. exfalso. apply Hn. eapply prefixb_In; eauto.
Qed.

(* characters that may occur between the parentheses of a parameterised type name *)
Definition arg_char (c : N) : bool := is_digit c || (c =? 44) || (c =? 32).
Definition is_upper_letter (c : N) : bool := (65 <=? c) && (c <=? 90).
Definition key_ok (k : ustr) : bool :=
  existsb is_upper_letter k && negb (existsb (N.eqb 40) k).

Lemma upper_app a b : upper (a ++ b) = upper a ++ upper b.
Proof. unfold upper. apply map_app. Qed.
Lemma upper_args args : forallb arg_char args = true -> upper args = args.
Proof.
  induction args as [|c r IH]; intros H; [reflexivity|]. simpl in H. apply andb_true_iff in H as [Hc Hr].
  simpl. rewrite IH by exact Hr. f_equal. unfold up1.
  destruct ((97 <=? c) && (c <=? 122)) eqn:E; [|reflexivity]. exfalso.
  apply andb_true_iff in E as [E1 E2]. apply N.leb_le in E1, E2.
  unfold arg_char, is_digit in Hc.
  apply orb_true_iff in Hc as [Hc|Hc]; [apply orb_true_iff in Hc as [Hc|Hc]|].
  - apply andb_true_iff in Hc as [_ H2]. apply N.leb_le in H2. lia.
  - apply N.eqb_eq in Hc. lia.
  - apply N.eqb_eq in Hc. lia.
Qed.

Lemma key_contains_params k T args :
  key_ok k = true -> forallb arg_char args = true ->
  contains k (T ++ 40 :: args ++ [41]) = contains k T.
Proof.
  intros Hk Ha. unfold key_ok in Hk. apply andb_true_iff in Hk as [Hl Hp].
  apply existsb_exists in Hl as (x & Hx & Hux).
  assert (Hne : k <> []) by (intro; subst; destruct Hx).
  assert (Hn40 : ~ In 40 k).
  { intro H. apply negb_true_iff in Hp. assert (existsb (N.eqb 40) k = true); [|congruence].
    apply existsb_exists. exists 40. split; [exact H|apply N.eqb_refl]. }
  rewrite contains_split by assumption.
  rewrite (contains_absent x k Hx (args ++ [41])); [apply orb_false_r|].
  unfold is_upper_letter in Hux. apply andb_true_iff in Hux as [U1 U2]. apply N.leb_le in U1, U2.
  intro Hin. apply in_app_or in Hin as [Hin|[Hin|[]]]; [|lia].
  rewrite forallb_forall in Ha. specialize (Ha x Hin). unfold arg_char, is_digit in Ha.
  apply orb_true_iff in Ha as [Ha|Ha]; [apply orb_true_iff in Ha as [Ha|Ha]|].
  - apply andb_true_iff in Ha as [_ H2]. apply N.leb_le in H2. lia.
  - apply N.eqb_eq in Ha. lia.
  - apply N.eqb_eq in Ha. lia.
Qed.

Lemma find_ext {A} (f g : A -> bool) l : (forall x, In x l -> f x = g x) -> find f l = find g l.
Proof.
  induction l as [|a l IH]; intros H; [reflexivity|]. simpl.
  rewrite (H a (or_introl eq_refl)). destruct (g a); [reflexivity|]. apply IH. intros x Hx. apply H. right; exact Hx.
Qed.

Theorem params_irrelevant_gen tbl t args :
  forallb key_ok (map fst tbl) = true -> forallb arg_char args = true ->
  lookup_in_order tbl (t ++ 40 :: args ++ [41]) = lookup_in_order tbl t.
Proof.
  intros Hk Ha. unfold lookup_in_order. f_equal. apply find_ext. intros [k v] Hin. simpl.
  rewrite upper_app. change (upper (40 :: args ++ [41])) with (up1 40 :: upper (args ++ [41])).
  rewrite upper_app, (upper_args args Ha). change (up1 40) with 40. change (upper [41]) with [41].
  apply key_contains_params; [|exact Ha].
  rewrite forallb_forall in Hk. apply Hk. apply in_map_iff. exists (k, v). split; [reflexivity|exact Hin].
Qed.

(* the inference guard *)
Lemma explicit_wins_l e r l o d c : inferred_datatype e r l true o (Some d) c = Some d.
Proof. unfold inferred_datatype, infer_applies. rewrite !andb_false_r; reflexivity || (destruct e, r, l; reflexivity). Qed.
Lemma inference_off r l h o x c : inferred_datatype false r l h o x c = x.
Proof. reflexivity. Qed.
Lemma not_rdb e l h o x c : inferred_datatype e false l h o x c = x.
Proof. destruct e; reflexivity. Qed.
Lemma inference_on_reference c : inferred_datatype true true true false true None c = c.
Proof. destruct c; reflexivity. Qed.
