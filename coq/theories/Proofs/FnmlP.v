(* C14: a function execution whose inputs are constants, references and templates yields, for a row, exactly the
   results of the function applied to that row's argument values: nothing for a null result, one value per element of
   a list result. *)
From Coq Require Import String Lia.
From Morph Require Import Base.UStr Gen.Tables Model.Terms Model.Data Model.Engine Model.Mapping Model.Spec
     Proofs.DataP Proofs.UStrP Proofs.SplitP Proofs.TemplateP Proofs.TermP.
Local Open Scope N_scope.

Lemma rset_rset_same k v v0 r : rset k v (rset k v0 r) = rset k v r.
Proof.
  induction r as [|[k' v'] r IH]; simpl; [now rewrite ueqb_refl|].
  destruct (ueqb k k') eqn:E; simpl; [now rewrite ueqb_refl|]. now rewrite E, IH.
Qed.

(* _materialize_fnml_template is the template loop without value transformation, on its own working column *)
Definition raw_cfg : ecfg := {| c_nquads := false; c_printable := false; c_safe := []; c_na := [] |}.
Lemma fnml_loop_is_template_loop refs : forall t r,
  fnml_template_loop refs t r = template_loop raw_cfg KTempl TNone [] [] col_aux_fnml refs t r.
Proof.
  induction refs as [|n refs IH]; intros t r; cbn [fnml_template_loop template_loop app]; auto.
  destruct (rget n r) as [v|]; auto. cbn [transform_value raw_cfg c_printable rbind]. rewrite rset_rset_same. apply IH.
Qed.

Lemma esubst_ext f g segs : (forall n, f n = g n) -> esubst f segs = esubst g segs.
Proof. intro H. induction segs as [|[c|n] l IH]; simpl; auto; [now rewrite IH|now rewrite H, IH]. Qed.
Definition raw_val (r : row) (n : ustr) : result ustr := match rget n r with Some v => Ok v | None => Err EKey end.
Definition fn_free (ns : list ustr) : Prop := forall n, In n ns -> ueqb n col_aux_fnml = false /\ ueqb n col_refres = false.

Lemma fnml_template_spec segs r : wf segs = true -> fn_free (names segs) ->
  match fnml_template (flat segs) r with
  | Ok (v, r') => esubst (raw_val r) segs = Ok v /\
                  (forall c, ueqb c col_aux_fnml = false -> ueqb c col_refres = false -> rget c r' = rget c r)
  | Err e => esubst (raw_val r) segs = Err e
  end.
Proof.
  intros Hwf Hfree. unfold fnml_template. rewrite refs_in_template_flat, unescape_flat, fnml_loop_is_template_loop by auto.
  assert (Hns : no_shadow [] col_aux_fnml (names segs)) by (intros n Hn; cbn [app]; now apply Hfree).
  pose proof (template_loop_spec raw_cfg KTempl TNone [] [] col_aux_fnml eq_refl segs [] (rset col_aux_fnml [] r) [] r Hwf eq_refl
                (rget_rset_same _ _ _) Hns) as H. cbn [app] in H.
  assert (Hag : forall n, In n (names segs) -> rget n (rset col_aux_fnml [] r) = rget n r).
  { intros n Hn. destruct (Hfree n Hn). now rewrite rget_rset_other. }
  specialize (H Hag).
  assert (Ev : forall n, val_of raw_cfg KTempl TNone [] [] r n = raw_val r n) by (intro n; unfold val_of, raw_val; cbn [app]; now destruct (rget n r)).
  rewrite (esubst_ext _ _ segs Ev) in H.
  destruct (template_loop raw_cfg KTempl TNone [] [] col_aux_fnml (names segs) (flat segs) (rset col_aux_fnml [] r)) as [[rest r1]|e]; cbn [rbind]; auto.
  destruct H as (w & cur & E & Hc1 & Hc2 & Hc3). rewrite Hc1, Hc2. simpl. split; auto.
  intros c C1 C2. rewrite rget_rset_other, Hc3 by auto. now apply rget_rset_other.
Qed.

(* ---------------------------------------------------------------- argument binding *)
Definition sbound (scfg : scfg) (rec : ustr -> srow -> option (list ustr)) (rows : list fexec) (e0 : fexec) (sr : srow)
           (ps : list (ustr * ustr)) : list (ustr * option (list ustr)) :=
  flat_map (fun np =>
    match filter (fun e => ueqb (fe_param e) (snd np)) rows with
    | [] => []
    | l => let e := last l e0 in
           [(fst np, match fe_kind e with
                     | KConst => Some [fe_value e]
                     | KRef => match sval scfg sr (fe_value e) with Some x => Some [x] | None => Some [] end
                     | KTempl => match subst (fun n => sval scfg sr n) (parse_template (fe_value e)) with Some x => Some [x] | None => Some [] end
                     | KExec => rec (fe_value e) sr
                     | _ => Some []
                     end)]
    end) ps.
Definition apply_combos (scfg : scfg) (fe : fenv) (fn : ustr) (combos : list (list (ustr * ustr))) : option (list ustr) :=
  fold_right (fun args acc =>
    match acc, fn_apply fe fn args with
    | None, _ => None
    | _, FRaise => None
    | _, FUnmod => None
    | Some l, FNull => Some l
    | Some l, FStr s0 => if mem s0 (s_na scfg) then Some l else Some (s0 :: l)
    | Some l, FList xs => Some (xs ++ l)
    end) (Some []) combos.
Lemma spec_eval_unfold scfg fe f eid sr :
  spec_eval scfg fe (S f) eid sr =
  match exec_rows_of (fn_table fe) eid with
  | [] => None
  | e0 :: rest =>
      match fn_params fe (fe_fun e0) with
      | None => None
      | Some ps =>
          let bound := sbound scfg (spec_eval scfg fe f) (e0 :: rest) e0 sr ps in
          if existsb (fun nv => match snd nv with None => true | _ => false end) bound then None else
          apply_combos scfg fe (fe_fun e0) (cart (map (fun nv => (fst nv, match snd nv with Some l => l | None => [] end)) bound))
      end
  end.
Proof. cbn [spec_eval]. destruct (exec_rows_of (fn_table fe) eid); reflexivity. Qed.

Lemma last_default_irrelevant {A} (l : list A) d d' : l <> [] -> last l d = last l d'.
Proof. induction l as [|x l IH]; [contradiction|]. intros _. destruct l; auto. simpl in *. apply IH. discriminate. Qed.
Lemma cart_singletons args : cart (map (fun nx : ustr * ustr => (fst nx, [snd nx])) args) = [args].
Proof. induction args as [|[n x] l IH]; simpl; auto. rewrite IH. reflexivity. Qed.

(* an execution whose inputs are constants, references and well-formed templates over columns that are present *)
Definition input_names (e : fexec) : list ustr :=
  match fe_kind e with KRef => [fe_value e] | KTempl => names (parse_template (fe_value e)) | _ => [] end.
Definition input_ok (e : fexec) : Prop :=
  match fe_kind e with
  | KConst | KRef => True
  | KTempl => term_wf KTempl (fe_value e) = true
  | _ => False
  end.

Section Bind.
  Variables (scfg : scfg) (rec : ustr -> srow -> option (list ustr)) (rows : list fexec) (e0 : fexec) (sr : srow) (r : row).
  Hypothesis Hok : forall e, In e rows -> input_ok e.
  Hypothesis Hfree : forall e, In e rows -> fn_free (input_names e).
  (* every referenced column holds a value in this row, and both layers read the same one *)
  Hypothesis Hval : forall e n, In e rows -> In n (input_names e) -> exists x, rget n r = Some x /\ sval scfg sr n = Some x.
  Definition agree (r1 : row) : Prop := forall c, ueqb c col_aux_fnml = false -> ueqb c col_refres = false -> rget c r1 = rget c r.

  Lemma esubst_total segs r1 : agree r1 -> (forall n, In n (names segs) -> (ueqb n col_aux_fnml = false /\ ueqb n col_refres = false) /\ exists x, rget n r = Some x /\ sval scfg sr n = Some x) ->
    exists w, esubst (raw_val r1) segs = Ok w /\ subst (fun n => sval scfg sr n) segs = Some w.
  Proof.
    intros Ha. induction segs as [|[c|n] l IH]; intro H; cbn [esubst subst names] in *.
    - eauto.
    - destruct (IH H) as (w & E1 & E2). rewrite E1, E2. simpl. eauto.
    - destruct (H n (or_introl eq_refl)) as ([F1 F2] & x & Gx & Sx). destruct IH as (w & E1 & E2); [intros m Hm; apply H; now right|].
      unfold raw_val at 1. rewrite Ha, Gx, Sx, E1, E2 by auto. simpl. eauto.
  Qed.

  Lemma sbound_cons name piri ps :
    sbound scfg rec rows e0 sr ((name, piri) :: ps) =
    (match filter (fun e => ueqb (fe_param e) piri) rows with
     | [] => []
     | l => let e := last l e0 in
            [(name, match fe_kind e with
                    | KConst => Some [fe_value e]
                    | KRef => match sval scfg sr (fe_value e) with Some x => Some [x] | None => Some [] end
                    | KTempl => match subst (fun n => sval scfg sr n) (parse_template (fe_value e)) with Some x => Some [x] | None => Some [] end
                    | KExec => rec (fe_value e) sr
                    | _ => Some []
                    end)]
     end) ++ sbound scfg rec rows e0 sr ps.
  Proof. reflexivity. Qed.
  Lemma bind_args_spec ps : forall r1, agree r1 ->
    exists args r2, bind_args rows ps r1 = Ok (args, r2) /\ agree r2 /\
                    sbound scfg rec rows e0 sr ps = map (fun nx => (fst nx, Some [snd nx])) args.
  Proof.
    induction ps as [|[name piri] ps IH]; intros r1 Ha.
    - exists [], r1. auto.
    - rewrite sbound_cons. cbn [bind_args]. unfold param_binding.
      destruct (filter (fun e => ueqb (fe_param e) piri) rows) as [|x l] eqn:El.
      + destruct (IH r1 Ha) as (args & r2 & E & A2 & S). exists args, r2. auto.
      + cbv zeta. set (e := last (x :: l) e0).
        assert (Ee : last (x :: l) (hd {| fe_id := []; fe_fun := []; fe_param := []; fe_kind := KNone; fe_value := [] |} (x :: l)) = e)
          by (apply last_default_irrelevant; discriminate).
        rewrite Ee.
        assert (Hin : In e rows).
        { assert (X : In e (x :: l)) by (unfold e; destruct (exists_last (l := x :: l)) as (l' & a & ->); [discriminate|]; rewrite last_last; apply in_or_app; right; now left).
          rewrite <- El in X. now apply filter_In in X as [X _]. }
        pose proof (Hok e Hin) as Oe. pose proof (Hfree e Hin) as Fe. pose proof (Hval e) as Ve. unfold input_ok, input_names in *.
        destruct (fe_kind e) eqn:Ek; try contradiction.
        * (* constant *)
          cbn [rbind fst snd]. destruct (IH r1 Ha) as (args & r2 & E & A2 & S). rewrite E. cbn [rbind fst snd].
          exists ((name, fe_value e) :: args), r2. repeat split; auto. cbn [map fst snd app]. now rewrite S.
        * (* template *)
          unfold term_wf in Oe. cbn [segs_of tpl0] in Oe. apply andb_true_iff in Oe as [Owf Ofl]. apply ueqb_eq in Ofl.
          pose proof (fnml_template_spec (parse_template (fe_value e)) r1 Owf Fe) as T. rewrite Ofl in T.
          destruct (esubst_total (parse_template (fe_value e)) r1 Ha) as (w & E1 & E2).
          { intros n Hn. split; [now apply Fe|]. now apply Ve. }
          rewrite E1 in T. destruct (fnml_template (fe_value e) r1) as [[v r1']|err]; [|discriminate]. destruct T as [T1 T2]. injection T1 as <-.
          cbn [rbind fst snd].
          assert (A1 : agree r1') by (intros c C1 C2; rewrite T2 by auto; now apply Ha).
          destruct (IH r1' A1) as (args & r2 & E & A2 & S). rewrite E. cbn [rbind fst snd].
          exists ((name, w) :: args), r2. repeat split; auto. cbn [map fst snd app]. now rewrite E2, S.
        * (* reference *)
          destruct (Ve (fe_value e) Hin (or_introl eq_refl)) as (x0 & Gx & Sx). destruct (Fe (fe_value e) (or_introl eq_refl)) as [F1 F2].
          rewrite Ha, Gx by auto. cbn [rbind fst snd]. destruct (IH r1 Ha) as (args & r2 & E & A2 & S). rewrite E. cbn [rbind fst snd].
          exists ((name, x0) :: args), r2. repeat split; auto. cbn [map fst snd app]. now rewrite Sx, S.
  Qed.
End Bind.

Lemma fold_no_exec (l : list fexec) :
  (forall e, In e l -> fe_kind e <> KExec) -> forall na fparams fapply ftable f acc,
  fold_left (fun acc e => match fe_kind e with
                          | KExec => rdo rs <- acc; rdo nested <- rmap_all (exec_fnml na fparams fapply ftable f (fe_value e)) rs; Ok (concat nested)
                          | _ => acc
                          end) l acc = acc.
Proof.
  intros H na fparams fapply ftable f. induction l as [|e l IH]; intro acc; simpl; auto.
  rewrite IH by (intros x Hx; apply H; now right). destruct (fe_kind e) eqn:E; auto. exfalso. apply (H e); auto. now left.
Qed.

Section Exec.
  Variables (scfg : scfg) (fe : fenv) (na : list ustr) (eid : ustr) (r : row) (sr : srow).
  Hypothesis Hna : s_na scfg = na.
  Hypothesis Hok : forall e, In e (exec_rows_of (fn_table fe) eid) -> input_ok e.
  Hypothesis Hfree : forall e, In e (exec_rows_of (fn_table fe) eid) -> fn_free (input_names e).
  Hypothesis Hval : forall e n, In e (exec_rows_of (fn_table fe) eid) -> In n (input_names e) -> exists x, rget n r = Some x /\ sval scfg sr n = Some x.

  Theorem flat_exec_is_application f f' :
    match exec_fnml na (fn_params fe) (fn_apply fe) (fn_table fe) (S f) eid r with
    | Ok rs => exists vals, spec_eval scfg fe (S f') eid sr = Some vals /\ map (rget eid) rs = map Some vals
    | Err _ => spec_eval scfg fe (S f') eid sr = None
    end.
  Proof.
    rewrite spec_eval_unfold. cbn [exec_fnml]. unfold exec_rows.
    destruct (exec_rows_of (fn_table fe) eid) as [|e0 rest] eqn:Er; [reflexivity|].
    rewrite fold_no_exec.
    2:{ intros e He Hk. specialize (Hok e He). unfold input_ok in Hok. now rewrite Hk in Hok. }
    cbn [rbind]. destruct (fn_params fe (fe_fun e0)) as [ps|]; [|reflexivity].
    destruct (bind_args_spec scfg (spec_eval scfg fe f') (e0 :: rest) e0 sr r Hok Hfree Hval ps r) as (args & r2 & Eb & A2 & Sb).
    { intros c _ _. reflexivity. }
    cbn [rmap_all]. rewrite Eb. cbn [rbind fst snd]. cbv zeta. rewrite Sb.
    assert (Ex : existsb (fun nv : ustr * option (list ustr) => match snd nv with None => true | _ => false end)
                         (map (fun nx : ustr * ustr => (fst nx, Some [snd nx])) args) = false)
      by (clear; induction args as [|a l IH]; simpl; auto).
    rewrite Ex, map_map. cbn [fst snd]. rewrite cart_singletons. cbn [apply_combos fold_right]. rewrite Hna.
    destruct (fn_apply fe (fe_fun e0) args) as [|s|l| |]; cbn [rbind concat app]; try reflexivity.
    - exists []. auto.
    - destruct (mem s na); cbn [rbind concat app map].
      + exists []. auto.
      + exists [s]. rewrite rget_rset_same. auto.
    - exists l. rewrite !app_nil_r, map_map. split; auto. apply map_ext. intro x. apply rget_rset_same.
  Qed.
End Exec.

(* ---------------------------------------------------------------- the term built from the results *)
(* _materialize_fnml_execution: every result value becomes a term of the position's term type (canonical lexical form and
   ECHAR escaping for literals, stripped text between angle brackets for IRIs, a label for blank nodes) *)
Section ExecTerm.
  Variables (cfg : ecfg) (scfg : scfg) (fe : fenv) (doc : document) (tables : ustr -> stable).
  Hypothesis Hcfg : cfg_agree cfg scfg.
  Hypothesis Hna : s_na scfg = c_na cfg.
  Variables (eid pos : ustr) (tt : ttype) (dt : ustr) (r : row) (sr : srow).
  Hypothesis Htt : tt = TLit \/ tt = TIri \/ tt = TBnode.
  Hypothesis Hok : forall e, In e (exec_rows_of (fn_table fe) eid) -> input_ok e.
  Hypothesis Hfree : forall e, In e (exec_rows_of (fn_table fe) eid) -> fn_free (input_names e).
  Hypothesis Hval : forall e n, In e (exec_rows_of (fn_table fe) eid) -> In n (input_names e) -> exists x, rget n r = Some x /\ sval scfg sr n = Some x.

  Theorem exec_terms_are_spec_terms :
    match mat_exec cfg fe eid pos tt dt r with
    | Ok rs => map (rget pos) rs = map Some (spec_terms scfg fe KExec eid tt dt sr)
    | Err e => e = EValue \/ e = EUnmodelled \/ spec_eval scfg fe (fnml_fuel (fn_table fe)) eid sr = None
    end.
  Proof.
    unfold mat_exec, spec_terms.
    pose proof (flat_exec_is_application scfg fe (c_na cfg) eid r sr Hna Hok Hfree Hval (length (fn_table fe)) (length (fn_table fe))) as T.
    change (S (length (fn_table fe))) with (fnml_fuel (fn_table fe)) in T.
    destruct (exec_fnml (c_na cfg) (fn_params fe) (fn_apply fe) (fn_table fe) (fnml_fuel (fn_table fe)) eid r) as [rs|e]; cbn [rbind]; [|auto].
    destruct T as (vals & Es & Ev). rewrite Es. clear Es.
    destruct Hcfg as [Hp Hs]. unfold clean. rewrite <- Hp.
    revert vals Ev. induction rs as [|r1 rs IH]; intros [|v vals] Ev; try discriminate; [reflexivity|].
    cbn [map] in Ev. injection Ev as Ev1 Ev2. cbn [rmap_all flat_map]. rewrite Ev1.
    specialize (IH vals Ev2).
    set (v1 := if c_printable cfg then remove_non_printable v else v).
    destruct Htt as [->|[->| ->]].
    - unfold canon_ok. destruct (canon dt v1) as [c| |]; [|auto|auto].
      destruct (rmap_all _ rs) as [rs'|e]; [|destruct IH as [X|[X|X]]; [auto|auto|discriminate]]. cbn [map app]. rewrite rget_rset_same. f_equal. exact IH.
    - destruct (rmap_all _ rs) as [rs'|e]; [|destruct IH as [X|[X|X]]; [auto|auto|discriminate]]. cbn [map app]. rewrite rget_rset_same. f_equal. exact IH.
    - destruct (rmap_all _ rs) as [rs'|e]; [|destruct IH as [X|[X|X]]; [auto|auto|discriminate]]. cbn [map app]. rewrite rget_rset_same. f_equal. exact IH.
  Qed.
End ExecTerm.
