(* C08: the N-TRIPLES result is the graph-less projection of the N-QUADS result -- for the generation rules on every
   document, and (through the end-to-end theorem of C01) for the engine on documents of constant / reference / template maps. *)
From Coq Require Import String Lia.
From Morph Require Import Base.UStr Gen.Tables Model.Terms Model.Data Model.Engine Model.Mapping Model.Spec
     Proofs.DataP Proofs.GroupingP Proofs.TemplateP Proofs.TermP Proofs.RowwiseP Proofs.RowSpecP Proofs.DocSpecP Proofs.DocEngineP.
Local Open Scope N_scope.

Definition with_nq (b : bool) (c : scfg) : scfg := {| s_nquads := b; s_printable := s_printable c; s_safe := s_safe c; s_na := s_na c |}.
Definition with_cnq (b : bool) (c : ecfg) : ecfg := {| c_nquads := b; c_printable := c_printable c; c_safe := c_safe c; c_na := c_na c |}.

Section Formats.
  Variables (c : scfg) (fe : fenv) (doc : document) (tables : ustr -> stable).

  Lemma row_projection t sr :
    (forall x, In x (tm_row_lines (with_nq false c) fe doc tables t sr) -> exists g, In (x ++ [32] ++ g) (tm_row_lines (with_nq true c) fe doc tables t sr)) /\
    (forall y, In y (tm_row_lines (with_nq true c) fe doc tables t sr) -> exists x g, y = x ++ [32] ++ g /\ In x (tm_row_lines (with_nq false c) fe doc tables t sr)).
  Proof.
    split.
    - intros x H. apply tm_row_lines_in in H as (s & pm & p & pt & o & ot & g & Hs & Hpm & Hp & Hpt & Ho & Hot & Hg & ->). cbn [with_nq s_nquads].
      exists g. apply tm_row_lines_in. exists s, pm, p, pt, o, ot, g. cbn [with_nq s_nquads]. repeat split; auto.
    - intros y H. apply tm_row_lines_in in H as (s & pm & p & pt & o & ot & g & Hs & Hpm & Hp & Hpt & Ho & Hot & Hg & ->). cbn [with_nq s_nquads].
      exists (s ++ [32] ++ pt ++ [32] ++ ot), g. split; auto. apply tm_row_lines_in. exists s, pm, p, pt, o, ot, g. cbn [with_nq s_nquads]. repeat split; auto.
  Qed.

  (* the generation rules: every document, every table *)
  Theorem spec_ntriples_is_projection :
    (forall x, In x (spec_lines (with_nq false c) fe doc tables) -> exists g, In (x ++ [32] ++ g) (spec_lines (with_nq true c) fe doc tables)) /\
    (forall y, In y (spec_lines (with_nq true c) fe doc tables) -> exists x g, y = x ++ [32] ++ g /\ In x (spec_lines (with_nq false c) fe doc tables)).
  Proof.
    unfold spec_lines. split.
    - intros x H. apply (proj1 (mem_dedup _ _)) in H. apply in_flat_map in H as (t & Ht & H). destruct (asserted t) eqn:Ea; [|contradiction].
      apply in_flat_map in H as (sr & Hsr & H). destruct (proj1 (row_projection t sr) x H) as (g & Hg).
      exists g. apply (proj2 (mem_dedup _ _)). apply in_flat_map. exists t. split; auto. rewrite Ea. apply in_flat_map. eauto.
    - intros y H. apply (proj1 (mem_dedup _ _)) in H. apply in_flat_map in H as (t & Ht & H). destruct (asserted t) eqn:Ea; [|contradiction].
      apply in_flat_map in H as (sr & Hsr & H). destruct (proj2 (row_projection t sr) y H) as (x & g & -> & Hx).
      exists x, g. split; auto. apply (proj2 (mem_dedup _ _)). apply in_flat_map. exists t. split; auto. rewrite Ea. apply in_flat_map. eauto.
  Qed.
End Formats.

(* the engine, on documents of constant / reference / template maps *)
Theorem engine_ntriples_is_projection cfg fe scfg raw d0 rules lt lq :
  cfg_agree cfg scfg -> s_na scfg = c_na cfg ->
  forallb plain_tm d0 = true -> normalise d0 = Ok rules -> (forall rl, In rl rules -> simple_rule rl) ->
  (forall rl rw n, In rl rules -> In rw (raw (r_src rl)) -> In n (rule_names rl) -> assoc n rw <> None) ->
  materialize_rules (with_cnq false cfg) fe rules (delivered (with_cnq false cfg) raw) = Ok lt ->
  materialize_rules (with_cnq true cfg) fe rules (delivered (with_cnq true cfg) raw) = Ok lq ->
  (forall x, In x lt -> exists g, In (x ++ [32] ++ g) lq) /\
  (forall y, In y lq -> exists x g, y = x ++ [32] ++ g /\ In x lt).
Proof.
  intros [Hp Hs] Hna Hpl Hn Hsim Hcols Ht Hq.
  assert (At : forall x, In x lt <-> In x (spec_lines (with_nq false scfg) fe d0 (spec_tables raw))).
  { apply (engine_document_is_spec_document (with_cnq false cfg) fe (with_nq false scfg) raw (conj Hp Hs) eq_refl Hna d0 rules lt Hpl Hn Hsim Hcols Ht). }
  assert (Aq : forall x, In x lq <-> In x (spec_lines (with_nq true scfg) fe d0 (spec_tables raw))).
  { apply (engine_document_is_spec_document (with_cnq true cfg) fe (with_nq true scfg) raw (conj Hp Hs) eq_refl Hna d0 rules lq Hpl Hn Hsim Hcols Hq). }
  destruct (spec_ntriples_is_projection scfg fe d0 (spec_tables raw)) as [P1 P2]. split.
  - intros x Hx. apply At in Hx. destruct (P1 x Hx) as (g & Hg). exists g. now apply Aq.
  - intros y Hy. apply Aq in Hy. destruct (P2 y Hy) as (x & g & -> & Hx). exists x, g. split; auto. now apply At.
Qed.
