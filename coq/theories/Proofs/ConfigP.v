(* C19: defaults and validation over the regenerated option tables. *)
From Coq Require Import String Lia.
From Morph Require Import Base.UStr Gen.Tables Model.Data Model.Config Proofs.DataP.
Local Open Scope N_scope.

(* one filling step never touches another option, and sets its own option exactly when it was not provided *)
Lemma fill_other ev m od k : ueqb k (fst od) = false -> cget (fill ev m od) k = cget m k.
Proof. intro H. unfold fill. destruct (provided m (fst od) ev); auto. unfold cget, cset. now apply rget_rset_other. Qed.
Lemma fill_self ev m od : cget (fill ev m od) (fst od) = if provided m (fst od) ev then cget m (fst od) else Some (snd od).
Proof. unfold fill. destruct (provided m (fst od) ev); auto. apply rget_rset_same. Qed.
Lemma fold_fill_other ev tbl : forall m k, forallb (fun od => negb (ueqb k (fst od))) tbl = true -> cget (fold_left (fill ev) tbl m) k = cget m k.
Proof.
  induction tbl as [|od tbl IH]; simpl; intros m k H; auto. apply andb_true_iff in H as [H1 H2]. apply negb_true_iff in H1.
  rewrite IH by auto. now apply fill_other.
Qed.
Lemma fold_fill_in ev tbl : forall m k d, NoDup (map fst tbl) -> In (k, d) tbl ->
  cget (fold_left (fill ev) tbl m) k = if provided m k ev then cget m k else Some d.
Proof.
  induction tbl as [|od tbl IH]; simpl; intros m k d ND Hin; [tauto|]. inversion ND as [|x l Hx ND']; subst.
  destruct Hin as [->|Hin].
  - simpl. rewrite fold_fill_other.
    + apply (fill_self ev m (k, d)).
    + apply forallb_forall. intros od Hod. apply negb_true_iff. apply ueqb_neq. intro E. simpl in Hx. apply Hx. rewrite E. apply in_map. exact Hod.
  - rewrite (IH _ k d ND' Hin).
    assert (Hne : ueqb k (fst od) = false). { apply ueqb_neq. intro E. apply Hx. rewrite <- E. change k with (fst (k, d)). now apply in_map. }
    unfold provided. rewrite (fill_other ev m od k Hne). reflexivity.
Qed.

Definition keys_disjoint : bool :=
  forallb (fun od => negb (mem (fst od) (map fst Tables.options_empty_non_valid))) Tables.options_empty_valid.
Lemma tables_wellformed : keys_disjoint = true /\ NoDup (map fst Tables.options_empty_valid) /\ NoDup (map fst Tables.options_empty_non_valid).
Proof.
  split; [vm_compute; reflexivity|]. split.
  - assert (H : dedup (map fst Tables.options_empty_valid) = map fst Tables.options_empty_valid) by (vm_compute; reflexivity).
    revert H. generalize (map fst Tables.options_empty_valid). induction l as [|x l IH]; simpl; [constructor|].
    destruct (mem x l) eqn:E; intro H.
    + exfalso. assert (L : (length (dedup l) <= length l)%nat). { clear. induction l as [|y l IH]; simpl; auto. destruct (mem y l); simpl; lia. }
      rewrite H in L. simpl in L. lia.
    + injection H as H. constructor; auto. intro Hin. apply mem_In in Hin. congruence.
  - assert (H : dedup (map fst Tables.options_empty_non_valid) = map fst Tables.options_empty_non_valid) by (vm_compute; reflexivity).
    revert H. generalize (map fst Tables.options_empty_non_valid). induction l as [|x l IH]; simpl; [constructor|].
    destruct (mem x l) eqn:E; intro H.
    + exfalso. assert (L : (length (dedup l) <= length l)%nat). { clear. induction l as [|y l IH]; simpl; auto. destruct (mem y l); simpl; lia. }
      rewrite H in L. simpl in L. lia.
    + injection H as H. constructor; auto. intro Hin. apply mem_In in Hin. congruence.
Qed.

(* options whose empty value is NOT valid: absent or empty -> default; any other value is kept *)
Lemma complete_non_valid m k d : In (k, d) Tables.options_empty_non_valid ->
  cget (complete m) k = match cget m k with Some v => if ueqb v [] then Some d else Some v | None => Some d end.
Proof.
  intro Hin. destruct tables_wellformed as (Hd & ND1 & ND2). unfold complete.
  rewrite (fold_fill_in false _ _ k d ND2 Hin). unfold provided.
  assert (Hk : cget (fold_left (fill true) Tables.options_empty_valid m) k = cget m k).
  { apply fold_fill_other. apply forallb_forall. intros od Hod. apply negb_true_iff. apply ueqb_neq. intro E.
    unfold keys_disjoint in Hd. rewrite forallb_forall in Hd. specialize (Hd od Hod). apply negb_true_iff in Hd.
    assert (Hm : mem (fst od) (map fst Tables.options_empty_non_valid) = true).
    { apply mem_In. rewrite <- E. apply in_map_iff. exists (k, d). split; auto. }
    rewrite Hm in Hd. discriminate. }
  rewrite Hk. destruct (cget m k) as [v|]; auto. simpl. destruct (ueqb v []); reflexivity.
Qed.
(* options whose empty value IS valid: only an absent option takes the default *)
Lemma complete_valid m k d : In (k, d) Tables.options_empty_valid ->
  cget (complete m) k = match cget m k with Some v => Some v | None => Some d end.
Proof.
  intro Hin. destruct tables_wellformed as (Hd & ND1 & ND2). unfold complete.
  rewrite fold_fill_other.
  - rewrite (fold_fill_in true _ _ k d ND1 Hin). unfold provided. destruct (cget m k); reflexivity.
  - apply forallb_forall. intros od Hod. apply negb_true_iff. apply ueqb_neq. intro E.
    unfold keys_disjoint in Hd. rewrite forallb_forall in Hd. specialize (Hd (k, d) Hin). apply negb_true_iff in Hd. change (fst (k, d)) with k in Hd.
    assert (Hm : mem k (map fst Tables.options_empty_non_valid) = true). { apply mem_In. rewrite E. now apply in_map. }
    rewrite Hm in Hd. discriminate.
Qed.

(* enumerated options: accepted iff the upper-cased value is one of the documented ones; the stored value is upper-cased *)
Lemma check_enum_iff valid opt m v : cget m opt = Some v ->
  ((exists m', check_enum valid opt m = Ok m') <-> In (upper v) valid).
Proof.
  intro H. unfold check_enum. rewrite H. destruct (mem (upper v) valid) eqn:E.
  - split; [intros _; now apply mem_In|eauto].
  - split; [intros (m' & Hm); discriminate|]. intro Hin. apply mem_In in Hin. congruence.
Qed.
Lemma check_enum_value valid opt m m' : check_enum valid opt m = Ok m' -> exists v, cget m opt = Some v /\ cget m' opt = Some (upper v).
Proof.
  unfold check_enum. destruct (cget m opt) as [v|] eqn:E; [|discriminate]. destruct (mem (upper v) valid); [|discriminate].
  intro H. injection H as <-. exists v. split; auto. apply rget_rset_same.
Qed.
