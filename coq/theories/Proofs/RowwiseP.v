(* C11 core: for a plain rule (no join, no quoted map, not all-constant) the statements over a frame are the union, over
   its rows, of a function of the row alone. *)
From Coq Require Import String Lia Permutation.
From Morph Require Import Base.UStr Gen.Tables Model.Terms Model.Data Model.Engine Proofs.DataP Proofs.GroupingP.
From Morph Require Export Model.Fragment.
Local Open Scope N_scope.

Definition okeq {A} (a b : result A) : Prop := forall x, a = Ok x <-> b = Ok x.
Lemma okeq_refl {A} (a : result A) : okeq a a. Proof. intro x; tauto. Qed.
Lemma okeq_trans {A} (a b c : result A) : okeq a b -> okeq b c -> okeq a c.
Proof. intros H1 H2 x. rewrite (H1 x). apply H2. Qed.

Lemma okeq_bind {A B} (a b : result A) (k : A -> result B) : okeq a b -> okeq (rdo x <- a; k x) (rdo x <- b; k x).
Proof.
  intros H out. destruct a as [x|e], b as [y|e']; simpl.
  - destruct (H x) as [H1 _]. specialize (H1 eq_refl). injection H1 as <-. tauto.
  - destruct (H x) as [H1 _]. specialize (H1 eq_refl). discriminate.
  - destruct (H y) as [_ H2]. specialize (H2 eq_refl). discriminate.
  - split; discriminate.
Qed.
Lemma rmap_all_ext {A B} (f g : A -> result B) l : (forall x, f x = g x) -> rmap_all f l = rmap_all g l.
Proof. intro H. induction l as [|x l IH]; simpl; auto. now rewrite H, IH. Qed.
Lemma rmap_all_app {A B} (f : A -> result B) a b :
  rmap_all f (a ++ b) = rdo x <- rmap_all f a; rdo y <- rmap_all f b; Ok (x ++ y).
Proof.
  induction a as [|x a IH]; simpl.
  - destruct (rmap_all f b); reflexivity.
  - destruct (f x) as [y|e]; simpl; auto. rewrite IH. destruct (rmap_all f a) as [ys|e]; simpl; auto.
    destruct (rmap_all f b); reflexivity.
Qed.
Lemma rflat_rows_app f a b :
  rflat_rows f (a ++ b) = rdo x <- rflat_rows f a; rdo y <- rflat_rows f b; Ok (x ++ y).
Proof.
  unfold rflat_rows. rewrite rmap_all_app. destruct (rmap_all f a) as [xs|e]; simpl; auto.
  destruct (rmap_all f b) as [ys|e]; simpl; auto. now rewrite concat_app.
Qed.

Lemma rmap_all_ok_iff {A B} (f : A -> result B) l ys : rmap_all f l = Ok ys <-> Forall2 (fun x y => f x = Ok y) l ys.
Proof.
  split; [apply rmap_all_ok|]. induction 1 as [|x y l ys Hxy F IH]; simpl; auto. now rewrite Hxy, IH.
Qed.
Lemma rmap_all_concat {A B} (h : A -> result B) yss : forall z,
  rmap_all h (concat yss) = Ok z <-> exists zss, Forall2 (fun ys zs => rmap_all h ys = Ok zs) yss zss /\ z = concat zss.
Proof.
  induction yss as [|ys yss IH]; intro z; simpl.
  - split; [intro H; injection H as <-; exists []; split; [constructor|reflexivity]|intros (zss & F & ->); inversion F; reflexivity].
  - rewrite rmap_all_app. split.
    + destruct (rmap_all h ys) as [a|e] eqn:E1; simpl; [|discriminate]. destruct (rmap_all h (concat yss)) as [b|e] eqn:E2; simpl; [|discriminate].
      intro H. injection H as <-. destruct (proj1 (IH b) eq_refl) as (zss & F & ->). exists (a :: zss). split; [constructor; auto|reflexivity].
    + intros (zss & F & ->). inversion F as [|? zs ? zss' Hzs F']; subst. rewrite Hzs. simpl.
      rewrite (proj2 (IH (concat zss')) (ex_intro _ zss' (conj F' eq_refl))). reflexivity.
Qed.

(* two stages over a frame fuse into one stage over its rows (up to which error is reported) *)
Lemma rflat_fuse_map {B} f (h : row -> result B) d :
  okeq (rdo x <- rflat_rows f d; rmap_all h x)
       (rdo ls <- rmap_all (fun r => rdo ys <- f r; rmap_all h ys) d; Ok (concat ls)).
Proof.
  intro out. unfold rflat_rows. split.
  - destruct (rmap_all f d) as [yss|e] eqn:E1; simpl; [|discriminate]. intro H.
    apply rmap_all_concat in H as (zss & F & ->). apply rmap_all_ok_iff in E1.
    assert (G : rmap_all (fun r => rdo ys <- f r; rmap_all h ys) d = Ok zss).
    { apply rmap_all_ok_iff. clear - E1 F. revert zss F. induction E1 as [|r ys d yss Hr _ IH]; intros zss F; inversion F; subst; constructor; auto.
      rewrite Hr. simpl. assumption. }
    now rewrite G.
  - destruct (rmap_all (fun r => rdo ys <- f r; rmap_all h ys) d) as [zss|e] eqn:E1; simpl; [|discriminate]. intro H. injection H as <-.
    apply rmap_all_ok_iff in E1.
    assert (G : exists yss, Forall2 (fun r ys => f r = Ok ys) d yss /\ Forall2 (fun ys zs => rmap_all h ys = Ok zs) yss zss).
    { clear - E1. induction E1 as [|r zs d zss Hr _ (yss & F1 & F2)]; [exists []; split; constructor|].
      destruct (f r) as [ys|e] eqn:E; simpl in Hr; [|discriminate]. exists (ys :: yss). split; constructor; auto. }
    destruct G as (yss & F1 & F2). apply rmap_all_ok_iff in F1. rewrite F1. simpl. apply rmap_all_concat. eauto.
Qed.
Lemma rflat_fuse f g d :
  okeq (rdo x <- rflat_rows f d; rflat_rows g x) (rflat_rows (fun r => rdo ys <- f r; rflat_rows g ys) d).
Proof.
  intro out. pose proof (rflat_fuse_map f g d) as H.
  assert (G : forall l, rmap_all (fun r => rdo ys <- f r; rflat_rows g ys) l =
                    rdo zs <- rmap_all (fun r => rdo ys <- f r; rmap_all g ys) l; Ok (map (@concat _) zs)).
  { unfold rflat_rows. induction l as [|r l IHl]; simpl; auto. destruct (f r) as [ys|e]; simpl; auto. destruct (rmap_all g ys) as [gy|e]; simpl; auto.
    rewrite IHl. destruct (rmap_all (fun r0 => rdo ys0 <- f r0; rmap_all g ys0) l); reflexivity. }
  assert (C : forall zs : list (list (list row)), concat (map (@concat _) zs) = concat (concat zs)).
  { induction zs as [|z zs IH]; simpl; auto. now rewrite concat_app, IH. }
  unfold rflat_rows at 3. rewrite G. split; intro E.
  - destruct (rflat_rows f d) as [x|e] eqn:E1; simpl in E; [|discriminate].
    unfold rflat_rows in E. destruct (rmap_all g x) as [gx|e] eqn:E2; simpl in E; [|discriminate]. injection E as <-.
    destruct (H gx) as [H1 _]. simpl in H1. specialize (H1 E2).
    destruct (rmap_all (fun r => rdo ys <- f r; rmap_all g ys) d) as [zs|e]; simpl in *; [|discriminate].
    injection H1 as H1. rewrite <- H1. now rewrite C.
  - destruct (rmap_all (fun r => rdo ys <- f r; rmap_all g ys) d) as [zs|e] eqn:E1; simpl in E; [|discriminate].
    injection E as <-. destruct (H (concat zs)) as [_ H2]. specialize (H2 eq_refl).
    destruct (rflat_rows f d) as [x|e]; simpl in *; [|discriminate]. unfold rflat_rows. rewrite H2. simpl. now rewrite C.
Qed.

Section Plain.
  Variable cfg : ecfg.
  Variable fe : fenv.
  Variable rules : list rule.
  Variable get_data : ustr -> list ustr -> result frame.

  (* the statements of one row *)
  Definition row_lines (rl : rule) (r : row) : result (list ustr) :=
    rdo ts <- mat_terms cfg fe rl [] r;
    rdo fs <- rflat_rows (finish_row cfg fe 0 rl) ts;
    rmap_all (fun r1 => match rget col_triple r1 with Some t => Ok t | None => Err EKey end) fs.
  Definition frame_lines (rl : rule) (d : frame) : result (list ustr) :=
    rdo ls <- rmap_all (row_lines rl) d; Ok (concat ls).

  Definition rule_ref_set (rl : rule) : list ustr := dedup ((rule_refs (fn_table fe) (refs_fuel rules) rules false rl ++ []) ++ []).

  (* the engine, on a plain rule, is the row-wise function over the frame it reads *)
  Lemma plain_rule_triples rl d : plain_rule rl = true -> get_data (r_src rl) (rule_ref_set rl) = Ok d ->
    okeq (rule_triples cfg fe rules get_data rl) (frame_lines rl d).
  Proof.
    intros Hp Hd. unfold plain_rule in Hp. rewrite !andb_true_iff, !negb_true_iff in Hp. destruct Hp as [[[H1 H2] H3] H4].
    unfold rule_triples, rule_fuel. cbn [mat_rule]. rewrite H1, H2, H3, H4. cbn [orb].
    fold (rule_ref_set rl). rewrite Hd. cbn [rbind].
    unfold frame_lines.
    set (ext := fun r1 : row => match rget col_triple r1 with Some t => Ok t | None => Err EKey end).
    set (F := fun r : row => rdo ts <- mat_terms cfg fe rl [] r; rflat_rows (finish_row cfg fe 0 rl) ts).
    apply okeq_trans with (b := rdo x <- rflat_rows F d; rmap_all ext x).
    - apply okeq_bind. apply rflat_fuse.
    - assert (E : rmap_all (fun r => rdo ys <- F r; rmap_all ext ys) d = rmap_all (row_lines rl) d).
      { apply rmap_all_ext. intro r. unfold F, row_lines. destruct (mat_terms cfg fe rl [] r); reflexivity. }
      rewrite <- E. apply (rflat_fuse_map F ext d).
  Qed.

  (* ---- consequences for every frame *)
  Lemma frame_lines_in rl d l : frame_lines rl d = Ok l ->
    forall x, In x l <-> exists r ls, In r d /\ row_lines rl r = Ok ls /\ In x ls.
  Proof.
    unfold frame_lines. destruct (rmap_all (row_lines rl) d) as [ls|e] eqn:E; [|discriminate]. intro H. injection H as <-.
    intro x. apply rmap_all_ok in E. apply (Forall2_concat_in _ _ _ x E).
  Qed.
  Lemma frame_lines_ok_iff rl d : (exists l, frame_lines rl d = Ok l) <-> (forall r, In r d -> exists ls, row_lines rl r = Ok ls).
  Proof.
    unfold frame_lines. split.
    - intros (l & H) r Hr. destruct (rmap_all (row_lines rl) d) as [ls|e] eqn:E; [|discriminate]. apply rmap_all_ok in E.
      destruct (Forall2_in_l _ _ _ _ E Hr) as (y & _ & Hy). eauto.
    - intro H. destruct (rmap_all_total (row_lines rl) d H) as (ys & ->). simpl. eauto.
  Qed.
  (* the union of two row sets gives the union of the results *)
  Theorem frame_lines_app rl d1 d2 l : frame_lines rl (d1 ++ d2) = Ok l ->
    exists l1 l2, frame_lines rl d1 = Ok l1 /\ frame_lines rl d2 = Ok l2 /\ l = l1 ++ l2.
  Proof.
    unfold frame_lines. rewrite rmap_all_app. destruct (rmap_all (row_lines rl) d1) as [x|e]; simpl; [|discriminate].
    destruct (rmap_all (row_lines rl) d2) as [y|e]; simpl; [|discriminate]. intro H. injection H as <-.
    exists (concat x), (concat y). repeat split; auto. apply concat_app.
  Qed.
  (* duplicates and order do not matter: frames with the same rows give the same statements *)
  Theorem frame_lines_same_rows rl d d' l l' : (forall r, In r d <-> In r d') ->
    frame_lines rl d = Ok l -> frame_lines rl d' = Ok l' -> forall x, In x l <-> In x l'.
  Proof.
    intros Hs H1 H2 x. rewrite (frame_lines_in rl d l H1 x), (frame_lines_in rl d' l' H2 x).
    split; intros (r & ls & Hr & E & Hx); exists r, ls; repeat split; auto; now apply Hs.
  Qed.
End Plain.
