(* C03: the pairwise criterion of Model/Partition.v is safe -- for ALL data.  The statements are about the terms the
   generation rules prescribe (Model/Spec.v), for escape-free templates. *)
From Coq Require Import String Lia.
From Morph Require Import Base.UStr Gen.Tables Model.Terms Model.Data Model.Engine Model.Mapping Model.Partition Model.Spec
  Proofs.DataP Proofs.UStrP Proofs.EscP.
Local Open Scope N_scope.

(* templates whose only special characters are the braces of their references *)
Definition escape_free (t : ustr) : bool := negb (memN 92 t).

Lemma memN_cons c x l : memN c (x :: l) = (c =? x) || memN c l.
Proof. reflexivity. Qed.
Lemma memN_false_cons c x l : memN c (x :: l) = false -> (x =? c) = false /\ memN c l = false.
Proof. rewrite memN_cons. intro H. apply orb_false_iff in H as [A B]. rewrite N.eqb_sym in A. auto. Qed.
(* parsing an escape-free template: the text before the first '{' is literal *)
Lemma parse_tpl_prefix inv : forall rest, memN 92 inv = false -> memN 123 inv = false ->
  forall f, subst f (parse_tpl (inv ++ rest) false None) = option_map (app inv) (subst f (parse_tpl rest false None)).
Proof.
  induction inv as [|c inv IH]; intros rest H1 H2 f; simpl.
  - destruct (subst f (parse_tpl rest false None)); reflexivity.
  - apply memN_false_cons in H1 as [A1 B1]. apply memN_false_cons in H2 as [A2 B2].
    cbn [app parse_tpl]. rewrite A1, A2. cbn [subst]. rewrite IH by assumption.
    destruct (subst f (parse_tpl rest false None)); reflexivity.
Qed.
(* the constant part of a term map (what the partitioner calls its invariant), for escape-free maps *)
Definition inv_of (k : mkind) (v : ustr) : ustr :=
  match k with
  | KConst => v
  | KTempl => hd [] (split_on [123] v)
  | _ => []
  end.
Lemma split_first_brace v : forall cur, exists pre tl, split_aux [123] v 0 cur = (rev cur ++ pre) :: tl /\ memN 123 pre = false /\ (v = pre \/ exists rest, v = pre ++ 123 :: rest).
Proof.
  induction v as [|c v IH]; intro cur.
  - simpl. exists [], []. rewrite app_nil_r. auto.
  - cbn [split_aux prefixb length Nat.sub]. destruct (123 =? c) eqn:E; cbn [andb].
    + apply N.eqb_eq in E; subst. exists [], (split_aux [123] v 0 []). rewrite app_nil_r. repeat split; auto. right. exists v. reflexivity.
    + destruct (IH (c :: cur)) as (pre & tl & E1 & E2 & E3). exists (c :: pre), tl. split; [|split].
      * simpl in E1. rewrite <- app_assoc in E1. exact E1.
      * rewrite memN_cons, E. exact E2.
      * destruct E3 as [->|(rest & ->)]; [left|right; exists rest]; reflexivity.
Qed.
Lemma template_shape v : exists rest, v = inv_of KTempl v ++ rest /\ memN 123 (inv_of KTempl v) = false /\ (rest = [] \/ exists r, rest = 123 :: r).
Proof.
  unfold inv_of, split_on. destruct (split_first_brace v []) as (pre & tl & E1 & E2 & E3). rewrite E1. simpl.
  destruct E3 as [->|(rest & ->)]; [exists []; rewrite app_nil_r; auto|exists (123 :: rest); eauto].
Qed.
Lemma memN_app c a b : memN c (a ++ b) = memN c a || memN c b.
Proof. unfold memN. apply existsb_app. Qed.

(* every lexical value the generation rules build from a constant- or template-valued map starts with its constant part,
   whatever the row holds *)
Lemma spec_lex_prefix cfg k v tt dt r lex : (k = KConst \/ k = KTempl) -> escape_free v = true ->
  spec_lex cfg k v tt dt r = Some lex -> exists w, lex = inv_of k v ++ w.
Proof.
  intros [->| ->] Hf; simpl.
  - intro H. injection H as <-. exists []. now rewrite app_nil_r.
  - destruct (template_shape v) as (rest & Ev & Hb & _). unfold parse_template. rewrite Ev at 1.
    unfold escape_free in Hf. apply negb_true_iff in Hf. rewrite Ev, memN_app in Hf. apply orb_false_iff in Hf as [Hf _].
    rewrite parse_tpl_prefix by assumption.
    destruct (subst _ (parse_tpl rest false None)) as [w|]; simpl; [|discriminate]. intro H. injection H as <-. eauto.
Qed.

(* ---- IRI / blank node position: incomparable constant parts give different terms *)
Theorem incomparable_terms_differ cfg k1 v1 k2 v2 tt dt1 dt2 r1 r2 x1 x2 :
  (k1 = KConst \/ k1 = KTempl) -> (k2 = KConst \/ k2 = KTempl) -> escape_free v1 = true -> escape_free v2 = true ->
  tt <> TLit -> incomparable (inv_of k1 v1) (inv_of k2 v2) = true ->
  spec_lex cfg k1 v1 tt dt1 r1 = Some x1 -> spec_lex cfg k2 v2 tt dt2 r2 = Some x2 ->
  render tt x1 <> render tt x2.
Proof.
  intros K1 K2 F1 F2 Ht Hi L1 L2.
  destruct (spec_lex_prefix _ _ _ _ _ _ _ K1 F1 L1) as (w1 & ->). destruct (spec_lex_prefix _ _ _ _ _ _ _ K2 F2 L2) as (w2 & ->).
  unfold incomparable in Hi. apply andb_true_iff in Hi as [A B]. apply negb_true_iff in A, B.
  pose proof (incomparable_ext _ _ w1 w2 A B) as D.
  destruct tt; simpl; intro E.
  - injection E as E. rewrite <- !app_assoc in E. apply (incomparable_ext _ _ (w1 ++ [62]) (w2 ++ [62]) A B). exact E.
  - injection E as E. contradiction.
  - congruence.
  - contradiction.
  - contradiction.
Qed.
(* two different constants are different terms *)
Theorem different_constants_differ tt v1 v2 : v1 <> v2 -> tt <> TLit -> render tt v1 <> render tt v2.
Proof.
  intros H Ht E. destruct tt; simpl in E.
  - injection E as E. apply app_inj_tail in E as [E _]. contradiction.
  - injection E as E. contradiction.
  - congruence.
  - contradiction.
  - contradiction.
Qed.
(* a blank node never equals an IRI or a literal *)
Theorem bnode_vs_other tt x1 x2 : tt = TIri \/ tt = TLit -> render TBnode x1 <> render tt x2.
Proof. intros [->| ->]; simpl; discriminate. Qed.
(* literals with different language / datatype suffixes are different terms, whatever their values *)
Theorem literal_suffix_differ a b s1 s2 : s1 <> s2 -> render TLit a ++ s1 <> render TLit b ++ s2.
Proof.
  intros H E. simpl in E. injection E as E. rewrite <- !app_assoc in E. simpl in E.
  apply literal_split_unique in E as [_ E]. contradiction.
Qed.
