(* C05: UTF-8 and percent-encoding round trips, and the alphabet of a percent-encoded value. *)
From Coq Require Import String Lia ZifyBool ZifyN.
From Morph Require Import Base.UStr Model.Terms.
Local Open Scope N_scope.
Ltac Zify.zify_post_hook ::= Z.to_euclidean_division_equations.

Lemma utf8_dec_enc1 c r : c < 1114112 -> utf8_decode (utf8_enc1 c ++ r) = option_map (cons c) (utf8_decode r).
Proof.
  intro Hc. unfold utf8_enc1.
  destruct (c <? 128) eqn:E1.
  - simpl. rewrite E1. reflexivity.
  - destruct (c <? 2048) eqn:E2.
    + cbn [app utf8_decode].
      assert ((192 + c / 64 <? 128) = false) as -> by lia. assert ((192 + c / 64 <? 224) = true) as -> by lia.
      f_equal. f_equal. lia.
    + destruct (c <? 65536) eqn:E3.
      * cbn [app utf8_decode].
        assert ((224 + c / 4096 <? 128) = false) as -> by lia. assert ((224 + c / 4096 <? 224) = false) as -> by lia.
        assert ((224 + c / 4096 <? 240) = true) as -> by lia. f_equal. f_equal. lia.
      * cbn [app utf8_decode].
        assert ((240 + c / 262144 <? 128) = false) as -> by lia. assert ((240 + c / 262144 <? 224) = false) as -> by lia.
        assert ((240 + c / 262144 <? 240) = false) as -> by lia. f_equal. f_equal. lia.
Qed.
Theorem utf8_roundtrip_proof s : forallb (fun c => c <? 1114112) s = true -> utf8_decode (utf8_encode s) = Some s.
Proof.
  induction s as [|c s IH]; simpl; intro H; [reflexivity|].
  apply andb_true_iff in H as [Hc Hs]. unfold utf8_encode in *. simpl. rewrite utf8_dec_enc1 by lia. now rewrite (IH Hs).
Qed.
Lemma utf8_enc1_bytes c : c < 1114112 -> forallb (fun b => b <? 256) (utf8_enc1 c) = true.
Proof.
  intro Hc. unfold utf8_enc1.
  destruct (c <? 128) eqn:E1; [cbn [forallb]; lia|]. destruct (c <? 2048) eqn:E2; [cbn [forallb]; lia|]. destruct (c <? 65536) eqn:E3; cbn [forallb]; lia.
Qed.
Lemma utf8_encode_bytes s : forallb (fun c => c <? 1114112) s = true -> forallb (fun b => b <? 256) (utf8_encode s) = true.
Proof.
  induction s as [|c s IH]; simpl; intro H; [reflexivity|]. apply andb_true_iff in H as [Hc Hs].
  unfold utf8_encode in *. simpl. rewrite forallb_app, (IH Hs), utf8_enc1_bytes by lia. reflexivity.
Qed.

(* ---- percent-encoding *)
Definition bytes256 : list N := map N.of_nat (seq 0 256).
Lemma in_bytes256 b : b < 256 -> In b bytes256.
Proof. intro H. unfold bytes256. apply in_map_iff. exists (N.to_nat b). split; [lia|]. apply in_seq. lia. Qed.
Lemma hex_sweep : forallb (fun b => match unhex (hexd (b / 16)), unhex (hexd (b mod 16)) with
                                     | Some h, Some l => (h * 16 + l =? b) | _, _ => false end) bytes256 = true.
Proof. vm_compute. reflexivity. Qed.
Lemma unreserved_not_pct : unreserved 37 = false. Proof. reflexivity. Qed.

Lemma pct_decode_byte safe b r : memN 37 safe = false -> b < 256 ->
  pct_decode (pct_byte safe b ++ r) = option_map (cons b) (pct_decode r).
Proof.
  intros Hs Hb. unfold pct_byte. destruct ((b <? 128) && (unreserved b || memN b safe)) eqn:E.
  - simpl. assert (b =? 37 = false) as ->; [|reflexivity].
    destruct (N.eqb_spec b 37); auto. subst. rewrite unreserved_not_pct, Hs in E. simpl in E. discriminate.
  - pose proof hex_sweep as S. rewrite forallb_forall in S. specialize (S b (in_bytes256 b Hb)).
    cbn [app pct_decode]. rewrite N.eqb_refl.
    destruct (unhex (hexd (b / 16))) as [h|]; [|discriminate]. destruct (unhex (hexd (b mod 16))) as [l|]; [|discriminate].
    apply N.eqb_eq in S. rewrite S. reflexivity.
Qed.
Lemma pct_decode_bytes safe bs : memN 37 safe = false -> forallb (fun b => b <? 256) bs = true ->
  pct_decode (flat_map (pct_byte safe) bs) = Some bs.
Proof.
  intros Hs. induction bs as [|b bs IH]; simpl; intro H; [reflexivity|]. apply andb_true_iff in H as [Hb Hbs].
  rewrite pct_decode_byte by (auto; lia). now rewrite (IH Hbs).
Qed.
(* percent-decoding a percent-encoded value gives back the UTF-8 bytes of the value: nothing is lost or altered, provided
   the percent sign itself is not declared safe *)
Theorem pct_decode_encode_proof safe s : memN 37 safe = false -> forallb (fun c => c <? 1114112) s = true ->
  pct_decode (pct_encode safe s) = Some (utf8_encode s).
Proof. intros Hs H. unfold pct_encode. apply pct_decode_bytes; auto. now apply utf8_encode_bytes. Qed.
(* and decoding those bytes gives the value *)
Corollary pct_value_roundtrip safe s : memN 37 safe = false -> forallb (fun c => c <? 1114112) s = true ->
  match pct_decode (pct_encode safe s) with Some bs => utf8_decode bs | None => None end = Some s.
Proof. intros Hs H. rewrite pct_decode_encode_proof by auto. now apply utf8_roundtrip_proof. Qed.

(* the alphabet of the output: RFC 3986 unreserved, the configured safe set (ASCII only), and percent-escapes *)
Lemma hexd_unreserved x : x < 16 -> unreserved (hexd x) = true.
Proof. intro H. assert (In x (map N.of_nat (seq 0 16))) by (apply in_map_iff; exists (N.to_nat x); split; [lia|apply in_seq; lia]).
  revert x H H0. assert (S : forallb (fun x => unreserved (hexd x)) (map N.of_nat (seq 0 16)) = true) by (vm_compute; reflexivity).
  rewrite forallb_forall in S. auto. Qed.
Theorem pct_output_alphabet_proof safe s : forallb (fun c => c <? 1114112) s = true ->
  forallb (fun c => unreserved c || ((c <? 128) && memN c safe) || (c =? 37)) (pct_encode safe s) = true.
Proof.
  intro H. apply utf8_encode_bytes in H. unfold pct_encode. induction (utf8_encode s) as [|b bs IH]; simpl; [reflexivity|].
  simpl in H. apply andb_true_iff in H as [Hb Hbs]. rewrite forallb_app, (IH Hbs), andb_true_r.
  unfold pct_byte. destruct ((b <? 128) && (unreserved b || memN b safe)) eqn:E.
  - simpl. apply andb_true_iff in E as [E1 E2]. rewrite E1. apply orb_true_iff in E2 as [->| ->]; simpl; rewrite ?orb_true_r; reflexivity.
  - cbn [forallb]. rewrite !hexd_unreserved by lia. simpl. now rewrite orb_true_r.
Qed.
