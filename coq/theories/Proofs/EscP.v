(* C05 core: the eight sequential str.replace calls of the materializer equal a character-wise substitution, and the
   N-Triples reader returns the source string character for character. *)
From Coq Require Import String Lia.
From Morph Require Import Base.UStr Model.Terms Model.NQuads.
Local Open Scope N_scope.

Lemma replace1_app c r a b : replace1 c r (a ++ b) = replace1 c r a ++ replace1 c r b.
Proof. unfold replace1. apply flat_map_app. Qed.
Lemma apply_chain_app ch : forall a b, apply_chain ch (a ++ b) = apply_chain ch a ++ apply_chain ch b.
Proof. induction ch as [|[c r] ch IH]; intros a b; simpl; auto. unfold apply_chain in *. simpl. rewrite replace1_app. apply IH. Qed.
Lemma apply_chain_nil ch : apply_chain ch [] = [].
Proof. induction ch as [|[c r] ch IH]; simpl; auto. Qed.
(* sequential single-character replacement is a homomorphism: it is decided character by character *)
Lemma apply_chain_charwise ch s : apply_chain ch s = flat_map (fun x => apply_chain ch [x]) s.
Proof.
  induction s as [|x s IH]; simpl; [apply apply_chain_nil|].
  change (x :: s) with ([x] ++ s). now rewrite apply_chain_app, IH.
Qed.
Lemma escape_one x : escape_lit [x] = esc_char x.
Proof.
  unfold escape_lit, esc_char, apply_chain, escape_chain, replace1; simpl.
  destruct (N.eqb_spec x 92); [subst; reflexivity|simpl].
  destruct (N.eqb_spec x 10); [subst; reflexivity|simpl].
  destruct (N.eqb_spec x 9); [subst; reflexivity|simpl].
  destruct (N.eqb_spec x 8); [subst; reflexivity|simpl].
  destruct (N.eqb_spec x 12); [subst; reflexivity|simpl].
  destruct (N.eqb_spec x 13); [subst; reflexivity|simpl].
  destruct (N.eqb_spec x 34); [subst; reflexivity|simpl].
  destruct (N.eqb_spec x 39); [subst; reflexivity|simpl].
  reflexivity.
Qed.
Theorem escape_lit_charwise_proof s : escape_lit s = flat_map esc_char s.
Proof. unfold escape_lit. rewrite apply_chain_charwise. apply flat_map_ext. intros x. apply escape_one. Qed.
Lemma escape_lit_cons x s : escape_lit (x :: s) = esc_char x ++ escape_lit s.
Proof. now rewrite !escape_lit_charwise_proof. Qed.
Lemma escape_lit_app a b : escape_lit (a ++ b) = escape_lit a ++ escape_lit b.
Proof. rewrite !escape_lit_charwise_proof. apply flat_map_app. Qed.

Ltac esc_cases x :=
  unfold esc_char;
  repeat match goal with |- context [if N.eqb x ?k then _ else _] => destruct (N.eqb_spec x k); [subst x; try reflexivity|] end.

Lemma unesc_char x r : unesc false (esc_char x ++ r) = option_map (cons x) (unesc false r).
Proof.
  esc_cases x. simpl.
  destruct (N.eqb_spec x 92); [contradiction|].
  destruct (N.eqb_spec x 34); [contradiction|]. destruct (N.eqb_spec x 10); [contradiction|].
  destruct (N.eqb_spec x 13); [contradiction|]. reflexivity.
Qed.
Theorem unescape_escape_proof s : unesc false (escape_lit s) = Some s.
Proof.
  induction s as [|x s IH]; [reflexivity|]. rewrite escape_lit_cons, unesc_char, IH. reflexivity.
Qed.

Lemma read_string_char x r : read_string false (esc_char x ++ r) = option_map (fun vr => (x :: fst vr, snd vr)) (read_string false r).
Proof.
  esc_cases x. simpl.
  destruct (N.eqb_spec x 92); [contradiction|].
  destruct (N.eqb_spec x 34); [contradiction|]. destruct (N.eqb_spec x 10); [contradiction|].
  destruct (N.eqb_spec x 13); [contradiction|]. reflexivity.
Qed.
(* the closing quote of a rendered literal is found unambiguously, and the value comes back character for character *)
Theorem read_string_escape v rest : read_string false (escape_lit v ++ 34 :: rest) = Some (v, rest).
Proof.
  induction v as [|x v IH]; [reflexivity|].
  rewrite escape_lit_cons, <- app_assoc, read_string_char, IH. reflexivity.
Qed.

(* the escaped body contains no raw quote, line feed or carriage return *)
Lemma esc_char_clean x : forallb (fun c => negb ((c =? 10) || (c =? 13))) (esc_char x) = true
                         /\ (forall c, In c (esc_char x) -> c = 34 -> exists p, esc_char x = [92; c] /\ p = x).
Proof.
  split.
  - esc_cases x. simpl. destruct (N.eqb_spec x 10); [contradiction|]. destruct (N.eqb_spec x 13); [contradiction|]. reflexivity.
  - esc_cases x; simpl; intros c Hc E; subst c; try (destruct Hc as [Hc|[Hc|[]]]; try discriminate Hc; try (exfalso; congruence); eauto).
    destruct Hc as [Hc|[]]. congruence.
Qed.
Theorem escaped_no_raw_newline s : forallb (fun c => negb ((c =? 10) || (c =? 13))) (escape_lit s) = true.
Proof.
  rewrite escape_lit_charwise_proof. induction s as [|x s IH]; simpl; auto.
  rewrite forallb_app, IH, (proj1 (esc_char_clean x)). reflexivity.
Qed.

(* esc_char is a prefix code: two rendered literals that agree up to their closing quotes have the same value *)
Theorem literal_split_unique a b s1 s2 :
  escape_lit a ++ 34 :: s1 = escape_lit b ++ 34 :: s2 -> a = b /\ s1 = s2.
Proof.
  intro E. assert (H : read_string false (escape_lit a ++ 34 :: s1) = read_string false (escape_lit b ++ 34 :: s2)) by now rewrite E.
  rewrite !read_string_escape in H. injection H; auto.
Qed.
