(* str.split / str.join / str.replace as the model defines them: inverse laws and the first-occurrence cut the
   materializer's template loop relies on. *)
From Coq Require Import Lia.
From Morph Require Import Base.UStr Model.Terms Proofs.DataP Proofs.UStrP.
Local Open Scope N_scope.

Lemma memN_app c a b : memN c (a ++ b) = memN c a || memN c b.
Proof. apply existsb_app. Qed.

Lemma split_aux_nonempty sep s : forall k cur, split_aux sep s k cur <> [].
Proof. induction s as [|x r IH]; intros k cur; simpl; [discriminate|]. destruct k; [destruct (prefixb sep (x :: r)); [discriminate|apply IH]|apply IH]. Qed.
Lemma join_cons sep a l : l <> [] -> join sep (a :: l) = a ++ sep ++ join sep l.
Proof. destruct l; [contradiction|reflexivity]. Qed.

(* join inverts split: for every separator, text, skip state and accumulated prefix *)
Lemma join_split_aux sep s : forall k cur, sep <> [] -> join sep (split_aux sep s k cur) = rev cur ++ skipn k s.
Proof.
  induction s as [|x r IH]; intros k cur Hs.
  - simpl. destruct k; simpl; now rewrite app_nil_r.
  - destruct k as [|k].
    + cbn [split_aux skipn]. destruct (prefixb sep (x :: r)) eqn:P.
      * rewrite join_cons by apply split_aux_nonempty. rewrite IH by auto. simpl. f_equal.
        apply prefixb_iff in P as [w E]. destruct sep as [|c sep']; [contradiction|].
        simpl in E. injection E as -> ->. simpl. rewrite Nat.sub_0_r.
        rewrite skipn_app, skipn_all, Nat.sub_diag. reflexivity.
      * rewrite IH by auto. simpl. now rewrite <- app_assoc.
    + cbn [split_aux skipn]. now apply IH.
Qed.
Theorem join_split sep s : sep <> [] -> join sep (split_on sep s) = s.
Proof. intro H. unfold split_on. now rewrite join_split_aux. Qed.

(* no occurrence can start inside a prefix that lacks the separator's first character *)
Lemma split_aux_skip_prefix c sep' pre : forall s cur, memN c pre = false ->
  split_aux (c :: sep') (pre ++ s) 0 cur = split_aux (c :: sep') s 0 (rev pre ++ cur).
Proof.
  induction pre as [|x pre IH]; intros s cur H; simpl in *; auto.
  apply orb_false_iff in H as [H1 H2]. rewrite H1. simpl. rewrite IH by auto. now rewrite <- app_assoc.
Qed.
Lemma split_aux_consume sep a : forall rest cur, split_aux sep (a ++ rest) (length a) cur = split_aux sep rest 0 cur.
Proof. induction a as [|x a IH]; intros rest cur; simpl; auto. Qed.
Lemma split_aux_at_sep c sep' rest cur :
  split_aux (c :: sep') ((c :: sep') ++ rest) 0 cur = rev cur :: split_aux (c :: sep') rest 0 [].
Proof.
  cbn [app split_aux]. replace (prefixb (c :: sep') (c :: sep' ++ rest)) with true by (symmetry; apply (prefixb_app (c :: sep') rest)).
  f_equal. cbn [length]. replace (S (length sep') - 1)%nat with (length sep') by lia. apply split_aux_consume.
Qed.
(* the template loop's step: text before the first {ref}, and the text after it *)
Theorem cut_first_spec c sep' pre rest : memN c pre = false ->
  cut_first (c :: sep') (pre ++ (c :: sep') ++ rest) = (pre, rest).
Proof.
  intro H. unfold cut_first, split_on. rewrite split_aux_skip_prefix by auto. rewrite split_aux_at_sep.
  rewrite app_nil_r, rev_involutive. f_equal. apply (join_split (c :: sep') rest). discriminate.
Qed.
(* no occurrence at all: split gives the text back; replace is the identity *)
Lemma split_aux_absent c sep' s cur : memN c s = false -> split_aux (c :: sep') s 0 cur = [rev cur ++ s].
Proof.
  intro H. rewrite <- (app_nil_r s) at 1. rewrite split_aux_skip_prefix by auto. simpl. now rewrite rev_app_distr, rev_involutive.
Qed.
Lemma replace_all_absent c sep' new s : memN c s = false -> replace_all (c :: sep') new s = s.
Proof. intro H. unfold replace_all, split_on. now rewrite split_aux_absent. Qed.
