(* C02 at document level beyond plain documents: whatever the grouping of the rules, the engine's grouped run gives the document of the generation
   rules -- for documents with referencing object maps, with quoted subject maps and with quoted object maps (the end-to-end theorems of C01 / C13
   composed with GroupingP: the grouped run holds the statements of the ungrouped run, and fails iff it fails) *)
From Coq Require Import String Lia.
From Morph Require Import Base.UStr Gen.Tables Model.Terms Model.Data Model.Engine Model.Mapping Model.Spec Model.Fragment
     Model.Partition Model.Grouping Proofs.DataP Proofs.GroupingP Proofs.TermP Proofs.RowSpecP Proofs.RowwiseP Proofs.JoinRuleP Proofs.DocSpecP Proofs.DocEngineP
     Proofs.DocJoinP Proofs.DocQuotedP Proofs.DocQuotedObjP.
Local Open Scope N_scope.

Section Grouped.
  Variables (cfg : ecfg) (fe : fenv) (scfg : scfg) (raw : ustr -> list rawrow) (lab : rule -> label).
  Hypothesis Hcfg : cfg_agree cfg scfg.
  Hypothesis Hnq : c_nquads cfg = s_nquads scfg.
  Hypothesis Hna : s_na scfg = c_na cfg.

  Lemma grouped_as_ungrouped rules l (P : ustr -> Prop) :
    (forall l2, materialize_rules cfg fe rules (delivered cfg raw) = Ok l2 -> forall x, In x l2 <-> P x) ->
    materialize_grouped cfg fe rules (delivered cfg raw) lab = Ok l -> forall x, In x l <-> P x.
  Proof.
    intros H Hg x. destruct (materialize_rules cfg fe rules (delivered cfg raw)) as [l2|e] eqn:E.
    - rewrite (grouped_same_statements cfg fe rules (delivered cfg raw) lab l l2 Hg E x). exact (H l2 eq_refl x).
    - exfalso. assert (H' : exists e', materialize_grouped cfg fe rules (delivered cfg raw) lab = Err e') by (apply grouped_err_iff; eauto).
      destruct H' as (e' & H'). congruence.
  Qed.

  Theorem grouped_document_is_spec_document_joins d0 rules l :
    forallb jplain_tm d0 = true -> nodupb (map t_id d0) = true -> parents_ok d0 = true -> normalise d0 = Ok rules -> nodupb (map r_id rules) = true ->
    (forall rl, In rl rules -> simple_rule rl \/ join_rule_ok rules rl) ->
    (forall rl rw n, In rl rules -> In rw (raw (r_src rl)) -> In n (rule_names rl ++ child_names rl ++ joins_child (r_ojoin rl)) -> assoc n rw <> None) ->
    (forall src rw k, In rw (raw src) -> assoc (parent_prefix ++ k) rw = None) ->
    materialize_grouped cfg fe rules (delivered cfg raw) lab = Ok l ->
    forall x, In x l <-> In x (spec_lines scfg fe d0 (spec_tables raw)).
  Proof.
    intros H1 H2 H3 H4 H5 H6 H7 H8. apply grouped_as_ungrouped. intros l2 E.
    exact (engine_document_is_spec_document_joins cfg fe scfg raw Hcfg Hnq Hna d0 rules l2 H1 H2 H3 H4 H5 H6 H7 H8 E).
  Qed.
  Theorem grouped_document_is_spec_document_quoted d0 rules l :
    quoted_doc d0 = true -> normalise d0 = Ok rules -> nodupb (map r_id rules) = true ->
    (forall rl, In rl rules -> simple_rule rl \/ quoting_rule_ok rules rl) ->
    (forall rl rw n, In rl rules -> In rw (raw (r_src rl)) -> In n (rule_ref_set fe rules rl) -> assoc n rw <> None) ->
    materialize_grouped cfg fe rules (delivered cfg raw) lab = Ok l ->
    forall x, In x l <-> In x (spec_lines scfg fe d0 (spec_tables raw)).
  Proof.
    intros H1 H2 H3 H4 H5. apply grouped_as_ungrouped. intros l2 E.
    exact (engine_document_is_spec_document_quoted cfg fe scfg raw Hcfg Hnq Hna d0 rules l2 H1 H2 H3 H4 H5 E).
  Qed.
  Theorem grouped_document_is_spec_document_qobj d0 rules l :
    qobj_doc d0 = true -> normalise d0 = Ok rules -> nodupb (map r_id rules) = true ->
    (forall rl, In rl rules -> simple_rule rl \/ qobj_rule_ok rules rl) ->
    (forall rl rw n, In rl rules -> In rw (raw (r_src rl)) -> In n (rule_ref_set fe rules rl) -> assoc n rw <> None) ->
    materialize_grouped cfg fe rules (delivered cfg raw) lab = Ok l ->
    forall x, In x l <-> In x (spec_lines scfg fe d0 (spec_tables raw)).
  Proof.
    intros H1 H2 H3 H4 H5. apply grouped_as_ungrouped. intros l2 E.
    exact (engine_document_is_spec_document_qobj cfg fe scfg raw Hcfg Hnq Hna d0 rules l2 H1 H2 H3 H4 H5 E).
  Qed.
End Grouped.
