(* C01: engine(document) = generation rules(document) for documents of constant / reference / template maps (N-QUADS):
   the statements the engine materialises from the normalised rule table over the delivered rows are exactly the
   statements Spec.spec_lines reads off the surface document over the same rows. *)
From Coq Require Import String Lia.
From Morph Require Import Base.UStr Gen.Tables Model.Terms Model.Data Model.Engine Model.Mapping Model.Spec
     Proofs.DataP Proofs.GroupingP Proofs.TemplateP Proofs.TermP Proofs.RowwiseP Proofs.RowSpecP Proofs.RuleSpecP Proofs.QuotedP
     Proofs.NormaliseP Proofs.DocSpecP Proofs.ReadersP.
Local Open Scope N_scope.

(* a delivered row as the Spec sees it: NULL cells are null, every other cell is its text *)
Definition srow_of_raw (raw : rawrow) : srow :=
  map (fun kc => (fst kc, match snd kc with CNone | CNaN => None | c => Some (py_str c) end)) raw.
Lemma assoc_srow_of_raw n raw :
  assoc n (srow_of_raw raw) = option_map (fun c => match c with CNone | CNaN => None | c => Some (py_str c) end) (assoc n raw).
Proof. unfold srow_of_raw. induction raw as [|[k c] raw IH]; simpl; auto. destruct (ueqb n k); auto; destruct c; auto. Qed.

(* ---------------------------------------------------------------- the rule-level Spec depends on the row only through the referenced columns *)
Lemma subst_ext_in f g segs : (forall n, In n (names segs) -> f n = g n) -> subst f segs = subst g segs.
Proof.
  induction segs as [|[c|n] l IH]; intro H; simpl; auto.
  - now rewrite IH.
  - rewrite (H n) by now left. rewrite IH; auto. intros m Hm. apply H. now right.
Qed.
Lemma subst_none f segs n : In n (names segs) -> f n = None -> subst f segs = None.
Proof.
  induction segs as [|[c|m] l IH]; simpl; intros Hin Hf; [contradiction| |].
  - rewrite IH; auto.
  - destruct Hin as [->|Hin]; [now rewrite Hf|]. rewrite (IH Hin Hf). now destruct (f m).
Qed.
Lemma spec_lex_ext scfg k v tt dt sr1 sr2 : is_plain k = true ->
  (forall n, In n (names (segs_of k v)) -> sval scfg sr1 n = sval scfg sr2 n) -> spec_lex scfg k v tt dt sr1 = spec_lex scfg k v tt dt sr2.
Proof.
  intros Hk H. destruct k; try discriminate; cbn [spec_lex segs_of] in *; auto.
  - apply subst_ext_in. intros n Hn. now rewrite (H n Hn).
  - now rewrite (H v (or_introl eq_refl)).
Qed.
Lemma spec_lex_null scfg k v tt dt sr n : is_plain k = true -> In n (names (segs_of k v)) -> sval scfg sr n = None -> spec_lex scfg k v tt dt sr = None.
Proof.
  intros Hk Hn Hs. destruct k; try discriminate; cbn [spec_lex segs_of] in *.
  - exfalso. clear - Hn. induction v; simpl in Hn; auto.
  - apply (subst_none _ _ n Hn). now rewrite Hs.
  - destruct Hn as [->|[]]. now rewrite Hs.
Qed.

(* a rule of the normalised table: positions that are not used carry no text *)
Definition tidy (rl : rule) : Prop :=
  (r_ld rl = LDNone -> r_ldk rl = KNone /\ r_ldv rl = []) /\ (is_plain (r_gk rl) = false -> r_gk rl = KNone /\ r_gv rl = []).
Definition tidy_graph (rl : rule) : Prop := is_plain (r_gk rl) = true -> ueqb (r_gv rl) Tables.c_rml_default_graph = true -> r_gk rl = KConst.

Section RuleRows.
  Variable scfg : scfg.
  Variable rl : rule.
  Hypothesis Hok : rule_ok true rl.
  Hypothesis Htidy : tidy rl.
  Hypothesis Htg : tidy_graph rl.

  Lemma doc_rule_line_ext sr1 sr2 : (forall n, In n (rule_names rl) -> sval scfg sr1 n = sval scfg sr2 n) ->
    doc_rule_line scfg rl sr1 = doc_rule_line scfg rl sr2.
  Proof.
    intro H. destruct Hok as (HS & HP & HO & HL & HG). unfold doc_rule_line, spec_parts, spec_po, spec_po_gen, spec_suffix_of, rule_graph_opt.
    assert (Sub : forall ns, (forall n, In n ns -> In n (rule_names rl)) -> forall n, In n ns -> sval scfg sr1 n = sval scfg sr2 n) by (intros ns Hs n Hn; apply H; auto).
    rewrite (spec_lex_ext scfg (r_sk rl) (r_sv rl) (r_stt rl) [] sr1 sr2) by (try apply HS; apply Sub; intros n Hn; unfold rule_names; rewrite !in_app_iff; tauto).
    rewrite (spec_lex_ext scfg (r_pk rl) (r_pv rl) TIri [] sr1 sr2) by (try apply HP; apply Sub; intros n Hn; unfold rule_names; rewrite !in_app_iff; tauto).
    rewrite (spec_lex_ext scfg (r_ok rl) (r_ov rl) (r_ott rl) (r_ldv rl) sr1 sr2) by (try apply HO; apply Sub; intros n Hn; unfold rule_names; rewrite !in_app_iff; tauto).
    assert (ELd : forall tt, r_ld rl <> LDNone -> spec_lex scfg (r_ldk rl) (r_ldv rl) tt [] sr1 = spec_lex scfg (r_ldk rl) (r_ldv rl) tt [] sr2).
    { intros tt Hne. apply spec_lex_ext; [apply (HL Hne)|]. apply Sub. intros n Hn. unfold rule_names. rewrite !in_app_iff. tauto. }
    assert (EG : is_plain (r_gk rl) = true -> spec_lex scfg (r_gk rl) (r_gv rl) TIri [] sr1 = spec_lex scfg (r_gk rl) (r_gv rl) TIri [] sr2).
    { intro Hp. apply spec_lex_ext; auto. apply Sub. intros n Hn. unfold rule_names. rewrite !in_app_iff. tauto. }
    destruct (spec_lex scfg (r_sk rl) (r_sv rl) (r_stt rl) [] sr2); auto.
    destruct (spec_lex scfg (r_pk rl) (r_pv rl) TIri [] sr2); auto.
    destruct (spec_lex scfg (r_ok rl) (r_ov rl) (r_ott rl) (r_ldv rl) sr2); auto.
    assert (EG' : (if is_plain (r_gk rl) && negb (ueqb (r_gv rl) Tables.c_rml_default_graph) then opt_term TIri (spec_lex scfg (r_gk rl) (r_gv rl) TIri [] sr1) else Some [])
                  = (if is_plain (r_gk rl) && negb (ueqb (r_gv rl) Tables.c_rml_default_graph) then opt_term TIri (spec_lex scfg (r_gk rl) (r_gv rl) TIri [] sr2) else Some []))
      by (destruct (is_plain (r_gk rl)) eqn:Eg; cbn [andb]; [rewrite EG by auto|]; reflexivity).
    rewrite EG'. destruct (r_ld rl) eqn:El; [reflexivity| |]; rewrite ELd by (try rewrite El; discriminate); reflexivity.
  Qed.

  Lemma doc_rule_line_null sr n : In n (rule_names rl) -> sval scfg sr n = None -> doc_rule_line scfg rl sr = None.
  Proof.
    intros Hn Hs. destruct Hok as (HS & HP & HO & HL & HG). destruct Htidy as [TL TGn].
    unfold doc_rule_line, spec_parts, spec_po, spec_po_gen, spec_suffix_of, rule_graph_opt.
    unfold rule_names in Hn. rewrite !in_app_iff in Hn.
    destruct (spec_lex scfg (r_sk rl) (r_sv rl) (r_stt rl) [] sr) eqn:Es; auto.
    destruct (spec_lex scfg (r_pk rl) (r_pv rl) TIri [] sr) eqn:Ep; auto.
    destruct (spec_lex scfg (r_ok rl) (r_ov rl) (r_ott rl) (r_ldv rl) sr) eqn:Eo; auto.
    destruct Hn as [Hn|[Hn|[Hn|[Hn|Hn]]]].
    - rewrite (spec_lex_null scfg _ _ _ _ sr n (proj1 HS) Hn Hs) in Es. discriminate.
    - rewrite (spec_lex_null scfg _ _ _ _ sr n (proj1 HP) Hn Hs) in Ep. discriminate.
    - rewrite (spec_lex_null scfg _ _ _ _ sr n (proj1 HO) Hn Hs) in Eo. discriminate.
    - destruct (r_ld rl) eqn:El.
      + destruct (TL eq_refl) as [A B]. rewrite A, B in Hn. contradiction.
      + assert (Hne : LDLang <> LDNone) by discriminate. rewrite (spec_lex_null scfg _ _ TNone [] sr n (proj1 (HL Hne)) Hn Hs). reflexivity.
      + assert (Hne : LDDt <> LDNone) by discriminate. rewrite (spec_lex_null scfg _ _ TIri [] sr n (proj1 (HL Hne)) Hn Hs). reflexivity.
    - destruct (match r_ld rl with LDNone => _ | LDLang => _ | LDDt => _ end); auto.
      destruct (is_plain (r_gk rl)) eqn:Eg.
      + destruct (ueqb (r_gv rl) Tables.c_rml_default_graph) eqn:Ed.
        * rewrite (Htg Eg Ed) in Hn. exfalso. clear - Hn. cbn [segs_of] in Hn. induction (r_gv rl); simpl in Hn; auto.
        * cbn [andb negb]. rewrite (spec_lex_null scfg _ _ TIri [] sr n Eg Hn Hs). reflexivity.
      + destruct (TGn eq_refl) as [A B]. rewrite A, B in Hn. contradiction.
  Qed.

  (* an IRI-valued term map has a term whenever all its references have values *)
  Lemma subst_total f segs : (forall n, In n (names segs) -> f n <> None) -> subst f segs <> None.
  Proof.
    induction segs as [|[c|m] l IH]; simpl; intros H E; [discriminate| |].
    - apply IH; auto. destruct (subst f l); [discriminate|reflexivity].
    - apply IH; [intros n Hn; apply H; now right|]. destruct (f m) eqn:Em; [|exfalso; now apply (H m (or_introl eq_refl))].
      destruct (subst f l); [discriminate|reflexivity].
  Qed.
  Lemma graph_opt_total sr : (forall n, In n (names (segs_of (r_gk rl) (r_gv rl))) -> sval scfg sr n <> None) -> rule_graph_opt scfg rl sr <> None.
  Proof.
    intro H. unfold rule_graph_opt. destruct (is_plain (r_gk rl)) eqn:Eg; cbn [andb]; [|discriminate].
    destruct (negb _); [|discriminate]. unfold opt_term.
    assert (X : spec_lex scfg (r_gk rl) (r_gv rl) TIri [] sr <> None).
    { destruct (r_gk rl); try discriminate Eg; cbn [spec_lex segs_of] in *.
      - intro X0. discriminate X0.
      - apply subst_total. intros n Hn. specialize (H n Hn). destruct (sval scfg sr n); [discriminate|contradiction].
      - specialize (H (r_gv rl) (or_introl eq_refl)). destruct (sval scfg sr (r_gv rl)); [discriminate|contradiction]. }
    destruct (spec_lex scfg (r_gk rl) (r_gv rl) TIri [] sr); [discriminate|contradiction].
  Qed.
End RuleRows.

(* ---------------------------------------------------------------- references of a rule = names of its term maps *)
Lemma names_lits v : names (map SLit v) = [].
Proof. induction v; simpl; auto. Qed.
Lemma pos_refs_names ft k v : (is_plain k = true /\ term_wf k v = true) \/ (k = KNone /\ v = []) -> pos_refs ft k v = names (segs_of k v).
Proof.
  intros [[Hk Hwf]|[-> ->]]; [|reflexivity]. destruct k; try discriminate; cbn [pos_refs segs_of names].
  - now rewrite names_lits.
  - unfold term_wf in Hwf. cbn [segs_of tpl0] in Hwf. apply andb_true_iff in Hwf as [Hw Hf]. apply ueqb_eq in Hf.
    rewrite <- Hf at 1. now apply refs_in_template_flat.
  - reflexivity.
Qed.
Lemma rule_refs_plain ft rules f r : mkind_eqb (r_sk r) KQuoted = false -> mkind_eqb (r_ok r) KQuoted = false ->
  rule_refs ft (S f) rules false r =
  (pos_refs ft (r_sk r) (r_sv r) ++ pos_refs ft (r_pk r) (r_pv r) ++ pos_refs ft (r_ok r) (r_ov r) ++ pos_refs ft (r_gk r) (r_gv r) ++ pos_refs ft (r_ldk r) (r_ldv r))
  ++ joins_child (r_sjoin r) ++ joins_child (r_ojoin r).
Proof. intros Hs Ho. cbn [rule_refs]. destruct (r_sk r); try discriminate; destruct (r_ok r); try discriminate; reflexivity. Qed.
Definition simple_rule (rl : rule) : Prop :=
  rule_ok true rl /\ tidy rl /\ tidy_graph rl /\ plain_rule rl = true /\ r_sjoin rl = [] /\ r_ojoin rl = [].
Lemma rule_ref_set_names fe rules rl : simple_rule rl -> forall n, In n (rule_ref_set fe rules rl) <-> In n (rule_names rl).
Proof.
  intros ((HS & HP & HO & HL & HG) & [TL TG] & _ & Hpl & Hsj & Hoj) n.
  unfold rule_ref_set. rewrite mem_dedup, !app_nil_r. unfold refs_fuel.
  unfold plain_rule in Hpl. rewrite !andb_true_iff, !negb_true_iff in Hpl. destruct Hpl as [[[_ Q2] Q3] _].
  rewrite (rule_refs_plain _ _ _ _ Q2 Q3), Hsj, Hoj. cbn [joins_child map app]. rewrite !app_nil_r.
  rewrite (pos_refs_names _ (r_sk rl) (r_sv rl)) by (left; split; apply HS).
  rewrite (pos_refs_names _ (r_pk rl) (r_pv rl)) by (left; split; apply HP).
  rewrite (pos_refs_names _ (r_ok rl) (r_ov rl)) by (left; split; apply HO).
  rewrite (pos_refs_names _ (r_gk rl) (r_gv rl)).
  2:{ destruct (HG eq_refl) as [G|G]; [left; split; apply G|]. right. split; auto. apply TG. now rewrite G. }
  rewrite (pos_refs_names _ (r_ldk rl) (r_ldv rl)).
  2:{ destruct (r_ld rl) eqn:E; [right; now apply TL|left; split; apply HL; discriminate|left; split; apply HL; discriminate]. }
  unfold rule_names. rewrite !in_app_iff. tauto.
Qed.

(* ---------------------------------------------------------------- preprocessed frame rows vs delivered rows *)
Lemma sval_raw scfg raw n :
  sval scfg (srow_of_raw raw) n =
  match assoc n raw with
  | Some CNone | Some CNaN | None => None
  | Some c => if mem (py_str c) (s_na scfg) then None else Some (py_str c)
  end.
Proof. unfold sval. rewrite assoc_srow_of_raw. destruct (assoc n raw) as [[]|]; reflexivity. Qed.

Lemma rule_ok_any nq rl : rule_ok true rl -> rule_ok nq rl.
Proof. intros (A & B & C & D & E). unfold rule_ok. split; [exact A|]. split; [exact B|]. split; [exact C|]. split; [exact D|]. intros _. now apply E. Qed.

Section Rows.
  Variables (scfg : scfg) (rl : rule) (na refs : list ustr) (raws : list rawrow).
  Hypothesis Hna : s_na scfg = na.
  Hypothesis Hsimple : simple_rule rl.
  Hypothesis Hrefs : forall n, In n refs <-> In n (rule_names rl).
  (* the reader delivers every referenced column *)
  Hypothesis Hcols : forall raw n, In raw raws -> In n refs -> assoc n raw <> None.

  Lemma frame_row_agrees raw : raw_has_null refs raw = false -> row_has_null na refs (str_row raw) = false ->
    forall n, In n (rule_names rl) -> sval scfg (srow_of (null_to_text na (str_row raw))) n = sval scfg (srow_of_raw raw) n.
  Proof.
    intros H1 H2 n Hn. apply Hrefs in Hn. rewrite sval_raw. unfold sval. rewrite assoc_srow_of, rget_null_to_text.
    unfold rget. fold (rget n (str_row raw)). rewrite ReadersP.assoc_str_row.
    destruct (assoc n raw) as [c|] eqn:E; [|reflexivity]. cbn [option_map].
    assert (N1 : c <> CNone /\ c <> CNaN).
    { split; intro X; subst c; assert (Y : raw_has_null refs raw = true) by (apply raw_has_null_iff; exists n; auto); congruence. }
    assert (N2 : is_na na (py_str c) = false).
    { destruct (is_na na (py_str c)) eqn:X; auto. exfalso.
      assert (Y : row_has_null na refs (str_row raw) = true)
        by (apply row_has_null_iff; exists n, (py_str c); repeat split; auto; [rewrite ReadersP.assoc_str_row, E; reflexivity|now apply mem_In]). congruence. }
    rewrite N2. unfold is_na in N2. rewrite Hna, N2. destruct c; try reflexivity; now destruct N1.
  Qed.

  (* on the rows of the preprocessed frame the engine-level statement and the document-level statement coincide: there
     every referenced column -- those of the graph map included -- holds a value *)
  Lemma frame_row_lines raw x : In raw raws -> raw_has_null refs raw = false -> row_has_null na refs (str_row raw) = false ->
    (spec_rule_line scfg rl (srow_of (null_to_text na (str_row raw))) = Some x <-> doc_rule_line scfg rl (srow_of_raw raw) = Some x).
  Proof.
    intros Hin H1 H2. destruct Hsimple as (Hok & Ht & Htg & _).
    rewrite <- (doc_rule_line_ext scfg rl Hok (srow_of (null_to_text na (str_row raw))) (srow_of_raw raw)) by now apply frame_row_agrees.
    destruct (s_nquads scfg) eqn:Hnq; [now rewrite doc_rule_line_nquads|].
    rewrite (doc_rule_line_ntriples scfg rl _ x Hnq). split; [|tauto]. intro E. split; auto.
    apply (graph_opt_total scfg rl). intros n Hn.
    assert (Hn' : In n (rule_names rl)) by (unfold rule_names; rewrite !in_app_iff; tauto).
    rewrite (frame_row_agrees raw H1 H2 n Hn'), sval_raw. apply Hrefs in Hn'.
    destruct (assoc n raw) as [c|] eqn:Ec; [|exfalso; now apply (Hcols raw n Hin Hn')].
    assert (N1 : c <> CNone /\ c <> CNaN).
    { split; intro X; subst c; assert (Y : raw_has_null refs raw = true) by (apply raw_has_null_iff; exists n; auto); congruence. }
    assert (N2 : mem (py_str c) (s_na scfg) = false).
    { destruct (mem (py_str c) (s_na scfg)) eqn:X; auto. exfalso.
      assert (Y : row_has_null na refs (str_row raw) = true)
        by (apply row_has_null_iff; exists n, (py_str c); repeat split; auto; [rewrite ReadersP.assoc_str_row, Ec; reflexivity|rewrite <- Hna; now apply mem_In]). congruence. }
    rewrite N2. destruct c; try discriminate; now destruct N1.
  Qed.

  Theorem frame_rows_are_delivered_rows x :
    (exists r, In r (preprocess na refs raws) /\ spec_rule_line scfg rl (srow_of r) = Some x) <->
    (exists raw, In raw raws /\ doc_rule_line scfg rl (srow_of_raw raw) = Some x).
  Proof.
    destruct Hsimple as (Hok & Ht & Htg & _). split.
    - intros (r & Hr & Hx). apply preprocess_in in Hr as (raw & Hraw & H1 & H2 & ->). exists raw. split; auto.
      now apply (frame_row_lines raw x Hraw H1 H2).
    - intros (raw & Hraw & Hx).
      assert (Some_all : forall n, In n refs -> exists v, sval scfg (srow_of_raw raw) n = Some v).
      { intros n Hn. destruct (sval scfg (srow_of_raw raw) n) eqn:E; eauto. exfalso.
        rewrite (doc_rule_line_null scfg rl Hok Ht Htg (srow_of_raw raw) n (proj1 (Hrefs n) Hn) E) in Hx. discriminate. }
      assert (H1 : raw_has_null refs raw = false).
      { destruct (raw_has_null refs raw) eqn:E; auto. apply raw_has_null_iff in E as (n & Hn & Hc). destruct (Some_all n Hn) as (v & Hv).
        rewrite sval_raw in Hv. destruct Hc as [Hc|Hc]; rewrite Hc in Hv; discriminate. }
      assert (H2 : row_has_null na refs (str_row raw) = false).
      { destruct (row_has_null na refs (str_row raw)) eqn:E; auto. apply row_has_null_iff in E as (n & v & Hn & Ev & Hv). destruct (Some_all n Hn) as (w & Hw).
        rewrite sval_raw in Hw. rewrite ReadersP.assoc_str_row in Ev. destruct (assoc n raw) as [c|]; [|discriminate]. cbn [option_map] in Ev. injection Ev as <-.
        apply mem_In in Hv. rewrite <- Hna in Hv. destruct c; try discriminate; rewrite Hv in Hw; discriminate. }
      exists (null_to_text na (str_row raw)). split.
      + apply preprocess_in. exists raw. auto.
      + now apply (frame_row_lines raw x Hraw H1 H2).
  Qed.
End Rows.

(* ---------------------------------------------------------------- engine(document) = generation rules(document) *)
Section Final.
  Variables (cfg : ecfg) (fe : fenv) (scfg : scfg) (raw : ustr -> list rawrow).
  Hypothesis Hcfg : cfg_agree cfg scfg.
  Hypothesis Hnq : c_nquads cfg = s_nquads scfg.
  Hypothesis Hna : s_na scfg = c_na cfg.
  (* what _get_data / _preprocess_data deliver for a source and a reference set, and the same rows as the Spec reads them *)
  Definition delivered (src : ustr) (refs : list ustr) : result frame := Ok (preprocess (c_na cfg) refs (raw src)).
  Definition spec_tables (src : ustr) : stable := map srow_of_raw (raw src).

  Theorem engine_document_is_spec_document d0 rules l :
    forallb plain_tm d0 = true -> normalise d0 = Ok rules -> (forall rl, In rl rules -> simple_rule rl) ->
    (forall rl rw n, In rl rules -> In rw (raw (r_src rl)) -> In n (rule_names rl) -> assoc n rw <> None) ->
    materialize_rules cfg fe rules delivered = Ok l ->
    forall x, In x l <-> In x (spec_lines scfg fe d0 spec_tables).
  Proof.
    intros Hpl Hn Hsimple Hcols Hm x.
    rewrite (asserted_exactly cfg fe rules delivered l Hm x).
    rewrite (doc_spec_is_rule_spec scfg fe spec_tables d0 rules Hpl Hn x).
    assert (Rule : forall rl ls, In rl rules -> rule_triples cfg fe rules delivered rl = Ok ls ->
              forall y, In y ls <-> exists rw, In rw (raw (r_src rl)) /\ doc_rule_line scfg rl (srow_of_raw rw) = Some y).
    { intros rl ls Hrl Hls y. pose proof (Hsimple rl Hrl) as Hs. destruct Hs as (Hok & Ht & Htg & Hplain & Hsj & Hoj).
      assert (Hok' : rule_ok (c_nquads cfg) rl) by now apply rule_ok_any.
      set (refs := rule_ref_set fe rules rl).
      assert (Hrefs : forall n, In n refs <-> In n (rule_names rl)) by (apply rule_ref_set_names; apply (Hsimple rl Hrl)).
      destruct (plain_rule_is_spec cfg fe rules delivered scfg Hcfg Hnq rl (c_na cfg) refs (raw (r_src rl)) Hna Hplain Hok'
                  (fun n Hn => proj2 (Hrefs n) Hn) eq_refl) as [H1 _].
      rewrite (H1 ls Hls y). apply (frame_rows_are_delivered_rows scfg rl (c_na cfg) refs (raw (r_src rl)) Hna (Hsimple rl Hrl) Hrefs).
      intros rw n Hrw Hn0. apply (Hcols rl rw n Hrl Hrw). now apply Hrefs. }
    assert (All : forall rl, In rl rules -> r_asserted rl = true -> exists ls, rule_triples cfg fe rules delivered rl = Ok ls).
    { intros rl Hrl Ha. unfold materialize_rules in Hm. destruct (rmap_all _ (filter r_asserted rules)) as [lss|e] eqn:E; [|discriminate].
      apply rmap_all_ok in E. assert (X : In rl (filter r_asserted rules)) by (apply filter_In; auto).
      destruct (Forall2_in_l _ _ _ _ E X) as (ls & _ & Hls). eauto. }
    split.
    - intros (rl & ls & Hrl & Ha & Hls & Hx). apply (Rule rl ls Hrl Hls) in Hx as (rw & Hrw & Hline).
      exists rl, (srow_of_raw rw). repeat split; auto. unfold spec_tables. now apply in_map.
    - intros (rl & sr & Hrl & Ha & Hsr & Hline). unfold spec_tables in Hsr. apply in_map_iff in Hsr as (rw & <- & Hrw).
      destruct (All rl Hrl Ha) as (ls & Hls). exists rl, ls. repeat split; auto. apply (Rule rl ls Hrl Hls). eauto.
  Qed.
End Final.

(* ---------------------------------------------------------------- the per-rule hypothesis is decidable *)
Lemma pos_okb_ok k v tt : pos_okb k v tt = true -> pos_ok k v tt.
Proof.
  unfold pos_okb, pos_ok. rewrite !andb_true_iff. intros [[[A B] C] D]. repeat split; auto.
  - intros ->. exact C.
  - intros n Hn. rewrite forallb_forall in D. specialize (D n Hn). now apply negb_true_iff in D.
Qed.
Lemma mkind_eqb_eq a b : mkind_eqb a b = true -> a = b.
Proof. destruct a, b; simpl; intro H; try discriminate; reflexivity. Qed.
Lemma simple_ruleb_ok rl : simple_ruleb rl = true -> simple_rule rl.
Proof.
  unfold simple_ruleb, simple_rule. rewrite !andb_true_iff. intros [[[[[[[A B] C] D] E] F] G] H].
  assert (Hsj : r_sjoin rl = []) by (destruct (r_sjoin rl); [reflexivity|discriminate]).
  assert (Hoj : r_ojoin rl = []) by (destruct (r_ojoin rl); [reflexivity|discriminate]).
  assert (HL : r_ld rl <> LDNone -> pos_ok (r_ldk rl) (r_ldv rl) TNone) by (intro Hne; destruct (r_ld rl); [contradiction| |]; now apply pos_okb_ok).
  assert (TL : r_ld rl = LDNone -> r_ldk rl = KNone /\ r_ldv rl = []).
  { intro El. rewrite El in D. apply andb_true_iff in D as [D1 D2]. split; [now apply mkind_eqb_eq|now apply ueqb_eq]. }
  split; [|split; [|split]]; auto.
  - split; [now apply pos_okb_ok|]. split; [now apply pos_okb_ok|]. split; [now apply pos_okb_ok|]. split; [exact HL|]. intros _. destruct (is_plain (r_gk rl)); apply andb_true_iff in E as [E1 E2]; [left; now apply pos_okb_ok|right; now apply mkind_eqb_eq].
  - split; auto. intro Hg. rewrite Hg in E. apply andb_true_iff in E as [E1 E2]. split; [now apply mkind_eqb_eq|now apply ueqb_eq].
  - unfold tidy_graph. intros Hg Hd. rewrite Hg in E. apply andb_true_iff in E as [_ E2]. rewrite Hd in E2. cbn [negb orb] in E2. now apply mkind_eqb_eq.
Qed.
